package topology

// C15 finding (unchanged library): GenerateCompositeSVG does not keep the content of every valid base SVG.
// Each case: a well-formed base document, no component drawn (empty availability map masks everything), so the
// output should be the base document again (up to formatting).  `want` lists strings that must survive.
// Run: go test -vet=off -count=1 -run TestC15BaseContentKept ./topology

import (
	"strings"
	"testing"
)

func TestC15BaseContentKept(t *testing.T) {
	topo := `{"HWc":[{"id":1,"x":100,"y":100,"txt":"A","type":1}],"typeIndex":{"1":{"w":20}}}`
	cases := []struct {
		name, base string
		want       []string
	}{
		{"comment inside root", `<svg><!-- c --></svg>`, []string{"<!-- c -->"}},
		{"comment before root", `<!-- c --><svg/>`, []string{"<!-- c -->"}},
		{"mixed content, leading text", `<svg><text>a<tspan>b</tspan>c</text></svg>`, []string{"a<tspan>"}},
		{"mixed content, order", `<svg><text>a<tspan>b</tspan></text></svg>`, []string{"a<tspan>"}},
		{"root text order", `<svg>t<rect/></svg>`, []string{"t<rect"}},
		{"attribute prefix", `<svg xmlns:xlink="http://www.w3.org/1999/xlink"><use xlink:href="#a"/></svg>`, []string{"xmlns:xlink=", "xlink:href="}},
		{"duplicate attribute after prefix loss", `<svg><image href="a.png" xlink:href="a.png"/></svg>`, []string{"xlink:href="}},
		{"xml:space and blanks", `<svg><text xml:space="preserve"> a </text></svg>`, []string{"xml:space=", "> a <"}},
		{"element prefix", `<s:svg xmlns:s="http://www.w3.org/2000/svg"><s:rect/></s:svg>`, []string{"<s:svg", "<s:rect", "xmlns:s="}},
		{"processing instruction inside root", `<svg><?foo bar?></svg>`, []string{"<svg><?foo bar?>"}},
		{"two processing instructions", `<?xml version="1.0"?><?xml-stylesheet href="s.css"?><svg/>`, []string{`<?xml version="1.0"?>`}},
		{"text and CDATA section", `<svg><text>a<![CDATA[b]]></text></svg>`, []string{">a"}},
		{"comment splits text", `<svg><text>a<!-- c -->b</text></svg>`, []string{">a"}},
		{"text before a child, blanks after it", "<svg><text>a<tspan/>\n</text></svg>", []string{">a<tspan"}},
		{"two prefixed attributes, one local name", `<svg><g a:x="1" b:x="2"/></svg>`, []string{`a:x="1"`, `b:x="2"`}},
		{"processing instruction after the root", `<svg/><?foo bar?>`, []string{"/><?foo bar?>"}},
		{"processing instruction behind the DOCTYPE", `<!DOCTYPE svg><?foo bar?><svg/>`, []string{"<!DOCTYPE svg><?foo bar?>"}},
	}
	for _, c := range cases {
		doc := GenerateCompositeSVGdoc(topo, c.base, map[uint32]uint32{}, true, true, false, false)
		if doc == nil {
			t.Errorf("%s: nil document for %q", c.name, c.base)
			continue
		}
		out := doc.XML()
		for _, w := range c.want {
			if !strings.Contains(out, w) {
				t.Errorf("%s:\n  base   %s\n  output %s\n  lost   %s", c.name, c.base, out, w)
			}
		}
	}
}

// valid documents that give the empty result
func TestC15ValidBaseRejected(t *testing.T) {
	topo := `{"HWc":[{"id":1,"x":100,"y":100,"txt":"A","type":1}],"typeIndex":{"1":{"w":20}}}`
	for _, base := range []string{
		`<?xml version="1.0" encoding="ISO-8859-1"?><svg/>`,
		`<?xml version="1.1"?><svg/>`,
		`<!DOCTYPE svg [<!ENTITY e "v">]><svg><text>&e;</text></svg>`,
		`<?xml version="1.0" encoding="US-ASCII" standalone="yes"?><svg><g/></svg>`,
		`<?xml version="1.0"?><!DOCTYPE svg [<!ENTITY col "#f00"> <!ENTITY w "10">]><svg><rect fill="&col;" width="&w;"/></svg>`,
	} {
		if out := GenerateCompositeSVG(topo, base, nil); out == "" {
			t.Errorf("valid base gives the empty result: %s", base)
		}
	}
}
