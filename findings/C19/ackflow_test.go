package connecttest

// Standalone reproduction: in binary mode gorwp drops a message whose flow field is ACK together with the event it carries
// (rawpanel.go readFromPanel: `if outgoingMessage.FlowMessage != 2`); in ASCII mode the same message (lines `ack`, `HWC#1=Down`)
// invokes the handler.

import (
	"net"
	"testing"
	"time"

	"github.com/SKAARHOJ/rawpanel-lib/gorwp"
	rwp "github.com/SKAARHOJ/rawpanel-lib/ibeam_rawpanel"
)

func TestAckFlowMessageWithEventIsDropped(t *testing.T) {
	release := make(chan struct{})
	addr := panel(t, func(c net.Conn) {
		c.Write(frame(&rwp.OutboundMessage{PanelInfo: &rwp.PanelInfo{Model: "M1", Serial: "S1"}}))
		c.Write(frame(&rwp.OutboundMessage{PanelTopology: &rwp.PanelTopology{Json: `{"HWc":[{"id":1,"type":1}],"typeIndex":{"1":{"w":10}}}`, Svgbase: "<svg/>"}}))
		<-release // handlers are bound
		ev := &rwp.HWCEvent{HWCID: 1, Binary: &rwp.BinaryEvent{Pressed: true}}
		c.Write(frame(&rwp.OutboundMessage{FlowMessage: rwp.OutboundMessage_ACK, Events: []*rwp.HWCEvent{ev}})) // dropped
		c.Write(frame(&rwp.OutboundMessage{Events: []*rwp.HWCEvent{{HWCID: 1, Binary: &rwp.BinaryEvent{Pressed: false}}}}))
		time.Sleep(500 * time.Millisecond)
	})
	rp, err, _ := connect(t, addr)
	if err != nil {
		t.Fatal(err)
	}
	got := make(chan gorwp.BinaryStatus, 4)
	rp.BindBinary(1, func(id uint32, st gorwp.BinaryStatus, e gorwp.BinaryEdge) { got <- st })
	close(release)
	time.Sleep(300 * time.Millisecond)
	close(got)
	var seen []gorwp.BinaryStatus
	for s := range got {
		seen = append(seen, s)
	}
	t.Logf("handler invocations (status): %v", seen)
	if len(seen) != 2 {
		t.Errorf("the panel sent two events for component 1 (Down in a message with flow=ACK, then Up); the handler saw %d", len(seen))
	}
}
