package connecttest

// Standalone reproduction: gorwp.Connect reports success although model, serial, topology JSON and SVG never arrived,
// when the panel closes the connection (or sends an over-limit header / a frame that stalls) during initialisation.
//
//   cd <dir with go.mod replacing github.com/SKAARHOJ/rawpanel-lib by the library>; go test -run Connect -v .

import (
	"context"
	"net"
	"testing"
	"time"

	"github.com/SKAARHOJ/rawpanel-lib/gorwp"
	rwp "github.com/SKAARHOJ/rawpanel-lib/ibeam_rawpanel"
	"google.golang.org/protobuf/proto"
)

func frame(m *rwp.OutboundMessage) []byte {
	pb, _ := proto.Marshal(m)
	n := len(pb)
	return append([]byte{byte(n), byte(n >> 8), byte(n >> 16), byte(n >> 24)}, pb...)
}

// a binary panel: answers the probe (binary ping) with a binary ack, waits for the initial request, then does `after`
func panel(t *testing.T, after func(c net.Conn)) string {
	ln, err := net.Listen("tcp", "127.0.0.1:0")
	if err != nil {
		t.Fatal(err)
	}
	go func() {
		defer ln.Close()
		c, err := ln.Accept()
		if err != nil {
			return
		}
		defer c.Close()
		buf := make([]byte, 4096)
		n := 0
		for n < 6 { // the probe: 4-byte header + 2-byte ping
			k, err := c.Read(buf[n:])
			if err != nil {
				return
			}
			n += k
		}
		c.Write([]byte{2, 0, 0, 0, 8, 2}) // binary ack
		c.Read(buf)                       // the initial request
		after(c)
	}()
	return ln.Addr().String()
}

func connect(t *testing.T, addr string) (*gorwp.RawPanel, error, time.Duration) {
	ctx, cancel := context.WithCancel(context.Background())
	t.Cleanup(cancel)
	t0 := time.Now()
	rp, err := gorwp.Connect(addr, ctx, cancel)
	return rp, err, time.Since(t0)
}

func expectError(t *testing.T, rp *gorwp.RawPanel, err error, d time.Duration) {
	t.Logf("Connect returned after %v: panel=%v err=%v", d.Round(time.Millisecond), rp != nil, err)
	if err == nil {
		t.Errorf("Connect returned success; IsInitialized()=%v model=%q serial=%q topology=%v",
			rp.IsInitialized(), rp.State.GetModel(), rp.State.GetSerial(), rp.State.GetTopology())
	}
}

// the panel closes the connection right after the probe reply: none of the four items ever arrives
func TestConnectPanelClosesDuringInit(t *testing.T) {
	addr := panel(t, func(c net.Conn) {})
	rp, err, d := connect(t, addr)
	expectError(t, rp, err, d)
}

// the panel sends an over-limit header (500000) instead of the initial information and keeps the connection open
func TestConnectOverLimitDuringInit(t *testing.T) {
	addr := panel(t, func(c net.Conn) {
		c.Write([]byte{0x20, 0xa1, 0x07, 0x00}) // 500000 little endian
		time.Sleep(4 * time.Second)
	})
	rp, err, d := connect(t, addr)
	expectError(t, rp, err, d)
}

// the panel sends model + serial only, then closes
func TestConnectPanelClosesBetweenItems(t *testing.T) {
	addr := panel(t, func(c net.Conn) {
		c.Write(frame(&rwp.OutboundMessage{PanelInfo: &rwp.PanelInfo{Model: "M1", Serial: "S1"}}))
		time.Sleep(100 * time.Millisecond)
	})
	rp, err, d := connect(t, addr)
	expectError(t, rp, err, d)
}

// control: a panel that stays silent (connection open) makes Connect fail after the 2 s window, as documented
func TestConnectSilentPanelFailsAfterWindow(t *testing.T) {
	addr := panel(t, func(c net.Conn) { time.Sleep(4 * time.Second) })
	rp, err, d := connect(t, addr)
	t.Logf("Connect returned after %v: panel=%v err=%v", d.Round(time.Millisecond), rp != nil, err)
	if err == nil {
		t.Errorf("silent panel: expected an error")
	}
}
