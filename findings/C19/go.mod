module connecttest

go 1.19

require (
	github.com/SKAARHOJ/rawpanel-lib v1.2.3
	google.golang.org/protobuf v1.34.1
)

require (
	github.com/SKAARHOJ/ibeam-lib-utils v1.0.0 // indirect
	github.com/SKAARHOJ/rawpanel-processors v1.0.0 // indirect
	github.com/antchfx/xpath v1.2.4 // indirect
	github.com/disintegration/gift v1.2.1 // indirect
	github.com/fogleman/gg v1.3.0 // indirect
	github.com/golang/freetype v0.0.0-20170609003504-e2365dfdc4a0 // indirect
	github.com/mattn/go-colorable v0.1.13 // indirect
	github.com/mattn/go-isatty v0.0.20 // indirect
	github.com/petermattis/goid v0.0.0-20230518223814-80aa455d8761 // indirect
	github.com/s00500/env_logger v0.1.29 // indirect
	github.com/sasha-s/go-deadlock v0.3.1 // indirect
	github.com/sirupsen/logrus v1.9.3 // indirect
	github.com/subchen/go-xmldom v1.1.2 // indirect
	go.uber.org/atomic v1.11.0 // indirect
	golang.org/x/exp v0.0.0-20230728194245-b0cb94b80691 // indirect
	golang.org/x/image v0.9.0 // indirect
	golang.org/x/sys v0.20.0 // indirect
)

replace github.com/SKAARHOJ/rawpanel-lib => /tmp/ws/w19/repo
