import RawPanelVerif.Model.Mono
