import RawPanelVerif.Driver.Mono
import RawPanelVerif.Driver.Strip
import RawPanelVerif.Driver.Text
import RawPanelVerif.Driver.Tile
import RawPanelVerif.Driver.Pix
import RawPanelVerif.Driver.Net
import RawPanelVerif.Driver.Gfx
import RawPanelVerif.Driver.Topology
import RawPanelVerif.Driver.SvgIcon
import RawPanelVerif.Driver.ConvOut
import RawPanelVerif.Driver.ConvIn
import RawPanelVerif.Driver.Conc
import RawPanelVerif.Driver.Lifecycle
import RawPanelVerif.Driver.Gorwp
/-!
Driver: reads records `cmd arg… | implementation-output` on stdin, prints one answer line per record:
`EQ|NE  H1|H0:<clause>  [model output when NE]`.  State is per family and persists across lines.
-/
open RawPanelVerif

structure DriverSt where
  mono : Driver.Mono.St := {}
  gfx : Driver.Gfx.St := {}
  topo : Driver.Topo.St := {}

def splitRecord (line : String) : String × List String × String :=
  let parts := line.splitOn " | "
  let lhs := parts.headD ""
  let impl := (parts.drop 1).headD ""
  let toks := (lhs.splitOn " ").filter (· ≠ "")
  (toks.headD "", toks.drop 1, impl.trimAscii.toString)

def stepLine (st : DriverSt) (line : String) : DriverSt × String :=
  let (cmd, args, impl) := splitRecord line
  -- a record whose execution on the real library did not come back within the harness's deadline: the model always
  -- answers, and every property here says "never hangs"
  if impl.startsWith "hang:" then (st, s!"NE H0:hang model:returns B:{impl}")
  else if cmd.startsWith "mono." then
    let (m, out) := Driver.Mono.step st.mono cmd args impl
    ({ st with mono := m }, out)
  else if cmd.startsWith "strip." then (st, Driver.Strip.step cmd args impl)
  else if cmd.startsWith "text." then (st, Driver.Text.step cmd args impl)
  else if cmd.startsWith "tile." then (st, Driver.Tile.step cmd args impl)
  else if cmd.startsWith "pix." then (st, Driver.Pix.step cmd args impl)
  else if cmd.startsWith "net." then (st, Driver.Net.step cmd args impl)
  else if cmd.startsWith "gfx." then
    let (g, out) := Driver.Gfx.step st.gfx cmd args impl
    ({ st with gfx := g }, out)
  else if cmd.startsWith "topo." then
    let (m, out) := Driver.Topo.step st.topo cmd args impl
    ({ st with topo := m }, out)
  else if cmd.startsWith "svg." then (st, Driver.Svg.step cmd args impl)
  else if cmd.startsWith "eout." || cmd.startsWith "dout." then (st, Driver.ConvOut.step cmd args impl)
  else if cmd.startsWith "ein." || cmd.startsWith "din." then (st, Driver.ConvIn.step cmd args impl)
  else if cmd.startsWith "conc." then (st, Driver.Conc.step cmd args impl)
  else if cmd.startsWith "life." then (st, Driver.Lifecycle.step cmd args impl)
  else if cmd.startsWith "gorwp." then (st, Driver.Gorwp.step cmd args impl)
  else (st, "ERR unknown-family")

partial def loop (h : IO.FS.Stream) (out : IO.FS.Stream) (st : DriverSt) : IO Unit := do
  let line ← h.getLine
  if line.isEmpty then return ()
  let l := (line.dropEndWhile (fun c => c == '\n' || c == '\r')).toString
  let (st', o) := stepLine st l
  out.putStrLn o
  loop h out st'

def main : IO Unit := do
  let stdin ← IO.getStdin
  let stdout ← IO.getStdout
  -- `VERIF_C05_MODEL=pinned` selects the model of the pinned (defective) chunk reassembly for C05 replays
  let pinned := (← IO.getEnv "VERIF_C05_MODEL") == some "pinned"
  loop stdin stdout { gfx := { pinned := pinned } }
  stdout.flush
