/-! Driver glue for `conc.run` records (C06, concurrency half).

The Lean models of the four converters and of the streaming reader are pure functions: whatever the interleaving of
concurrent calls, each call returns what it returns alone.  The model's answer for a `conc.run` record is therefore the
constant `ok`; the record's implementation output is `ok` exactly when every concurrent result equalled the sequential
one (and, for race-instrumented runs, the race detector stayed silent). -/
namespace RawPanelVerif.Driver.Conc

def step (cmd : String) (_args : List String) (impl : String) : String :=
  if cmd ≠ "conc.run" ∧ cmd ≠ "conc.debug" then "ERR bad-record"
  else if impl = "ok" then "EQ H1"
  else s!"NE H0:concurrent-{(impl.splitOn ":").headD impl} ok"

end RawPanelVerif.Driver.Conc
