import RawPanelVerif.Base.Wire
import RawPanelVerif.Model.Tile
import RawPanelVerif.Model.TileObs
import RawPanelVerif.Spec.TileSpec
/-! Driver glue for `tile.*` records (C18). -/
namespace RawPanelVerif.Driver.Tile
open RawPanelVerif RawPanelVerif.Wire RawPanelVerif.Tile RawPanelVerif.Mono

def toU8 (c : Canvas) : List UInt8 := c.bytes.toList.map (fun b => UInt8.ofNat b.toNat)

def parseFont (s : String) : Option (Option Font) :=
  if s = "~" then some none else
  match s.splitOn ":" with
  | [f, w, h] => do pure (some { face := ← parseInt f, tw := ← parseInt w, th := ← parseInt h })
  | _ => none

def parseStyling (s : String) : Option (Option Styling) :=
  if s = "~" then some none else
  match s.splitOn "/" with
  | [fx, pad, sp, unf, tf, ttf] => do
    pure (some { fixedWidth := ← parseBool fx, titlePad := ← parseInt pad, extraSp := ← parseInt sp,
                 unfSize := ← parseInt unf, textFont := ← parseFont tf, titleFont := ← parseFont ttf })
  | _ => none

def parseScale (s : String) : Option (Option Scale) :=
  if s = "~" then some none else
  match s.splitOn "," with
  | [t, a, b, c, d] => do
    pure (some { stype := ← parseInt t, rl := ← parseInt a, rh := ← parseInt b, ll := ← parseInt c, lh := ← parseInt d })
  | _ => none

def parseCol (s : String) : Option (Option Col) :=
  if s = "~" then some none else if s = "e" then some (some .empty) else
  match s.splitOn ":" with
  | ["r", r, g, b] => do pure (some (.rgb (← parseInt r) (← parseInt g) (← parseInt b)))
  | ["i", i] => do pure (some (.idx (← parseInt i)))
  | _ => none

def specCol : Option Col → Option Spec.Tile.Col
  | none => none
  | some (.rgb r g b) => some (.rgb r g b)
  | some (.idx i) => some (.idx i)
  | some .empty => some .empty

def edgeOk (s : List Nat) : Bool :=
  match s.head?, s.getLast? with
  | some a, some b =>
    -- letters and digits certainly have ink in every font (some punctuation glyphs are blank in the tables)
    let alnum := fun (c : Nat) => (48 ≤ c && c ≤ 57) || (65 ≤ c && c ≤ 90) || (97 ≤ c && c ≤ 122)
    alnum a && alnum b
  | _, _ => true

structure Parsed where
  w : Nat
  h : Nat
  shrink : Int
  border : Int
  inverted : Bool
  inp : TileIn
  rgb : Bool := false

/-! printing a text state in the harness's token format (`fontTok`, `stylingTok`, `scaleTok`, `colTok` of harness/tile.go) -/

def b01 (b : Bool) : String := if b then "1" else "0"
def fontTok : Option Font → String
  | none => "~"
  | some f => s!"{f.face}:{f.tw}:{f.th}"
def stylingTok : Option Styling → String
  | none => "~"
  | some s => s!"{b01 s.fixedWidth}/{s.titlePad}/{s.extraSp}/{s.unfSize}/{fontTok s.textFont}/{fontTok s.titleFont}"
def scaleTok : Option Scale → String
  | none => "~"
  | some s => s!"{s.stype},{s.rl},{s.rh},{s.ll},{s.lh}"
def colTok : Option Col → String
  | none => "~"
  | some (.rgb r g b) => s!"r:{r}:{g}:{b}"
  | some (.idx i) => s!"i:{i}"
  | some .empty => "e"

/-- the 15 text-state tokens `inverted;iv;iv2;fmt;si;mi;solid;pair;title;l1;l2;scale;styling;pix;bg` -/
def stateTok (inp : TileIn) (inverted : Bool) : String :=
  ";".intercalate [b01 inverted, toString inp.intVal, toString inp.intVal2, toString inp.fmt, toString inp.stateIcon,
    toString inp.modIcon, b01 inp.solid, toString inp.pair, hexOfNats inp.title, hexOfNats inp.line1, hexOfNats inp.line2,
    scaleTok inp.scale, stylingTok inp.styling, colTok inp.pix, colTok inp.bg]

/-- optional flags after the 19 tokens: "also print the RGB565 export", "compare with a fresh process", "first render a
sibling state with absent sub-messages and edit what the renderer filled in" (mask).  Only the first means something for
the model; the other two change what the harness does around the call (the model is a function of its inputs). -/
def parseFlags : List String → Option Bool
  | [] => some false
  | [f] => parseBool f
  | [f, g] => (parseBool g).bind (fun _ => parseBool f)
  | [f, g, m] => (parseBool g).bind (fun _ => m.toNat?.bind (fun _ => parseBool f))
  | _ => none

/-- args: w h shrink border inverted iv iv2 fmt si mi solid pair title line1 line2 scale styling pix bg -/
def parseArgs (a : List String) : Option Parsed :=
  match a with
  | w :: h :: sh :: bo :: inv :: iv :: iv2 :: fmt :: si :: mi :: solid :: pair :: title :: l1 :: l2 :: sc :: sty :: pix :: bg :: more => do
    let title ← unhex title; let l1 ← unhex l1; let l2 ← unhex l2
    let rgb ← parseFlags more
    pure { w := ← w.toNat?, h := ← h.toNat?, shrink := ← parseInt sh, border := ← parseInt bo, inverted := ← parseBool inv,
           inp := { intVal := ← parseInt iv, intVal2 := ← parseInt iv2, fmt := ← parseInt fmt, stateIcon := ← parseInt si,
                    modIcon := ← parseInt mi, solid := ← parseBool solid, pair := ← parseInt pair,
                    title := title.toList.map (·.toNat), line1 := l1.toList.map (·.toNat), line2 := l2.toList.map (·.toNat),
                    scale := ← parseScale sc, styling := ← parseStyling sty, pix := ← parseCol pix, bg := ← parseCol bg },
           rgb := rgb }
  | _ => none

/-- the observed text state after the call (token `post` of the record output) -/
def parsePost (s : String) : Option Spec.Tile.ArgA :=
  match s.splitOn ";" with
  | [inv, iv, iv2, fmt, si, mi, solid, pair, title, l1, l2, sc, sty, pix, bg] => do
    let title ← unhex title; let l1 ← unhex l1; let l2 ← unhex l2
    let inv ← parseBool inv
    pure (obsArg { intVal := ← parseInt iv, intVal2 := ← parseInt iv2, fmt := ← parseInt fmt, stateIcon := ← parseInt si,
                    modIcon := ← parseInt mi, solid := ← parseBool solid, pair := ← parseInt pair,
                    title := title.toList.map (·.toNat), line1 := l1.toList.map (·.toNat), line2 := l2.toList.map (·.toNat),
                    scale := ← parseScale sc, styling := ← parseStyling sty, pix := ← parseCol pix, bg := ← parseCol bg } inv)
  | _ => none

def specCase (p : Parsed) : Spec.Tile.Case :=
  let st := p.inp.styling.getD {}
  let strs := if p.inp.fmt = 10 then [p.inp.title] else [p.inp.line1, p.inp.line2]
  { w := p.w, h := p.h, shrink := p.shrink, border := p.border, inverted := p.inverted, fmt := p.inp.fmt,
    proportional := !st.fixedWidth, extraSp := st.extraSp,
    noLF := strs.all (fun s => !s.contains 10 && !s.contains 13), edgeInk := strs.all edgeOk,
    pix := specCol p.inp.pix, bg := specCol p.inp.bg }

def step (cmd : String) (args : List String) (impl : String) : String :=
  match cmd with
  | "tile.render" =>
    match parseArgs args with
    | none => "ERR bad-record"
    | some p =>
      let A := renderTile p.inp p.inverted p.w p.h p.shrink p.border
      let Ai := renderTile p.inp (!p.inverted) p.w p.h p.shrink p.border
      let (pc, bc) := tileColours p.inp
      let rgbM := if p.rgb then
          (match tileRGB p.inp p.inverted p.w p.h p.shrink p.border with
           | some r => hexOfBytes (r.toList.map (fun b => UInt8.ofNat b.toNat))
           | none => "panic")
        else "~"
      let model := s!"{p.w} {p.h} {hexOfBytes (toU8 A)} {pc} {bc} {hexOfBytes (toU8 Ai)} 1 {stateTok (fillNil p.inp) p.inverted} {rgbM} {lineHeight (tileAcc p.inp p.w p.h p.shrink p.border).t}"
      let tag := s!"B:fmt{p.inp.fmt}"
      match impl.splitOn " " with
      | [W, H, a, ipc, ibc, ai, det, post, rgb, lh] =>
        match parseInt W, parseInt H, unhex a, parseInt ipc, parseInt ibc, unhex ai, parseBool det, parsePost post,
              (if rgb = "~" then some none else (unhex rgb).map some), parseInt lh with
        | some W, some H, some a, some ipc, some ibc, some ai, some det, some post, some rgb, some lh =>
          let hs := match Spec.Tile.checkBytes (specCase p) W H a ai ipc ibc det (obsArg p.inp p.inverted) post rgb lh with
            | none => "H1" | some c => s!"H0:{c}"
          if impl = model then s!"EQ {hs} {tag}" else s!"NE {hs} {model} {tag}"
        | _, _, _, _, _, _, _, _, _, _ => s!"NE H0:panic {model} {tag}"
      | _ => s!"NE H0:panic {model} {tag}"
  | "tile.bar" =>
    -- args: v2 followed by the tile.render arguments (with intVal = v1)
    match args with
    | v2 :: rest =>
      match parseInt v2, parseArgs rest with
      | some v2, some p =>
        let A1 := renderTile p.inp p.inverted p.w p.h p.shrink p.border
        let A2 := renderTile { p.inp with intVal := v2 } p.inverted p.w p.h p.shrink p.border
        let model := s!"{hexOfBytes (toU8 A1)} {hexOfBytes (toU8 A2)}"
        match impl.splitOn " " with
        | [a1, a2] =>
          match unhex a1, unhex a2 with
          | some a1, some a2 =>
            let hs := match Spec.Tile.checkBar (specCase p) a1 a2 with | none => "H1" | some c => s!"H0:{c}"
            if impl = model then s!"EQ {hs} B:bar" else s!"NE {hs} {model} B:bar"
          | _, _ => s!"NE H0:panic {model}"
        | _ => s!"NE H0:panic {model}"
      | _, _ => "ERR bad-record"
    | _ => "ERR bad-record"
  | _ => "ERR bad-record"

end RawPanelVerif.Driver.Tile
