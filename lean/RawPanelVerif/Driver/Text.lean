import RawPanelVerif.Base.Wire
import RawPanelVerif.Model.Mono
import RawPanelVerif.Spec.TextSpec
/-! Driver glue for `text.*` records (C20). -/
namespace RawPanelVerif.Driver.Text
open RawPanelVerif RawPanelVerif.Wire RawPanelVerif.Mono

def toU8 (c : Canvas) : List UInt8 := c.bytes.toList.map (fun b => UInt8.ofNat b.toNat)

/-- the call sequence of one rendering -/
def renderCase (W H : Nat) (font : Int) (prop : Bool) (spacing : Nat) (h v cx cy : Int) (s : List Nat) :
    Canvas × TextSt :=
  let c := newCanvas W H
  let t : TextSt := {}
  let t := setFont t font prop
  let t := setTextSize t h v
  let t := { t with spacing := spacing % 256, wrap := false }
  let t := setTextColor t true
  let t := setCursor t cx cy
  renderText (c, t) s

/-- `text.case font prop spacing h v cx cy dx dy W H str | sw lh A B C` -/
def step (cmd : String) (args : List String) (impl : String) : String :=
  match cmd, args with
  | "text.case", [font, prop, sp, h, v, cx, cy, dx, dy, W, H, str] =>
    let r : Option String := do
      let font ← parseInt font; let prop ← parseBool prop; let sp ← sp.toNat?
      let h ← parseInt h; let v ← parseInt v; let cx ← parseInt cx; let cy ← parseInt cy
      let dx ← parseInt dx; let dy ← parseInt dy; let W ← W.toNat?; let H ← H.toNat?
      let s ← unhex str
      let s := s.toList.map (·.toNat)
      let (cA, tA) := renderCase W H font prop sp h v cx cy s
      let (cB, _) := renderCase W H font prop sp h v (cx + dx) (cy + dy) s
      let (cC, _) := renderCase W H font prop sp 1 1 cx cy s
      let sw := strWidth tA s
      let lh := lineHeight tA
      let model := s!"{sw} {lh} {hexOfBytes (toU8 cA)} {hexOfBytes (toU8 cB)} {hexOfBytes (toU8 cC)}"
      match impl.splitOn " " with
      | [isw, ilh, a, b, c] =>
        match parseInt isw, parseInt ilh, unhex a, unhex b, unhex c with
        | some isw, some ilh, some a, some b, some c =>
          let glyphs := (s.filter (fun ch => ch ≠ 10 ∧ ch ≠ 13)).length
          let k : Spec.Text.Case := { wib := (W + 7) / 8, H := H, cx := cx, cy := cy, dx := dx, dy := dy,
                                      h := tA.tsH, v := tA.tsV, sw := isw, lh := ilh, spacing := sp % 256, glyphs := glyphs }
          -- the box / translate / scale clauses are stated for strings without line feed
          let hs := if s.contains 10 then "H1" else
            match Spec.Text.check k a b c with | none => "H1" | some cl => s!"H0:{cl}"
          let tag := s!"B:font{font}{if prop then "p" else "f"}"
          if impl = model then pure s!"EQ {hs} {tag}" else pure s!"NE {hs} {model} {tag}"
        | _, _, _, _, _ => pure s!"NE H0:panic {model}"
      | _ => pure s!"NE H0:panic {model}"
    r.getD "ERR bad-record"
  | _, _ => "ERR bad-record"

end RawPanelVerif.Driver.Text
