import RawPanelVerif.Base.Wire
import RawPanelVerif.Model.Mono
import RawPanelVerif.Model.GoRunes
import RawPanelVerif.Spec.TextSpec
/-! Driver glue for `text.*` records (C20). -/
namespace RawPanelVerif.Driver.Text
open RawPanelVerif RawPanelVerif.Wire RawPanelVerif.Mono

def toU8 (c : Canvas) : List UInt8 := c.bytes.toList.map (fun b => UInt8.ofNat b.toNat)

/-- the call sequence of one rendering -/
def renderCase (W H : Nat) (font : Int) (prop : Bool) (spacing : Nat) (h v cx cy : Int) (s : List Nat) :
    Canvas × TextSt :=
  let c := newCanvas W H
  let t : TextSt := {}
  let t := setFont t font prop
  let t := setTextSize t h v
  let t := { t with spacing := spacing % 256, wrap := false }
  let t := setTextColor t true
  let t := setCursor t cx cy
  renderText (c, t) s

def intList (xs : List Int) : String := if xs.isEmpty then "-" else ",".intercalate (xs.map toString)
def parseIntList (s : String) : Option (List Int) := if s = "-" then some [] else (s.splitOn ",").mapM parseInt

/-- `text.case font prop spacing h v cx cy dx dy W H str | sw lh lh1 segw segw1 A B C`
`str` = the bytes of the Go string handed to `RenderText` / `StrWidth` (any bytes: UTF-8 or not) -/
def step (cmd : String) (args : List String) (impl : String) : String :=
  match cmd, args with
  | "text.case", [font, prop, sp, h, v, cx, cy, dx, dy, W, H, str] =>
    let r : Option String := do
      let font ← parseInt font; let prop ← parseBool prop; let sp ← sp.toNat?
      let h ← parseInt h; let v ← parseInt v; let cx ← parseInt cx; let cy ← parseInt cy
      let dx ← parseInt dx; let dy ← parseInt dy; let W ← W.toNat?; let H ← H.toNat?
      let raw ← unhex str
      -- `for _, char := range str { … byte(char) … }`
      let s := GoRunes.runeBytes (raw.toList.map (·.toNat))
      let (cA, tA) := renderCase W H font prop sp h v cx cy s
      let (cB, _) := renderCase W H font prop sp h v (cx + dx) (cy + dy) s
      let (cC, tC) := renderCase W H font prop sp 1 1 cx cy s
      let sw := strWidth tA s
      let segs := lines s
      let model := s!"{sw} {lineHeight tA} {lineHeight tC} {intList (segs.map (strWidth tA))} {intList (segs.map (strWidth tC))} {hexOfBytes (toU8 cA)} {hexOfBytes (toU8 cB)} {hexOfBytes (toU8 cC)}"
      match impl.splitOn " " with
      | [_isw, ilh, ilh1, isegw, isegw1, a, b, c] =>
        match parseInt ilh, parseInt ilh1, parseIntList isegw, parseIntList isegw1, unhex a, unhex b, unhex c with
        | some ilh, some ilh1, some isegw, some isegw1, some a, some b, some c =>
          let glyphs := (segs.map (fun l => (l.filter (fun ch => ch ≠ 13)).length)).foldl max 0
          let k : Spec.Text.Case := { W := W, wib := (W + 7) / 8, H := H, cx := cx, cy := cy, dx := dx, dy := dy,
                                      h := tA.tsH, v := tA.tsV, lh := ilh, lh1 := ilh1, segw := isegw, segw1 := isegw1,
                                      spacing := sp % 256, glyphs := glyphs }
          let hs := match Spec.Text.check k a b c with | none => "H1" | some cl => s!"H0:{cl}"
          let tag := s!"B:font{font}{if prop then "p" else "f"} B:{if Spec.Text.unclipped k then "unclipped" else "clipped"} B:lines{min segs.length 3}"
          if impl = model then pure s!"EQ {hs} {tag}" else pure s!"NE {hs} {model} {tag}"
        | _, _, _, _, _, _, _ => pure s!"NE H0:panic {model}"
      | _ => pure s!"NE H0:panic {model}"
    r.getD "ERR bad-record"
  | _, _ => "ERR bad-record"

end RawPanelVerif.Driver.Text
