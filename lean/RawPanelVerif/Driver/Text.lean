import RawPanelVerif.Base.Wire
import RawPanelVerif.Model.Mono
import RawPanelVerif.Model.GoRunes
import RawPanelVerif.Spec.TextSpec
/-! Driver glue for `text.*` records (C20).

* `text.case` — one string on three fresh images (fixed setter order).
* `text.sess` — a whole call history on ONE image object in one record (the driver keeps no state between `text.*`
  lines): setters in any order, metric queries (also the SAME queries before and after one setter call: the model answers
  each from the state at that moment), earlier texts, re-creation of the canvas, followed by a final case whose
  three renderings `A`, `B`, `C` come from three objects with that same history.  The model (`Model/Mono.lean` text state)
  answers every query from the current state; the Spec clauses are evaluated on the final case. -/
namespace RawPanelVerif.Driver.Text
open RawPanelVerif RawPanelVerif.Wire RawPanelVerif.Mono

def toU8 (c : Canvas) : List UInt8 := c.bytes.toList.map (fun b => UInt8.ofNat b.toNat)
def hexC (c : Canvas) : String := hexOfBytes (toU8 c)

/-- the call sequence of one rendering -/
def renderCase (W H : Nat) (font : Int) (prop : Bool) (spacing : Nat) (h v cx cy : Int) (s : List Nat) :
    Canvas × TextSt :=
  let c := newCanvas W H
  let t : TextSt := {}
  let t := setFont t font prop
  let t := setTextSize t h v
  let t := { t with spacing := spacing % 256, wrap := false }
  let t := setTextColor t true
  let t := setCursor t cx cy
  renderText (c, t) s

def intList (xs : List Int) : String := if xs.isEmpty then "-" else ",".intercalate (xs.map toString)
def parseIntList (s : String) : Option (List Int) := if s = "-" then some [] else (s.splitOn ",").mapM parseInt

/-- per line the widths of its glyphs, `6,6;-;4` -/
def cwsTok (xs : List (List Int)) : String := ";".intercalate (xs.map intList)
def parseCws (s : String) : Option (List (List Int)) := (s.splitOn ";").mapM parseIntList

/-- `GetCharWidth` of every character of every line that is drawn (CR is skipped by the renderer) -/
def glyphWidths (t : TextSt) (segs : List (List Nat)) : List (List Int) :=
  segs.map (fun l => (l.filter (fun ch => ch ≠ 13)).map (fun ch => (charWidth t ch : Int)))

def glyphCount (segs : List (List Nat)) : Nat :=
  (segs.map (fun l => (l.filter (fun ch => ch ≠ 13)).length)).foldl max 0

/-- the nine tokens `sw lh lh1 segw segw1 A B C cws` the model reports for a three-rendering case -/
def caseTokens (tA tC : TextSt) (cA cB cC : Canvas) (s : List Nat) : String :=
  let segs := lines s
  s!"{strWidth tA s} {lineHeight tA} {lineHeight tC} {intList (segs.map (strWidth tA))} {intList (segs.map (strWidth tC))} {hexC cA} {hexC cB} {hexC cC} {cwsTok (glyphWidths tC segs)}"

/-- Spec verdict on the implementation's nine tokens; `none` = the tokens do not parse (a panic text) -/
def caseVerdict (W wib H : Nat) (cx cy dx dy h v : Int) (sp glyphs : Nat) (toks : List String) :
    Option (Option String × Bool) :=
  match toks with
  | [_isw, ilh, ilh1, isegw, isegw1, a, b, c, cws] =>
    match parseInt ilh, parseInt ilh1, parseIntList isegw, parseIntList isegw1, unhex a, unhex b, unhex c, parseCws cws with
    | some ilh, some ilh1, some isegw, some isegw1, some a, some b, some c, some cws =>
      let k : Spec.Text.Case := { W := W, wib := wib, H := H, cx := cx, cy := cy, dx := dx, dy := dy,
                                  h := h, v := v, lh := ilh, lh1 := ilh1, segw := isegw, segw1 := isegw1,
                                  spacing := sp, glyphs := glyphs, cws := cws }
      some (Spec.Text.check k a b c, Spec.Text.unclipped k)
    | _, _, _, _, _, _, _, _ => none
  | _ => none

def hsOf : Option String → String
  | none => "H1"
  | some cl => s!"H0:{cl}"

/-! ## sessions on one image object -/

def bytesBV (a : Array UInt8) : Array (BitVec 8) := a.map (fun b => BitVec.ofNat 8 b.toNat)

/-- the bytes of a Go string → the `byte(rune)` sequence `range` yields -/
def goStr (hex : String) : Option (List Nat) := do
  let raw ← unhex hex
  pure (GoRunes.runeBytes (raw.toList.map (·.toNat)))

/-- one token of a `text.sess` record → the call it denotes -/
def parseCall (tok : String) : Option TextCall :=
  match tok.splitOn ":" with
  | ["F", n, p] => do pure (.font (← parseInt n) (← parseBool p))
  | ["Z", h, v] => do pure (.size (← parseInt h) (← parseInt v))
  | ["P", s] => do pure (.spacing (← s.toNat?))
  | ["W", b] => do pure (.wrap (← parseBool b))
  | ["C", x, y] => do pure (.cursor (← parseInt x) (← parseInt y))
  | ["K", b] => do pure (.color (← parseBool b))
  | ["X", x, y, w, h] => do pure (.bbox (← parseInt x) (← parseInt y) (← parseInt w) (← parseInt h))
  | ["I", b] => do pure (.inv (← parseBool b))
  | ["N", w, h] => do pure (.newImage (← w.toNat?) (← h.toNat?))
  | ["B", w, h, bits] => do pure (.fromBytes (← w.toNat?) (← h.toNat?) (bytesBV (← unhex bits)))
  | ["S", str] => do pure (.strWidth (← goStr str))
  | ["L"] => pure .lineHeight
  | ["G", ch] => do pure (.charWidth (← ch.toNat?))
  | ["R", str] => do pure (.render (← goStr str))
  | ["D", x, y, ch, col, bg, h, v] => do
    pure (.drawChar (← parseInt x) (← parseInt y) (← ch.toNat?) (← parseBool col) (← parseBool bg) (← parseInt h) (← parseInt v))
  | _ => none

/-- the token the harness prints for a call made in state `st` that led to `st'` (`.` for calls without result) -/
def callOut (st st' : Canvas × TextSt) : TextCall → String
  | .strWidth s => toString (strWidth st.2 s)
  | .lineHeight => toString (lineHeight st.2)
  | .charWidth ch => s!"{charWidth st.2 ch}/{charStart st.2 ch}"
  | .render _ => hexC st'.1
  | .drawChar .. => hexC st'.1
  | _ => "."

def runOps (st : Canvas × TextSt) : List String → Option ((Canvas × TextSt) × List String)
  | [] => some (st, [])
  | tok :: rest => do
    let call ← parseCall tok
    let st' := applyCall st call
    let (st'', os) ← runOps st' rest
    pure (st'', callOut st st' call :: os)

/-- `FillRect(0, 0, Width, Height, false)`: the harness clears the canvas before the final case (text state untouched) -/
def blank (c : Canvas) : Canvas := fillRect c 0 0 c.geo.W c.geo.H false

def joinOuts (fin : String) (outs : List String) : String :=
  if outs.isEmpty then fin else fin ++ " " ++ " ".intercalate outs

/-- `text.sess W H dx dy fin op…`: `NewImage(W,H)` on a fresh object, the calls `op…`, then the final case `fin`:
`R:ord:cx:cy:str` (canvas cleared, wrap off, [`C`: size 1], metrics and `RenderText` at the cursor; `ord` = metrics before or
after the rendering — no difference for the model) or `D:x:y:c:col:bg:h:v` (canvas cleared, `DrawChar` with explicit sizes;
`C` with sizes 1,1 and the same text state). -/
def sess (args : List String) (impl : String) : Option String :=
  match args with
  | W :: H :: dx :: dy :: fin :: ops => do
    let W ← W.toNat?; let H ← H.toNat?; let dx ← parseInt dx; let dy ← parseInt dy
    let ((c, t), outs) ← runOps (newCanvas W H, {}) ops
    let it := impl.splitOn " "
    match fin.splitOn ":" with
    | ["R", _ord, cx, cy, str] =>
      let cx ← parseInt cx; let cy ← parseInt cy; let s ← goStr str
      let c0 := blank c
      let tA := sessA t cx cy
      let tB := sessA t (cx + dx) (cy + dy)
      let tC := sessC t cx cy
      let (cA, _) := renderText (c0, tA) s
      let (cB, _) := renderText (c0, tB) s
      let (cC, _) := renderText (c0, tC) s
      let model := joinOuts (caseTokens tA tC cA cB cC s) outs
      let segs := lines s
      let tag := s!"B:sessR B:font{t.font}{if t.prop then "p" else "f"} B:lines{min segs.length 3}"
      match caseVerdict c.geo.W c.geo.wib c.geo.H cx cy dx dy tA.tsH tA.tsV t.spacing (glyphCount segs) (it.take 9) with
      | some (h, u) =>
        let tag := s!"{tag} B:{if u then "unclipped" else "clipped"}"
        pure (if impl = model then s!"EQ {hsOf h} {tag}" else s!"NE {hsOf h} {model} {tag}")
      | none => pure s!"NE H0:panic {model} {tag}"
    | ["D", x, y, ch, col, bg, h, v] =>
      let x ← parseInt x; let y ← parseInt y; let ch ← ch.toNat?; let col ← parseBool col; let bg ← parseBool bg
      let h ← parseInt h; let v ← parseInt v
      let c0 := blank c
      let cA := drawChar c0 t x y ch col bg h v
      let cB := drawChar c0 t (x + dx) (y + dy) ch col bg h v
      let cC := drawChar c0 t x y ch col bg 1 1
      let model := joinOuts s!"{charWidth t ch} {lineHeight (setTextSize t 1 1)} {hexC cA} {hexC cB} {hexC cC}" outs
      let tag := s!"B:sessD B:font{t.font}{if t.prop then "p" else "f"}"
      match it.take 5 with
      | [icw, icell, a, b, cc] =>
        match parseInt icw, parseInt icell with
        | some icw, some icell =>
          -- the one-glyph case: sizes from the arguments, width and cell height as the object reports them
          let toks := ["0", toString (v * icell), toString icell, toString (icw * h - h), toString (icw - 1), a, b, cc, toString icw]
          match caseVerdict c.geo.W c.geo.wib c.geo.H x y dx dy h v 0 1 toks with
          | some (hh, u) =>
            let tag := s!"{tag} B:{if u then "unclipped" else "clipped"}"
            pure (if impl = model then s!"EQ {hsOf hh} {tag}" else s!"NE {hsOf hh} {model} {tag}")
          | none => pure s!"NE H0:panic {model} {tag}"
        | _, _ => pure s!"NE H0:panic {model} {tag}"
      | _ => pure s!"NE H0:panic {model} {tag}"
    | _ => none
  | _ => none

/-- `text.case font prop spacing h v cx cy dx dy W H str | sw lh lh1 segw segw1 A B C cws`
`str` = the bytes of the Go string handed to `RenderText` / `StrWidth` (any bytes: UTF-8 or not) -/
def step (cmd : String) (args : List String) (impl : String) : String :=
  match cmd, args with
  | "text.case", [font, prop, sp, h, v, cx, cy, dx, dy, W, H, str] =>
    let r : Option String := do
      let font ← parseInt font; let prop ← parseBool prop; let sp ← sp.toNat?
      let h ← parseInt h; let v ← parseInt v; let cx ← parseInt cx; let cy ← parseInt cy
      let dx ← parseInt dx; let dy ← parseInt dy; let W ← W.toNat?; let H ← H.toNat?
      -- `for _, char := range str { … byte(char) … }`
      let s ← goStr str
      let (cA, tA) := renderCase W H font prop sp h v cx cy s
      let (cB, _) := renderCase W H font prop sp h v (cx + dx) (cy + dy) s
      let (cC, tC) := renderCase W H font prop sp 1 1 cx cy s
      let segs := lines s
      let model := caseTokens tA tC cA cB cC s
      let tag := s!"B:font{font}{if prop then "p" else "f"} B:lines{min segs.length 3}"
      match caseVerdict W ((W + 7) / 8) H cx cy dx dy tA.tsH tA.tsV (sp % 256) (glyphCount segs) (impl.splitOn " ") with
      | some (hh, u) =>
        let tag := s!"{tag} B:{if u then "unclipped" else "clipped"}"
        if impl = model then pure s!"EQ {hsOf hh} {tag}" else pure s!"NE {hsOf hh} {model} {tag}"
      | none => pure s!"NE H0:panic {model}"
    r.getD "ERR bad-record"
  | "text.sess", args => (sess args impl).getD "ERR bad-record"
  | _, _ => "ERR bad-record"

end RawPanelVerif.Driver.Text
