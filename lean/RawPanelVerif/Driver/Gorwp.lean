import RawPanelVerif.Base.Wire
import RawPanelVerif.Gen.Consts
import RawPanelVerif.Lemmas.GorwpBridge
import RawPanelVerif.Driver.Lifecycle
/-!
Driver glue for `gorwp.run` records (C19).

* `H1/H0:<clause>`: `Spec.Gorwp.check` on the observation.
* `EQ/NE`: the observation equals what the model of the CODE AS IT IS computes: `Connect`'s result = `Gorwp.connect true`
  on a possible course of the initialisation window, invocation log = `Gorwp.dispatchDyn` (exact order) over what the
  reader forwards (`Gorwp.readerKeeps`: binary `.bare`, ASCII `.none`; an over-limit header ends the connection), ack
  count, final state.  With the environment variable `VERIF_C19_MODEL=pinned` the driver runs the model of the PINNED
  code instead (`connect false`, reader `.whole`, over-limit header only logged, a permanent stall of the single loop
  under feedback accepted; tag `B:model=pinned`) — for replays of the old findings.  A regression of the library to a
  pinned behaviour is therefore NE (model ≠ implementation) as well as H0.
* When a broken frame ends the connection the log must be a prefix of the model's that contains everything but the last
  `Gen.gorwpFromPanelCap` event messages (over-limit header) / everything (truncated frame): `mustItems`.
* Tags that make tolerances and either-way acceptances visible in the evidence: `B:undecided` (all four items sent, panel
  closed at once: either result of `Connect` accepted), `B:prefix-accepted[=n]` (n events right before an over-limit header
  not dispatched), `B:tol:slow` (last invocation later than the scripted pauses + `slowMs`), `B:cut=quiet|deadline` (the
  harness stopped listening without the counts of a loss-free run), `B:quiet>=…ms` (the script has a silence longer than the
  reader's payload deadline), `B:panel-acks-heartbeat`.
* The quiet-period scripts are compared untimed: that no silence ends the connection is `C19.quiet_period_harmless_coded`
  for the configuration regenerated from the source; the driver expects every event after the silence and an open connection.
-/
namespace RawPanelVerif.Driver.Gorwp
open RawPanelVerif RawPanelVerif.Wire RawPanelVerif.Gorwp RawPanelVerif.GorwpBridge
open RawPanelVerif.Driver.Lifecycle (kvOf kvGet kvNat)

/-- `VERIF_C19_MODEL=pinned`, read once at start-up -/
initialize pinnedModel : Bool ← do
  return (← IO.getEnv "VERIF_C19_MODEL") == some "pinned"

def hexBytes (s : String) : List Nat := match unhex s with | some b => b.toList.map (·.toNat) | none => []

/-- parsed history item -/
inductive RItem
  | msg (m : OutMsg) (nHWc : Nat)
  | burst (n id : Nat)
  | over (len : Nat)
  | trunc (n : Nat)
  | wait (ms : Nat)
  | bind (k : Gorwp.Kind) (id : Nat)
  deriving Repr

def parseEventItem (kind : Char) (rest : String) : Option Event := do
  let f := rest.splitOn "."
  let id ← (f.getD 0 "").toNat?
  let i (k : Nat) : Option Int := parseInt (f.getD k "")
  match kind with
  | 'b' => do
    let p ← i 1; let e ← i 2
    pure { id, binary := some { pressed := p == 1, edge := e.toNat } }
  | 'p' => do pure { id, pulsed := some (← i 1) }
  | 'a' => do pure { id, absolute := some (← i 1).toNat }
  | 's' => do pure { id, speed := some (← i 1) }
  | 'x' => do
    let p ← i 1; let e ← i 2; let v ← i 3
    pure { id, binary := some { pressed := p == 1, edge := e.toNat }, pulsed := some v }
  | 'n' => pure { id }
  | _ => none

def parseKind : Char → Option Gorwp.Kind
  | 't' => some .trigger
  | 'b' => some .binary
  | 'p' => some .pulsed
  | 'a' => some .absolute
  | 'i' => some .intensity
  | _ => none

def parseItemPlain (it : String) : Option RItem :=
  match it.toList with
  | 'e' :: k :: rest => (parseEventItem k (String.ofList rest)).map (fun e => .msg { events := [e] } 0)
  | 'B' :: rest =>
    match (String.ofList rest).splitOn "." with
    | [n, id] => do pure (.burst (← n.toNat?) (← id.toNat?))
    | _ => none
  | ['g'] => some (.msg { flow := .ping } 0)
  | 'i' :: rest =>
    let f := (String.ofList rest).splitOn "."
    some (.msg { info := some { model := hexBytes (f.getD 0 "-"), serial := hexBytes (f.getD 1 "-"), name := hexBytes (f.getD 2 "-") } } 0)
  | 't' :: rest =>
    let f := (String.ofList rest).splitOn "."
    some (.msg { topo := some { json := hexBytes (f.getD 0 "-"), svg := hexBytes (f.getD 1 "-") } } ((f.getD 2 "0").toNat?.getD 0))
  | 'm' :: rest =>
    let kv := ((String.ofList rest).splitOn ",").filterMap (fun p => match p.splitOn ":" with
      | [k, v] => do pure ((← k.toNat?), (← v.toNat?))
      | _ => none)
    some (.msg { avail := some kv } 0)
  | 'x' :: 'o' :: rest => (String.ofList rest).toNat?.map .over
  | 'x' :: 't' :: rest => (String.ofList rest).toNat?.map .trunc
  | 'w' :: rest => some (.wait ((String.ofList rest).toNat?.getD 0))
  | ['P'] => some (.wait 0)     -- the panel stops reading its socket
  | ['R'] => some (.wait 0)     -- … reads again
  | 'K' :: k :: rest => do pure (.bind (← parseKind k) (← (String.ofList rest).toNat?))
  | _ => none

/-- `A` = a message with flow field ACK; `A<item>` = the message of `<item>` with the flow field set to ACK -/
def parseItem (it : String) : Option RItem :=
  match it.toList with
  | ['A'] => some (.msg { flow := .ack } 0)
  | 'A' :: rest =>
    match parseItemPlain (String.ofList rest) with
    | some (.msg m n) => some (.msg { m with flow := .ack } n)
    | _ => none
  | _ => parseItemPlain it

def parseHist (h : String) : Option (List RItem) :=
  if h = "-" ∨ h = "" then some [] else ((h.splitOn ";").filter (· ≠ "")).mapM parseItem

def parseBind (s : String) : Bindings :=
  if s = "-" ∨ s = "" then {} else
  (s.splitOn ",").foldl (fun b t =>
    match t.toList with
    | k :: rest =>
      match (String.ofList rest).toNat? with
      | some id =>
        match k with
        | 't' => { b with trigger := b.trigger ++ [id] }
        | 'b' => { b with binary := b.binary ++ [id] }
        | 'p' => { b with pulsed := b.pulsed ++ [id] }
        | 'a' => { b with absolute := b.absolute ++ [id] }
        | 'i' => { b with intensity := b.intensity ++ [id] }
        | _ => b
      | none => b
    | [] => b) {}

/-- constants of the scripted panel's answer to the initial request (harness/gorwp.go) -/
def json0 : List Nat := "{\"title\":\"T0\",\"HWc\":[{\"id\":1,\"type\":1},{\"id\":2,\"type\":1}],\"typeIndex\":{\"1\":{\"w\":10,\"subidx\":0}}}".toUTF8.toList.map (·.toNat)
def svg0 : List Nat := "<svg xmlns=\"http://www.w3.org/2000/svg\" width=\"10\" height=\"10\"></svg>".toUTF8.toList.map (·.toNat)
def asciiBytes (s : String) : List Nat := s.toUTF8.toList.map (·.toNat)

/-- the connection ends (or a frame stalls) during initialisation instead of the panel completing its answer -/
def initEnds (variant : String) : Bool :=
  variant = "close0" ∨ variant = "close2" ∨ variant = "overlimit" ∨ variant = "stall" ∨ variant = "fullclose"

def initMsgs (variant : String) : List (OutMsg × Nat) :=
  let info : PanelInfo := { model := if variant = "nomodel" then [] else asciiBytes "M1",
                            serial := if variant = "noserial" then [] else asciiBytes "S1",
                            name := if variant = "noname" then [] else asciiBytes "N1" }
  let topo : Topo := { json := if variant = "nojson" then [] else json0,
                       svg := if variant = "nosvg" ∨ variant = "late" then [] else svg0 }
  if initEnds variant ∧ variant ≠ "fullclose" then (if variant = "close0" then [] else [({ info := some info }, 0)]) else
  [({ info := some info }, 0), ({ avail := some [(1, 1)] }, 0)]
  ++ (if topo.json = [] ∧ topo.svg = [] then [] else [({ topo := some topo }, 2)])

/-- the possible courses of the initialisation window as `init`'s select can see them.  close0 / close2 / overlimit:
the reader fails (EOF / over-limit header) and `listen` cancels the context — before or after the dispatcher got to the
identity message; fullclose: likewise after any number of the messages of the complete answer; stall (binary): the reader's 2 s payload deadline and the 2 s window race; otherwise the timer ends
the window (if the fourth item has not arrived before). -/
def initLins (ascii : Bool) (variant : String) : List (List InitEv) :=
  let ms := (initMsgs variant).map (fun p => InitEv.dispatched p.1)
  if variant = "close0" ∨ variant = "close2" ∨ variant = "overlimit" then [ms ++ [.ctxDone], [.ctxDone]]
  -- fullclose: the complete answer in one write, then the panel closes at once: the reader's cancel may overtake the
  -- dispatcher (which stops at `ctx.Done()` with messages still queued) at any point
  else if variant = "fullclose" then (List.range (ms.length + 1)).map (fun k => ms.take k ++ [.ctxDone])
  else if variant = "stall" then (if ascii then [ms ++ [.windowClosed]] else [ms ++ [.windowClosed], ms ++ [.ctxDone]])
  else [ms ++ [.windowClosed]]

/-- messages the client's reader hands to the dispatcher; `strict` = over-limit ends the connection -/
def modelHistory (strict : Bool) : List RItem → List OutMsg
  | [] => []
  | .msg m _ :: r => m :: modelHistory strict r
  | .burst n id :: r => List.replicate n { events := [{ id, binary := some { pressed := true, edge := 0 } }] } ++ modelHistory strict r
  | .over len :: r => if len ≥ Gen.gorwpFrameLimit ∧ !strict then modelHistory strict r else []
  | .trunc _ :: _ => []
  | .wait _ :: r => modelHistory strict r
  | .bind .. :: r => modelHistory strict r

/-- the run of registrations and events: what the reader forwards (filter `f`) in wire order, the harness's `Bind*`
calls where the script has them -/
def dynHistory (strict : Bool) (f : AckFilter) : List RItem → List DynItem
  | [] => []
  | .msg m _ :: r => (if readerKeeps f m then m.events.map DynItem.event else []) ++ dynHistory strict f r
  | .burst n id :: r => List.replicate n (DynItem.event { id, binary := some { pressed := true, edge := 0 } }) ++ dynHistory strict f r
  | .over len :: r => if len ≥ Gen.gorwpFrameLimit ∧ !strict then dynHistory strict f r else []
  | .trunc _ :: _ => []
  | .wait _ :: r => dynHistory strict f r
  | .bind k id :: r => DynItem.bind k id :: dynHistory strict f r

open Spec.Gorwp in
def specItems : List RItem → List Item
  | [] => []
  | .msg m n :: r => (toItems m).map (fun i => match i with | .topo j s _ => .topo j s n | x => x) ++ specItems r
  | .burst n id :: r => List.replicate n (Item.event { id, binary := some (true, 0) }) ++ specItems r
  | .over len :: r => Item.broken (len ≥ Gen.gorwpFrameLimit) :: specItems r
  | .trunc _ :: r => Item.broken false :: specItems r
  | .wait ms :: r => Item.wait ms :: specItems r
  | .bind k id :: r => Item.bind (toSKind k) id :: specItems r

/-! ### observation -/
partial def parseSummary (cs : List Char) (e : Event) : Option Event :=
  let takeInt (cs : List Char) : (String × List Char) :=
    let neg := cs.head? = some '-'
    let cs' := if neg then cs.drop 1 else cs
    let ds := cs'.takeWhile Char.isDigit
    ((if neg then "-" else "") ++ String.ofList ds, cs'.drop ds.length)
  match cs with
  | [] => some e
  | 'n' :: r => parseSummary r e
  | 'b' :: p :: '.' :: r =>
    let (ed, r') := takeInt r
    do parseSummary r' { e with binary := some { pressed := p == '1', edge := (← ed.toNat?) } }
  | 'p' :: r => let (v, r') := takeInt r; do parseSummary r' { e with pulsed := some (← parseInt v) }
  | 'a' :: r => let (v, r') := takeInt r; do parseSummary r' { e with absolute := some (← v.toNat?) }
  | 's' :: r => let (v, r') := takeInt r; do parseSummary r' { e with speed := some (← parseInt v) }
  | _ => none

def parseInv (tok : String) : Option Invocation :=
  match tok.toList with
  | 't' :: rest =>
    let s := String.ofList rest
    match s.splitOn "." with
    | idS :: _ => do
      let id ← idS.toNat?
      let summary := (s.drop (idS.length + 1)).toString
      let e ← parseSummary summary.toList { id }
      pure (.trigger id e)
    | _ => none
  | k :: rest =>
    let f := (String.ofList rest).splitOn "."
    match k, f with
    | 'b', [id, st, ed] => do pure (.binary (← id.toNat?) (← st.toNat?) (← ed.toNat?))
    | 'p', [id, v] => do pure (.pulsed (← id.toNat?) (← parseInt v))
    | 'a', [id, v] => do pure (.absolute (← id.toNat?) (← parseInt v))
    | 'i', [id, v] => do pure (.intensity (← id.toNat?) (← parseInt v))
    | _, _ => none
  | [] => none

structure RObs where
  initOk : Bool
  tconn : Nat := 0
  inv : List Invocation := []
  acks : Nat := 0
  fb : Nat := 0
  model : List Nat := []
  serial : List Nat := []
  name : List Nat := []
  tj : List Nat := []
  sv : List Nat := []
  tn : Int := -1
  tg : String := "-"
  tf : String := "-"
  av : List (Nat × Nat) := []
  tlast : Nat := 0
  dataRaces : Nat := 0
  bindRace : Bool := false
  isInit : Bool := true
  closed : Bool := false
  cut : String := "-"

def parseObs (impl : String) : Option RObs := do
  let kv := kvOf ((impl.splitOn " ").filter (· ≠ ""))
  let init ← kvGet kv "init"
  if init ≠ "ok" then return { initOk := false, tconn := kvNat kv "tconn" 0 }
  let invS := (kvGet kv "inv").getD "-"
  let inv ← if invS = "-" then some [] else (invS.splitOn ",").mapM parseInv
  let avS := (kvGet kv "av").getD "-"
  let av := if avS = "-" then [] else (avS.splitOn ",").filterMap (fun p => match p.splitOn ":" with
    | [k, v] => do pure ((← k.toNat?), (← v.toNat?))
    | _ => none)
  let g (k : String) : List Nat := hexBytes ((kvGet kv k).getD "-")
  pure { initOk := true, tconn := kvNat kv "tconn" 0, inv, acks := kvNat kv "acks" 0, fb := kvNat kv "fb" 0,
         model := g "model", serial := g "serial", name := g "name", tj := g "tj", sv := g "sv",
         tn := ((kvGet kv "tn").bind parseInt).getD (-1), tg := (kvGet kv "tg").getD "-", tf := (kvGet kv "tf").getD "-", av, tlast := kvNat kv "tlast" 0,
         dataRaces := kvNat kv "datarace" 0, bindRace := kvNat kv "bindrace" 0 == 1, isInit := kvNat kv "isinit" 1 == 1,
         closed := kvNat kv "closed" 0 == 1, cut := (kvGet kv "cut").getD "-" }

def isPrefixOf {α} [BEq α] : List α → List α → Bool
  | [], _ => true
  | _, [] => false
  | a :: as, b :: bs => a == b && isPrefixOf as bs

/-- the items before the first frame that ends the connection (`strict`: an over-limit header does) -/
def beforeEnd (strict : Bool) : List RItem → List RItem
  | [] => []
  | .trunc _ :: _ => []
  | .over len :: r => if len ≥ Gen.gorwpFrameLimit ∧ !strict then .over len :: beforeEnd strict r else []
  | x :: r => x :: beforeEnd strict r

def endsTruncated (strict : Bool) : List RItem → Bool
  | [] => false
  | .trunc _ :: _ => true
  | .over len :: r => if len ≥ Gen.gorwpFrameLimit ∧ !strict then endsTruncated strict r else false
  | _ :: r => endsTruncated strict r

/-- number of event messages in a stretch of the script -/
def msgCount : List RItem → Nat
  | [] => 0
  | .msg m _ :: r => (if m.events.isEmpty then 0 else 1) + msgCount r
  | .burst n _ :: r => n + msgCount r
  | _ :: r => msgCount r

/-- on the REVERSED script: drop `n` event messages from the front (a burst is split) -/
def dropMsgsRev : List RItem → Nat → List RItem
  | l, 0 => l
  | [], _ => []
  | .burst k id :: r, n => if k ≤ n then dropMsgsRev r (n - k) else .burst (k - n) id :: r
  | .msg m c :: r, n => if m.events.isEmpty then .msg m c :: dropMsgsRev r n else dropMsgsRev r (n - 1)
  | x :: r, n => x :: dropMsgsRev r n

/-- the script without its last `n` event messages -/
def dropLastMsgs (n : Nat) (l : List RItem) : List RItem := (dropMsgsRev l.reverse n).reverse

/-- what the model demands of the invocation log when a broken frame ends the connection: the reader pushes every
message into `fromPanel` before it reads the next frame, so when it meets the broken frame all earlier messages are
dispatched or queued — at most `Gen.gorwpFromPanelCap` of them can be dropped with the queue
(`C19.at_most_queue_capacity_lost_at_broken_frame`); a truncated frame ends the connection only when the payload deadline
has passed, long after the queue has been emptied: nothing is dropped. -/
def mustItems (strict : Bool) (items : List RItem) : List RItem :=
  let pre := beforeEnd strict items
  if endsTruncated strict items then pre else dropLastMsgs Gen.gorwpFromPanelCap pre

/-- does the observation equal the model's outputs for the reader variant `strict` / `f`?  (agrees, stalled, proper prefix accepted) -/
def agrees (b : Bindings) (initv : String) (items : List RItem) (fb : Bool) (o : RObs) (strict : Bool) (f : AckFilter) : Bool × Bool × Bool :=
  let h := readerView f (modelHistory strict items)
  let all := (initMsgs initv).map (·.1) ++ h
  let st := finalState {} all
  let inv := dispatchDyn b (dynHistory strict f items)
  -- model: the topology object is a fresh parse of `topoSrc` (= the stored JSON)
  let stateOk := o.tg = o.tf ∧ o.tj = st.topoSrc ∧ o.model = st.model ∧ o.serial = st.serial ∧ o.name = st.name ∧ o.tj = st.topoJSON ∧ o.sv = st.topoSVG
    ∧ (o.av.all (fun (k, v) => lookupAvail st k = some v)) ∧ (st.avail.all (fun (k, _) => (o.av.find? (·.1 = k)).isSome))
    ∧ o.isInit = isInitialized st
  -- a broken frame shuts the client down: messages queued right before it may be dropped (a prefix is dispatched, and at
  -- least what cannot have been in the queue any more)
  let endsBroken := items.any (fun i => match i with | .trunc _ => true | .over len => strict ∨ len < Gen.gorwpFrameLimit | _ => false)
  let must := dispatchDyn b (dynHistory strict f (mustItems strict items))
  let full := if endsBroken then isPrefixOf o.inv inv ∧ isPrefixOf must o.inv else decide (o.inv = inv) ∧ o.acks = acks h ∧ stateOk ∧ !o.closed
  -- pinned loop: with feedback the loop may block for good once more than `cap` sends were queued
  let stalled := fb ∧ o.inv.length < inv.length ∧ isPrefixOf o.inv inv ∧ o.inv.length ≥ 1
  (full, stalled, endsBroken ∧ o.inv.length < inv.length)

/-- scripted pauses of a history, ms -/
def pausesMs : List RItem → Nat
  | [] => 0
  | .wait ms :: r => ms + pausesMs r
  | .trunc _ :: r => 2500 + pausesMs r
  | _ :: r => pausesMs r

def longestPause : List RItem → Nat
  | [] => 0
  | .wait ms :: r => max ms (longestPause r)
  | _ :: r => longestPause r

/-- HARNESS TOLERANCE (no verdict): the last invocation came later than the scripted pauses plus this many ms after the
start of the history — reported as tag `B:tol:slow` -/
def slowMs : Nat := 5000

def step (cmd : String) (args : List String) (impl : String) : String :=
  if cmd ≠ "gorwp.run" then "ERR bad-record" else
  let kv := kvOf args
  let mode := (kvGet kv "mode").getD "bin"
  let initv := (kvGet kv "init").getD "full"
  let b := parseBind ((kvGet kv "bind").getD "-")
  let fb := kvNat kv "fb" 0 ≥ 1
  let race := kvNat kv "race" 0
  match parseHist ((kvGet kv "hist").getD "-") with
  | none => "ERR bad-history"
  | some items =>
    let tags := s!"B:mode={mode} B:init={initv}" ++ (if fb then " B:feedback" else "") ++ (if race > 0 then s!" B:race={race}" else "")
      ++ (if kvNat kv "pa" 0 = 1 then " B:panel-acks-heartbeat" else "")
      -- a silence on the socket that outlasts the reader's payload deadline (the panel does not answer the client's heartbeat)
      ++ (if longestPause items ≥ Gen.gorwpFrameTimeoutMs then s!" B:quiet>={Gen.gorwpFrameTimeoutMs}ms" else "")
    if impl.startsWith "skip:" then s!"EQ H1 B:{impl} {tags}" else
    if impl.startsWith "fatal:concurrent_map" then
      -- the process died (concurrent map access detected by the Go runtime): outside the model, property false
      s!"EQ H0:bind_race_crash {tags} B:{impl}" else
    if impl.startsWith "fatal:" then s!"NE H0:process_crash model:no-crash {tags} B:{impl}" else
    if impl.startsWith "panic:" ∨ impl.startsWith "err:" then s!"NE H0:{impl} {tags}" else
    match parseObs impl with
    | none => "ERR bad-observation"
    | some o =>
      let sc : Spec.Gorwp.Script :=
        { ascii := mode = "asc",
          initItems := (initMsgs initv).flatMap (fun (m, n) => (toItems m).map (fun i => match i with | .topo j s _ => Spec.Gorwp.Item.topo j s n | x => x)),
          initEnded := initEnds initv ∧ !(initv = "stall" ∧ mode = "asc"),
          -- the scripted ASCII panel leaves the mode probe unanswered: the detector's whole probe deadline passes before the request goes out
          preWindowMs := if mode = "asc" then Gen.detectorProbeTimeoutMs else 0,
          bind := toSBindings b, feedback := fb, hist := specItems items,
          -- one event per message in these scripts: the incoming queue holds `gorwpFromPanelCap` of them
          lossBound := some Gen.gorwpFromPanelCap }
      let so : Spec.Gorwp.Obs :=
        { initOk := o.initOk, tconn := o.tconn, inv := o.inv.map toSInv, acks := o.acks, model := o.model, serial := o.serial,
          name := o.name, tj := o.tj, sv := o.sv, tn := o.tn, tg := o.tg, tf := o.tf, av := o.av, tlast := o.tlast, dataRaces := o.dataRaces, bindRace := o.bindRace, closed := o.closed }
      let hs := match Spec.Gorwp.check sc so with | none => "H1" | some c => s!"H0:{c}"
      -- tolerances and either-way acceptances made visible
      let tags := tags
        ++ (if Spec.Gorwp.undecided sc then " B:undecided" else "")
        ++ (match (if o.initOk then Spec.Gorwp.prefixAccepted sc so.inv else none) with | some n => s!" B:prefix-accepted={n}" | none => "")
        ++ (if o.initOk ∧ o.tlast > pausesMs items + slowMs then " B:tol:slow" else "")
        ++ (if o.cut = "quiet" ∨ o.cut = "deadline" then s!" B:cut={o.cut}" else "")
      -- model: Connect's result = `connect` on one of the possible courses of the initialisation window; the code as it is
      -- (a cancelled context is an error unless initialised) unless the pinned model was asked for
      let pinned := pinnedModel
      let ptag := if pinned then " B:model=pinned" else ""
      let lins := initLins (mode = "asc") initv
      if !lins.any (fun l => connect (!pinned) l = o.initOk) then
        s!"NE {hs} model:init={if o.initOk then "err" else "ok"} {tags}{ptag}"
      else if !o.initOk then s!"EQ {hs} {tags}{ptag}"
      else if initEnds initv then
        -- `Connect` returned success although the connection ended inside the window: the state is that of a prefix of what
        -- arrived (all of it in the code as it is, where success means initialised); nothing follows
        let ms := (initMsgs initv).map (·.1)
        let sts := (List.range (ms.length + 1)).map (fun k => finalState {} (ms.take k))
        if o.inv.isEmpty ∧ sts.any (fun st => o.model = st.model ∧ o.serial = st.serial ∧ o.name = st.name ∧ o.tj = st.topoJSON
            ∧ o.sv = st.topoSVG ∧ o.isInit = isInitialized st ∧ (pinned ∨ isInitialized st)) then s!"EQ {hs} {tags}{ptag}"
        else s!"NE {hs} model:state-of-a-prefix-of-the-initial-answer {tags}{ptag}"
      else
        -- code as it is: an over-limit header ends the connection; the binary reader drops a bare acknowledge only (ASCII: the
        -- line `ack`).  Pinned: the header is only logged; the binary reader drops every message with flow field ACK.
        let strict := !pinned
        let f : AckFilter := if mode = "asc" then .none else if pinned then .whole else .bare
        let (full, stall, prefixOnly) := agrees b initv items fb o strict f
        if full then s!"EQ {hs} {tags}{ptag}" ++ (if prefixOnly ∧ (Spec.Gorwp.prefixAccepted sc so.inv).isNone then " B:prefix-accepted" else "")
        else if pinned ∧ stall then s!"EQ {hs} {tags}{ptag} B:stalled@{o.inv.length}"
        else
          let inv := dispatchDyn b (dynHistory strict f items)
          s!"NE {hs} model:ninv={inv.length},acks={acks (readerView f (modelHistory strict items))} {tags}{ptag}"

end RawPanelVerif.Driver.Gorwp
