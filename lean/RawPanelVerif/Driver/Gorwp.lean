import RawPanelVerif.Base.Wire
import RawPanelVerif.Gen.Consts
import RawPanelVerif.Lemmas.GorwpBridge
import RawPanelVerif.Driver.Lifecycle
/-!
Driver glue for `gorwp.run` records (C19).

* `H1/H0:<clause>`: `Spec.Gorwp.check` on the observation.
* `EQ/NE`: the observation equals what the model computes: invocation log = `Gorwp.dispatch` (exact order),
  ack count, final state.  The reader model has the Boolean `strict` (over-limit branch returns) and the loop
  model admits a stall when handlers feed more than `cap` sends back (pinned) — the driver accepts either variant
  and reports which one it saw as a branch tag (`B:reader=…`, `B:stalled`).
-/
namespace RawPanelVerif.Driver.Gorwp
open RawPanelVerif RawPanelVerif.Wire RawPanelVerif.Gorwp RawPanelVerif.GorwpBridge
open RawPanelVerif.Driver.Lifecycle (kvOf kvGet kvNat)

def hexBytes (s : String) : List Nat := match unhex s with | some b => b.toList.map (·.toNat) | none => []

/-- parsed history item -/
inductive RItem
  | msg (m : OutMsg) (nHWc : Nat)
  | burst (n id : Nat)
  | over (len : Nat)
  | trunc (n : Nat)
  | wait
  deriving Repr

def parseEventItem (kind : Char) (rest : String) : Option Event := do
  let f := rest.splitOn "."
  let id ← (f.getD 0 "").toNat?
  let i (k : Nat) : Option Int := parseInt (f.getD k "")
  match kind with
  | 'b' => do
    let p ← i 1; let e ← i 2
    pure { id, binary := some { pressed := p == 1, edge := e.toNat } }
  | 'p' => do pure { id, pulsed := some (← i 1) }
  | 'a' => do pure { id, absolute := some (← i 1).toNat }
  | 's' => do pure { id, speed := some (← i 1) }
  | 'x' => do
    let p ← i 1; let e ← i 2; let v ← i 3
    pure { id, binary := some { pressed := p == 1, edge := e.toNat }, pulsed := some v }
  | 'n' => pure { id }
  | _ => none

def parseItem (it : String) : Option RItem :=
  match it.toList with
  | 'e' :: k :: rest => (parseEventItem k (String.ofList rest)).map (fun e => .msg { events := [e] } 0)
  | 'B' :: rest =>
    match (String.ofList rest).splitOn "." with
    | [n, id] => do pure (.burst (← n.toNat?) (← id.toNat?))
    | _ => none
  | ['g'] => some (.msg { flow := .ping } 0)
  | 'i' :: rest =>
    let f := (String.ofList rest).splitOn "."
    some (.msg { info := some { model := hexBytes (f.getD 0 "-"), serial := hexBytes (f.getD 1 "-"), name := hexBytes (f.getD 2 "-") } } 0)
  | 't' :: rest =>
    let f := (String.ofList rest).splitOn "."
    some (.msg { topo := some { json := hexBytes (f.getD 0 "-"), svg := hexBytes (f.getD 1 "-") } } ((f.getD 2 "0").toNat?.getD 0))
  | 'm' :: rest =>
    let kv := ((String.ofList rest).splitOn ",").filterMap (fun p => match p.splitOn ":" with
      | [k, v] => do pure ((← k.toNat?), (← v.toNat?))
      | _ => none)
    some (.msg { avail := some kv } 0)
  | 'x' :: 'o' :: rest => (String.ofList rest).toNat?.map .over
  | 'x' :: 't' :: rest => (String.ofList rest).toNat?.map .trunc
  | 'w' :: _ => some .wait
  | ['P'] => some .wait     -- the panel stops reading its socket
  | ['R'] => some .wait     -- … reads again
  | _ => none

def parseHist (h : String) : Option (List RItem) :=
  if h = "-" ∨ h = "" then some [] else ((h.splitOn ";").filter (· ≠ "")).mapM parseItem

def parseBind (s : String) : Bindings :=
  if s = "-" ∨ s = "" then {} else
  (s.splitOn ",").foldl (fun b t =>
    match t.toList with
    | k :: rest =>
      match (String.ofList rest).toNat? with
      | some id =>
        match k with
        | 't' => { b with trigger := b.trigger ++ [id] }
        | 'b' => { b with binary := b.binary ++ [id] }
        | 'p' => { b with pulsed := b.pulsed ++ [id] }
        | 'a' => { b with absolute := b.absolute ++ [id] }
        | 'i' => { b with intensity := b.intensity ++ [id] }
        | _ => b
      | none => b
    | [] => b) {}

/-- constants of the scripted panel's answer to the initial request (harness/gorwp.go) -/
def json0 : List Nat := "{\"title\":\"T0\",\"HWc\":[{\"id\":1,\"type\":1},{\"id\":2,\"type\":1}],\"typeIndex\":{\"1\":{\"w\":10,\"subidx\":0}}}".toUTF8.toList.map (·.toNat)
def svg0 : List Nat := "<svg xmlns=\"http://www.w3.org/2000/svg\" width=\"10\" height=\"10\"></svg>".toUTF8.toList.map (·.toNat)
def asciiBytes (s : String) : List Nat := s.toUTF8.toList.map (·.toNat)

def initMsgs (variant : String) : List (OutMsg × Nat) :=
  let info : PanelInfo := { model := if variant = "nomodel" then [] else asciiBytes "M1",
                            serial := if variant = "noserial" then [] else asciiBytes "S1",
                            name := if variant = "noname" then [] else asciiBytes "N1" }
  let topo : Topo := { json := if variant = "nojson" then [] else json0,
                       svg := if variant = "nosvg" ∨ variant = "late" then [] else svg0 }
  [({ info := some info }, 0), ({ avail := some [(1, 1)] }, 0)]
  ++ (if topo.json = [] ∧ topo.svg = [] then [] else [({ topo := some topo }, 2)])

/-- messages the client's reader hands to the dispatcher; `strict` = over-limit ends the connection -/
def modelHistory (strict : Bool) : List RItem → List OutMsg
  | [] => []
  | .msg m _ :: r => m :: modelHistory strict r
  | .burst n id :: r => List.replicate n { events := [{ id, binary := some { pressed := true, edge := 0 } }] } ++ modelHistory strict r
  | .over len :: r => if len ≥ Gen.gorwpFrameLimit ∧ !strict then modelHistory strict r else []
  | .trunc _ :: _ => []
  | .wait :: r => modelHistory strict r

open Spec.Gorwp in
def specItems : List RItem → List Item
  | [] => []
  | .msg m n :: r => (toItems m).map (fun i => match i with | .topo j s _ => .topo j s n | x => x) ++ specItems r
  | .burst n id :: r => List.replicate n (Item.event { id, binary := some (true, 0) }) ++ specItems r
  | .over len :: r => Item.broken (len ≥ Gen.gorwpFrameLimit) :: specItems r
  | .trunc _ :: r => Item.broken false :: specItems r
  | .wait :: r => Item.wait :: specItems r

/-! ### observation -/
partial def parseSummary (cs : List Char) (e : Event) : Option Event :=
  let takeInt (cs : List Char) : (String × List Char) :=
    let neg := cs.head? = some '-'
    let cs' := if neg then cs.drop 1 else cs
    let ds := cs'.takeWhile Char.isDigit
    ((if neg then "-" else "") ++ String.ofList ds, cs'.drop ds.length)
  match cs with
  | [] => some e
  | 'n' :: r => parseSummary r e
  | 'b' :: p :: '.' :: r =>
    let (ed, r') := takeInt r
    do parseSummary r' { e with binary := some { pressed := p == '1', edge := (← ed.toNat?) } }
  | 'p' :: r => let (v, r') := takeInt r; do parseSummary r' { e with pulsed := some (← parseInt v) }
  | 'a' :: r => let (v, r') := takeInt r; do parseSummary r' { e with absolute := some (← v.toNat?) }
  | 's' :: r => let (v, r') := takeInt r; do parseSummary r' { e with speed := some (← parseInt v) }
  | _ => none

def parseInv (tok : String) : Option Invocation :=
  match tok.toList with
  | 't' :: rest =>
    let s := String.ofList rest
    match s.splitOn "." with
    | idS :: _ => do
      let id ← idS.toNat?
      let summary := (s.drop (idS.length + 1)).toString
      let e ← parseSummary summary.toList { id }
      pure (.trigger id e)
    | _ => none
  | k :: rest =>
    let f := (String.ofList rest).splitOn "."
    match k, f with
    | 'b', [id, st, ed] => do pure (.binary (← id.toNat?) (← st.toNat?) (← ed.toNat?))
    | 'p', [id, v] => do pure (.pulsed (← id.toNat?) (← parseInt v))
    | 'a', [id, v] => do pure (.absolute (← id.toNat?) (← parseInt v))
    | 'i', [id, v] => do pure (.intensity (← id.toNat?) (← parseInt v))
    | _, _ => none
  | [] => none

structure RObs where
  initOk : Bool
  tconn : Nat := 0
  inv : List Invocation := []
  acks : Nat := 0
  fb : Nat := 0
  model : List Nat := []
  serial : List Nat := []
  name : List Nat := []
  tj : List Nat := []
  sv : List Nat := []
  tn : Int := -1
  tg : String := "-"
  tf : String := "-"
  av : List (Nat × Nat) := []
  tlast : Nat := 0
  dataRaces : Nat := 0
  bindRace : Bool := false

def parseObs (impl : String) : Option RObs := do
  let kv := kvOf ((impl.splitOn " ").filter (· ≠ ""))
  let init ← kvGet kv "init"
  if init ≠ "ok" then return { initOk := false, tconn := kvNat kv "tconn" 0 }
  let invS := (kvGet kv "inv").getD "-"
  let inv ← if invS = "-" then some [] else (invS.splitOn ",").mapM parseInv
  let avS := (kvGet kv "av").getD "-"
  let av := if avS = "-" then [] else (avS.splitOn ",").filterMap (fun p => match p.splitOn ":" with
    | [k, v] => do pure ((← k.toNat?), (← v.toNat?))
    | _ => none)
  let g (k : String) : List Nat := hexBytes ((kvGet kv k).getD "-")
  pure { initOk := true, tconn := kvNat kv "tconn" 0, inv, acks := kvNat kv "acks" 0, fb := kvNat kv "fb" 0,
         model := g "model", serial := g "serial", name := g "name", tj := g "tj", sv := g "sv",
         tn := ((kvGet kv "tn").bind parseInt).getD (-1), tg := (kvGet kv "tg").getD "-", tf := (kvGet kv "tf").getD "-", av, tlast := kvNat kv "tlast" 0,
         dataRaces := kvNat kv "datarace" 0, bindRace := kvNat kv "bindrace" 0 == 1 }

def isPrefixOf {α} [BEq α] : List α → List α → Bool
  | [], _ => true
  | _, [] => false
  | a :: as, b :: bs => a == b && isPrefixOf as bs

/-- does the observation equal the model's outputs for the reader variant `strict`? -/
def agrees (b : Bindings) (initv : String) (items : List RItem) (fb : Bool) (o : RObs) (strict : Bool) : Bool × Bool :=
  let h := modelHistory strict items
  let all := (initMsgs initv).map (·.1) ++ h
  let st := finalState {} all
  let inv := dispatch b h
  -- model: the topology object is a fresh parse of `topoSrc` (= the stored JSON)
  let stateOk := o.tg = o.tf ∧ o.tj = st.topoSrc ∧ o.model = st.model ∧ o.serial = st.serial ∧ o.name = st.name ∧ o.tj = st.topoJSON ∧ o.sv = st.topoSVG
    ∧ (o.av.all (fun (k, v) => lookupAvail st k = some v)) ∧ (st.avail.all (fun (k, _) => (o.av.find? (·.1 = k)).isSome))
  -- a broken frame shuts the client down: messages queued right before it may be dropped (a prefix is dispatched)
  let endsBroken := items.any (fun i => match i with | .trunc _ => true | .over len => strict ∨ len < Gen.gorwpFrameLimit | _ => false)
  let full := if endsBroken then isPrefixOf o.inv inv else decide (o.inv = inv) ∧ o.acks = acks h ∧ stateOk
  -- pinned loop: with feedback the loop may block for good once more than `cap` sends were queued
  let stalled := fb ∧ o.inv.length < inv.length ∧ isPrefixOf o.inv inv ∧ o.inv.length ≥ 1
  (full, stalled)

def step (cmd : String) (args : List String) (impl : String) : String :=
  if cmd ≠ "gorwp.run" then "ERR bad-record" else
  let kv := kvOf args
  let mode := (kvGet kv "mode").getD "bin"
  let initv := (kvGet kv "init").getD "full"
  let b := parseBind ((kvGet kv "bind").getD "-")
  let fb := kvNat kv "fb" 0 ≥ 1
  let race := kvNat kv "race" 0
  match parseHist ((kvGet kv "hist").getD "-") with
  | none => "ERR bad-history"
  | some items =>
    let tags := s!"B:mode={mode} B:init={initv}" ++ (if fb then " B:feedback" else "") ++ (if race > 0 then s!" B:race={race}" else "")
    if impl.startsWith "skip:" then s!"EQ H1 B:{impl} {tags}" else
    if impl.startsWith "fatal:concurrent_map" then
      -- the process died (concurrent map access detected by the Go runtime): outside the model, property false
      s!"EQ H0:bind_race_crash {tags} B:{impl}" else
    if impl.startsWith "fatal:" then s!"NE H0:process_crash model:no-crash {tags} B:{impl}" else
    if impl.startsWith "panic:" ∨ impl.startsWith "err:" then s!"NE H0:{impl} {tags}" else
    match parseObs impl with
    | none => "ERR bad-observation"
    | some o =>
      let sc : Spec.Gorwp.Script :=
        { ascii := mode = "asc",
          initItems := (initMsgs initv).flatMap (fun (m, n) => (toItems m).map (fun i => match i with | .topo j s _ => Spec.Gorwp.Item.topo j s n | x => x)),
          bind := toSBindings b, feedback := fb, hist := specItems items }
      let so : Spec.Gorwp.Obs :=
        { initOk := o.initOk, tconn := o.tconn, inv := o.inv.map toSInv, acks := o.acks, model := o.model, serial := o.serial,
          name := o.name, tj := o.tj, sv := o.sv, tn := o.tn, tg := o.tg, tf := o.tf, av := o.av, tlast := o.tlast, dataRaces := o.dataRaces, bindRace := o.bindRace }
      let hs := match Spec.Gorwp.check sc so with | none => "H1" | some c => s!"H0:{c}"
      if !o.initOk then
        -- model: Connect fails iff the state after the initial answers is not initialised
        let st := finalState {} ((initMsgs initv).map (·.1))
        if isInitialized st then s!"NE {hs} model:init=ok {tags}" else s!"EQ {hs} {tags}"
      else
        let st0 := finalState {} ((initMsgs initv).map (·.1))
        if !isInitialized st0 then s!"NE {hs} model:init=err {tags}" else
        let hasOver := items.any (fun i => match i with | .over len => len ≥ Gen.gorwpFrameLimit | _ => false)
        let (fullP, stallP) := agrees b initv items fb o false
        let (fullS, stallS) := agrees b initv items fb o true
        if fullP ∧ (!hasOver ∨ !fullS) then s!"EQ {hs} {tags}" ++ (if hasOver then " B:reader=keeps-parsing" else "")
        else if fullS then s!"EQ {hs} {tags} B:reader=strict"
        else if stallP ∨ stallS then s!"EQ {hs} {tags} B:stalled@{o.inv.length}"
        else
          let inv := dispatch b (modelHistory false items)
          s!"NE {hs} model:ninv={inv.length},acks={acks (modelHistory false items)} {tags}"

end RawPanelVerif.Driver.Gorwp
