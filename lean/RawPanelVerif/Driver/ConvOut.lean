import RawPanelVerif.Base.Wire
import RawPanelVerif.Model.DecOut
import RawPanelVerif.Model.EncOut
import RawPanelVerif.Spec.GrammarOut
import RawPanelVerif.Gen.Consts
/-!
Driver glue for `eout.*` (C03: outbound messages → ASCII) and `dout.*` (C04: outbound ASCII → messages) records.

Message token format (space separated; byte strings lowercase hex, `-` = empty; `~` absent / `+` present):
```
msgs  := n msg*
msg   := N                                   (nil message)
       | M flow nmap (k v)* PI TOPO BURN NET CAL DCAL ST SS HB DG CONN RTS ERR MSG ENV SYS nev ev* nreg reg*
PI    := ~ | + model serial name version platform bpr maxClients nIPs ip* ptype SUP
SUP   := ~ | + <13 chars 0/1: ASCII Binary JSONFeedback JSONonInbound JSONonOutbound Processors System RawADCValues
                BurninProfile EnvHealth Registers Calibration NetworkSettings>
TOPO  := ~ | + svg json          BURN, CAL, DCAL, ERR, MSG := ~ | + hex
NET   := ~ | + dhcp address netmask gateway dns1 dns2 noDefaultRoute
ST, HB, DG := ~ | + nat          SS := ~ | + bool        ENV := ~ | + int
CONN  := ~ | + n hex*            RTS := ~ | + boots total session screensaver
SYS   := ~ | + usage temp ext volt i1 … i8 <8 chars 0/1>       (floats: hex of Go's shortest 'g' text)
ev    := id BIN PUL ABS SPD RAW  BIN := ~ | + pressed edge ; PUL, ABS, SPD, RAW := ~ | + value
reg   := reg idhex value
```
Further records (harness/convout.go, convseq.go):
```
eout.msgsx d <msgs> X n (mi ei ts absPrev speedPrev)* F k (mi fault)* | as eout.msgs     the messages with their non-carried fields set
eout.seq / eout.par / eout.reuse k <msgs>* | m·k line lists ; <oracle>    result j belongs to call j mod k, judged like eout.msgs d
eout.fields | <Message.field>*               = EncOut.protoFieldsRead ++ EncOut.protoFieldsNotCarried
dout.seq / dout.par k (<n> <hexline>*)* | 2k <msgs> ; <oracle>            result j belongs to batch j mod k, judged like dout.lines
dout.ctx <n> <hexline>* | <msgs> ; <oracle> (L <hexline> <msgs>)*         the batch read with the outside lines' own meaning
```
Oracle entries (after a `;` token in the implementation half — values of strconv / encoding/json computed by the harness):
`F prec gtok text` (`%.<prec>f`), `P text gtok` (ParseFloat 32), `J <NET fields> json` (json.Marshal), `U json (~ | + NET fields)` (json.Unmarshal).
-/
namespace RawPanelVerif.Driver.ConvOut
open RawPanelVerif RawPanelVerif.Wire RawPanelVerif.MsgOut

/-! ## token parser -/
abbrev P := StateT (List String) Option

def tok : P String := fun s => match s with | t :: r => some (t, r) | [] => none
def pNat : P Nat := do let t ← tok; match t.toNat? with | some n => pure n | none => failure
def pInt : P Int := do let t ← tok; match parseInt t with | some n => pure n | none => failure
def pBool : P Bool := do let t ← tok; match parseBool t with | some b => pure b | none => failure
def pHex : P Bytes := do let t ← tok; match unhex t with | some b => pure b.toList | none => failure
def pOpt {α : Type} (p : P α) : P (Option α) := do
  let t ← tok
  if t = "~" then pure none else if t = "+" then (do let a ← p; pure (some a)) else failure
def pRep {α : Type} (p : P α) : Nat → P (List α)
  | 0 => pure []
  | n + 1 => do let a ← p; let r ← pRep p n; pure (a :: r)
def pList {α : Type} (p : P α) : P (List α) := do let n ← pNat; pRep p n
def pBits (n : Nat) : P (List Bool) := do
  let t ← tok
  let cs := t.toList
  if cs.length = n ∧ cs.all (fun c => c = '0' ∨ c = '1') then pure (cs.map (· = '1')) else failure

def pSupport : P Support := do
  let b ← pBits 13
  match b with
  | [a0, a1, a2, a3, a4, a5, a6, a7, a8, a9, a10, a11, a12] =>
    pure ⟨a0, a1, a2, a3, a4, a5, a6, a7, a8, a9, a10, a11, a12⟩
  | _ => failure

def pPanelInfo : P PanelInfo := do
  let model ← pHex; let serial ← pHex; let name ← pHex; let version ← pHex; let platform ← pHex
  let bpr ← pBool; let mc ← pNat; let ips ← pList pHex; let pt ← pInt; let sup ← pOpt pSupport
  pure { model := model, serial := serial, name := name, softwareVersion := version, platform := platform,
         bluePillReady := bpr, maxClients := mc, lockedToIPs := ips, panelType := pt, support := sup }

def pNet : P NetCfg := do
  let d ← pBool; let a ← pHex; let m ← pHex; let g ← pHex; let d1 ← pHex; let d2 ← pHex; let n ← pBool
  pure ⟨d, a, m, g, d1, d2, n⟩

def pSys : P SysStat := do
  let u ← pNat; let t ← pHex; let e ← pHex; let v ← pHex
  let i ← pRep pInt 8
  let b ← pBits 8
  match i, b with
  | [i1, i2, i3, i4, i5, i6, i7, i8], [b1, b2, b3, b4, b5, b6, b7, b8] =>
    pure ⟨u, t, e, v, i1, i2, i3, i4, i5, i6, i7, i8, b1, b2, b3, b4, b5, b6, b7, b8⟩
  | _, _ => failure

def pEvent : P Event := do
  let id ← pNat
  let b ← pOpt (do let p ← pBool; let e ← pInt; pure (BinaryEvent.mk p e))
  let pu ← pOpt pInt; let ab ← pOpt pNat; let sp ← pOpt pInt; let ra ← pOpt pNat
  pure ⟨id, b, pu, ab, sp, ra⟩

def pReg : P Register := do let r ← pInt; let i ← pHex; let v ← pNat; pure ⟨r, i, v⟩

def pMsgBody : P OutMsg := do
  let flow ← pInt
  let avail ← pList (do let k ← pNat; let v ← pNat; pure (k, v))
  let pi ← pOpt pPanelInfo
  let topo ← pOpt (do let s ← pHex; let j ← pHex; pure (Topology.mk s j))
  let burn ← pOpt pHex
  let net ← pOpt pNet
  let cal ← pOpt pHex
  let dcal ← pOpt pHex
  let st ← pOpt pNat
  let ss ← pOpt pBool
  let hb ← pOpt pNat
  let dg ← pOpt pNat
  let conn ← pOpt (pList pHex)
  let rts ← pOpt (do let a ← pNat; let b ← pNat; let c ← pNat; let d ← pNat; pure (RunTimeStats.mk a b c d))
  let err ← pOpt pHex
  let msg ← pOpt pHex
  let env ← pOpt pInt
  let sys ← pOpt pSys
  let evs ← pList pEvent
  let regs ← pList pReg
  pure { flow := flow, avail := avail, panelInfo := pi, topology := topo, burnin := burn, netConfig := net,
         calibration := cal, defaultCalibration := dcal, sleepTimeout := st, sleepState := ss, heartBeat := hb,
         dimmedGain := dg, connections := conn, runTimeStats := rts, errorMsg := err, message := msg, envHealth := env,
         sysStat := sys, events := evs, registers := regs }

/-- `none` = nil message -/
def pMsg : P (Option OutMsg) := do
  let t ← tok
  if t = "N" then pure none else if t = "M" then (do let m ← pMsgBody; pure (some m)) else failure

def pMsgs : P (List (Option OutMsg)) := pList pMsg

/-! ## printer -/
def hx (b : Bytes) : String := hexOfBytes b
def sOpt {α : Type} (x : Option α) (f : α → List String) : List String := match x with | none => ["~"] | some a => "+" :: f a
def sBits (l : List Bool) : String := String.ofList (l.map (fun b => if b then '1' else '0'))
def sList {α : Type} (l : List α) (f : α → List String) : List String := toString l.length :: l.flatMap f

def sMsg (m : OutMsg) : List String :=
  ["M", toString m.flow] ++ sList m.avail (fun kv => [toString kv.1, toString kv.2]) ++
  sOpt m.panelInfo (fun p =>
    [hx p.model, hx p.serial, hx p.name, hx p.softwareVersion, hx p.platform, showBool p.bluePillReady,
     toString p.maxClients] ++ sList p.lockedToIPs (fun i => [hx i]) ++ [toString p.panelType] ++
    sOpt p.support (fun s => [sBits (Spec.Out.supportFlags s)])) ++
  sOpt m.topology (fun t => [hx t.svgbase, hx t.json]) ++
  sOpt m.burnin (fun j => [hx j]) ++
  sOpt m.netConfig (fun c => [showBool c.dhcp, hx c.address, hx c.netmask, hx c.gateway, hx c.firstDns, hx c.secondDns, showBool c.noDefaultRoute]) ++
  sOpt m.calibration (fun j => [hx j]) ++ sOpt m.defaultCalibration (fun j => [hx j]) ++
  sOpt m.sleepTimeout (fun v => [toString v]) ++ sOpt m.sleepState (fun b => [showBool b]) ++
  sOpt m.heartBeat (fun v => [toString v]) ++ sOpt m.dimmedGain (fun v => [toString v]) ++
  sOpt m.connections (fun c => sList c (fun i => [hx i])) ++
  sOpt m.runTimeStats (fun r => [toString r.bootsCount, toString r.totalUptime, toString r.sessionUptime, toString r.screenSaveOnTime]) ++
  sOpt m.errorMsg (fun t => [hx t]) ++ sOpt m.message (fun t => [hx t]) ++
  sOpt m.envHealth (fun e => [toString e]) ++
  sOpt m.sysStat (fun s =>
    [toString s.cpuUsage, hx s.cpuTemp, hx s.extTemp, hx s.cpuVoltage, toString s.cpuFreqCurrent, toString s.cpuFreqMin,
     toString s.cpuFreqMax, toString s.memTotal, toString s.memFree, toString s.memAvailable, toString s.memBuffers,
     toString s.memCached,
     sBits [s.underVoltageNow, s.underVoltage, s.freqCapNow, s.freqCap, s.throttledNow, s.throttled, s.softTempLimitNow, s.softTempLimit]]) ++
  sList m.events (fun e =>
    [toString e.hwcid] ++ sOpt e.binary (fun b => [showBool b.pressed, toString b.edge]) ++ sOpt e.pulsed (fun v => [toString v]) ++
    sOpt e.absolute (fun v => [toString v]) ++ sOpt e.speed (fun v => [toString v]) ++ sOpt e.rawAnalog (fun v => [toString v])) ++
  sList m.registers (fun r => [toString r.reg, hx r.id, toString r.value])

def sMsgs (ms : List OutMsg) : String := " ".intercalate (sList ms sMsg)

/-! ## oracle tables -/
structure Tables where
  f : List ((Nat × Bytes) × Bytes) := []
  p : List (Bytes × Bytes) := []
  j : List (NetCfg × Bytes) := []
  u : List (Bytes × Option NetCfg) := []
  /-- `L` entries: what the implementation returned for a line alone -/
  alone : List (Bytes × List (Option OutMsg)) := []

def pOracle : (fuel : Nat) → Tables → P Tables
  | 0, t => pure t
  | n + 1, t => fun s =>
    match s with
    | [] => some (t, [])
    | _ =>
      (do
        let k ← tok
        if k = "F" then do
          let pr ← pNat; let g ← pHex; let x ← pHex
          pOracle n { t with f := ((pr, g), x) :: t.f }
        else if k = "P" then do
          let x ← pHex; let g ← pHex
          pOracle n { t with p := (x, g) :: t.p }
        else if k = "J" then do
          let c ← pNet; let x ← pHex
          pOracle n { t with j := (c, x) :: t.j }
        else if k = "U" then do
          let x ← pHex; let c ← pOpt pNet
          pOracle n { t with u := (x, c) :: t.u }
        else if k = "L" then do
          let x ← pHex; let ms ← pMsgs
          pOracle n { t with alone := (x, ms) :: t.alone }
        else failure : P Tables) s

def unknownTok : Bytes := [63]

def oracleOf (t : Tables) (enc : Bool) : OutOracle :=
  { fmtF := fun p g => if enc then (t.f.lookup (p, g)).getD unknownTok else g
    parseF := fun x => if enc then x else (t.p.lookup x).getD unknownTok
    jsonOfNet := fun c => (t.j.lookup c).getD unknownTok
    netOfJson := fun x => (t.u.lookup x).getD none }

/-- split the implementation half at the `;` token -/
def splitSemi (ts : List String) : List String × List String :=
  (ts.takeWhile (· ≠ ";"), (ts.dropWhile (· ≠ ";")).drop 1)

def implTokens (impl : String) : List String := (impl.splitOn " ").filter (· ≠ "")

/-! ## canonical comparison of line lists: each maximal run of `map=` lines is sorted (Go map order) -/
def isMapLine (l : Bytes) : Bool := (Bytes.asc "map=").isPrefixOf l

def bytesLt (a b : Bytes) : Bool := (a.map (·.toNat)) < (b.map (·.toNat))

def insertSorted (x : Bytes) : List Bytes → List Bytes
  | [] => [x]
  | y :: ys => if bytesLt y x then y :: insertSorted x ys else x :: y :: ys

def sortBytes (l : List Bytes) : List Bytes := l.foldr insertSorted []

def canonRuns : (fuel : Nat) → List Bytes → List Bytes
  | 0, l => l
  | _, [] => []
  | n + 1, l :: ls =>
    if isMapLine l then
      let run := l :: ls.takeWhile isMapLine
      sortBytes run ++ canonRuns n (ls.dropWhile isMapLine)
    else l :: canonRuns n ls

def canon (l : List Bytes) : List Bytes := canonRuns (l.length + 1) l

def hexLines (ls : List Bytes) : String := if ls.isEmpty then "0" else toString ls.length ++ " " ++ " ".intercalate (ls.map hx)

def dedup (l : List String) : List String := l.foldl (fun acc x => if acc.contains x then acc else acc ++ [x]) []

def tagStr (tags : List String) : String := String.join ((dedup tags).map (fun t => " B:" ++ t))

/-! ## branch tags -/
def encTags (m : OutMsg) : List String :=
  (if m.flow ≠ 0 then ["flow"] else []) ++ (if m.avail ≠ [] then ["map"] else []) ++
  (match m.panelInfo with | some p => "pi" :: (match p.support with | some _ => ["sup"] | none => []) | none => []) ++
  (if m.topology.isSome then ["topo"] else []) ++ (if m.burnin.isSome then ["burn"] else []) ++
  (if m.netConfig.isSome then ["net"] else []) ++ (if m.calibration.isSome then ["cal"] else []) ++
  (if m.defaultCalibration.isSome then ["dcal"] else []) ++ (if m.sleepTimeout.isSome then ["st"] else []) ++
  (if m.sleepState.isSome then ["ss"] else []) ++ (if m.heartBeat.isSome then ["hb"] else []) ++
  (if m.dimmedGain.isSome then ["dg"] else []) ++ (if m.connections.isSome then ["conn"] else []) ++
  (if m.runTimeStats.isSome then ["rts"] else []) ++ (if m.errorMsg.isSome then ["err"] else []) ++
  (if m.message.isSome then ["msg"] else []) ++ (if m.envHealth.isSome then ["env"] else []) ++
  (if m.sysStat.isSome then ["sys"] else []) ++
  m.events.flatMap (fun e =>
    (match e.binary with | some b => [if b.edge > 0 then "ev.bin.edge" else "ev.bin"] | none => []) ++
    (if e.pulsed.isSome then ["ev.enc"] else []) ++ (if e.absolute.isSome then ["ev.abs"] else []) ++
    (if e.speed.isSome then ["ev.speed"] else []) ++ (if e.rawAnalog.isSome then ["ev.raw"] else []) ++
    (if e.binary.isNone ∧ e.pulsed.isNone ∧ e.absolute.isNone ∧ e.speed.isNone ∧ e.rawAnalog.isNone then ["ev.none"] else [])) ++
  m.registers.map (fun r => "reg." ++ toString r.reg) ++
  (if m = {} then ["empty"] else [])

def strOf (b : Bytes) : String := String.ofList (b.map (fun c => Char.ofNat c.toNat))

def decTag (o : OutOracle) (l : Bytes) : List String :=
  let cls := match Spec.Out.readLine o l with
    | .grammar [] => "g0" | .grammar _ => "g" | .nonGrammar => "ng" | .outside => "ood"
  let br :=
    if l = [] then "blank"
    else if (DecOut.flowOfWord l).isSome then "flow"
    else match DecOut.matchCmd DecOut.kindsRepaired l with
    | some m => "ev." ++ strOf m.kind ++ (if m.edge ≠ [] then ".edge" else "")
    | none =>
      if (DecOut.matchMap l).isSome then "map"
      else match DecOut.matchGeneric l with
      | some (k, _) => "key." ++ strOf k
      | none => match DecOut.matchReg l with
        | some (w, _, _) => "reg." ++ strOf w
        | none => "fallthrough"
  [cls, br]

/-! ## record interpreters -/

def parseAll {α : Type} (p : P α) (ts : List String) : Option α :=
  match p ts with | some (a, []) => some a | _ => none

/-- one call of the encoder: `lines` = what the implementation returned (`none` = panic / marshal error) -/
def evalEnc (o : OutOracle) (mode : String) (ms : List OutMsg) (lines : Option (List Bytes)) : String :=
        -- mode c: what the C caller of rawpanel-lib-c reads (LF-join, C.CString: up to the first NUL), split at LF
        let nul := mode = "c" && (EncOut.encOut o ms).any (fun l => l.contains 0)
        let model := match mode, ms with
          | "c", [m] => EncOut.cBindingLines o m
          | _, _ => EncOut.encOut o ms
        let tags := ("mode." ++ mode) :: (if nul then ["c.nul-truncated"] else []) ++ ms.flatMap encTags
        match lines with
        | none =>
          -- panic or marshal error
          s!"NE H0:panic {hexLines model}{tagStr tags}"
        | some lines =>
          let inDom := Spec.Out.inDomainOut o ms && !nul
          let h :=
            if !inDom then "H1"
            else if Spec.Out.approx (ms.map (Spec.Out.effectsOfOut o)) (Spec.Out.readOutbound o lines) then "H1"
            else "H0:effects"
          let tags := if inDom then tags else "ood" :: tags
          if canon model = canon lines then s!"EQ {h}{tagStr tags}" else s!"NE {h} {hexLines model}{tagStr tags}"

/-- `eout.msgs <mode> <msgs> | <n> <hexline>* ; <oracle>`   (mode d = direct call, c = Marshal→Unmarshal→encode→join LF, one message) -/
def stepEnc (args : List String) (impl : String) : String :=
  match args with
  | mode :: rest =>
    match parseAll pMsgs rest with
    | none => "ERR bad-record"
    | some oms =>
      if oms.any Option.isNone then "ERR nil-input-message"
      else
      let ms := oms.filterMap id
      let (outT, orT) := splitSemi (implTokens impl)
      match parseAll (pOracle orT.length {}) orT with
      | none => "ERR bad-oracle"
      | some tb => evalEnc (oracleOf tb true) mode ms (parseAll (pList pHex) outT)
  | _ => "ERR bad-record"

/-- the non-carried fields of an `eout.msgsx` record: `X n (mi ei ts absPrev speedPrev)* F k (mi fault)*` -/
def pExtras : P (List (Nat × Nat × EncOut.EventNC) × List (Nat × Bool)) := do
  let x ← tok
  if x ≠ "X" then failure
  let evs ← pList (do
    let mi ← pNat; let ei ← pNat; let ts ← pNat; let ap ← pNat; let sp ← pInt
    pure (mi, ei, ({ timestamp := ts, absPrev := ap, speedPrev := sp } : EncOut.EventNC)))
  let f ← tok
  if f ≠ "F" then failure
  let bus ← pList (do let mi ← pNat; let b ← pBool; pure (mi, b))
  pure (evs, bus)

/-- the full messages of an `eout.msgsx` record -/
def withExtras (ms : List OutMsg) (ex : List (Nat × Nat × EncOut.EventNC) × List (Nat × Bool)) : List EncOut.OutMsgX :=
  (ms.zip (List.range ms.length)).map (fun (m, mi) =>
    { msg := m, busFault := ex.2.lookup mi,
      evNC := (List.range m.events.length).map (fun ei =>
        ((ex.1.find? (fun e => e.1 = mi ∧ e.2.1 = ei)).map (·.2.2)).getD {}) })

/-- `eout.msgsx d <msgs> X … F … | <n> <hexline>* ; <oracle>`: the model is `encOutX` (reads the carried part only); the
property is evaluated against the effects of the carried part (the Spec's effects have no other) -/
def stepEncX (args : List String) (impl : String) : String :=
  match args with
  | mode :: rest =>
    match (do let ms ← pMsgs; let ex ← pExtras; pure (ms, ex) : P _) rest with
    | some ((oms, ex), []) =>
      if oms.any Option.isNone then "ERR nil-input-message"
      else
      let xs := withExtras (oms.filterMap id) ex
      let (outT, orT) := splitSemi (implTokens impl)
      match parseAll (pOracle orT.length {}) orT with
      | none => "ERR bad-oracle"
      | some tb =>
        let o := oracleOf tb true
        let lines := parseAll (pList pHex) outT
        let a := evalEnc o mode (xs.map (·.msg)) lines
        -- `evalEnc` compares with `encOut` on the carried part, which is `encOutX` by definition; checked here as well
        let same := match lines with | some ls => canon (EncOut.encOutX o xs) = canon ls | none => false
        if same = a.startsWith "EQ" then a ++ " B:noncarried" else "ERR model-mismatch"
    | _ => "ERR bad-record"
  | _ => "ERR bad-record"

/-- answers of the parts of a multi-call record combined: `NE` if any part differs, the first `H0` clause (with the index
of its part), the model output of the first differing part, all branch tags -/
def combine (tag : String) (answers : List String) : String :=
  let parts := answers.map implTokens
  if parts.any (fun p => p.head? = some "ERR") then "ERR bad-part"
  else
    let ne := parts.any (fun p => p.head? = some "NE")
    let idx := List.range parts.length
    let h0 := (parts.zip idx).findSome? (fun (p, i) => match p[1]? with
      | some h => if h.startsWith "H0" then some s!"{h}@part{i}" else none
      | none => none)
    let modelOut := (parts.zip idx).findSome? (fun (p, i) =>
      if p.head? = some "NE" then some (s!"part{i}: " ++ " ".intercalate ((p.drop 2).filter (fun t => !t.startsWith "B:"))) else none)
    let tags := tagStr (tag :: parts.flatMap (fun p => (p.filter (·.startsWith "B:")).map (fun t => (t.drop 2).toString)))
    if ne then s!"NE {h0.getD "H1"} {modelOut.getD ""}{tags}" else s!"EQ {h0.getD "H1"}{tags}"

/-- a sequence of `n hexline*` lists until the tokens are used up -/
def pManyLines : (fuel : Nat) → P (List (List Bytes))
  | 0 => pure []
  | n + 1 => fun s =>
    match s with
    | [] => some ([], [])
    | _ => (do let a ← pList pHex; let r ← pManyLines n; pure (a :: r) : P _) s

def pManyMsgs : (fuel : Nat) → P (List (List (Option OutMsg)))
  | 0 => pure []
  | n + 1 => fun s =>
    match s with
    | [] => some ([], [])
    | _ => (do let a ← pMsgs; let r ← pManyMsgs n; pure (a :: r) : P _) s

/-- `eout.seq` / `eout.par` / `eout.reuse`  `k <msgs>* | m·k line lists ; <oracle>` -/
def stepEncSeq (tag : String) (args : List String) (impl : String) : String :=
  match parseAll (pList pMsgs) args with
  | none => "ERR bad-record"
  | some olists =>
    if olists.any (fun l => l.any Option.isNone) then "ERR nil-input-message"
    else
    let lists := olists.map (fun l => l.filterMap id)
    let k := lists.length
    let (outT, orT) := splitSemi (implTokens impl)
    match parseAll (pOracle orT.length {}) orT with
    | none => "ERR bad-oracle"
    | some tb =>
      let o := oracleOf tb true
      match parseAll (pManyLines (outT.length + 1)) outT with
      | none => s!"NE H0:panic - B:{tag}"
      | some rs =>
        if k = 0 ∨ rs.length = 0 ∨ rs.length % k ≠ 0 then "ERR bad-impl"
        else combine tag ((rs.zip (List.range rs.length)).map (fun (r, j) => evalEnc o "d" (lists.getD (j % k) []) (some r)))

/-- one call of the decoder: `outT` = the implementation's message tokens; `alone` = what the implementation returned
for single lines (`dout.ctx` records; empty otherwise) -/
def evalDec (o : OutOracle) (lines : List Bytes) (outT : List String) (alone : List (Bytes × List (Option OutMsg))) : String :=
      let model := DecOut.decOut o lines
      let ms := sMsgs model
      let tags := lines.flatMap (decTag o)
      match parseAll pMsgs outT with
      | none => s!"NE H0:panic {ms}{tagStr tags}"
      | some oms =>
        let inDom := Spec.Out.inDomainLines o lines
        let effs := fun (l : List (Option OutMsg)) => (l.filterMap id).flatMap (Spec.Out.effectsOfOut o)
        let h :=
          if oms.any Option.isNone then "H0:nil-message"
          else if inDom then
            (if effs oms = Spec.Out.readOutbound o lines then "H1" else "H0:effects")
          -- a batch with lines outside the grammar's domain: every line keeps the meaning it has alone
          else if lines.all (fun l => !l.contains 10) && lines.all (fun l => Spec.Out.readLine o l != .outside || (alone.lookup l).isSome) then
            (if alone.any (fun e => e.2.any Option.isNone) then "H0:nil-message B:ctx"
             else if effs oms = Spec.Out.readOutboundWith o (fun l => effs ((alone.lookup l).getD [])) lines then "H1 B:ctx"
             else "H0:line-context B:ctx")
          else "H1"
        if " ".intercalate outT = ms then s!"EQ {h}{tagStr tags}" else s!"NE {h} {ms}{tagStr tags}"

/-- `dout.lines <n> <hexline>* | <msgs> ; <oracle>`   and   `dout.ctx … | <msgs> ; <oracle> (L <hexline> <msgs>)*` -/
def stepDec (args : List String) (impl : String) : String :=
  match parseAll (pList pHex) args with
  | none => "ERR bad-record"
  | some lines =>
    let (outT, orT) := splitSemi (implTokens impl)
    match parseAll (pOracle orT.length {}) orT with
    | none => "ERR bad-oracle"
    | some tb => evalDec (oracleOf tb false) lines outT tb.alone

/-- `dout.seq k (<n> <hexline>*)* | 2k <msgs> ; <oracle>` -/
def stepDecSeq (tag : String) (args : List String) (impl : String) : String :=
  match parseAll (pList (pList pHex)) args with
  | none => "ERR bad-record"
  | some batches =>
    let k := batches.length
    let (outT, orT) := splitSemi (implTokens impl)
    match parseAll (pOracle orT.length {}) orT with
    | none => "ERR bad-oracle"
    | some tb =>
      let o := oracleOf tb false
      match parseAll (pManyMsgs (outT.length + 1)) outT with
      | none => s!"NE H0:panic - B:{tag}"
      | some rs =>
        if k = 0 ∨ rs.length = 0 ∨ rs.length % k ≠ 0 then "ERR bad-impl"
        else combine tag ((rs.zip (List.range rs.length)).map (fun (r, j) =>
          evalDec o (batches.getD (j % k) []) (toString r.length :: r.flatMap (fun m => match m with | some m => sMsg m | none => ["N"])) []))

/-- `eout.fields | <Message.field>*` -/
def stepFields (impl : String) : String :=
  let got := implTokens impl
  let want := EncOut.protoFieldsRead ++ EncOut.protoFieldsNotCarried
  if got.all want.contains && want.all got.contains then "EQ H1 B:proto-fields"
  else
    let extra := got.filter (fun f => !want.contains f)
    let missing := want.filter (fun f => !got.contains f)
    s!"NE H1 unknown-to-model:{",".intercalate extra} missing-in-proto:{",".intercalate missing} B:proto-fields"

/-! ## the byte matchers of the decoder model against the library's real regular expressions -/

/-- regenerated source text of a regex variable of converterFunctions.go -/
def rxSource (name : String) : Option String :=
  if name = "regex_cmd_inbound" then some Gen.regex_cmd_inbound_src
  else if name = "regex_map" then some Gen.regex_map_src
  else if name = "regex_genericSingle_inbound" then some Gen.regex_genericSingle_inbound_src
  else if name = "regex_registersOut" then some Gen.regex_registersOut_src
  else none

/-- sub-matches 1.. the model's matcher returns for `line` (`none` = no match) -/
def rxModel (name : String) (line : Bytes) : Option (Option (List Bytes)) :=
  if name = "regex_cmd_inbound" then
    some ((DecOut.matchCmd DecOut.kindsRepaired line).map (fun m => (DecOut.CmdM.subs line m).drop 1))
  else if name = "regex_map" then some ((DecOut.matchMap line).map (fun kv => [kv.1, kv.2]))
  else if name = "regex_genericSingle_inbound" then some ((DecOut.matchGeneric line).map (fun kv => [kv.1, kv.2]))
  else if name = "regex_registersOut" then some ((DecOut.matchReg line).map (fun t => [t.1, t.2.1, t.2.2]))
  else none

/-- `dout.rx <var> | <hex of Regexp.String()>`: the compiled object the converters run has the regenerated source text -/
def stepRx (args : List String) (impl : String) : String :=
  match args, implTokens impl with
  | [name], [h] =>
    match rxSource name, unhex h with
    | some src, some b => if src.toUTF8.toList = b.toList then "EQ H1" else s!"NE H1 {hx src.toUTF8.toList} B:regex-source-differs"
    | _, _ => "ERR bad-record"
  | _, _ => "ERR bad-record"

/-- `dout.match <var> <hexline> | - | M <hex submatch>*` -/
def stepMatch (args : List String) (impl : String) : String :=
  match args with
  | [name, l] =>
    match unhex l, rxModel name with
    | some a, f =>
      match f a.toList with
      | none => "ERR bad-record"
      | some r =>
        let model := match r with
          | none => "-"
          | some subs => "M" ++ String.join (subs.map (fun b => " " ++ hx b))
        let tag := s!" B:rx.{name}.{if r.isSome then "match" else "nomatch"}"
        if " ".intercalate (implTokens impl) = model then s!"EQ H1{tag}" else s!"NE H1 {model}{tag}"
    | none, _ => "ERR bad-record"
  | _ => "ERR bad-record"

def step (cmd : String) (args : List String) (impl : String) : String :=
  if cmd = "eout.msgs" then stepEnc args impl
  else if cmd = "eout.msgsx" then stepEncX args impl
  else if cmd = "eout.seq" then stepEncSeq "seq" args impl
  else if cmd = "eout.par" then stepEncSeq "par" args impl
  else if cmd = "eout.reuse" then stepEncSeq "reuse" args impl
  else if cmd = "eout.fields" then stepFields impl
  else if cmd = "dout.lines" || cmd = "dout.ctx" then stepDec args impl
  else if cmd = "dout.seq" then stepDecSeq "seq" args impl
  else if cmd = "dout.par" then stepDecSeq "par" args impl
  else if cmd = "dout.match" then stepMatch args impl
  else if cmd = "dout.rx" then stepRx args impl
  else "ERR bad-record"

end RawPanelVerif.Driver.ConvOut
