import RawPanelVerif.Base.Wire
import RawPanelVerif.Model.Net
import RawPanelVerif.Spec.NetSpec
/-!
Driver glue for the `net.*` records (C08, C09, C10, C12).

Record:  `net.<fam> <options> conn <actions> [conn …] [sub <actions> …] | <trace tokens>`
Answer:  `EQ|NE  H1|H0:<clause>  [model=…]  [B:<tag>…]`

* `H1/H0` is the Spec monitor of the family evaluated on the observed trace (`Spec.Net.check…`, with the numbers of
  the property text: `Spec.Net.frameLimit`, never the regenerated ones); a script outside the property's domain answers
  `H1 B:skip-<reason>`; a script of which only some connections are outside it answers `H1 B:skipconn-conn<k>:<reason>`
  (every other connection and every clause about the whole run was judged).
* `EQ/NE` compares the Model's deterministic outcome for the script (with the panel's *observed* send times) with
  the observed outcome: deliveries per connection, drop or no drop, drop time within `Spec.Net.tol`, negotiated
  mode, error text, bytes written (C09: byte for byte where the trace lists a submission, by length where it gives only
  its size).  When a deadline decision of the model has less than `margin` ms to spare the record (C12: the connection)
  is tagged `B:tight-margin` and EQ is decided by the monitor alone.  A record (C12: a connection) that is then also
  outside the monitor's domain is checked by nothing: it is tagged `B:unchecked`, and `tools/propcfg` does not count it.
-/
namespace RawPanelVerif.Driver.Net
open RawPanelVerif RawPanelVerif.Wire
open RawPanelVerif.Spec.Net (Script Act SubAct Ev TEv Trace Verdict Window)

abbrev Bytes := List UInt8

def hexBytes (s : String) : Option Bytes := (unhex s).map (·.toList)

/-- `n` + comma separated hex items (`-` = empty item; `0:-` = empty list) -/
def parseItems (n : String) (items : String) : Option (List Bytes) := do
  let n ← n.toNat?
  if n = 0 then pure []
  else
    let l ← (items.splitOn ",").mapM hexBytes
    if l.length = n then pure l else none

def restOf (cs : List Char) : String := String.ofList cs

def parseAct (tok : String) : Option Act :=
  match tok.toList with
  | 'p' :: r =>
    match (restOf r).splitOn ":" with
    | [n] => do let n ← n.toNat?; pure (.waitRx n 3000)
    | [n, ms] => do let n ← n.toNat?; let ms ← ms.toNat?; pure (.waitRx n ms)
    | _ => none
  | ['h'] => some .hs
  | ['c'] => some .close
  | ['r'] => some .reset
  | ['z'] => some .pause
  | ['Z'] => some .resume
  | 'w' :: r => (hexBytes (restOf r)).map .write
  | 's' :: r => (restOf r).toNat?.map .sleep
  | 'e' :: r => (restOf r).toNat?.map .waitEof
  | _ => none

def parseSubAct (tok : String) : Option SubAct :=
  match tok.toList with
  | ['h'] => some (.hs 1)
  | 'h' :: r => (restOf r).toNat?.map .hs
  | 's' :: r => (restOf r).toNat?.map .sleep
  | 'B' :: r =>
    match (restOf r).splitOn "x" with
    | [n, sz] => do let n ← n.toNat?; let sz ← sz.toNat?; pure (.big n sz)
    | _ => none
  | 'm' :: r =>
    match (restOf r).splitOn ":" with
    | [n, items] => (parseItems n items).map .submit
    | _ => none
  | _ => none

inductive Sect | opts | conn | sub

def parseScriptAux : Sect → List String → Script → Option Script
  | _, [], sc => some { sc with conns := sc.conns.reverse.map List.reverse, subs := sc.subs.reverse.map List.reverse }
  | sect, tok :: rest, sc =>
    if tok = "conn" then parseScriptAux .conn rest { sc with conns := [] :: sc.conns }
    else if tok = "sub" then parseScriptAux .sub rest { sc with subs := [] :: sc.subs }
    else match sect with
      | .opts =>
        match tok.splitOn "=" with
        | ["mode", v] => parseScriptAux sect rest { sc with binary := v = "b" }
        | ["modes", v] => parseScriptAux sect rest { sc with modes := v.toList.map (· = 'b') }
        | ["retry", v] => do let n ← v.toNat?; parseScriptAux sect rest { sc with retryS := n }
        | ["end", v] => do let n ← v.toNat?; parseScriptAux sect rest { sc with endMs := n }
        | ["voc", v] =>
          match v.splitOn ":" with
          | [n, items] => do let l ← parseItems n items; parseScriptAux sect rest { sc with voc := l }
          | _ => none
        | [_, _] => parseScriptAux sect rest sc      -- options that only concern the harness (cap, heap, qcap)
        | _ => none
      | .conn =>
        match sc.conns with
        | c :: cs => do let a ← parseAct tok; parseScriptAux sect rest { sc with conns := (a :: c) :: cs }
        | [] => none
      | .sub =>
        match sc.subs with
        | c :: cs => do let a ← parseSubAct tok; parseScriptAux sect rest { sc with subs := (a :: c) :: cs }
        | [] => none

def parseScript (args : List String) : Option Script := parseScriptAux .opts args {}

def parseEv (tok : String) : Option TEv := do
  let (body, t) ← match tok.splitOn "@" with
    | [b, t] => some (b, t)
    | _ => none
  let t ← t.toNat?
  let e : Ev ← match body.splitOn ":" with
    | ["acc", k] => k.toNat?.map .acc
    | ["rx", k, b] => do let k ← k.toNat?; let b ← hexBytes b; pure (.rx k b)
    | ["eof", k] => k.toNat?.map .eof
    | ["rst", k] => k.toNat?.map .rst
    | ["tx", k, i] => do let k ← k.toNat?; let i ← i.toNat?; pure (.tx k i)
    | ["txerr", k, i] => do let k ← k.toNat?; let i ← i.toNat?; pure (.txerr k i)
    | ["cl", k] => k.toNat?.map .cl
    | ["to", k, i] => do let k ← k.toNat?; let i ← i.toNat?; pure (.tmo k i)
    | ["con", b, err] => do let b ← parseBool b; let err ← hexBytes err; pure (.con b err)
    | ["dis", b] => (parseBool b).map .dis
    | ["msg", n, items] => (parseItems n items).map .msg
    | ["cancel"] => some .cancel
    | ["ret"] => some .ret
    | ["noret"] => some .noret
    | ["wg"] => some .wg
    | ["nowg"] => some .nowg
    | ["sub", g, i, n, items] => do let g ← g.toNat?; let i ← i.toNat?; let l ← parseItems n items; pure (.sub g i l)
    | ["lin", g, i, n, items] => do let g ← g.toNat?; let i ← i.toNat?; let l ← parseItems n items; pure (.lin g i l)
    | ["heap", n] => n.toNat?.map .heap
    | ["det", b] => (parseBool b).map .det
    | ["dec", i, n, items] => do let i ← i.toNat?; let l ← parseItems n items; pure (.dec i l)
    | ["dex", i, n, items] => do let i ← i.toNat?; let l ← parseItems n items; pure (.dex i l)
    | ["big", g, i, n, sz] => do let g ← g.toNat?; let i ← i.toNat?; let n ← n.toNat?; let sz ← sz.toNat?; pure (.big g i n sz 0 0 0 0)
    | ["big", g, i, n, sz, bf, bb, al, ab] => do
      let g ← g.toNat?; let i ← i.toNat?; let n ← n.toNat?; let sz ← sz.toNat?
      let bf ← bf.toNat?; let bb ← bb.toNat?; let al ← al.toNat?; let ab ← ab.toNat?
      pure (.big g i n sz bf bb al ab)
    | ["ping", b] => (hexBytes b).map .ping
    | "panic" :: _ => some .panic
    | _ => some .other
  pure ⟨e, t⟩

def parseTrace (impl : String) : Option Trace :=
  ((impl.splitOn " ").filter (· ≠ "")).mapM parseEv

/-! ### model outcome of one connection -/

def clTime (tr : Trace) (k : Nat) : Option Nat := Spec.Net.timeOf (fun e => e == .cl k) tr

/-- timed script of the data phase with the panel's observed send times (absolute ms) -/
def timedScript (tr : Trace) (k : Nat) : List (Nat × Act) → Nat → Option Net.TScript
  | [], prev =>
    match Spec.Net.cancelTime tr with
    | some c => some [(c - prev, .nothing)]
    | none => some []
  | (i, a) :: rest, prev =>
    match a with
    | .write b => do
      let t ← Spec.Net.txTime tr k i
      let r ← timedScript tr k rest (max t prev)
      pure ((max t prev - prev, .bytes b) :: r)
    | .close | .reset => do
      let t ← clTime tr k
      pure [(max t prev - prev, .close)]
    | _ => timedScript tr k rest prev

structure ConnModel where
  delivered : List (List Bytes)
  stop : Option (Net.Stop × Nat)
  tight : Bool

/-- the mode the *model* negotiates on a connection: `classifyClient` applied to what this connection's script
replies to the probe (the actions before the handshake marker) — a function of this connection alone -/
def modelBinary (_k : Nat) (acts : List Act) : Bool :=
  let ps := Spec.Net.probeScriptOf (acts.takeWhile (· != .hs))
  (Net.classifyClient (Net.clientReply ps.delay ps.first ps.closes)).binary

def modelConn (sc : Script) (tr : Trace) (k : Nat) (acts : List Act) (w : Window) : Option ConnModel := do
  let da := Spec.Net.dataActs acts
  let ts ← timedScript tr k da w.con.t
  -- the probe deadline was armed when the connection was new; lines 117 … 184 run just before `onconnect`
  let tp := (Spec.Net.accTime tr k).getD w.con.t
  if modelBinary k acts then
    let o := Net.runT Net.repaired Spec.Net.margin (Net.CState.start Net.repaired tp w.con.t) ts {}
    let d ← Spec.Net.decodeAllM sc tr true (Net.deliveries o.effs)
    pure ⟨d, o.stop, o.tight⟩
  else
    let r := Net.runA (Net.AState.start Net.repaired tp w.con.t) ts ({}, [])
    let d ← Spec.Net.decodeAllM sc tr false r.2
    pure ⟨d, r.1.stop, false⟩

def absDiff (a b : Nat) : Nat := if a ≤ b then b - a else a - b

/-- compare the model's outcome for connection k with its observed window; returns (equal, tight, description) -/
def compareConn (sc : Script) (tr : Trace) (k : Nat) (acts : List Act) (w : Option Window) : Bool × Bool × String :=
  match w with
  | none => (false, false, s!"conn{k}:no-onconnect")
  | some w =>
    match modelConn sc tr k acts w with
    | none => (false, false, s!"conn{k}:script-not-executed-or-decoder-missing")
    | some m =>
      let delOk := Spec.Net.msgsOf w.body == m.delivered
      let droppedBeforeCancel := w.dis.isSome && !(Spec.Net.anyEv (· == .cancel) w.body)
      let stopOk := match m.stop with
        | none => !droppedBeforeCancel
        | some (_, t) =>
          match w.dis with
          | some d => droppedBeforeCancel && d.e == .dis false && decide (absDiff d.t t ≤ Spec.Net.tol)
          | none => false
      let modeOk := match w.con.e with | .con b _ => b == modelBinary k acts | _ => false
      let desc := s!"conn{k}:deliveries={m.delivered.length}/{(Spec.Net.msgsOf w.body).length},stop=" ++
        (match m.stop with
         | none => "none"
         | some (.overLimit n, t) => s!"overLimit({n})@{t}"
         | some (.timeout, t) => s!"timeout@{t}"
         | some (.peerClosed, t) => s!"peerClosed@{t}") ++
        ",observed=" ++ (match w.dis with | some d => s!"dis@{d.t}" | none => "none")
      (delOk && stopOk && modeOk, m.tight, desc)

def compareConns (sc : Script) (tr : Trace) : Nat → List (List Act) → List Window → Bool × Bool × List String
  | _, [], _ => (true, false, [])
  | k, acts :: rest, ws =>
    let c := compareConn sc tr k acts ws.head?
    let r := compareConns sc tr (k + 1) rest ws.tail
    (c.1 && r.1, c.2.1 || r.2.1, if c.1 then r.2.2 else c.2.2 :: r.2.2)

def faultTag (sc : Script) : String :=
  match sc.conns with
  | acts :: _ =>
    let da := Spec.Net.dataActs acts
    let an := if sc.binary then Spec.Net.analyseB Spec.Net.frameLimit sc.endMs da [] 0 0 else Spec.Net.analyseA da []
    match an.fault with
    | .none => "fault-none"
    | .over _ => "fault-over-limit"
    | .stall _ =>
      match (Spec.Net.parse Spec.Net.frameLimit an.stream).2 with
      | .incomplete r => if r.length < 4 then "fault-stall-in-header" else "fault-stall-in-payload"
      | _ => "fault-stall"
    | .closed _ => "fault-panel-closes"
    | .unclear => "fault-unclear"
  | [] => "no-conn"

/-! ### C09: model of the written bytes -/

def subItems (ascii : Bool) (g i : Nat) : Trace → Option (List Bytes)
  | [] => none
  | e :: r => match e.e with
    | .sub g' i' items => if g' = g ∧ i' = i ∧ ¬ ascii then some items else subItems ascii g i r
    | .lin g' i' items => if g' = g ∧ i' = i ∧ ascii then some items else subItems ascii g i r
    | _ => subItems ascii g i r

/-- find the order in which the submissions were taken (the channel's order is not observable directly) -/
def findOrder (overhead : Nat) : Nat → List Bytes → List (List Spec.Net.Sub) → Option (List Spec.Net.Sub)
  | 0, _, _ => none
  | fuel + 1, units, pending =>
    let pending := pending.map (fun q => q.dropWhile (·.isEmpty))
    if pending.all (·.isEmpty) then (if units.isEmpty then some [] else none)
    else
      (List.range pending.length).findSome? (fun g =>
        match pending[g]? with
        | some (s :: q) =>
          match Spec.Net.stripSub overhead units s with
          | some rest => (findOrder overhead fuel rest (pending.set g q)).map (s :: ·)
          | none => none
        | _ => none)

/-- what the model's writer puts on the wire for the submissions in dequeue order, compared with what the panel
received: byte for byte where the trace lists the submission, by length where it only gives its size (`big`) -/
def matchWritten (ascii : Bool) : List Spec.Net.Sub → Bytes → Bool
  | [], rest => rest.isEmpty
  | .listed u :: r, rest =>
    let w := Net.writeOne (if ascii then .ascii else .binary) (if ascii then ⟨[], u⟩ else ⟨u, []⟩)
    Spec.Net.isPrefixB w rest && matchWritten ascii r (rest.drop w.length)
  | .sized _ bytes :: r, rest => decide (bytes ≤ rest.length) && matchWritten ascii r (rest.drop bytes)

def compareC09 (sc : Script) (tr : Trace) : Bool × String :=
  -- the connection that is up at the end: its writer (and only its writer) takes what is handed over after its onconnect
  let kLast := sc.conns.length - 1
  let ascii := !(modelBinary kLast ((sc.conns[kLast]?).getD []))
  let gs := List.range sc.subs.length
  let after := Spec.Net.afterNthCon (kLast + 1) tr
  let pending := gs.map (fun g => Spec.Net.subsOf ascii g after)
  let nsub := (pending.map List.length).sum
  let rx := Spec.Net.rxBytes kLast tr
  let pre := Net.probeBytes [8, 1] ++ (if ascii then [10] else [])
  let data := rx.drop pre.length
  let units := if ascii then (Spec.Net.splitLF data).1 else (Spec.Net.parse 4294967296 data).1
  let order := if sc.subs.length ≤ 1 then some (pending.headD []) else findOrder (if ascii then 1 else 4) (nsub + 1) units pending
  match order with
  | none => (false, "no-dequeue-order-explains-the-bytes")
  | some ord =>
    let unlisted := ord.any (fun u => match u with | .sized _ _ => true | _ => false)
    (Spec.Net.isPrefixB pre rx && matchWritten ascii ord data,
     s!"submissions={ord.length},received={rx.length}" ++ (if unlisted then ",unlisted-by-length" else ""))

/-! ### C12: model verdict -/

/-- one connection of a C12 script: (model = implementation, tight, description) -/
def compareConnC12 (client : Bool) (tr : Trace) (k : Nat) (acts : List Act) : Bool × Bool × String :=
  let ps := Spec.Net.probeScriptOf acts
  let delay := Spec.Net.replyDelayObs tr k ps.delay
  let timeout := if client then Net.probeTimeout else Net.detectorTimeout
  let tight := (ps.reply.isSome || ps.closes) && decide (absDiff delay timeout < Spec.Net.margin)
  -- the single probe `Read` returns the panel's first segment
  let reply := if client then Net.clientReply delay ps.first ps.closes else Net.detectorReply delay ps.first ps.closes
  let v := if client then Net.classifyClient reply else Net.classifyDetector reply
  let want := Net.probeBytes [8, 1] ++ v.writes.flatten
  let rx := Spec.Net.rxBytes k tr
  let rxOk := if ps.closes then Spec.Net.isPrefixB rx want else rx == want
  match Spec.Net.nthVerdict client k tr with
  | none => (false, tight, s!"conn{k}:no-verdict-observed")
  | some (bin, err) =>
    (bin == v.binary && err == v.errorMsg && rxOk, tight,
     s!"conn{k}:binary={showBool v.binary},err={hexOfBytes v.errorMsg},rx={hexOfBytes want}")

def compareConnsC12 (client : Bool) (tr : Trace) : Nat → List (List Act) → List (Bool × Bool × String)
  | _, [] => []
  | k, acts :: rest => compareConnC12 client tr k acts :: compareConnsC12 client tr (k + 1) rest

def isFail : Verdict → Bool | .fail _ => true | _ => false
def isSkip : Verdict → Bool | .skip _ => true | _ => false

/-- C12, all connections: a connection whose reply lies within `margin` of the end of the window is decided by the
monitor alone (the model's prediction is schedule dependent there), every other one by the comparison; a connection that
is neither compared (tight) nor judged (outside the property's domain) is *unchecked*.
Result: (EQ, some connection tight, descriptions of the differing connections, number of unchecked connections) -/
def compareC12 (client : Bool) (sc : Script) (tr : Trace) : Bool × Bool × String × Nat :=
  let cs := compareConnsC12 client tr 0 sc.conns
  let vs := (Spec.Net.connVerdictsC12 client tr 0 sc.conns).map (·.2)
  let rows := cs.zip vs
  let eq := !sc.conns.isEmpty && rows.all (fun (c, v) => if c.2.1 then !isFail v else c.1)
  let tight := cs.any (·.2.1)
  let unchecked := (rows.filter (fun (c, v) => c.2.1 && isSkip v)).length
  let desc := " ".intercalate ((rows.filter (fun (c, v) => if c.2.1 then isFail v else !c.1)).map (fun (c, _) => c.2.2))
  (eq, tight, desc, unchecked)

/-! ### one record -/

def verdictStr : Verdict → String × List String
  | .ok => ("H1", [])
  | .skip r => ("H1", [s!"B:skip-{r}"])
  | .partly rs => ("H1", rs.map (fun r => s!"B:skipconn-{r}"))
  | .fail c => (s!"H0:{c}", [])

def step (cmd : String) (args : List String) (impl : String) : String :=
  match parseScript args, parseTrace impl with
  | none, _ => "ERR bad-script"
  | _, none => "ERR bad-trace"
  | some sc, some tr =>
    let modeTag := if sc.binary then "B:mode-binary" else "B:mode-ascii"
    -- (model = implementation, tight, description, verdict, tags, connections neither compared nor judged)
    let (eq, tight, desc, verdict, tags, unchecked) : Bool × Bool × String × Verdict × List String × Nat :=
      if cmd = "net.c08" then
        let c := compareConns sc tr 0 sc.conns (Spec.Net.windows (sc.conns.length + 2) tr)
        let v := Spec.Net.checkC08 Spec.Net.frameLimit sc tr
        (if c.2.1 then !isFail v else c.1, c.2.1, " ".intercalate c.2.2, v, [modeTag], if c.2.1 && isSkip v then 1 else 0)
      else if cmd = "net.c10" then
        let c := compareConns sc tr 0 sc.conns (Spec.Net.windows (sc.conns.length + 2) tr)
        let v := Spec.Net.checkC10 Spec.Net.frameLimit sc tr
        (if c.2.1 then !isFail v else c.1, c.2.1, " ".intercalate c.2.2, v, [modeTag, "B:" ++ faultTag sc], if c.2.1 && isSkip v then 1 else 0)
      else if cmd = "net.c09" then
        let c := compareC09 sc tr
        (c.1, false, c.2, Spec.Net.checkC09 sc tr, [modeTag, s!"B:submitters-{sc.subs.length}"], 0)
      else if cmd = "net.c12c" ∨ cmd = "net.c12d" then
        let client := cmd = "net.c12c"
        let c := compareC12 client sc tr
        let clsOf (acts : List Act) : String :=
          match Spec.Net.classOfReply (Spec.Net.probeScriptOf acts).reply with
          | .ack => "ack" | .otherFrame => "other-frame" | .silence => "silence" | .rdy => "rdy" | .map => "map"
          | .errorMsg _ => "errormsg" | .otherText => "other-text" | .unnamed => "unnamed"
        let cls := match sc.conns.getLast? with | some acts => clsOf acts | none => "none"
        (c.1, c.2.1, c.2.2.1, Spec.Net.checkC12 client sc tr,
         [if client then "B:entry-client" else "B:entry-detector", "B:reply-" ++ cls, s!"B:connections-{sc.conns.length}"], c.2.2.2)
      else (false, false, "unknown-record", .fail "unknown-record", [], 0)
    let (h, vtags) := verdictStr verdict
    -- margin-unsafe scripts: the model's prediction is schedule dependent; the monitor decides (`eq` says so already).
    -- A record (connection) that is neither compared nor judged is tagged: tools must not count it as checked.
    let tags := tags ++ vtags ++ (if tight then ["B:tight-margin"] else []) ++ (if unchecked > 0 then ["B:unchecked"] else [])
    let tagStr := " ".intercalate tags
    if eq then s!"EQ {h} {tagStr}" else s!"NE {h} model:{desc.replace " " "_"} {tagStr}"

end RawPanelVerif.Driver.Net
