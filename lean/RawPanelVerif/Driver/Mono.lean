import RawPanelVerif.Base.Wire
import RawPanelVerif.Model.Mono
import RawPanelVerif.Spec.MonoSpec
/-! Driver glue for the `mono.*` records (C16, C20, stage 1 of C18). -/
namespace RawPanelVerif.Driver.Mono
open RawPanelVerif RawPanelVerif.Wire RawPanelVerif.Mono

structure St where
  c : Canvas := newCanvas 0 0
  t : TextSt := {}
  implPrev : Array UInt8 := #[]

def bytesOfCanvas (c : Canvas) : List UInt8 := c.bytes.toList.map (fun b => UInt8.ofNat b.toNat)
def canvasBytesOf (a : Array UInt8) : Array (BitVec 8) := a.map (fun b => BitVec.ofNat 8 b.toNat)

def specG (c : Canvas) : Spec.Mono.G :=
  { W := c.geo.W, H := c.geo.H, wib := c.geo.wib, bx := c.geo.bx, byy := c.geo.byy,
    bw := c.geo.bw, bh := c.geo.bh, inv := c.geo.inv }

def ints (ts : List String) : Option (List Int) := ts.mapM parseInt

/-- parse one record; returns the new model state and the Spec operation it denotes -/
def apply (st : St) (cmd : String) (args : List String) : Option (St × Spec.Mono.Op) := do
  match cmd, args with
  | "mono.new", [w, h] =>
    let w ← w.toNat?; let h ← h.toNat?
    pure ({ st with c := newCanvas w h, t := {}, implPrev := Array.replicate (((w + 7) / 8) * h) 0 }, .noop)
  | "mono.frombytes", [w, h, bits] =>
    let w ← w.toNat?; let h ← h.toNat?; let bits ← unhex bits
    -- what loading a slice means, stated on the record alone: the slice itself when it holds `wib·h` bytes, otherwise
    -- the bytes present followed by zeros up to `wib·h`
    let need := ((w + 7) / 8) * h
    let expect : Array UInt8 := if bits.size ≥ need then bits else bits ++ Array.replicate (need - bits.size) 0
    pure ({ st with c := createFromBytesOn st.c.geo.inv w h (canvasBytesOf bits), t := initText st.t, implPrev := expect }, .noop)
  | "mono.bbox", a =>
    let [x, y, w, h] ← ints a | none
    pure ({ st with c := setBoundingBox st.c x y w h }, .noop)
  | "mono.inv", [b] => do let b ← parseBool b; pure ({ st with c := invertPixels st.c b }, .noop)
  | "mono.px", [x, y, c] =>
    let x ← parseInt x; let y ← parseInt y; let c ← parseBool c
    pure ({ st with c := drawPixel st.c x y c }, .px x y c)
  | "mono.hline", [x, y, w, c] =>
    let x ← parseInt x; let y ← parseInt y; let w ← parseInt w; let c ← parseBool c
    pure ({ st with c := hline st.c x y w c }, .hline x y w c)
  | "mono.vline", [x, y, h, c] =>
    let x ← parseInt x; let y ← parseInt y; let h ← parseInt h; let c ← parseBool c
    pure ({ st with c := vline st.c x y h c }, .vline x y h c)
  | "mono.frect", [x, y, w, h, c] =>
    let x ← parseInt x; let y ← parseInt y; let w ← parseInt w; let h ← parseInt h; let c ← parseBool c
    pure ({ st with c := fillRect st.c x y w h c }, .frect x y w h c)
  | "mono.rrect", [x, y, w, h, r, c] =>
    let x ← parseInt x; let y ← parseInt y; let w ← parseInt w; let h ← parseInt h
    let r ← parseInt r; let c ← parseBool c
    pure ({ st with c := drawRoundRect st.c x y w h r c }, .rrect x y w h r c)
  | "mono.frrect", [x, y, w, h, r, c] =>
    let x ← parseInt x; let y ← parseInt y; let w ← parseInt w; let h ← parseInt h
    let r ← parseInt r; let c ← parseBool c
    pure ({ st with c := fillRoundRect st.c x y w h r c }, .frrect x y w h r c)
  | "mono.circ", [x, y, r, k, c] =>
    let x ← parseInt x; let y ← parseInt y; let r ← parseInt r; let k ← parseInt k; let c ← parseBool c
    pure ({ st with c := drawCircleHelper st.c x y r k c }, .circ x y r k c)
  | "mono.fcirc", [x, y, r, k, d, c] =>
    let x ← parseInt x; let y ← parseInt y; let r ← parseInt r; let k ← parseInt k
    let d ← parseInt d; let c ← parseBool c
    pure ({ st with c := fillCircleHelper st.c x y r k d c }, .fcirc x y r k d c)
  | "mono.bitmap", [x, y, w, h, c, i, a, bits] =>
    let x ← parseInt x; let y ← parseInt y; let w ← parseInt w; let h ← parseInt h
    let c ← parseBool c; let i ← parseBool i; let a ← parseBool a; let bits ← unhex bits
    pure ({ st with c := drawBitmap st.c x y bits w h c i a }, .bitmap x y w h)
  | "mono.font", [n, p] => do
    let n ← parseInt n; let p ← parseBool p; pure ({ st with t := setFont st.t n p }, .noop)
  | "mono.size", [h, v] => do
    let h ← parseInt h; let v ← parseInt v; pure ({ st with t := setTextSize st.t h v }, .noop)
  | "mono.spacing", [n] => do let n ← n.toNat?; pure ({ st with t := { st.t with spacing := n % 256 } }, .noop)
  | "mono.cursor", [x, y] => do
    let x ← parseInt x; let y ← parseInt y; pure ({ st with t := setCursor st.t x y }, .noop)
  | "mono.tcolor", [c] => do let c ← parseBool c; pure ({ st with t := setTextColor st.t c }, .noop)
  | "mono.wrap", [b] => do let b ← parseBool b; pure ({ st with t := { st.t with wrap := b } }, .noop)
  | "mono.char", [x, y, ch, col, bg, h, v] =>
    let x ← parseInt x; let y ← parseInt y; let ch ← ch.toNat?; let col ← parseBool col
    let bg ← parseBool bg; let h ← parseInt h; let v ← parseInt v
    pure ({ st with c := drawChar st.c st.t x y ch col bg h v },
      if h ≥ 1 ∧ v ≥ 1 then .glyph x y (charWidth st.t ch) st.t.fp.bbH h v else .text)
  | "mono.text", [s] =>
    let s ← unhex s
    let (c', t') := renderText (st.c, st.t) (s.toList.map (·.toNat))
    pure ({ st with c := c', t := t' }, .text)
  | _, _ => none

/-- `args | implHex` → (state, output line `EQ|NE H1|H0:<clause> [model]`) -/
def step (st : St) (cmd : String) (args : List String) (impl : String) : St × String :=
  match apply st cmd args with
  | none => (st, "ERR bad-record")
  | some (st', op) =>
    let modelHex := hexOfBytes (bytesOfCanvas st'.c)
    match unhex impl with
    | none =>
      -- implementation reported a panic / non-hex output
      (st', s!"NE H0:panic {modelHex}")
    | some implAfter =>
      let eq := decide (implAfter.toList = bytesOfCanvas st'.c)
      -- the property predicate on the implementation's own before/after pair, geometry *before* the op
      let (g, prev) := if cmd = "mono.new" ∨ cmd = "mono.frombytes" then (specG st'.c, st'.implPrev) else (specG st.c, st.implPrev)
      let h := Spec.Mono.checkBytes g op prev implAfter
      let hs := match h with | none => "H1" | some cl => s!"H0:{cl}"
      let st'' := { st' with implPrev := implAfter }
      -- on disagreement continue from the implementation's bytes so later ops stay comparable
      let st'' := if eq then st'' else { st'' with c := { st''.c with bytes := canvasBytesOf implAfter } }
      (st'', if eq then s!"EQ {hs}" else s!"NE {hs} {modelHex}")

end RawPanelVerif.Driver.Mono
