import RawPanelVerif.Base.Wire
import RawPanelVerif.Base.Bytes
import RawPanelVerif.Gen.Consts
import RawPanelVerif.Model.Gfx
import RawPanelVerif.Spec.GfxSpec
import RawPanelVerif.Model.GfxReading
/-! Driver glue for the `gfx.*` records (C05). Record formats: see harness/gfx.go. -/
namespace RawPanelVerif.Driver.Gfx
open RawPanelVerif RawPanelVerif.Wire RawPanelVerif.Gfx

/-- which decoder the model runs: the repaired one (default) or the pinned one (`gfx.mode pinned`) -/
structure St where
  pinned : Bool := false

abbrev Bytes := List UInt8

/-! ### token parser -/
abbrev P := StateT (List String) Option

def tok : P String := do
  match (← get) with
  | [] => failure
  | t :: r => set r; pure t

def pNat : P Nat := do let t ← tok; match t.toNat? with | some n => pure n | none => failure
def pInt : P Int := do let t ← tok; match parseInt t with | some n => pure n | none => failure
def pBool : P Bool := do let t ← tok; match parseBool t with | some n => pure n | none => failure
def pBytes : P Bytes := do let t ← tok; match unhex t with | some a => pure a.toList | none => failure
def pExpect (s : String) : P Unit := do let t ← tok; if t = s then pure () else failure

def pMany {α} (p : P α) : Nat → P (List α)
  | 0 => pure []
  | n + 1 => do let a ← p; let r ← pMany p n; pure (a :: r)

def pIds : P (List Nat) := do
  let t ← tok
  if t = "-" then pure [] else
  match (t.splitOn ",").mapM String.toNat? with
  | some l => pure l
  | none => failure

/-- an observed message -/
inductive Msg where
  | g (ids : List Nat) (img : Img) (tok : Nat)
  | o (text : String)
  deriving Inhabited

def pMsg : P Msg := do
  let k ← tok
  if k = "G" then
    let ids ← pIds; let ty ← pNat; let w ← pNat; let h ← pNat; let off ← pBool; let x ← pNat; let y ← pNat
    let d ← pBytes; let t ← pNat
    pure (.g ids { ty := ty, W := w, H := h, off := off, X := x, Y := y, data := d } t)
  else if k = "O" then
    let t ← tok; pure (.o t)
  else failure

def showIds (ids : List Nat) : String := if ids.isEmpty then "-" else ",".intercalate (ids.map toString)

def showMsg : Msg → String
  | .g ids i t => s!" G {showIds ids} {i.ty} {i.W} {i.H} {showBool i.off} {i.X} {i.Y} {hexOfBytes i.data} {t}"
  | .o t => s!" O {t}"

structure Sec where
  msgs : List (Nat × List Msg) := []     -- (line position, messages); batch: one entry at position 0
  finals : List Bytes := []
  state : String := ""

def pFinals : P (List Bytes) := do pExpect "F"; let n ← pNat; pMany pBytes n

def pBatch : P Sec := do
  pExpect "B"; let k ← pNat; let ms ← pMany pMsg k; let f ← pFinals
  pure { msgs := [(0, ms)], finals := f }

def pStream (tag : String) : P Sec := do
  pExpect tag
  let m ← pNat
  let ms ← pMany (do let i ← pNat; let k ← pNat; let l ← pMany pMsg k; pure (i, l)) m
  let f ← pFinals
  pExpect "R"
  let a ← tok; let b ← tok; let c ← tok; let d ← tok; let e ← tok
  pure { msgs := ms, finals := f, state := s!"{a} {b} {c} {d} {e}" }

structure Result where
  b : Sec
  s : Sec
  j : Sec
  solo : List (Bytes × List Msg)

def pResult : P Result := do
  let b ← pBatch; let s ← pStream "S"; let j ← pStream "J"
  pExpect "P"
  let m ← pNat
  let tbl ← pMany (do let l ← pBytes; let k ← pNat; let ms ← pMany pMsg k; pure (l, ms)) m
  pure ⟨b, s, j, tbl⟩

/-! ### model side, printed in the harness format -/

/-- expand the model's messages: `other line` = what the implementation's single-line decoder yields for it;
graphics messages get the identity token (index of the first G of the section sharing call and reference) -/
def expand (tbl : List (Bytes × List Msg)) : List ((Nat × Nat) × Seen) → List (Nat × Nat) → List Msg
  | [], _ => []
  | (key, .gfx ids img _) :: rest, keys =>
    let t := match keys.idxOf? key with | some i => i | none => keys.length
    .g ids img t :: expand tbl rest (keys ++ [key])
  | (_, .other l) :: rest, keys =>
    (match tbl.lookup l with | some ms => ms | none => []) ++ expand tbl rest keys

def keysOf : List ((Nat × Nat) × Seen) → List (Nat × Nat)
  | [] => []
  | (key, .gfx _ _ _) :: rest => key :: keysOf rest
  | _ :: rest => keysOf rest

def refOf : Seen → Nat
  | .gfx _ _ r => r
  | .other _ => 0

def showFinals (ms : List Msg) : String :=
  let gs := ms.filterMap (fun m => match m with | .g _ i _ => some i.data | _ => none)
  s!" F {gs.length}" ++ String.join (gs.map (fun d => " " ++ hexOfBytes d))

def modelBatch (pinned : Bool) (tbl : List (Bytes × List Msg)) (lines : List Bytes) : String :=
  let seens := Batch.decode (if pinned then Batch.stepPinned else Batch.step) lines
  let ms := expand tbl (seens.map (fun s => ((0, refOf s), s))) []
  s!"B {ms.length}" ++ String.join (ms.map showMsg) ++ showFinals ms

def showState (s : RState) : String :=
  let buf := match s.buf with
    | none => "n"
    | some b => toString b.length ++ ":" ++ ",".intercalate (b.map hexOfBytes)
  s!"{s.count} {s.max} {hexOfBytes s.list} {hexOfBytes s.ty} {buf}"

/-- group the expanded messages per line -/
def expandLines (tbl : List (Bytes × List Msg)) : List (Nat × List Seen) → List (Nat × Nat) → List (Nat × List Msg)
  | [], _ => []
  | (pos, seens) :: rest, keys =>
    let keyed := seens.map (fun s => ((pos, refOf s), s))
    let ms := expand tbl keyed keys
    let keys' := keys ++ keysOf keyed
    if ms.isEmpty then expandLines tbl rest keys' else (pos, ms) :: expandLines tbl rest keys'

def showStream (tag : String) (per : List (Nat × List Msg)) (state : RState) : String :=
  let all := per.flatMap (·.2)
  s!" {tag} {per.length}" ++
    String.join (per.map (fun (i, ms) => s!" {i} {ms.length}" ++ String.join (ms.map showMsg))) ++
    showFinals all ++ " R " ++ showState state

def modelStream (pinned : Bool) (tbl : List (Bytes × List Msg)) (lines : List Bytes) : String :=
  let r := Stream.run (if pinned then Stream.parsePinned else Stream.parse) lines
  showStream "S" (expandLines tbl r.2 []) r.1

def modelSerial (pinned : Bool) (tbl : List (Bytes × List Msg)) (lines : List Bytes) : String :=
  let r := Serial.run (if pinned then Stream.parsePinned else Stream.parse) lines
  showStream "J" (expandLines tbl r.2 []) (restore r.1)

/-! ### the property on the implementation's output -/

def specImg (ids : List Nat) (i : Img) : Spec.Gfx.Img :=
  { ids := ids, fmt := i.ty, W := i.W, H := i.H, off := i.off, X := i.X, Y := i.Y, data := i.data }

/-- deliveries of a section; `withPos = false` for the batch call -/
def delivsOf (sec : Sec) (withPos : Bool) : List Spec.Gfx.Deliv :=
  let gs := sec.msgs.flatMap (fun (pos, ms) =>
    ms.filterMap (fun m => match m with | .g ids i _ => some (pos, ids, i) | _ => none))
  (gs.zipIdx).map (fun ((pos, ids, i), k) =>
    { pos := if withPos then some pos else none, img := specImg ids i, final := (sec.finals[k]?).getD i.data })

def firstSome : List (Unit → Option String) → Option String
  | [] => none
  | f :: fs => match f () with | some s => some s | none => firstSome fs

def prefixClause (p : String) (o : Option String) : Option String := o.map (p ++ ·)

def safetyAll (lines : List Bytes) (r : Result) : Option String :=
  firstSome [
    fun _ => prefixClause "B:" (Spec.Gfx.checkSafety lines (delivsOf r.b false)),
    fun _ => prefixClause "S:" (Spec.Gfx.checkSafety (lines.map Bytes.trimSpace) (delivsOf r.s true)),
    fun _ => prefixClause "J:" (Spec.Gfx.checkSafety (lines.map Bytes.trimSpace) (delivsOf r.j true))]

def cleanAll (g : Spec.Gfx.Sent) (ids : List Nat) (lines : List Bytes) (r : Result) : Option String :=
  firstSome [
    fun _ => prefixClause "B:" (Spec.Gfx.checkClean g ids lines (delivsOf r.b false)),
    fun _ => prefixClause "S:" (Spec.Gfx.checkClean g ids (lines.map Bytes.trimSpace) (delivsOf r.s true)),
    fun _ => prefixClause "J:" (Spec.Gfx.checkClean g ids (lines.map Bytes.trimSpace) (delivsOf r.j true))]

def cleanAllMulti (imgs : List (Spec.Gfx.Sent × List Nat)) (lines : List Bytes) (r : Result) : Option String :=
  firstSome [
    fun _ => prefixClause "B:" (Spec.Gfx.checkCleanAll imgs lines (delivsOf r.b false)),
    fun _ => prefixClause "S:" (Spec.Gfx.checkCleanAll imgs (lines.map Bytes.trimSpace) (delivsOf r.s true)),
    fun _ => prefixClause "J:" (Spec.Gfx.checkCleanAll imgs (lines.map Bytes.trimSpace) (delivsOf r.j true))]

def countG (sec : Sec) : Nat := (delivsOf sec false).length

/-- the history fed by `gfx.rt` / `gfx.multi`: encoder lines with the extra lines inserted (stable by position) -/
def weave (i : Nat) (enc : List Bytes) (exs : List (Nat × Bytes)) (fuel : Nat) : List Bytes :=
  match fuel with
  | 0 => []
  | fuel + 1 =>
    match exs, enc with
    | (p, l) :: more, e :: es => if p ≤ i then l :: weave i (e :: es) more fuel else e :: weave (i + 1) es ((p, l) :: more) fuel
    | (_, l) :: more, [] => l :: weave i [] more fuel
    | [], es => es

def pairs : List String → Option (List (Nat × Bytes))
  | [] => some []
  | p :: l :: rest => do
    let p ← p.toNat?; let l ← unhex l; let r ← pairs rest; pure ((p, l.toList) :: r)
  | _ => none

/-- one state of a `gfx.multi` record: image and target ids -/
def pState : P (Img × List Nat) := do
  let ty ← pNat; let w ← pNat; let h ← pNat; let off ← pBool; let x ← pNat; let y ← pNat
  let ids ← pIds; let d ← pBytes
  pure ({ ty := ty, W := w, H := h, off := off, X := x, Y := y, data := d }, ids)

/-- input half of a `gfx.multi` record: the messages (states per message) and the extra lines -/
def pMultiArgs : P (List (List (Img × List Nat)) × List (Nat × Bytes)) := do
  let m ← pNat
  let msgs ← pMany (do let s ← pNat; pMany pState s) m
  let k ← pNat
  let ex ← pMany (do let p ← pNat; let l ← pBytes; pure (p, l)) k
  pure (msgs, ex)

def sentOfImg (g : Img) : Spec.Gfx.Sent :=
  { fmt := g.ty, W := g.W, H := g.H, off := g.off, X := g.X, Y := g.Y, data := g.data }

def answer (eq : Bool) (h : Option String) (model : String) (tags : List String) : String :=
  let hs := match h with | none => "H1" | some c => s!"H0:{c}"
  let ts := String.join (tags.map (fun t => " B:" ++ t))
  if eq then s!"EQ {hs}{ts}" else s!"NE {hs} {model.replace " " "_"}{ts}"

/-- the reading of a line the safety theorems use (`readLine`, from the decoder's matcher) must be the Spec's own
(`Spec.Gfx.parseLine`), raw and trimmed -/
def readingsAgree (lines : List Bytes) : Bool :=
  lines.all (fun l => decide (readLine l = Spec.Gfx.parseLine l) &&
    decide (readLine (Bytes.trimSpace l) = Spec.Gfx.parseLine (Bytes.trimSpace l)))

/-- the history part shared by `gfx.hist` and `gfx.rt` -/
def runHistory (st : St) (lines : List Bytes) (implToks : List String) : Option (Result × Bool × String) := do
  let (r, rest) ← pResult.run implToks
  guard rest.isEmpty
  let model := modelBatch st.pinned r.solo lines ++ modelStream st.pinned r.solo lines ++ modelSerial st.pinned r.solo lines
  -- the implementation text up to the solo table
  let implText := " ".intercalate (implToks.takeWhile (· ≠ "P"))
  if !readingsAgree lines then pure (r, false, "reading-of-a-line-differs-between-model-and-spec")
  else pure (r, model == implText, model)

def subToks (m : Sub) : String :=
  " ".intercalate ([m.g1, m.g2, m.g3, m.g4, m.g5, m.g6, m.g7, m.g8, m.g9, m.g10, m.g11].map hexOfBytes)

/-- Spec's independent reading of a line against the groups the real regular expression produced -/
def specAgrees (line : Bytes) (impl : List String) : Bool :=
  match Spec.Gfx.parseLine line, impl with
  | none, ["-"] => true
  | some c, [g1, g2, g3, g4, g5, g6, g7, g8, g9, g10, _] =>
    let v (s : String) : Nat := match unhex s with | some a => Spec.Gfx.value a.toList | none => 0
    let hdrOK := match c.hdr with
      | none => g4 = "-"
      | some h => g4 ≠ "-" && h.last == v g5 && h.W == v g6 && h.H == v g7 &&
          (match h.xy with | none => g8 = "-" | some (x, y) => g8 ≠ "-" && x == v g9 && y == v g10)
    hexOfBytes c.ids == g2 && c.idx == v g3 && hdrOK &&
      (match c.fmt with | 0 => g1 == "4857436723" | 1 => g1 == "4857436752474223" | _ => g1 == "485743674772617923")
  | _, _ => false

def step (st : St) (cmd : String) (args : List String) (impl : String) : St × String :=
  let implToks := (impl.splitOn " ").filter (· ≠ "")
  match cmd, args with
  | "gfx.mode", [m] => ({ st with pinned := m = "pinned" }, "EQ H1")
  | "gfx.match", [l] =>
    match unhex l with
    | none => (st, "ERR bad-record")
    | some a =>
      let line := a.toList
      let model := match matchGfx line with | none => "-" | some m => subToks m
      let patOK := Gen.regex_gfx_src == gfxPattern && Gen.ASCIIreader_gfx_src == gfxPattern
      let eq := model == " ".intercalate implToks && patOK && readingsAgree [line]
      let h := if specAgrees line implToks then none else some "spec-reads-line-differently"
      (st, answer eq h (if patOK then model else "pattern-source-changed") [if model = "-" then "nomatch" else "match"])
  | "gfx.hist", n :: ls =>
    match n.toNat?, ls.mapM unhex with
    | some n, some arrs =>
      let lines := arrs.map Array.toList
      if lines.length ≠ n then (st, "ERR bad-record") else
      match runHistory st lines implToks with
      | none => (st, s!"NE H0:panic-or-unreadable-output")
      | some (r, eq, model) =>
        let dom := Spec.Gfx.inDomain lines && Spec.Gfx.inDomain (lines.map Bytes.trimSpace)
        let h := if dom then safetyAll lines r else none
        (st, answer eq h model [if dom then "dom" else "ood", s!"deliv{countG r.b}/{countG r.s}/{countG r.j}"])
    | _, _ => (st, "ERR bad-record")
  | "gfx.rt", ty :: w :: hh :: off :: x :: y :: ids :: img :: k :: extra =>
    match ty.toNat?, w.toNat?, hh.toNat?, parseBool off, x.toNat?, y.toNat?, unhex img, k.toNat? with
    | some ty, some w, some hh, some off, some x, some y, some img, some k =>
      let idl : List Nat := if ids = "-" then [] else (ids.splitOn ",").filterMap String.toNat?
      match pairs extra with
      | none => (st, "ERR bad-record")
      | some ex =>
        if ex.length ≠ k then (st, "ERR bad-record") else
        -- implementation's encoder lines
        match (do pExpect "L"; let n ← pNat; pMany pBytes n : P (List Bytes)).run implToks with
        | none => (st, "NE H0:encoder-panic-or-unreadable-output")
        | some (enc, rest) =>
          let g : Img := { ty := ty, W := w, H := hh, off := off, X := x, Y := y, data := img.toList }
          let modelEnc := encodeState g idl
          -- the history fed: encoder lines with the extra lines inserted (stable by position)
          let exs := ex.mergeSort (fun a b => a.1 ≤ b.1)
          let lines := weave 0 enc exs (enc.length + exs.length + 1)
          let sent : Spec.Gfx.Sent := { fmt := ty, W := w, H := hh, off := off, X := x, Y := y, data := img.toList }
          match runHistory st lines rest with
          | none => (st, s!"NE H0:panic-or-unreadable-output")
          | some (r, eqH, model) =>
            let eqE := modelEnc == enc
            let h := firstSome [
              fun _ => prefixClause "E:" (Spec.Gfx.checkEnc sent idl enc),
              fun _ => cleanAll sent idl lines r,
              fun _ => safetyAll lines r]
            let showEnc := s!"L {modelEnc.length}" ++ String.join (modelEnc.map (fun l => " " ++ hexOfBytes l))
            (st, answer (eqE && eqH) h (if eqE then model else showEnc)
              [s!"lines{enc.length}", if Spec.Gfx.cleanRuns sent idl lines then "clean" else "notclean"])
    | _, _, _, _, _, _, _, _ => (st, "ERR bad-record")
  | "gfx.multi", margs =>
    match pMultiArgs.run margs with
    | none => (st, "ERR bad-record")
    | some ((msgs, ex), restArgs) =>
      if !restArgs.isEmpty then (st, "ERR bad-record") else
      match (do pExpect "L"; let n ← pNat; pMany pBytes n : P (List Bytes)).run implToks with
      | none => (st, "NE H0:encoder-panic-or-unreadable-output")
      | some (enc, rest) =>
        -- model = implementation on the whole call: message after message, state after state
        let modelEnc := encodeMsgs msgs
        let exs := ex.mergeSort (fun a b => a.1 ≤ b.1)
        let lines := weave 0 enc exs (enc.length + exs.length + 1)
        -- the property, per image in message order
        let imgs : List (Spec.Gfx.Sent × List Nat) := msgs.flatten.map (fun s => (sentOfImg s.1, s.2))
        match runHistory st lines rest with
        | none => (st, s!"NE H0:panic-or-unreadable-output")
        | some (r, eqH, model) =>
          let eqE := modelEnc == enc
          let h := firstSome [
            fun _ => prefixClause "E:" (Spec.Gfx.checkEncAll imgs enc),
            fun _ => cleanAllMulti imgs lines r,
            fun _ => safetyAll lines r]
          let showEnc := s!"L {modelEnc.length}" ++ String.join (modelEnc.map (fun l => " " ++ hexOfBytes l))
          (st, answer (eqE && eqH) h (if eqE then model else showEnc)
            [s!"msgs{msgs.length}", s!"imgs{imgs.length}", s!"lines{enc.length}",
             if Spec.Gfx.cleanRunsAll imgs lines then "clean" else "notclean"])
  | _, _ => (st, "ERR bad-record")

end RawPanelVerif.Driver.Gfx
