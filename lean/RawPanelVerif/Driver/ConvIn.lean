import RawPanelVerif.Base.Wire
import RawPanelVerif.Model.EncIn
import RawPanelVerif.Model.DecIn
import RawPanelVerif.Spec.GrammarIn
import RawPanelVerif.Gen.Consts
/-!
Driver glue for the inbound converters: `ein.*` records (C01: messages → lines) and `din.*` records (C02: lines →
messages).  Canonical token format of messages (harness/convin.go prints it):

```
ein.rt <msgs> | <msgs>                    decoder(encoder(msgs)); H = effects equal the effects of the original messages
ein.seq / ein.par / ein.reuse [ k <msgs>* | m·k results (hex lists or -): result j belongs to call j mod k (snapshots at return
                                          time, then the kept slices re-read after the last call; reuse: the two calls);
                                          every result is judged like an ein.msgs record of its call
ein.fields | <Message.field>*             the proto definitions the encoder model was written against (Model.In.protoFields)
din.seq / din.par [ k ([ n <hex line>*)* J … | 2k <msgs>   result j belongs to batch j mod k; judged like din.lines
din.ctx <as din.lines> | <msgs> ; (L <hex line> <msgs>)*   the batch read with the outside lines' own meaning (Spec.In.readInboundWith)
din.rx <name> | <hex pattern text>        the pattern text of the library's compiled regexp object = `Gen.regex_*_src`
din.match <name> <hex line> | - / M <hex submatch>*   the byte matcher of Model/DecIn.lean = the real regular expression

msgs   := [ n item*                      item := msg | ~            (~ = nil message, decoder output only)
msg    := M flow cmd [ n state* [ n reg*
cmd    := ~ | C b16 br cal net env st sm ss dg hb ps lc ws js        b16 = the 16 flags as one 0/1 string
br     := ~ | ( leds oleds )     cal := ~ | +hex      env, sm, ss, lc := ~ | +int     st, dg, hb, ps := ~ | +nat
net    := ~ | ( dhcp addr mask gw dns1 dns2 nodef json )             json = hex of json.Marshal (or - in outputs)
ws, js := ~ | +0/1
state  := S [ n id* mode color ext text gfx raw proc
mode   := ~ | ( state output blink )        ext := ~ | ( interp value )
color  := ~ | ( rgb index )   rgb := ~ | ( r g b )   index := ~ | +int
text   := ~ | ( iv fmt sicon micon title solid l1 l2 iv2 pair scale styling inv pix bg )
scale  := ~ | ( type rl rh ll lh )   styling := ~ | ( titlefont textfont fixed pad spacing ufs )   font := ~ | ( face h w )
gfx    := ~ | ( type w h xy x y data )      raw := ~ | +0/1      proc := ~ | +hex
reg    := R kind idhex value
```
-/
namespace RawPanelVerif.Driver.ConvIn
open RawPanelVerif RawPanelVerif.Wire RawPanelVerif.MsgIn RawPanelVerif.Model.In

/-! ## token parser -/

structure PSt where
  toks : List String
  nets : List (NetCfg × Bytes) := []

abbrev P := StateT PSt Option

def next : P String := do
  let s ← get
  match s.toks with
  | [] => failure
  | t :: ts => set { s with toks := ts }; pure t

def peek : P String := do
  let s ← get
  match s.toks with
  | [] => failure
  | t :: _ => pure t

def expect (t : String) : P Unit := do
  let x ← next
  if x = t then pure () else failure

def pInt : P Int := do
  match parseInt (← next) with
  | some i => pure i
  | none => failure

def pNat : P Nat := do
  match (← next).toNat? with
  | some i => pure i
  | none => failure

def pBool : P Bool := do
  match parseBool (← next) with
  | some b => pure b
  | none => failure

def pHex : P Bytes := do
  match unhex (← next) with
  | some b => pure b.toList
  | none => failure

/-- `~` or a group `( … )` -/
def pOptGroup {α : Type} (body : P α) : P (Option α) := do
  let t ← next
  if t = "~" then pure none
  else if t = "(" then
    let a ← body
    expect ")"
    pure (some a)
  else failure

/-- `~` or `+value` -/
def pOptPlus {α : Type} (f : String → Option α) : P (Option α) := do
  let t ← next
  if t = "~" then pure none
  else if t.startsWith "+" then
    match f (t.drop 1).toString with
    | some a => pure (some a)
    | none => failure
  else failure

def hexS (s : String) : Option Bytes := (unhex s).map (·.toList)

partial def pList {α : Type} (item : P α) : P (List α) := do
  expect "["
  let n ← pNat
  let rec go (k : Nat) (acc : Array α) : P (List α) := do
    if k = 0 then pure acc.toList else
      let a ← item
      go (k - 1) (acc.push a)
  go n #[]

def pRGB : P ColorRGB := do
  let r ← pNat; let g ← pNat; let b ← pNat
  pure { red := r, green := g, blue := b }

def pColor : P Color := do
  let rgb ← pOptGroup pRGB
  let idx ← pOptPlus parseInt
  pure { rgb := rgb, index := idx }

def pFont : P Font := do
  let f ← pInt; let h ← pNat; let w ← pNat
  pure { face := f, height := h, width := w }

def pStyle : P TextStyle := do
  let tf ← pOptGroup pFont
  let xf ← pOptGroup pFont
  let fixed ← pBool; let pad ← pNat; let sp ← pNat; let ufs ← pNat
  pure { titleFont := tf, textFont := xf, fixedWidth := fixed, titleBarPadding := pad, extraSpacing := sp, unformattedFontSize := ufs }

def pScale : P Scale := do
  let t ← pInt; let a ← pInt; let b ← pInt; let c ← pInt; let d ← pInt
  pure { scaleType := t, rangeLow := a, rangeHigh := b, limitLow := c, limitHigh := d }

def pText : P Text := do
  let iv ← pInt; let fmt ← pInt; let si ← pInt; let mi ← pInt
  let title ← pHex; let solid ← pBool; let l1 ← pHex; let l2 ← pHex
  let iv2 ← pInt; let pair ← pInt
  let scale ← pOptGroup pScale
  let sty ← pOptGroup pStyle
  let inv ← pBool
  let pix ← pOptGroup pColor
  let bg ← pOptGroup pColor
  pure { integerValue := iv, formatting := fmt, stateIcon := si, modifierIcon := mi, title := title, solidHeaderBar := solid,
         textline1 := l1, textline2 := l2, integerValue2 := iv2, pairMode := pair, scale := scale, textStyling := sty,
         inverted := inv, pixelColor := pix, backgroundColor := bg }

def pGfx : P Gfx := do
  let t ← pInt; let w ← pNat; let h ← pNat; let xy ← pBool; let x ← pNat; let y ← pNat; let d ← pHex
  pure { imageType := t, w := w, h := h, xyOffset := xy, x := x, y := y, imageData := d }

def pMode : P Mode := do
  let s ← pInt; let o ← pBool; let b ← pNat
  pure { state := s, output := o, blink := b }

def pExt : P Ext := do
  let i ← pInt; let v ← pNat
  pure { interp := i, value := v }

def pState : P State := do
  expect "S"
  let ids ← pList pNat
  let mode ← pOptGroup pMode
  let color ← pOptGroup pColor
  let ext ← pOptGroup pExt
  let text ← pOptGroup pText
  let gfx ← pOptGroup pGfx
  let raw ← pOptPlus parseBool
  let proc ← pOptPlus hexS
  pure { ids := ids, mode := mode, color := color, ext := ext, text := text, gfx := gfx, rawADC := raw, processors := proc }

def pReg : P Register := do
  expect "R"
  let k ← pInt; let id ← pHex; let v ← pNat
  pure { reg := k, id := id, value := v }

def pNet : P NetCfg := do
  let dhcp ← pBool; let a ← pHex; let m ← pHex; let g ← pHex; let d1 ← pHex; let d2 ← pHex; let nd ← pBool
  let json ← pHex
  let n : NetCfg := { dhcp := dhcp, address := a, netmask := m, gateway := g, firstDns := d1, secondDns := d2, noDefaultRoute := nd }
  modify (fun s => { s with nets := (n, json) :: s.nets })
  pure n

def pBrightness : P (Nat × Nat) := do
  let l ← pNat; let o ← pNat
  pure (l, o)

def pCmd : P (Option Command) := do
  let t ← next
  if t = "~" then pure none
  else if t = "C" then
    let bits := (← next).toList.map (· == '1')
    if bits.length ≠ 16 then failure
    let b := fun (i : Nat) => bits.getD i false
    let br ← pOptGroup pBrightness
    let cal ← pOptPlus hexS
    let net ← pOptGroup pNet
    let env ← pOptPlus parseInt
    let st ← pOptPlus String.toNat?
    let sm ← pOptPlus parseInt
    let ss ← pOptPlus parseInt
    let dg ← pOptPlus String.toNat?
    let hb ← pOptPlus String.toNat?
    let ps ← pOptPlus String.toNat?
    let lc ← pOptPlus parseInt
    let ws ← pOptPlus parseBool
    let js ← pOptPlus parseBool
    pure (some {
      activatePanel := b 0, sendPanelInfo := b 1, reportHWCavailability := b 2, sendPanelTopology := b 3,
      sendBurninProfile := b 4, sendCalibrationProfile := b 5, sendNetworkConfig := b 6, sendRegisters := b 7,
      getConnections := b 8, getRunTimeStats := b 9, clearAll := b 10, clearLEDs := b 11, clearDisplays := b 12,
      getSleepTimeout := b 13, wakeUp := b 14, reboot := b 15,
      panelBrightness := br, setCalibrationProfile := cal, setNetworkConfig := net, simulateEnvironmentalHealth := env,
      setSleepTimeout := st, setSleepMode := sm, setSleepScreenSaver := ss, setDimmedGain := dg, setHeartBeatTimer := hb,
      publishSystemStat := ps, loadCPU := lc, setWebserverEnabled := ws, jsonConfig := js })
  else failure

def pMsg : P InMsg := do
  expect "M"
  let flow ← pInt
  let cmd ← pCmd
  let states ← pList pState
  let regs ← pList pReg
  pure { flow := flow, command := cmd, states := states, registers := regs }

def pMsgOpt : P (Option InMsg) := do
  if (← peek) = "~" then
    let _ ← next
    pure none
  else
    let m ← pMsg
    pure (some m)

/-! ## printer (model output shown on NE) -/

def sOpt {α : Type} (o : Option α) (f : α → String) : String := match o with | some a => f a | none => "~"
def sGroup (xs : List String) : String := "( " ++ " ".intercalate xs ++ " )"
def sList {α : Type} (xs : List α) (f : α → String) : String :=
  if xs.isEmpty then "[ 0" else s!"[ {xs.length} " ++ " ".intercalate (xs.map f)
def sB (b : Bool) : String := showBool b
def sH (b : Bytes) : String := hexOfBytes b

def sColor (c : Color) : String :=
  sGroup [sOpt c.rgb (fun r => sGroup [toString r.red, toString r.green, toString r.blue]), sOpt c.index (fun i => s!"+{i}")]
def sFont (f : Font) : String := sGroup [toString f.face, toString f.height, toString f.width]
def sText (t : Text) : String :=
  sGroup [toString t.integerValue, toString t.formatting, toString t.stateIcon, toString t.modifierIcon, sH t.title,
    sB t.solidHeaderBar, sH t.textline1, sH t.textline2, toString t.integerValue2, toString t.pairMode,
    sOpt t.scale (fun s => sGroup [toString s.scaleType, toString s.rangeLow, toString s.rangeHigh, toString s.limitLow, toString s.limitHigh]),
    sOpt t.textStyling (fun s => sGroup [sOpt s.titleFont sFont, sOpt s.textFont sFont, sB s.fixedWidth,
      toString s.titleBarPadding, toString s.extraSpacing, toString s.unformattedFontSize]),
    sB t.inverted, sOpt t.pixelColor sColor, sOpt t.backgroundColor sColor]
def sState (s : State) : String :=
  " ".intercalate ["S", sList s.ids toString,
    sOpt s.mode (fun m => sGroup [toString m.state, sB m.output, toString m.blink]),
    sOpt s.color sColor,
    sOpt s.ext (fun e => sGroup [toString e.interp, toString e.value]),
    sOpt s.text sText,
    sOpt s.gfx (fun g => sGroup [toString g.imageType, toString g.w, toString g.h, sB g.xyOffset, toString g.x, toString g.y, sH g.imageData]),
    sOpt s.rawADC (fun b => "+" ++ sB b), sOpt s.processors (fun j => "+" ++ sH j)]
def sCmd (c : Command) : String :=
  let bits := [c.activatePanel, c.sendPanelInfo, c.reportHWCavailability, c.sendPanelTopology, c.sendBurninProfile,
    c.sendCalibrationProfile, c.sendNetworkConfig, c.sendRegisters, c.getConnections, c.getRunTimeStats, c.clearAll,
    c.clearLEDs, c.clearDisplays, c.getSleepTimeout, c.wakeUp, c.reboot]
  " ".intercalate ["C", String.ofList (bits.map (fun b => if b then '1' else '0')),
    sOpt c.panelBrightness (fun p => sGroup [toString p.1, toString p.2]),
    sOpt c.setCalibrationProfile (fun j => "+" ++ sH j),
    sOpt c.setNetworkConfig (fun n => sGroup [sB n.dhcp, sH n.address, sH n.netmask, sH n.gateway, sH n.firstDns, sH n.secondDns, sB n.noDefaultRoute, "-"]),
    sOpt c.simulateEnvironmentalHealth (fun i => s!"+{i}"), sOpt c.setSleepTimeout (fun i => s!"+{i}"),
    sOpt c.setSleepMode (fun i => s!"+{i}"), sOpt c.setSleepScreenSaver (fun i => s!"+{i}"),
    sOpt c.setDimmedGain (fun i => s!"+{i}"), sOpt c.setHeartBeatTimer (fun i => s!"+{i}"),
    sOpt c.publishSystemStat (fun i => s!"+{i}"), sOpt c.loadCPU (fun i => s!"+{i}"),
    sOpt c.setWebserverEnabled (fun b => "+" ++ sB b), sOpt c.jsonConfig (fun b => "+" ++ sB b)]
def sMsg (m : InMsg) : String :=
  " ".intercalate ["M", toString m.flow, sOpt m.command sCmd, sList m.states sState,
    sList m.registers (fun r => s!"R {r.reg} {sH r.id} {r.value}")]
def sMsgs (ms : List (Option InMsg)) : String := sList ms (fun m => sOpt m sMsg)

/-! ## oracles from the record -/

def mkOracles (nets : List (NetCfg × Bytes)) (states : List (Bytes × State)) (arrays : List (Bytes × List (Option InMsg)))
    (parsed : List (Bytes × Option NetCfg)) : Oracles :=
  { netJson := fun n => (nets.lookup n).getD [],
    parseNet := fun t =>
      match parsed.lookup t with
      | some r => r
      | none => (nets.find? (fun p => p.2 == t)).map (·.1),
    parseState := fun l => (states.lookup l).getD {},
    parseMsgs := fun l => (arrays.lookup l).getD [] }

def hexLines (ls : List Bytes) : String := if ls.isEmpty then "-" else ",".intercalate (ls.map hexOfBytes)

def unhexLines (s : String) : Option (List Bytes) :=
  if s = "-" then some [] else (s.splitOn ",").mapM (fun t => hexS t)

/-! ## C01: predicate on the implementation's lines -/

/-! The property fixes the order: messages in submission order; inside one message flow, commands (emission order of
the 29 fields), states in list order, for each state its component ids in list order, for each id mode / colour /
extended / text / graphics / raw-ADC, then registers in list order.  Nothing on the inbound side iterates over a Go
map, so the comparison is EXACT list equality per message (no permutation is tolerated). -/

open Spec.In in
def checkC01 (expected : List (List Effect)) (got : List Effect) : Option String :=
  let rec go (i : Nat) (ex : List (List Effect)) (got : List Effect) : Option String :=
    match ex with
    | [] => if got.isEmpty then none else some s!"extra-effects@end"
    | e :: rest =>
      let seg := got.take e.length
      if seg.length ≠ e.length then some s!"missing-effects@msg{i}"
      else if e != seg then some s!"wrong-effects@msg{i}"
      else go (i + 1) rest (got.drop e.length)
  go 0 expected got

def branchTagsMsg (m : InMsg) : List String :=
  (if m.flow ≠ 0 then ["flow"] else []) ++
  (match m.command with | some _ => ["cmd"] | none => []) ++
  (m.states.flatMap fun s =>
    (if s.ids.length > 1 then ["multi-id"] else []) ++
    (match s.mode with | some _ => ["HWC#"] | none => []) ++ (match s.color with | some _ => ["HWCc#"] | none => []) ++
    (match s.ext with | some _ => ["HWCx#"] | none => []) ++ (match s.text with | some _ => ["HWCt#"] | none => []) ++
    (match s.gfx with | some g => [if g.imageData.length > 170 then "HWCg#multi" else "HWCg#"] | none => []) ++
    (match s.rawADC with | some _ => ["raw"] | none => [])) ++
  (if m.registers.isEmpty then [] else ["reg"])

def tagStr (ts : List String) : String := String.join (ts.eraseDups.map (fun t => " B:" ++ t))

/-- one call of the encoder on `ms`, implementation result `impl` (hex list, `-`, or `panic…`) -/
def evalEin (O : Oracles) (ms : List InMsg) (impl : String) : String :=
    let model := encInE O ms
    let modelStr := match model with | .ok ls => hexLines ls | .error _ => "panic"
    let tags := tagStr (ms.flatMap branchTagsMsg ++ (if ms.length > 1 then ["multi-msg"] else []))
    if impl.startsWith "panic" then
      let eq := match model with | .error _ => "EQ" | .ok _ => "NE"
      s!"{eq} H0:panic {modelStr}{tags}"
    else
      match unhexLines impl with
      | none => "ERR bad-impl"
      | some lines =>
        let eq := match model with | .ok ml => ml == lines | .error _ => false
        let h :=
          if lines.any (fun l => l.contains 10) then "H0:lf-in-line"
          else if Spec.In.inDomainIn O ms then
            match checkC01 (ms.map Spec.In.effectsOfIn) (Spec.In.readInbound O lines) with
            | none => "H1"
            | some c => s!"H0:{c}"
          -- outside the representable domain but with grammar lines: the effects of the masked messages (enc_sound_masked)
          else if Spec.In.inWireDomain O ms then
            match checkC01 (ms.map (fun m => Spec.In.effectsOfIn (Spec.In.maskMsg m))) (Spec.In.readInbound O lines) with
            | none => "H1 B:wiredom"
            | some c => s!"H0:masked-{c} B:wiredom"
          else "H1 B:outdom"
        if eq then s!"EQ {h}{tags}" else s!"NE {h} {modelStr}{tags}"

def stepEin (args : List String) (impl : String) : String :=
  match (pList pMsg).run { toks := args } with
  | none => "ERR bad-record"
  | some (ms, st) => evalEin (mkOracles st.nets [] [] []) ms impl

/-- combine the answers of the parts of a multi-call record: `NE` if any part differs, the first `H0` clause (with the
index of its part), the model output of the first differing part, all branch tags -/
def combine (tag : String) (answers : List String) : String :=
  let parts := answers.map (fun a => (a.splitOn " ").filter (· ≠ ""))
  if parts.any (fun p => p.head? = some "ERR") then "ERR bad-part"
  else
    let ne := parts.any (fun p => p.head? = some "NE")
    let idx := List.range parts.length
    let h0 := (parts.zip idx).findSome? (fun (p, i) => match p[1]? with
      | some h => if h.startsWith "H0" then some s!"{h}@part{i}" else none
      | none => none)
    let h := h0.getD "H1"
    let modelOut := (parts.zip idx).findSome? (fun (p, i) =>
      if p.head? = some "NE" then some (s!"part{i}: " ++ " ".intercalate ((p.drop 2).filter (fun t => !t.startsWith "B:"))) else none)
    let tags := tagStr (tag :: parts.flatMap (fun p => (p.filter (·.startsWith "B:")).map (fun t => (t.drop 2).toString)))
    if ne then s!"NE {h} {modelOut.getD ""}{tags}" else s!"EQ {h}{tags}"

/-- `ein.seq` / `ein.par` / `ein.reuse` -/
def stepEinSeq (tag : String) (args : List String) (impl : String) : String :=
  match (pList (pList pMsg)).run { toks := args } with
  | none => "ERR bad-record"
  | some (lists, st) =>
    let O := mkOracles st.nets [] [] []
    let k := lists.length
    if impl.startsWith "panic" then
      s!"NE H0:panic - B:{tag}"
    else
      let rs := (impl.splitOn " ").filter (· ≠ "")
      if k = 0 ∨ rs.length = 0 ∨ rs.length % k ≠ 0 then "ERR bad-impl"
      else combine tag ((rs.zip (List.range rs.length)).map (fun (r, j) => evalEin O (lists.getD (j % k) []) r))

/-! ## C02 -/

inductive JEntry where
  | st (l : Bytes) (s : State)
  | arr (l : Bytes) (ms : List (Option InMsg))
  | net (t : Bytes) (n : Option NetCfg)

def pNetNoTable : P NetCfg := do
  let n ← pNet
  pure n

def pJEntry : P JEntry := do
  let t ← next
  if t = "S" then
    let l ← pHex
    let s ← pState
    pure (.st l s)
  else if t = "A" then
    let l ← pHex
    let ms ← pList pMsgOpt
    pure (.arr l ms)
  else if t = "N" then
    let l ← pHex
    let n ← pOptGroup pNet
    pure (.net l n)
  else failure

def lineTag (O : Oracles) (l : Bytes) : String :=
  match Spec.In.classify O l with
  | .nonGrammar => "nongrammar"
  | .outside => "outside"
  | .wellFormed =>
    if l.head? = some 123 then "json{" else if l.head? = some 91 then "json["
    else match Spec.In.cut 61 l with
      | none => "word"
      | some (key, _) =>
        match Spec.In.cut 35 key with
        | some (fam, _) => String.ofList (fam.map (fun b => Char.ofNat b.toNat)) ++ "#"
        | none =>
          match Spec.In.readRegKey Spec.In.regWord key with
          | some _ => "register"
          | none => String.ofList (key.map (fun b => Char.ofNat b.toNat))

def oraclesOfJ (js : List JEntry) : Oracles :=
  mkOracles []
    (js.filterMap fun | .st l s => some (l, s) | _ => none)
    (js.filterMap fun | .arr l ms => some (l, ms) | _ => none)
    (js.filterMap fun | .net l n => some (l, n) | _ => none)

/-- one call of the decoder on `lines`; `ims` = the implementation's messages; `alone` = what the implementation returned
for single lines (din.ctx records; empty otherwise) -/
def evalDin (O : Oracles) (lines : List Bytes) (ims : List (Option InMsg)) (alone : List (Bytes × List (Option InMsg))) : String :=
    let model := decInE O lines
    let modelStr := match model with | .ok ms => sMsgs ms | .error _ => "panic"
    let tags := tagStr (lines.map (lineTag O))
    let eq := match model with | .ok mm => mm == ims | .error _ => false
    let aloneEff : Bytes → List Spec.In.Effect := fun l => ((alone.lookup l).getD []).flatMap Spec.In.effectsOfMsgOpt
    let h :=
      if ims.any Option.isNone then "H0:nil-message"
      else if Spec.In.inDomainLines O lines then
        (if ims.flatMap Spec.In.effectsOfMsgOpt == Spec.In.readInbound O lines then "H1" else "H0:effects-differ")
      -- a batch with lines outside the grammar's domain: every line keeps the meaning it has alone
      else if Spec.In.inDomainLinesCtx O lines && lines.all (fun l => !Spec.In.isLoneLine O l || (alone.lookup l).isSome) then
        (if (alone.any (fun e => e.2.any Option.isNone)) then "H0:nil-message B:ctx"
         else if ims.flatMap Spec.In.effectsOfMsgOpt == Spec.In.readInboundWith O aloneEff lines then "H1 B:ctx"
         else "H0:line-context B:ctx")
      else "H1 B:outdom"
    if eq then s!"EQ {h}{tags}" else s!"NE {h} {modelStr}{tags}"

def pLinesJ : P (List Bytes × List JEntry) := do
  let ls ← pList pHex
  expect "J"
  let js ← pList pJEntry
  pure (ls, js)

def implToks (impl : String) : List String := (impl.splitOn " ").filter (· ≠ "")

def stepDin (args : List String) (impl : String) : String :=
  match pLinesJ.run { toks := args } with
  | none => "ERR bad-record"
  | some ((lines, js), _) =>
    let O := oraclesOfJ js
    if impl.startsWith "panic" then
      let model := decInE O lines
      let modelStr := match model with | .ok ms => sMsgs ms | .error _ => "panic"
      let eq := match model with | .error _ => "EQ" | .ok _ => "NE"
      s!"{eq} H0:panic {modelStr}{tagStr (lines.map (lineTag O))}"
    else
      match (pList pMsgOpt).run { toks := implToks impl } with
      | none => "ERR bad-impl"
      | some (ims, _) => evalDin O lines ims []

/-- a sequence of message lists until the tokens are used up -/
partial def pManyMsgs : P (List (List (Option InMsg))) := do
  let s ← get
  if s.toks.isEmpty then pure []
  else
    let a ← pList pMsgOpt
    let r ← pManyMsgs
    pure (a :: r)

/-- `din.seq [ k ([ n hex*)* J [ j entry* | 2k <msgs>` -/
def stepDinSeq (tag : String) (args : List String) (impl : String) : String :=
  let p : P (List (List Bytes) × List JEntry) := do
    let bs ← pList (pList pHex)
    expect "J"
    let js ← pList pJEntry
    pure (bs, js)
  match p.run { toks := args } with
  | none => "ERR bad-record"
  | some ((batches, js), _) =>
    let O := oraclesOfJ js
    let k := batches.length
    if impl.startsWith "panic" then s!"NE H0:panic - B:{tag}"
    else
      match pManyMsgs.run { toks := implToks impl } with
      | none => "ERR bad-impl"
      | some (rs, _) =>
        if k = 0 ∨ rs.length = 0 ∨ rs.length % k ≠ 0 then "ERR bad-impl"
        else combine tag ((rs.zip (List.range rs.length)).map (fun (r, j) => evalDin O (batches.getD (j % k) []) r []))

partial def pAlone : P (List (Bytes × List (Option InMsg))) := do
  let s ← get
  if s.toks.isEmpty then pure []
  else
    expect "L"
    let l ← pHex
    let ms ← pList pMsgOpt
    let r ← pAlone
    pure ((l, ms) :: r)

/-- `din.ctx <as din.lines> | <msgs> ; (L <hex line> <msgs>)*` -/
def stepDinCtx (args : List String) (impl : String) : String :=
  match pLinesJ.run { toks := args } with
  | none => "ERR bad-record"
  | some ((lines, js), _) =>
    let O := oraclesOfJ js
    if impl.startsWith "panic" then "NE H0:panic - B:ctx"
    else
      let ts := implToks impl
      let main := ts.takeWhile (· ≠ ";")
      let rest := (ts.dropWhile (· ≠ ";")).drop 1
      match (pList pMsgOpt).run { toks := main }, pAlone.run { toks := rest } with
      | some (ims, _), some (alone, _) => evalDin O lines ims alone
      | _, _ => "ERR bad-impl"

/-! ## round trip (C02 `roundtrip_in` on the implementation) -/

def stepRt (args : List String) (impl : String) : String :=
  match (pList pMsg).run { toks := args } with
  | none => "ERR bad-record"
  | some (ms, st) =>
    let O := mkOracles st.nets [] [] []
    let model := match encInE O ms with
      | .ok ls => decInE O ls
      | .error e => .error e
    let modelStr := match model with | .ok out => sMsgs out | .error _ => "panic"
    if impl.startsWith "panic" then
      let eq := match model with | .error _ => "EQ" | .ok _ => "NE"
      s!"{eq} H0:panic {modelStr} B:rt"
    else
      match (pList pMsgOpt).run { toks := (impl.splitOn " ").filter (· ≠ "") } with
      | none => "ERR bad-impl"
      | some (ims, _) =>
        let eq := match model with | .ok mm => mm == ims | .error _ => false
        let h :=
          if ims.any Option.isNone then "H0:nil-message B:rt"
          else if !(Spec.In.inDomainIn O ms && Spec.In.roundtripGuard ms) then "H1 B:rt-outdom"
          else if ims.flatMap Spec.In.effectsOfMsgOpt == ms.flatMap Spec.In.effectsOfIn then "H1 B:rt"
          else "H0:roundtrip-effects-differ B:rt"
        if eq then s!"EQ {h}" else s!"NE {h} {modelStr}"

/-! ## the byte matchers against the library's regular expressions -/

def regexSrc (name : String) : Option String :=
  match name with
  | "regex_cmd" => some Gen.regex_cmd_src
  | "regex_gfx" => some Gen.regex_gfx_src
  | "regex_genericSingle" => some Gen.regex_genericSingle_src
  | "regex_genericDual" => some Gen.regex_genericDual_src
  | "regex_genericSingleStr" => some Gen.regex_genericSingleStr_src
  | "regex_registers" => some Gen.regex_registers_src
  | _ => none

def matcherOf (name : String) : Option (Bytes → Option (List Bytes)) :=
  match name with
  | "regex_cmd" => some matchCmd
  | "regex_gfx" => some matchGfx
  | "regex_genericSingle" => some matchSingle
  | "regex_genericDual" => some matchDual
  | "regex_genericSingleStr" => some matchStr
  | "regex_registers" => some matchReg
  | _ => none

/-- the pattern text of the compiled object the decoder runs is the source text the extractor wrote (which
`C02.regex_sources_tie` pins and whose alternations `C02.regex_keywords_tie` equates with the keyword tables) -/
def stepRx (args : List String) (impl : String) : String :=
  match args with
  | [name] =>
    match regexSrc name, hexS impl with
    | some src, some pat =>
      if src.toUTF8.toList == pat then s!"EQ H1 B:rx-{name}" else s!"NE H1 {hexOfBytes src.toUTF8.toList} B:rx-{name}"
    | _, _ => "ERR bad-record"
  | _ => "ERR bad-record"

def stepMatch (args : List String) (impl : String) : String :=
  match args with
  | [name, l] =>
    match matcherOf name, hexS l with
    | some f, some line =>
      let model := match f line with
        | none => "-"
        | some m => "M " ++ " ".intercalate ((m.drop 1).map hexOfBytes)
      let tag := s!" B:{name}-" ++ (if model = "-" then "nomatch" else "match")
      if model == " ".intercalate ((impl.splitOn " ").filter (· ≠ "")) then s!"EQ H1{tag}" else s!"NE H1 {model}{tag}"
    | _, _ => "ERR bad-record"
  | _ => "ERR bad-record"

/-- `ein.fields | <Message.field>*`: the proto definitions are the ones the encoder model was written against -/
def stepFields (impl : String) : String :=
  let got := implToks impl
  let want := Model.In.protoFieldsRead ++ Model.In.protoFieldsOpaque
  if got.all want.contains && want.all got.contains then "EQ H1 B:proto-fields"
  else
    let extra := got.filter (fun f => !want.contains f)
    let missing := want.filter (fun f => !got.contains f)
    s!"NE H1 unknown-to-model:{",".intercalate extra} missing-in-proto:{",".intercalate missing} B:proto-fields"

def step (cmd : String) (args : List String) (impl : String) : String :=
  match cmd with
  | "ein.msgs" => stepEin args impl
  | "ein.seq" => stepEinSeq "seq" args impl
  | "ein.par" => stepEinSeq "par" args impl
  | "ein.reuse" => stepEinSeq "reuse" args impl
  | "ein.fields" => stepFields impl
  | "din.seq" => stepDinSeq "seq" args impl
  | "din.par" => stepDinSeq "par" args impl
  | "din.ctx" => stepDinCtx args impl
  | "ein.rt" => stepRt args impl
  | "din.lines" => stepDin args impl
  | "din.rx" => stepRx args impl
  | "din.match" => stepMatch args impl
  | _ => "ERR bad-record"

end RawPanelVerif.Driver.ConvIn
