import RawPanelVerif.Base.Wire
import RawPanelVerif.Model.Topology
import RawPanelVerif.Model.TopoJsonText
import RawPanelVerif.Model.TopoAlias
import RawPanelVerif.Spec.TopologySpec
/-!
Driver glue for the `topo.*` records (C13, C14).

Token grammar (space separated; `hex` = lowercase hex of the bytes, `-` when empty; `tok` = ASCII token):
```
T    := title:hex hwcNil:01 nH H^nH tiNil:01 nT (key TD)^nT          keys ascending
H    := id x y txt:hex type uiParent uiYang (~ | + TD)
TD   := w h out:hex in:hex desc:hex ext:hex subidx rotate:tok render:hex (~ | + w h subidx type:hex shrink border) nS S^nS
S    := objType:hex x y w h r rx ry style:hex idx
P    := isButton isBinary isPulsed isAbsolute isIntensity hasDisplay hasLED hasSteps ledBarSteps isMotorized inputType:hex
RES  := ids n id^n | xy x y | txt hex | td TD | err msg:hex | hwc H | p P | tp TD P | panic | argmod
```
`argmod` (instead of the result): an argument object passed to the library differs afterwards from a deep copy taken before
(the free-standing component of `resolveAx`, the definition the predicates are asked about): clause `argument-modified`.
A look-up record's output is `RES json`; `topo.load T | json`; `topo.randomize seq | T json`; `topo.clean | T json`;
`topo.roundtrip | ok T json same:01` or `err`.  `json` is the canonical text of `ToJSON()`.
`topo.jsonraw | hex(ToJSON()) same:01` — the raw bytes of `ToJSON()` (compared with the model's text layer, `Model/TopoJsonText`),
`same` = `JSONstring()` returned the same bytes.
`topo.alias VIA GETTER args | alias had:01 changed:01 json` — VIA := sub | disp | ov, GETTER := type id | resolveA k | resolveAx H |
resolveB k | resolveBid id | defid id: the getter is called, the harness writes through the returned value's `Sub[0]` / `Disp` /
`TypeOverride` (`had` = there was something to write through), records whether `ToJSON()` changed, and undoes the write;
`json` = `ToJSON()` after the undo.  The model side is the store-of-cells model (`Model/TopoAlias`).

Histories on ONE `Topology` object (the harness keeps the object between records; `topo.load` makes a new one):
`topo.assign MODE T | json` — MODE := fresh | inplace: the value `T` is written into the existing object through its exported
fields (new cells everywhere / existing cells reused where the shapes match); the driver's topology becomes `T`.
`topo.wedit VIA GETTER args | RES json1 T json2` — VIA := sub | disp | ov | own | ownrefs: the getter is called (`RES json1`, judged like
any look-up), the caller edits what it was handed WITHOUT undoing it (`own`: every field of the returned struct overwritten,
`ownrefs`: its `Disp`/`Sub` pointed at new cells); `T json2` = the topology afterwards as read through the exported fields /
`ToJSON()`.  The model predicts `T` with the store-of-cells model (`Alias.writeVia`); the driver's topology becomes the observed
`T`, so every later look-up is judged against the topology as it stands.
`topo.pred2 TD TD' | p P p P` — the predicates on ONE definition object, before and after all its fields were assigned from `TD'`.
-/
namespace RawPanelVerif.Driver.Topo
open RawPanelVerif RawPanelVerif.Wire RawPanelVerif.Topo

abbrev P := StateT (List String) Option

def tok : P String := do
  match (← get) with
  | [] => failure
  | a :: r => set r; pure a

def lift {α : Type} (o : Option α) : P α := match o with | some a => pure a | none => failure

def pInt : P Int := do lift (parseInt (← tok))
def pNat : P Nat := do lift ((← tok).toNat?)
def pBool : P Bool := do lift (parseBool (← tok))
def pHex : P Str := do lift ((unhex (← tok)).map (·.toList))
def pTok : P Str := do let t ← tok; pure (t.toList.map (fun c => c.toNat.toUInt8))

def pMany {α : Type} (p : P α) : Nat → P (List α)
  | 0 => pure []
  | n + 1 => do let a ← p; let r ← pMany p n; pure (a :: r)

def pSub : P SubEl := do
  let objType ← pHex; let x ← pInt; let y ← pInt; let w ← pInt; let h ← pInt
  let r ← pInt; let rx ← pInt; let ry ← pInt; let style ← pHex; let idx ← pInt
  pure { objType, x, y, w, h, r, rx, ry, style, idx }

def pDisp : P (Option Disp) := do
  let t ← tok
  if t = "~" then pure none
  else if t = "+" then do
    let w ← pInt; let h ← pInt; let subidx ← pInt; let type ← pHex; let shrink ← pInt; let border ← pInt
    pure (some { w, h, subidx, type, shrink, border })
  else failure

def pTD : P TypeDef := do
  let w ← pInt; let h ← pInt; let out ← pHex; let inp ← pHex; let desc ← pHex; let ext ← pHex
  let subidx ← pInt; let rotate ← pTok; let render ← pHex; let disp ← pDisp
  let n ← pNat; let sub ← pMany pSub n
  -- zero-valued tokens are read as Go reads them (`0.0` is the value 0, printed `0`; `-0.0` prints `-0`)
  pure { w, h, out, inp, desc, ext, subidx, rotate := rotCanon rotate, disp, sub, render }

def pOv : P (Option TypeDef) := do
  let t ← tok
  if t = "~" then pure none else if t = "+" then do pure (some (← pTD)) else failure

def pHWc : P HWc := do
  let id ← pNat; let x ← pInt; let y ← pInt; let txt ← pHex; let type ← pNat
  let uiParent ← pNat; let uiYang ← pNat; let ov ← pOv
  pure { id, x, y, txt, type, ov, uiParent, uiYang }

def pEntry : P (Nat × TypeDef) := do let k ← pNat; let td ← pTD; pure (k, td)

def pTopo : P Topology := do
  let title ← pHex; let hwcNil ← pBool; let n ← pNat; let hwc ← pMany pHWc n
  let tiNil ← pBool; let m ← pNat; let ents ← pMany pEntry m
  -- canonical form of the map: ascending keys (the harness prints them so; insert anyway)
  pure { title, hwc, hwcNil, ti := ents.foldl (fun acc e => Map.insert acc e.1 e.2) [], tiNil }

def pPreds : P Preds := do
  let isButton ← pBool; let isBinary ← pBool; let isPulsed ← pBool; let isAbsolute ← pBool
  let isIntensity ← pBool; let hasDisplay ← pBool; let hasLED ← pBool; let hasSteps ← pInt
  let ledBarSteps ← pInt; let isMotorized ← pBool; let inputType ← pHex
  pure { isButton, isBinary, isPulsed, isAbsolute, isIntensity, hasDisplay, hasLED, hasSteps, ledBarSteps,
         isMotorized, inputType }

def pResult : P Result := do
  let t ← tok
  match t with
  | "ids" => do let n ← pNat; pure (.ids (← pMany pNat n))
  | "xy" => do let x ← pInt; let y ← pInt; pure (.xy x y)
  | "txt" => do pure (.text (← pHex))
  | "td" => do pure (.typeDef (← pTD))
  | "err" => do pure (.notFound (← pHex))
  | "hwc" => do pure (.comp (← pHWc))
  | "p" => do pure (.preds (← pPreds))
  | "tp" => do let td ← pTD; let p ← pPreds; pure (.typePreds td p)
  | "panic" => pure .panic
  | _ => failure

def pAnswer : P Answer := do let res ← pResult; let after ← pTok; pure { res, after }

def run {α : Type} (p : P α) (ts : List String) : Option α :=
  match p.run ts with
  | some (a, []) => some a
  | _ => none

/-! printers -/

def sTok (s : Str) : String := String.ofList (s.map (fun b => Char.ofNat b.toNat))
def sHex (s : Str) : String := hexOfBytes s
def sInt (n : Int) : String := toString n
def sNat (n : Nat) : String := toString n

def sSub (s : SubEl) : List String :=
  [sHex s.objType, sInt s.x, sInt s.y, sInt s.w, sInt s.h, sInt s.r, sInt s.rx, sInt s.ry, sHex s.style, sInt s.idx]

def sDisp : Option Disp → List String
  | none => ["~"]
  | some d => ["+", sInt d.w, sInt d.h, sInt d.subidx, sHex d.type, sInt d.shrink, sInt d.border]

def sTD (td : TypeDef) : List String :=
  [sInt td.w, sInt td.h, sHex td.out, sHex td.inp, sHex td.desc, sHex td.ext, sInt td.subidx, sTok td.rotate,
   sHex td.render] ++ sDisp td.disp ++ [sNat td.sub.length] ++ td.sub.flatMap sSub

def sHWc (c : HWc) : List String :=
  [sNat c.id, sInt c.x, sInt c.y, sHex c.txt, sNat c.type, sNat c.uiParent, sNat c.uiYang] ++
  (match c.ov with | none => ["~"] | some o => "+" :: sTD o)

def sTopo (t : Topology) : List String :=
  [sHex t.title, showBool t.hwcNil, sNat t.hwc.length] ++ t.hwc.flatMap sHWc ++
  [showBool t.tiNil, sNat t.ti.length] ++ t.ti.flatMap (fun e => sNat e.1 :: sTD e.2)

def sPreds (p : Preds) : List String :=
  [showBool p.isButton, showBool p.isBinary, showBool p.isPulsed, showBool p.isAbsolute, showBool p.isIntensity,
   showBool p.hasDisplay, showBool p.hasLED, sInt p.hasSteps, sInt p.ledBarSteps, showBool p.isMotorized,
   sHex p.inputType]

def sResult : Result → List String
  | .ids l => "ids" :: sNat l.length :: l.map sNat
  | .xy x y => ["xy", sInt x, sInt y]
  | .text s => ["txt", sHex s]
  | .typeDef td => "td" :: sTD td
  | .notFound m => ["err", sHex m]
  | .comp c => "hwc" :: sHWc c
  | .preds p => "p" :: sPreds p
  | .typePreds td p => "tp" :: (sTD td ++ sPreds p)
  | .panic => ["panic"]

def sAnswer (a : Answer) : String := " ".intercalate (sResult a.res ++ [sTok a.after])

/-! queries -/

def parseQuery (cmd : String) (args : List String) : Option Query :=
  match cmd with
  | "topo.hwcs" => run (pure .hwcs) args
  | "topo.xy" => run (do pure (.xy (← pNat))) args
  | "topo.text" => run (do pure (.text (← pNat))) args
  | "topo.type" => run (do pure (.type (← pNat))) args
  | "topo.withdisp" => run (pure .withDisplay) args
  | "topo.resolveA" => run (do pure (.resolveA (← pNat))) args
  | "topo.resolveAx" => run (do pure (.resolveAx (← pHWc))) args
  | "topo.resolveB" => run (do pure (.resolveB (← pInt))) args
  | "topo.resolveBid" => run (do pure (.resolveBid (← pInt))) args
  | "topo.defid" => run (do pure (.defId (← pInt))) args
  | "topo.pred" => run (do pure (.pred (← pTD))) args
  | "topo.predOf" => run (do pure (.predOf (← pNat))) args
  | _ => none

/-! witness recovery for `RandomizeTypes`: an iteration order and random stream under which the model
reproduces the implementation's result (search only; the comparison afterwards is exact) -/

def recoverMapping (t t' : Topology) : Option (List (Nat × Nat)) :=
  let fromComps := (t.hwc.zip t'.hwc).foldl (fun (acc : List (Nat × Nat)) (cc : HWc × HWc) =>
    if cc.1.type ≠ 0 && Map.contains t.ti cc.1.type && (acc.lookup cc.1.type).isNone
    then acc ++ [(cc.1.type, cc.2.type)] else acc) []
  t.ti.foldlM (fun (acc : List (Nat × Nat)) (e : Nat × TypeDef) =>
    if (acc.lookup e.1).isSome then some acc else
    match t'.ti.find? (fun e' => e'.2 == e.2 && !(acc.any (fun p => p.2 == e'.1))) with
    | some e' => some (acc ++ [(e.1, e'.1)])
    | none => none) fromComps

def insertBy (f : Nat × TypeDef → Nat) (e : Nat × TypeDef) : List (Nat × TypeDef) → List (Nat × TypeDef)
  | [] => [e]
  | x :: r => if f e < f x then e :: x :: r else x :: insertBy f e r

def modelRandomize (sequence : Bool) (t t' : Topology) : Option Topology :=
  match recoverMapping t t' with
  | none => randomizeTypes t.ti (fun i => 1000 + i) 8 sequence t
  | some mp =>
    let key (e : Nat × TypeDef) : Nat := (mp.lookup e.1).getD 0
    if sequence then
      randomizeTypes (t.ti.foldl (fun acc e => insertBy key e acc) []) (fun _ => 0) 8 true t
    else
      randomizeTypes t.ti (fun i => match t.ti[i]? with | some e => key e | none => 0) 8 false t

/-! per-record step -/

structure St where
  t : Topology := {}
  prevJ : Str := []
  cache : List (TypeDef × Preds) := []

def hTag (h : Option String) : String := match h with | none => "H1" | some cl => s!"H0:{cl}"

def answer (eq : Bool) (h : Option String) (model : String) (tags : List String) : String :=
  let b := " ".intercalate (tags.map (fun x => "B:" ++ x))
  let b := if b.isEmpty then "" else " " ++ b
  if eq then s!"EQ {hTag h}{b}" else s!"NE {hTag h} {model}{b}"

def branchTags (t : Topology) (q : Query) : List String :=
  let comp (c : Option HWc) : List String :=
    match c with
    | none => ["absent"]
    | some c =>
      ["found", (if (Spec.Topo.base t c.type).isSome then "indexed" else if c.type = 0 then "type0" else "unindexed"),
       (match c.ov with | none => "noov" | some _ => "ov")]
  match q with
  | .xy id | .text id | .type id | .predOf id => comp (Spec.Topo.firstWithId t id)
  | .resolveA k => comp t.hwc[k]?
  | .resolveAx c => comp (some c)
  | .resolveB k => if k < 0 then ["negidx"] else comp t.hwc[k.toNat]?
  | .resolveBid id | .defId id => if id < 0 ∨ id ≥ 4294967296 then ["wrapid"] else comp (Spec.Topo.firstWithId t id.toNat)
  | _ => []

def stepOk (st : St) (cmd : String) (args : List String) (impl : String) : St × String :=
  let implToks := (impl.splitOn " ").filter (· ≠ "")
  match cmd with
  | "topo.load" =>
    match run pTopo args with
    | none => (st, "ERR bad-record")
    | some t =>
      let mj := serialise t
      let ij := implToks.headD "" |>.toList.map (fun c => c.toNat.toUInt8)
      let eq := decide (ij = mj) && implToks.length == 1
      ({ t := t, prevJ := ij, cache := [] }, answer eq none (sTok mj) [])
  | "topo.randomize" =>
    match args with
    | [sq] =>
      match parseBool sq with
      | none => (st, "ERR bad-record")
      | some sequence =>
        match run (do let t' ← pTopo; let j ← pTok; pure (t', j)) implToks with
        | none => (st, answer false (some "shape") "?" [])
        | some (t', j) =>
          let h := Spec.Topo.checkRandomize sequence st.t t'
          let (eq, ms) := match modelRandomize sequence st.t t' with
            | none => (false, "nontermination")
            | some mt => (decide (mt = t') && decide (serialise mt = j), " ".intercalate (sTopo mt ++ [sTok (serialise mt)]))
          ({ st with t := t', prevJ := j }, answer eq h ms [if Spec.Topo.inDomain14 st.t then "indomain" else "outdomain"])
    | _ => (st, "ERR bad-record")
  | "topo.clean" =>
    match run (do let t' ← pTopo; let j ← pTok; pure (t', j)) implToks with
    | none => (st, answer false (some "shape") "?" [])
    | some (t', j) =>
      let h := Spec.Topo.checkClean st.t t'
      let (eq, ms) := match cleanSections st.t with
        | none => (false, "panic")
        | some mt => (decide (mt = t') && decide (serialise mt = j), " ".intercalate (sTopo mt ++ [sTok (serialise mt)]))
      ({ st with t := t', prevJ := j }, answer eq h ms [])
  | "topo.roundtrip" =>
    let parsed := run (do
      let k ← tok
      if k = "ok" then do let t' ← pTopo; let j ← pTok; let same ← pBool; pure (some (t', j, same))
      else if k = "err" then pure none else failure) implToks
    match parsed with
    | none => (st, answer false (some "shape") "?" [])
    | some r =>
      let h := match r with
        | none => Spec.Topo.checkRoundTrip st.t st.prevJ none []
        | some (t', j2, same) => (Spec.Topo.checkRoundTrip st.t st.prevJ (some t') j2).orElse (fun _ => Spec.Topo.checkSerialisers same)
      let ms := match fromJSON (toJSON st.t) with
        | none => "err"
        | some mt => " ".intercalate (["ok"] ++ sTopo mt ++ [sTok (serialise mt), "1"])
      (st, answer (ms = " ".intercalate implToks) h ms [])
  | "topo.jsonraw" =>
    let ms := s!"{sHex (toJSONText st.t)} 1"
    let h := match implToks with
      | [_, same] => Spec.Topo.checkSerialisers (same != "0")
      | _ => some "shape"
    (st, answer (ms = " ".intercalate implToks) h ms [])
  | "topo.assign" =>
    match args with
    | mode :: rest =>
      if mode ≠ "fresh" && mode ≠ "inplace" then (st, "ERR bad-record") else
      match run pTopo rest with
      | none => (st, "ERR bad-record")
      | some t =>
        let mj := serialise t
        let ij := implToks.headD "" |>.toList.map (fun c => c.toNat.toUInt8)
        let eq := decide (ij = mj) && implToks.length == 1
        ({ st with t := t, prevJ := ij }, answer eq none (sTok mj) [mode])
    | _ => (st, "ERR bad-record")
  | "topo.wedit" =>
    match args with
    | viaS :: getter :: rest =>
      let via? : Option Alias.Via := match viaS with
        | "sub" => some .sub | "disp" => some .disp | "ov" => some .ov | "own" => some .own | "ownrefs" => some .ownrefs | _ => none
      let lay := Alias.layTopo st.t
      let q? : Option Query := if getter = "resolveAx" then (run pHWc rest).map .resolveAx else parseQuery ("topo." ++ getter) rest
      match via?, q? with
      | some via, some q =>
        let (h0, r) : Alias.Heap × (Alias.ResR × Alias.Heap) := match q with
          | .resolveAx c => let p := Alias.layHWc lay.1 c; (p.1, Alias.execRx p.1 lay.2 p.2)
          | q => (lay.1, Alias.execR lay.1 lay.2 q)
        let _ := h0
        let (ma, _) := exec st.t q
        let h' := (Alias.writeVia r.2 r.1 via).getD r.2
        let mt := Alias.absTopo h' lay.2
        let ms := " ".intercalate (sResult ma.res ++ [sTok ma.after] ++ sTopo mt ++ [sTok (serialise mt)])
        let eq := ms = " ".intercalate implToks
        let wrote := (Alias.writeVia r.2 r.1 via).isSome
        let tags := branchTags st.t q ++ ["wedit-" ++ viaS, "wedit-" ++ getter, if !wrote then "nothing" else if mt = st.t then "topo-same" else "topo-changed"]
        match run (do let a ← pAnswer; let t' ← pTopo; let j ← pTok; pure (a, t', j)) implToks with
        | none => (st, answer eq (some "shape") ms tags)
        | some (ia, t', j2) =>
          let h := Spec.Topo.checkLookup st.t st.prevJ q ia
          ({ st with t := t', prevJ := j2 }, answer eq h ms tags)
      | _, _ => (st, "ERR bad-record")
    | _ => (st, "ERR bad-record")
  | "topo.pred2" =>
    match run (do let a ← pTD; let b ← pTD; pure (a, b)) args with
    | none => (st, "ERR bad-record")
    | some (td1, td2) =>
      let ms := " ".intercalate (("p" :: sPreds (predsOf td1)) ++ ("p" :: sPreds (predsOf td2)))
      let eq := ms = " ".intercalate implToks
      let pP : P Preds := do let k ← tok; if k = "p" then pPreds else failure
      match run (do let a ← pP; let b ← pP; pure (a, b)) implToks with
      | none => (st, answer eq (some (if implToks.contains "argmod" then "argument-modified" else "shape")) ms ["pred2"])
      | some (p1, p2) =>
        let h := match Spec.Topo.checkPreds td1 p1 with
          | some e => some e
          | none => Spec.Topo.checkPreds td2 p2
        let x1 := (td1, p1)
        let x2 := (td2, p2)
        let h := if h.isNone && !(Spec.Topo.predsConsistent st.cache x1 && Spec.Topo.predsConsistent (x1 :: st.cache) x2) then some "preds" else h
        let cache := if st.cache.contains x1 then st.cache else x1 :: st.cache
        let cache := if cache.contains x2 then cache else x2 :: cache
        ({ st with cache := cache }, answer eq h ms ["pred2", if td1.inp = td2.inp then "same-in" else "in-changed"])
  | "topo.alias" =>
    match args with
    | viaS :: getter :: rest =>
      let via? : Option Alias.Via := match viaS with
        | "sub" => some .sub | "disp" => some .disp | "ov" => some .ov | _ => none
      let lay := Alias.layTopo st.t
      -- (heap the topology is read in before the call, the look-up's result and heap)
      let call? : Option (Alias.Heap × (Alias.ResR × Alias.Heap)) :=
        if getter = "resolveAx" then
          (run pHWc rest).map (fun c => let p := Alias.layHWc lay.1 c; (p.1, Alias.execRx p.1 lay.2 p.2))
        else
          (parseQuery ("topo." ++ getter) rest).map (fun q => (lay.1, Alias.execR lay.1 lay.2 q))
      match via?, call? with
      | some via, some (h0, r) =>
        let o := Alias.aliasOutcome h0 lay.2 r via
        let mj := serialise (Alias.absTopo r.2 lay.2)
        let ms := s!"alias {showBool o.1} {showBool o.2} {sTok mj}"
        let eq := ms = " ".intercalate implToks
        let tags := [viaS, getter, if o.1 then "had" else "nothing", if o.2 then "changed" else "unchanged"]
        match implToks with
        | ["alias", _, _, j] =>
          let ij := j.toList.map (fun c => c.toNat.toUInt8)
          ({ st with prevJ := ij }, answer eq (if ij ≠ st.prevJ then some "mutated" else none) ms tags)
        | _ => (st, answer eq (some "shape") ms tags)
      | _, _ => (st, "ERR bad-record")
    | _ => (st, "ERR bad-record")
  | _ =>
    match parseQuery cmd args with
    | none => (st, "ERR bad-record")
    | some q =>
      let (ma, _) := exec st.t q
      let ms := sAnswer ma
      let eq := ms = " ".intercalate implToks
      match run pAnswer implToks with
      | none => (st, answer eq (some (if implToks.contains "argmod" then "argument-modified" else "shape")) ms (branchTags st.t q))
      | some ia =>
        let h := Spec.Topo.checkLookup st.t st.prevJ q ia
        let (h, cache) := match Spec.Topo.predPair q ia.res with
          | none => (h, st.cache)
          | some x =>
            ((if h.isNone && !Spec.Topo.predsConsistent st.cache x then some "preds" else h),
             if st.cache.contains x then st.cache else x :: st.cache)
        ({ st with prevJ := ia.after, cache := cache }, answer eq h ms (branchTags st.t q))

/-- a panic inside the library call (reported by the harness as `panic:<text>`) violates the property whatever
the record; the model's own answer is still printed -/
def step (st : St) (cmd : String) (args0 : List String) (impl : String) : St × String :=
  let args := args0.filter (fun a => !a.startsWith "#")     -- `#…` tokens are comments (topology fingerprint)
  if impl.startsWith "panic:" then
    let (st', out) := stepOk st cmd args "?"
    let toks := (out.splitOn " ").filter (· ≠ "")
    (st', " ".intercalate (["NE", "H0:panic"] ++ toks.drop 2))
  else stepOk st cmd args impl

end RawPanelVerif.Driver.Topo
