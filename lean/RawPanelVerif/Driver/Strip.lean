import RawPanelVerif.Base.Wire
import RawPanelVerif.Model.Strip
import RawPanelVerif.Spec.StripSpec
/-! Driver glue for `strip.*` records (C07). -/
namespace RawPanelVerif.Driver.Strip
open RawPanelVerif RawPanelVerif.Wire RawPanelVerif.Strip

def unhexList (s : String) : Option (List (List UInt8)) :=
  if s = "" then some [] else (s.splitOn ",").mapM (fun t => (unhex t).map (·.toList))

def hexList (ls : List (List UInt8)) : String := ",".intercalate (ls.map hexOfBytes)

/-- records:
 `strip.json <kind> <s>  | <payload>`            payload after the key of the returned line
 `strip.svg <s>          | <payload>`
 `strip.field <kind> <s> | <lines(s)>;<lines(flat s)>`  (each a comma-separated hex list; `<kind>` = one message
                          kind or several joined by `+` = a multi-message call of one encoder)
 `strip.wire <writer> <text>* | <received>;<produced>`  lines a scripted ASCII panel received through the writer
                          against the encoder's strings for the same messages (model of a faithful writer: the same) -/
def step (cmd : String) (args : List String) (impl : String) : String :=
  match cmd, args with
  | "strip.json", [_, s] =>
    match unhex s, unhex impl with
    | some s, some o =>
      let m := stripLineBreaks s.toList
      let h := match Spec.Strip.checkPayload s.toList o.toList with | none => "H1" | some c => s!"H0:{c}"
      if m = o.toList then s!"EQ {h}" else s!"NE {h} {hexOfBytes m}"
    | some s, none => s!"NE H0:panic {hexOfBytes (stripLineBreaks s.toList)}"
    | _, _ => "ERR bad-record"
  | "strip.svg", [s] =>
    match unhex s, unhex impl with
    | some s, some o =>
      let m := stripLineBreaksSvg s.toList
      let h := match Spec.Strip.checkPayload s.toList o.toList with | none => "H1" | some c => s!"H0:{c}"
      if m = o.toList then s!"EQ {h}" else s!"NE {h} {hexOfBytes m}"
    | some s, none => s!"NE H0:panic {hexOfBytes (stripLineBreaksSvg s.toList)}"
    | _, _ => "ERR bad-record"
  | "strip.field", [_, _] =>
    match impl.splitOn ";" with
    | [a, b] =>
      match unhexList a, unhexList b with
      | some outS, some outFlat =>
        -- model: the encoder's strings for the flattened field, each passed through `singleLine`
        let m := outFlat.map singleLine
        let h := match Spec.Strip.checkField outS outFlat with | none => "H1" | some c => s!"H0:{c}"
        if m = outS then s!"EQ {h}" else s!"NE {h} {hexList m}"
      | _, _ => "NE H0:panic -"
    | _ => "NE H0:panic -"
  | "strip.wire", _ :: _ =>
    match impl.splitOn ";" with
    | [a, b] =>
      match unhexList a, unhexList b with
      | some received, some produced =>
        let h := match Spec.Strip.checkWire received produced with | none => "H1" | some c => s!"H0:{c}"
        if received = produced then s!"EQ {h}" else s!"NE {h} {hexList produced}"
      | _, _ => "NE H0:panic -"
    | _ => "NE H0:panic -"
  | _, _ => "ERR bad-record"

end RawPanelVerif.Driver.Strip
