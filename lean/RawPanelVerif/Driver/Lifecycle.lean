import RawPanelVerif.Base.Wire
import RawPanelVerif.Model.Lifecycle
import RawPanelVerif.Spec.LifecycleSpec
/-!
Driver glue for `life.run` records (C11).

* `H1/H0:<clause>`: the monitors of `Spec/LifecycleSpec.lean` on the observed trace.
* `EQ/NE`: trace validation — the observed trace is accepted by the LTS of `Model/Lifecycle.lean`
  (set-of-states simulation; unobserved program steps are τ); the goroutine census before the cancellation (`gorc`) is
  bounded by the goroutines the model has alive (main loop + writers not yet exited), and the socket of connection k is
  seen closing no later than shortly after the k-th disconnect callback (`closeOrder`: the model closes before it calls
  back).  Both are comparisons with the model, not clauses of the property.  Deliveries are logged by a goroutine of the
  harness and may be recorded late relative to the client's own events, so `takeFrame`/`deliver` are τ steps and the
  observed `del` events are checked by count (never more observed than the model has delivered, equal at the end).
  The panel's `tx` events are fed byte by byte (`byteArrive fin`, `fin` from the frame boundaries of the scripted
  stream), so a drop or a cancellation lands on its exact byte offset.  The model clock follows the trace
  timestamps (`tick`), stopping at every timer expiry in between; the retry periods are the script's minus the
  monitor's `tolEarly`.  `feed:i` = `offer`, `cstop`/`cres` = `consumerStop`/`consumerResume`, `ovr:k` = the four bytes
  of an over-limit header.  Scripts with `modes=` negotiate a mode per connection: the probe verdict fed at `acc:k`, the
  frame boundaries of `tx:k` and the expected `binary` argument of `con:k` (`conFlag`) are those of connection k
  (`Spec.Lifecycle.connScript`).
-/
namespace RawPanelVerif.Driver.Lifecycle
open RawPanelVerif RawPanelVerif.Wire
open RawPanelVerif.Spec.Lifecycle (Ev TEv Script Mode)

def kvOf (args : List String) : List (String × String) :=
  args.filterMap (fun a => match a.splitOn "=" with
    | k :: v :: rest => some (k, String.intercalate "=" (v :: rest))
    | _ => none)

def kvGet (kv : List (String × String)) (k : String) : Option String := (kv.find? (·.1 = k)).map (·.2)
def kvNat (kv : List (String × String)) (k : String) (d : Nat) : Nat := ((kvGet kv k).bind String.toNat?).getD d

def parseMode : String → Option Mode
  | "absent" => some .absent | "refuse" => some .refuse | "silent" => some .silent
  | "bin" => some .bin | "asc" => some .asc | "late" => some .late | _ => none

def parseScript (args : List String) : Option Script := do
  let kv := kvOf args
  let mode ← (kvGet kv "mode").bind parseMode
  let stream := match (kvGet kv "stream").bind unhex with | some b => b.toList.map (·.toNat) | none => []
  let exp := match kvGet kv "exp" with | some e => e.splitOn ";" | none => []
  let cut := min (kvNat kv "cut" 0) stream.length
  let hold := min (kvNat kv "hold" stream.length) stream.length
  -- `modes=` one letter per connection: b = binary (stream/exp), anything else = an ASCII handshake (astream/aexp)
  let astream := match (kvGet kv "astream").bind unhex with | some b => b.toList.map (·.toNat) | none => []
  let aexp := match kvGet kv "aexp" with | some e => e.splitOn ";" | none => []
  let per : List (Mode × List Nat × List String) := match kvGet kv "modes" with
    | some ms => ms.toList.map (fun c => if c = 'b' then (Mode.bin, stream, exp) else (Mode.asc, astream, aexp))
    | none => []
  pure { mode, nc := kvNat kv "nc" 0, rc := kvNat kv "rc" 0, cyc := kvNat kv "cyc" 0, cut, hold,
         park := kvNat kv "park" 0, appear := kvNat kv "appear" 0, stream, exp, per }

def parseEv (tok : String) : Option TEv := do
  match tok.splitOn ":" with
  | t :: name :: a =>
    let t ← t.toNat?
    let e : Ev ← match name, a with
      | "start", _ => some .start
      | "cancel", _ => some .cancel
      | "cancel2", _ => some .cancel2
      | "cancelfb", _ => some .cancelfb
      | "listen", _ => some .listen
      | "acc", [k] => k.toNat?.map .acc
      | "rx", k :: _ => k.toNat?.map .rx
      | "tx", [k, o] => do some (.tx (← k.toNat?) (← o.toNat?))
      | "pcl", [k, o] => do some (.pcl (← k.toNat?) (← o.toNat?))
      | "pclose", [k] => k.toNat?.map .pclose
      | "held", [k, o] => do some (.held (← k.toNat?) (← o.toNat?))
      | "peof", [k, kind] => do some (.peof (← k.toNat?) kind)
      | "con", k :: b :: _ => do some (.con (← k.toNat?) (← parseBool b))
      | "dis", [k, b] => do some (.dis (← k.toNat?) (← parseBool b))
      | "del", [s] => some (.del s)
      | "ret", _ => some .ret
      | "wg", _ => some .wg
      | "nowg", _ => some .nowg
      | "noret", _ => some .noret
      | "gor", [n] => n.toNat?.map .gor
      | "gor2", [n] => n.toNat?.map .gor2
      | "gorc", [n] => n.toNat?.map .gorc
      | "hk", ["release"] => some .hkRelease
      | "hk", p :: _ => some (.hk p)
      | "lag", [n] => n.toNat?.map .lag
      | "cstop", _ => some .cstop
      | "cres", _ => some .cres
      | "end", _ => some .fin
      | _, _ => some (.other tok)
    pure { t, e }
  | _ => none

def parseTrace (impl : String) : Option (List TEv) :=
  ((impl.splitOn " ").filter (· ≠ "")).mapM parseEv

/-! ## LTS simulation -/
open RawPanelVerif.Lifecycle in
/-- arrival flags of the bytes `prev .. off-1` of the scripted stream: a byte completes a frame when the Spec's count
of complete frames grows with it -/
def finFlags (sc : Script) (prev off : Nat) : List Bool :=
  (List.range (off - prev)).map (fun j =>
    decide (Spec.Lifecycle.framesIn sc (prev + j + 1) > Spec.Lifecycle.framesIn sc (prev + j)))

open RawPanelVerif.Lifecycle in
/-- the probe's verdict for the scripted panel (C12 owns the classification; only `readFault` reads it) -/
def modeBinary : Mode → Bool
  | .bin | .late => true
  | _ => false

open RawPanelVerif.Lifecycle in
/-- observable labels of one trace event (in order), given the bytes already sent per connection -/
def obsOf (sc : Script) (sent : List (Nat × Nat)) (nconns : Nat) (x : TEv) (tokRaw : String) : List Lbl × List (Nat × Nat) :=
  match x.e with
  | .acc k => ([.dialOk (modeBinary (Spec.Lifecycle.connScript sc k).mode)], sent)
  | .pcl _ _ => ([.peerClose], sent)
  | .cancel => ([.cancel], sent)
  | .cancel2 => ([.cancel], sent)
  | .cstop => ([.consumerStop], sent)
  | .cres => ([.consumerResume], sent)
  | .tx k off =>
    let prev := ((sent.find? (·.1 = k)).map (·.2)).getD 0
    ((finFlags (Spec.Lifecycle.connScript sc k) prev off).map .byteArrive, (k, max off prev) :: sent.filter (·.1 ≠ k))
  | .con _ _ => ([.onConnect], sent)
  | .dis _ b => ([.onDisconnect b], sent)
  | .ret => ([.ret], sent)
  | .hk "writerStart" =>
    -- token is `t:hk:writerStart:i` (i = 1-based ordinal of the connection)
    match (tokRaw.splitOn ":").getLast?.bind String.toNat? with
    | some i => if i ≥ 1 ∧ i ≤ nconns then ([.writerStart (nconns - i)], sent) else ([], sent)
    | none => ([], sent)
  | .other _ =>
    match (tokRaw.splitOn ":").drop 1 with
    | "feed" :: _ => ([.offer], sent)
    | "ovr" :: _ => (List.replicate 4 (.byteArrive false), sent)
    | _ => ([], sent)
  | _ => ([], sent)

open RawPanelVerif.Lifecycle in
def tauLabels (s : St) (hooked : Bool) : List Lbl :=
  [.dialFail, .noConnTimer, .noConnDrain, .spawnWriter, .takeFrame, .deliver, .readErr, .readFault, .closeQuit, .connClose, .sleepDone]
  ++ (List.range s.conns.length).flatMap (fun i =>
      (if hooked then [] else [Lbl.writerStart i]) ++ [.writerSeesCancel i, .writerSeesQuit i, .writerTake i, .writeDone i, .writeErr i])

open RawPanelVerif.Lifecycle in
/-- writers of earlier connections influence no observable guard: run them to completion at once
(not the parked ones when the hook makes `writerStart` observable) -/
def settleOld (hooked : Bool) (s : St) : St :=
  match s.conns with
  | [] => s
  | c :: rest =>
    let rest' := rest.map (fun o =>
      if (o.w = .running ∨ o.w = .writing ∨ (o.w = .spawned ∧ !hooked)) ∧ (o.quit ∨ s.cancelled) then { o with w := .exited } else o)
    { s with conns := c :: rest' }

open RawPanelVerif.Lifecycle in
/-- a connection the reader has left (or an earlier one): which bytes arrived when no longer matters, only how many
frames did — forget the arrival order so that branches that differ only in it fall together -/
def canonRx (c : Conn) : Conn := { c with rx := List.replicate c.arrived true }

open RawPanelVerif.Lifecycle in
def canonConns (s : St) : St :=
  match s.conns with
  | [] => s
  | c :: rest => { s with conns := (if s.phase.reading then c else canonRx c) :: rest.map canonRx }

open RawPanelVerif.Lifecycle in
/-- erase what no guard reads (history, wait group); `offered` is kept as "something has been offered" (sticky: once the
application has started to offer lists, a list may be pending at any later time — an over-approximation that keeps the
state sets small) -/
def norm (hooked : Bool) (s : St) : St :=
  canonConns (settleOld hooked { s with log := [], stamps := [], wg := 0, offered := if s.offered > 0 then 2 else 0 })

open RawPanelVerif.Lifecycle in
partial def closure (hooked : Bool) (todo seen : List St) : List St :=
  match todo with
  | [] => seen
  | s :: rest =>
    if seen.contains s then closure hooked rest seen else
    let succ := (tauLabels s hooked).filterMap (fun l => (step false s l).map (norm hooked))
    closure hooked (succ ++ rest) (s :: seen)

open RawPanelVerif.Lifecycle in
def dedup (l : List St) : List St := l.foldl (fun acc s => if acc.contains s then acc else s :: acc) []

open RawPanelVerif.Lifecycle in
/-- let the model clock run up to the time `t` of the next observation, stopping at every timer / sleep expiry on
the way (a τ step such as `noConnTimer` → `dialFail` may start the next timer at that instant) -/
def advance (hooked : Bool) (t : Nat) : Nat → List St → List St
  | 0, S => S
  | fuel + 1, S =>
    let S := closure hooked S []
    match S.head? with
    | none => S
    | some s0 =>
      let now := s0.now
      if t ≤ now then S else
      let wakes := S.filterMap (fun s =>
        if (s.phase = .noConnWait ∨ s.phase = .retrySleep) ∧ now < s.wake ∧ s.wake < t then some s.wake else none)
      let target := wakes.foldl min t
      let S' := dedup (S.map (fun s => { s with now := target }))
      if target = t then S' else advance hooked t fuel S'

open RawPanelVerif.Lifecycle in
def totalDelivered (s : St) : Nat := s.conns.foldl (fun n c => n + c.delivered) 0

open RawPanelVerif.Lifecycle in
def phaseName : Phase → String
  | .dialing => "dialing" | .noConnWait => "noConnWait" | .probing => "probing" | .announcing => "announcing"
  | .connected => "connected" | .teardown _ => "teardown" | .retrySleep => "retrySleep"
  | .exiting => "exiting" | .returned => "returned"

structure SimRes where
  ok : Bool
  why : String := ""
  cancelPhases : List String := []

open RawPanelVerif.Lifecycle in
/-- set-of-states simulation over the trace -/
def simulate (sc : Script) (toks : List String) (tr : List TEv) : SimRes := Id.run do
  let hooked := tr.any (fun x => match x.e with | .hk _ => true | _ => false)
  let s0 := Lifecycle.initWith (Spec.Lifecycle.ncMs sc - Spec.Lifecycle.tolEarly) (Spec.Lifecycle.rcMs sc - Spec.Lifecycle.tolEarly)
  let mut S : List St := [norm hooked s0]
  let mut sent : List (Nat × Nat) := []
  let mut dels : Nat := 0
  let mut idx : Nat := 0
  let mut cph : List String := []
  let mut seenCancel := false
  for (x, tok) in tr.zip toks do
    if x.e = .fin then break
    S := advance hooked x.t 64 S
    S := closure hooked S []
    -- a `del` observation: some state must have delivered at least that many
    match x.e with
    | .del _ =>
      dels := dels + 1
      S := S.filter (fun s => totalDelivered s ≥ dels)
      if S.isEmpty then return { ok := false, why := s!"reject@{idx}:{tok}", cancelPhases := cph }
    | .gorc n =>
      -- goroutine census: the main loop (unless returned) + the writers that have not exited
      -- (the snapshot is not atomic with the log position: an upper bound only; not when the hook parks a writer)
      if sc.park = 0 then
        S := S.filter (fun s => n ≤ (if s.phase = .returned then 0 else 1)
          + (s.conns.filter (fun c => c.w = .spawned ∨ c.w = .running ∨ c.w = .writing)).length)
      if S.isEmpty then return { ok := false, why := s!"reject@{idx}:{tok}", cancelPhases := cph }
    | _ => pure ()
    if (x.e = .cancel ∨ x.e = .cancelfb) ∧ !seenCancel then
      seenCancel := true
      cph := (S.map (fun s => phaseName s.phase)).eraseDups
    let nconns := (S.head?.map (·.conns.length)).getD 0
    let (ls, sent') := obsOf sc sent nconns x tok
    sent := sent'
    for l in ls do
      if (match l with | .byteArrive _ => true | _ => false) then
        -- bytes arriving when the client no longer reads this connection have no effect on it
        S := dedup (S.map (fun s => match step false s l with | some s' => norm hooked s' | none => s))
      else
      S := dedup (S.filterMap (fun s => (step false s l).map (norm hooked)))
      if S.isEmpty then return { ok := false, why := s!"reject@{idx}:{tok}", cancelPhases := cph }
      S := closure hooked S []
    idx := idx + 1
  S := closure hooked S []
  if S.any (fun s => totalDelivered s = dels) then return { ok := true, cancelPhases := cph }
  else return { ok := false, why := "reject@end:delivery-count", cancelPhases := cph }

/-- Model: the teardown closes the socket (`connClose`, connecttopanel.go 236) BEFORE it reports the disconnect
(`onDisconnect`, 239).  Observable counterpart: the panel sees the end of connection k no later than shortly after the
k-th disconnect callback (`closeTolMs` + the recorder's lag).  A comparison with the model, not a clause of the property
(which only demands every socket closed once the call has returned). -/
def closeTolMs : Nat := 300

def closeOrder (tr0 : List TEv) : Option String :=
  let tr := Spec.Lifecycle.upToEnd tr0
  let lagMs := Spec.Lifecycle.lagOf tr
  let ks := (List.range (Spec.Lifecycle.accCount tr)).map (· + 1)
  let late := ks.filter (fun k =>
    match tr.find? (fun x => match x.e with | .dis k' _ => k' = k | _ => false),
          tr.find? (fun x => match x.e with | .peof k' _ => k' = k | _ => false) with
    | some d, some p => p.t > d.t + closeTolMs + lagMs
    | _, _ => false)
  match late with
  | [] => none
  | k :: _ => some s!"socket-closed-after-disconnect-callback@conn{k}"

/-- Model: the probe's verdict (`dialOk bin`) is taken anew on every connection.  Observable counterpart: the `binary`
argument of the k-th connect callback is the mode the scripted panel negotiated on connection k (scripts with `modes=`
change it between the connections of one call).  A comparison with the model's label, not a clause of the property. -/
def conFlag (sc : Script) (tr0 : List TEv) : Option String :=
  let tr := Spec.Lifecycle.upToEnd tr0
  let bad := tr.filterMap (fun x => match x.e with
    | .con k b => if b = modeBinary (Spec.Lifecycle.connScript sc k).mode then none else some k
    | _ => none)
  match bad with
  | [] => none
  | k :: _ => some s!"onconnect-binary-flag-not-the-negotiated-mode@conn{k}"

def modeName : Mode → String
  | .absent => "absent" | .refuse => "refuse" | .silent => "silent" | .bin => "bin" | .asc => "asc" | .late => "late"

def step (cmd : String) (args : List String) (impl : String) : String :=
  if cmd ≠ "life.run" then "ERR bad-record" else
  match parseScript args with
  | none => "ERR bad-script"
  | some sc =>
    if impl.startsWith "panic:" ∨ impl.startsWith "err:" then s!"NE H0:{impl}" else
    match parseTrace impl with
    | none => "ERR bad-trace"
    | some tr =>
      let toks := (impl.splitOn " ").filter (· ≠ "")
      let h := Spec.Lifecycle.check sc tr
      let hs := match h with | none => "H1" | some c => s!"H0:{c}"
      let sim := simulate sc toks tr
      let hooked := tr.any (fun x => match x.e with | .hk _ => true | _ => false)
      let tags := s!"B:mode={modeName sc.mode}" ++ (if sc.per.length > 1 then " B:modes=" ++ String.join (sc.per.map (fun p => if p.1 = Mode.bin then "b" else "a")) else "") ++ String.join (sim.cancelPhases.map (fun p => s!" B:cancel@{p}"))
        ++ (if sc.park > 0 then (if hooked then " B:parked" else " B:nohook") else "")
      if !sim.ok then s!"NE {hs} {sim.why} {tags}"
      else match closeOrder tr, conFlag sc tr with
        | some c, _ => s!"NE {hs} model:{c} {tags}"
        | none, some c => s!"NE {hs} model:{c} {tags}"
        | none, none => s!"EQ {hs} {tags}"

end RawPanelVerif.Driver.Lifecycle
