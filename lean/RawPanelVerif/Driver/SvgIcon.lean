import RawPanelVerif.Driver.Topology
import RawPanelVerif.Model.SvgIcon
import RawPanelVerif.Model.SvgObs
import RawPanelVerif.Spec.SvgSpec
/-!
Driver glue for the `svg.*` records (C15).
```
svg.gen showLabels showHWCID showType showDisplaySize base:hex kinds:hex endOk:01 FEAT TOKS MASK ROT T  |  OUT
kinds := one letter per token `encoding/xml`'s `Decoder.Token` delivers for the base (S start element, E end element,
         C / W character data non-blank / blank, M comment, P processing instruction, D directive); endOk = the stream
         ended with io.EOF (no syntax error).  The harness's independent judgement; input of model and Spec.
FEAT := F:- | F:name,…      the harness's lossy-feature flags of the base (comment, mixed-text, ns-prefix, pi, dup-attr),
                            or rej-encoding / rej-version / rej-entity: a valid document the default decoder rejects.
                            The driver recomputes the flags from TOKS with `Spec.SvgBase.features`; a difference is
                            answered `NE H0:feature-flags` (the flags select known findings: they must be right).
TOKS := n TOK^n             the token stream (Token() with the names of RawToken()), `Base/XmlTok.lean`
TOK  := S pfx:hex local:hex nA (apfx:hex alocal:hex value:hex)^nA | E pfx:hex local:hex | C text:hex (trimmed)
      | M text:hex | P target:hex inst:hex | D text:hex
MASK := ~ | + n (id value)^n
ROT  := n (token fmt fmt90 zero90:01)^n        Sprintf("%03f") of each rotation token occurring in T, and of value+90
OUT  := PR nil strEmpty:01 args:01 again:01 | PR doc strEmpty:01 kept:01 kept2:01 keptMod:01 wellformed:01 tail:01 args:01 again:01 n NODE^n
PR   := err | noroot | root                    what the real xmldom.ParseXML(base) returned
NODE := name:hex nA (key:hex value:hex)^nA text:hex printed:hex          printed = node.XML()

svg.esc s:hex | printed:hex     (&xmldom.Node{Name: "text", Attributes: {style: s}, Text: s}).XML(): the printer on any bytes
```
svg.seq MASK k (showLabels showHWCID showType showDisplaySize base:hex kinds:hex endOk:01 FEAT TOKS ROT T)^k  |  OUT (; OUT)^(k-1)
     k calls that share ONE availability map object and ONE Topology object (each T assigned into it in place, its ToJSON()
     is the argument); every call is judged exactly like a svg.gen record with that mask.
```
`strEmpty` = `GenerateCompositeSVG(...) == ""` (the string-returning wrapper).  `args` / `again` (`Spec.Svg.CallObs`): the map
equals a deep copy taken before the first call of the record after every call; calling again with the same objects gives the
same document and the wrapper's string is the pretty-printed default document.  `keptMod` = `Spec.SvgBase.keepsContentMod`.
```
The model's flags are `Xmldom.modelObserved` (Model/SvgObs.lean): `kept2` / `wellformed` are `Spec.SvgBase.keepsContent` /
`noDupAttrs` of the token stream the modelled xmldom round trip prints (`Xmldom.printedToks`, appended elements
included); `kept` and `tail` are `1`.
-/
namespace RawPanelVerif.Driver.Svg
open RawPanelVerif RawPanelVerif.Wire RawPanelVerif.Topo RawPanelVerif.Driver.Topo

def pMask : P (Option (List (Nat × Nat))) := do
  let t ← tok
  if t = "~" then pure none
  else if t = "+" then do
    let n ← pNat
    let l ← pMany (do let k ← pNat; let v ← pNat; pure (k, v)) n
    pure (some l)
  else failure

def pRot : P (List (Str × Svg.RotInfo)) := do
  let n ← pNat
  pMany (do let t ← pTok; let f ← pTok; let f90 ← pTok; let z ← pBool; pure (t, { fmt := f, fmt90 := f90, zero90 := z })) n

def pNode : P (SvgNode × Str) := do
  let name ← pHex
  let n ← pNat
  let attrs ← pMany (do let k ← pHex; let v ← pHex; pure (k, v)) n
  let text ← pHex
  let printed ← pHex
  pure ({ name, attrs, text }, printed)

structure Out where
  pr : String
  nodes : Option (List (SvgNode × Str))
  strEmpty : Bool
  ob : Spec.Svg.Observed
  co : Spec.Svg.CallObs

def pOut : P Out := do
  let pr ← tok
  let t ← tok
  if t = "nil" then do
    let e ← pBool; let args ← pBool; let again ← pBool
    pure { pr, nodes := none, strEmpty := e, ob := { kept := true, kept2 := true, keptMod := true, wellformed := true, tail := true },
           co := { args, again } }
  else if t = "doc" then do
    let e ← pBool; let kept ← pBool; let kept2 ← pBool; let keptMod ← pBool; let wf ← pBool; let tail ← pBool
    let args ← pBool; let again ← pBool; let n ← pNat
    let nodes ← pMany pNode n
    pure { pr, nodes := some nodes, strEmpty := e, ob := { kept, kept2, keptMod, wellformed := wf, tail }, co := { args, again } }
  else failure

def sNode (n : SvgNode) : List String :=
  [sHex n.name, sNat n.attrs.length] ++ n.attrs.flatMap (fun a => [sHex a.1, sHex a.2]) ++ [sHex n.text, sHex (Svg.printNode n)]

def sPR : Svg.ParseResult → String
  | .err => "err"
  | .noRoot => "noroot"
  | .root => "root"

def pXTok : P Xml.Tok := do
  let k ← tok
  if k = "S" then do
    let p ← pHex; let l ← pHex; let n ← pNat
    let as ← pMany (do let ap ← pHex; let al ← pHex; let v ← pHex; pure (ap, al, v)) n
    pure (.start p l as)
  else if k = "E" then do let p ← pHex; let l ← pHex; pure (.stop p l)
  else if k = "C" then do let s ← pHex; pure (.text s)
  else if k = "M" then do let s ← pHex; pure (.comment s)
  else if k = "P" then do let a ← pHex; let b ← pHex; pure (.pi a b)
  else if k = "D" then do let s ← pHex; pure (.dir s)
  else failure

def pXToks : P (List Xml.Tok) := do
  let n ← pNat
  pMany pXTok n

def sBool (b : Bool) : String := if b then "1" else "0"

def dropS (s : String) (n : Nat) : String := String.ofList (s.toList.drop n)

/-- the model's output line: `kept2` and `wellformed` from the modelled round trip of the base, `kept` and `tail` as `1` -/
def sOut (pr : Svg.ParseResult) (ts : List Xml.Tok) (r : Option (List SvgNode)) : String :=
  let co := Xmldom.modelCall
  match r with
  | none => s!"{sPR pr} nil 1 {sBool co.args} {sBool co.again}"
  | some ns =>
    let ob := Xmldom.modelObserved ns ts
    " ".intercalate ([sPR pr, "doc", "0", sBool ob.kept, sBool ob.kept2, sBool ob.keptMod, sBool ob.wellformed, sBool ob.tail,
      sBool co.args, sBool co.again, sNat ns.length] ++ ns.flatMap sNode)

def escNode (s : Str) : SvgNode := { name := Svg.b "text", attrs := [(Svg.b "style", s)], text := s }

structure Call where
  o : SvgOpts
  kinds : Str
  endOk : Bool
  feat : String
  ts : List Xml.Tok
  rot : List (Str × Svg.RotInfo)
  t : Topology

def pCallHead : P (SvgOpts × Str × Bool × String × List Xml.Tok) := do
  let a ← pBool; let b ← pBool; let c ← pBool; let d ← pBool
  let _base ← pHex; let kinds ← pHex; let endOk ← pBool; let feat ← tok; let ts ← pXToks
  pure (({ showLabels := a, showHWCID := b, showType := c, showDisplaySize := d } : SvgOpts), kinds, endOk, feat, ts)

/-- one call judged: (well-formed record, model = implementation, failing clause, model output, branch tags);
`impl` = the tokens of this call's OUT, `none` = the library panicked -/
def judge (c : Call) (mask : Option (List (Nat × Nat))) (impl : Option (List String)) : Bool × Bool × Option String × String × List String :=
  if c.ts.map Xml.kindOf ≠ c.kinds || !c.feat.startsWith "F:" then (false, false, none, "", []) else
  let featNames := ((dropS c.feat 2).splitOn ",").filter (· ≠ "-")
  let rej : Option String := (featNames.find? (·.startsWith "rej-")).map (dropS · 4)
  let fs := Spec.SvgBase.features c.ts
  -- the harness's flags must be the Spec's features of the token stream (valid bases), or one rejection class
  let featOk := if c.endOk then featNames = fs.names else (featNames = [] || (rej.isSome && featNames.length = 1))
  let rotF : Str → Svg.RotInfo := fun tk => (c.rot.lookup tk).getD { fmt := [63], fmt90 := [63], zero90 := false }
  let pr := Svg.parseXML c.kinds c.endOk
  let m := Svg.compositeNodes rotF c.kinds c.endOk c.o c.t mask
  let ms := sOut pr c.ts m
  let baseOk := Spec.Svg.baseOk c.kinds c.endOk
  let tags := [if baseOk then "base-ok" else if rej.isSome then "base-rejected-valid" else "base-bad", s!"pr-{sPR pr}",
               (match mask with | none => "nomap" | some [] => "emptymap" | some _ => "map"),
               s!"n{(c.t.hwc.filter (Spec.Svg.visible mask)).length}"] ++
              (if baseOk then
                [if Spec.SvgBase.XmlDoc c.ts then "doc-shape-ok" else "doc-shape-bad",
                 if Spec.SvgBase.lossFree c.ts && !fs.dup then "feat-none" else "feat-lossy"] ++ fs.names.map ("feat-" ++ ·)
               else [])
  match impl with
  | none => (true, false, some "panic", ms, tags)
  | some implToks =>
    let eq := ms = " ".intercalate implToks && featOk
    match run pOut implToks with
    | none => (true, false, some "shape", ms, tags)
    | some io =>
      let h := match Spec.Svg.callOk io.co with
        | some e => some e
        | none => Spec.Svg.checkSVG (Svg.fmtOf rotF) c.o c.t mask c.kinds c.endOk c.ts rej io.nodes io.ob
      let h := if h.isNone && !baseOk && !rej.isSome && !io.strEmpty then some "bad-base-string-not-empty" else h
      let h := if featOk then h else some "feature-flags"
      (true, eq, h, ms, tags)

/-- the OUTs of a `svg.seq` record: token groups separated by `;` -/
def splitSemi (l : List String) : List (List String) :=
  l.foldr (fun t acc => if t = ";" then [] :: acc else match acc with | g :: r => (t :: g) :: r | [] => [[t]]) [[]]

def step (cmd : String) (args0 : List String) (impl : String) : String :=
  let args := args0.filter (fun a => !a.startsWith "#")
  let implToks := (impl.splitOn " ").filter (· ≠ "")
  let panicked := impl.startsWith "panic:"
  match cmd with
  | "svg.gen" =>
    let parsed := run (do
      let (o, kinds, endOk, feat, ts) ← pCallHead
      let mask ← pMask; let rot ← pRot; let t ← pTopo
      pure (({ o, kinds, endOk, feat, ts, rot, t } : Call), mask)) args
    match parsed with
    | none => "ERR bad-record"
    | some (c, mask) =>
      let (ok, eq, h, ms, tags) := judge c mask (if panicked then none else some implToks)
      if !ok then "ERR bad-record" else
      let b := " ".intercalate (tags.map (fun x => "B:" ++ x))
      if eq then s!"EQ {hTag h} {b}" else s!"NE {hTag h} {ms} {b}"
  | "svg.seq" =>
    let parsed := run (do
      let mask ← pMask; let k ← pNat
      let cs ← pMany (do
        let (o, kinds, endOk, feat, ts) ← pCallHead
        let rot ← pRot; let t ← pTopo
        pure ({ o, kinds, endOk, feat, ts, rot, t } : Call)) k
      pure (mask, cs)) args
    match parsed with
    | none => "ERR bad-record"
    | some (mask, cs) =>
      let outs := splitSemi implToks
      let js := cs.zipIdx.map (fun ci => judge ci.1 mask (if panicked then none else some (outs.getD ci.2 [])))
      if !js.all (·.1) then "ERR bad-record" else
      let eq := !panicked && outs.length == cs.length && js.all (·.2.1)
      let h : Option String := (js.findSome? (·.2.2.1)).orElse (fun _ => if !panicked && outs.length ≠ cs.length then some "shape" else none)
      let ms := " ; ".intercalate (js.map (·.2.2.2.1))
      let tags := (js.flatMap (·.2.2.2.2)).eraseDups ++ [s!"seq{cs.length}"]
      let b := " ".intercalate (tags.map (fun x => "B:" ++ x))
      if eq then s!"EQ {hTag h} {b}" else s!"NE {hTag h} {ms} {b}"
  | "svg.esc" =>
    match run pHex args with
    | none => "ERR bad-record"
    | some s =>
      let n := escNode s
      let ms := sHex (Svg.printNode n)
      if impl.startsWith "panic:" then s!"NE H0:panic {ms} B:esc"
      else
        match run pHex implToks with
        | none => s!"NE H0:shape {ms} B:esc"
        | some p =>
          let h := if Spec.Svg.printedOk n p then none else some "wf-printed"
          if ms = " ".intercalate implToks then s!"EQ {hTag h} B:esc" else s!"NE {hTag h} {ms} B:esc"
  | _ => "ERR bad-record"

end RawPanelVerif.Driver.Svg
