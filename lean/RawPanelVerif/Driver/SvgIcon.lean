import RawPanelVerif.Driver.Topology
import RawPanelVerif.Model.SvgIcon
import RawPanelVerif.Spec.SvgSpec
/-!
Driver glue for the `svg.*` records (C15).
```
svg.gen showLabels showHWCID showType showDisplaySize base:hex kinds:hex endOk:01 MASK ROT T  |  OUT
kinds := one letter per token `encoding/xml`'s `Decoder.Token` delivers for the base (S start element, E end element,
         C / W character data non-blank / blank, M comment, P processing instruction, D directive); endOk = the stream
         ended with io.EOF (no syntax error).  The harness's independent judgement; input of model and Spec.
MASK := ~ | + n (id value)^n
ROT  := n (token fmt fmt90 zero90:01)^n        Sprintf("%03f") of each rotation token occurring in T, and of value+90
OUT  := PR nil strEmpty:01 | PR doc strEmpty:01 kept:01 kept2:01 wellformed:01 tail:01 n NODE^n
PR   := err | noroot | root                    what the real xmldom.ParseXML(base) returned
NODE := name:hex nA (key:hex value:hex)^nA text:hex printed:hex          printed = node.XML()

svg.esc s:hex | printed:hex     (&xmldom.Node{Name: "text", Attributes: {style: s}, Text: s}).XML(): the printer on any bytes
```
`strEmpty` = `GenerateCompositeSVG(...) == ""` (the string-returning wrapper).
-/
namespace RawPanelVerif.Driver.Svg
open RawPanelVerif RawPanelVerif.Wire RawPanelVerif.Topo RawPanelVerif.Driver.Topo

def pMask : P (Option (List (Nat × Nat))) := do
  let t ← tok
  if t = "~" then pure none
  else if t = "+" then do
    let n ← pNat
    let l ← pMany (do let k ← pNat; let v ← pNat; pure (k, v)) n
    pure (some l)
  else failure

def pRot : P (List (Str × Svg.RotInfo)) := do
  let n ← pNat
  pMany (do let t ← pTok; let f ← pTok; let f90 ← pTok; let z ← pBool; pure (t, { fmt := f, fmt90 := f90, zero90 := z })) n

def pNode : P (SvgNode × Str) := do
  let name ← pHex
  let n ← pNat
  let attrs ← pMany (do let k ← pHex; let v ← pHex; pure (k, v)) n
  let text ← pHex
  let printed ← pHex
  pure ({ name, attrs, text }, printed)

structure Out where
  pr : String
  nodes : Option (List (SvgNode × Str))
  strEmpty : Bool
  ob : Spec.Svg.Observed

def pOut : P Out := do
  let pr ← tok
  let t ← tok
  if t = "nil" then do
    let e ← pBool
    pure { pr, nodes := none, strEmpty := e, ob := { kept := true, kept2 := true, wellformed := true, tail := true } }
  else if t = "doc" then do
    let e ← pBool; let kept ← pBool; let kept2 ← pBool; let wf ← pBool; let tail ← pBool; let n ← pNat
    let nodes ← pMany pNode n
    pure { pr, nodes := some nodes, strEmpty := e, ob := { kept, kept2, wellformed := wf, tail } }
  else failure

def sNode (n : SvgNode) : List String :=
  [sHex n.name, sNat n.attrs.length] ++ n.attrs.flatMap (fun a => [sHex a.1, sHex a.2]) ++ [sHex n.text, sHex (Svg.printNode n)]

def sPR : Svg.ParseResult → String
  | .err => "err"
  | .noRoot => "noroot"
  | .root => "root"

/-- the model's output line; the four observed flags are printed as `1` (the model has no base document) -/
def sOut (pr : Svg.ParseResult) (r : Option (List SvgNode)) : String :=
  match r with
  | none => s!"{sPR pr} nil 1"
  | some ns => " ".intercalate ([sPR pr, "doc", "0", "1", "1", "1", "1", sNat ns.length] ++ ns.flatMap sNode)

def escNode (s : Str) : SvgNode := { name := Svg.b "text", attrs := [(Svg.b "style", s)], text := s }

def step (cmd : String) (args0 : List String) (impl : String) : String :=
  let args := args0.filter (fun a => !a.startsWith "#")
  let implToks := (impl.splitOn " ").filter (· ≠ "")
  match cmd with
  | "svg.gen" =>
    let parsed := run (do
      let a ← pBool; let b ← pBool; let c ← pBool; let d ← pBool
      let _base ← pHex; let kinds ← pHex; let endOk ← pBool; let mask ← pMask; let rot ← pRot; let t ← pTopo
      pure (({ showLabels := a, showHWCID := b, showType := c, showDisplaySize := d } : SvgOpts), kinds, endOk, mask, rot, t)) args
    match parsed with
    | none => "ERR bad-record"
    | some (o, kinds, endOk, mask, rot, t) =>
      let rotF : Str → Svg.RotInfo := fun tk => (rot.lookup tk).getD { fmt := [63], fmt90 := [63], zero90 := false }
      let pr := Svg.parseXML kinds endOk
      let m := Svg.compositeNodes rotF kinds endOk o t mask
      let ms := sOut pr m
      let eq := ms = " ".intercalate implToks
      let baseOk := Spec.Svg.baseOk kinds endOk
      let tags := [if baseOk then "base-ok" else "base-bad", s!"pr-{sPR pr}",
                   (match mask with | none => "nomap" | some [] => "emptymap" | some _ => "map"),
                   s!"n{(t.hwc.filter (Spec.Svg.visible mask)).length}"]
      let b := " ".intercalate (tags.map (fun x => "B:" ++ x))
      if impl.startsWith "panic:" then s!"NE H0:panic {ms} {b}"
      else
        match run pOut implToks with
        | none => s!"NE H0:shape {ms} {b}"
        | some io =>
          let h := Spec.Svg.checkSVG (Svg.fmtOf rotF) o t mask kinds endOk io.nodes io.ob
          let h := if h.isNone && !baseOk && !io.strEmpty then some "bad-base-string-not-empty" else h
          if eq then s!"EQ {hTag h} {b}" else s!"NE {hTag h} {ms} {b}"
  | "svg.esc" =>
    match run pHex args with
    | none => "ERR bad-record"
    | some s =>
      let n := escNode s
      let ms := sHex (Svg.printNode n)
      if impl.startsWith "panic:" then s!"NE H0:panic {ms} B:esc"
      else
        match run pHex implToks with
        | none => s!"NE H0:shape {ms} B:esc"
        | some p =>
          let h := if Spec.Svg.printedOk n p then none else some "wf-printed"
          if ms = " ".intercalate implToks then s!"EQ {hTag h} B:esc" else s!"NE {hTag h} {ms} B:esc"
  | _ => "ERR bad-record"

end RawPanelVerif.Driver.Svg
