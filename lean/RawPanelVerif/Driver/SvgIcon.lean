import RawPanelVerif.Driver.Topology
import RawPanelVerif.Model.SvgIcon
import RawPanelVerif.Spec.SvgSpec
/-!
Driver glue for the `svg.*` records (C15).
```
svg.gen showLabels showHWCID showType showDisplaySize base:hex baseOk:01 MASK ROT T  |  OUT
MASK := ~ | + n (id value)^n
ROT  := n (token fmt fmt90 zero90:01)^n        Sprintf("%03f") of each rotation token occurring in T, and of value+90
OUT  := nil strEmpty:01 | doc strEmpty:01 kept:01 wellformed:01 n NODE^n
NODE := name:hex nA (key:hex value:hex)^nA text:hex
```
`strEmpty` = `GenerateCompositeSVG(...) == ""` (the string-returning wrapper).
-/
namespace RawPanelVerif.Driver.Svg
open RawPanelVerif RawPanelVerif.Wire RawPanelVerif.Topo RawPanelVerif.Driver.Topo

def pMask : P (Option (List (Nat × Nat))) := do
  let t ← tok
  if t = "~" then pure none
  else if t = "+" then do
    let n ← pNat
    let l ← pMany (do let k ← pNat; let v ← pNat; pure (k, v)) n
    pure (some l)
  else failure

def pRot : P (List (Str × Svg.RotInfo)) := do
  let n ← pNat
  pMany (do let t ← pTok; let f ← pTok; let f90 ← pTok; let z ← pBool; pure (t, { fmt := f, fmt90 := f90, zero90 := z })) n

def pNode : P SvgNode := do
  let name ← pHex
  let n ← pNat
  let attrs ← pMany (do let k ← pHex; let v ← pHex; pure (k, v)) n
  let text ← pHex
  pure { name, attrs, text }

structure Out where
  nodes : Option (List SvgNode)
  strEmpty : Bool
  kept : Bool
  wf : Bool

def pOut : P Out := do
  let t ← tok
  if t = "nil" then do
    let e ← pBool
    pure { nodes := none, strEmpty := e, kept := true, wf := true }
  else if t = "doc" then do
    let e ← pBool; let kept ← pBool; let wf ← pBool; let n ← pNat
    let nodes ← pMany pNode n
    pure { nodes := some nodes, strEmpty := e, kept, wf }
  else failure

def sNode (n : SvgNode) : List String :=
  [sHex n.name, sNat n.attrs.length] ++ n.attrs.flatMap (fun a => [sHex a.1, sHex a.2]) ++ [sHex n.text]

def sOut (baseOk : Bool) (r : Option (List SvgNode)) : String :=
  match r with
  | none => s!"nil {showBool (!baseOk)}"
  | some ns => " ".intercalate (["doc", showBool (!baseOk), "1", "1", sNat ns.length] ++ ns.flatMap sNode)

def step (cmd : String) (args0 : List String) (impl : String) : String :=
  let args := args0.filter (fun a => !a.startsWith "#")
  let implToks := (impl.splitOn " ").filter (· ≠ "")
  match cmd with
  | "svg.gen" =>
    let parsed := run (do
      let a ← pBool; let b ← pBool; let c ← pBool; let d ← pBool
      let _base ← pHex; let baseOk ← pBool; let mask ← pMask; let rot ← pRot; let t ← pTopo
      pure (({ showLabels := a, showHWCID := b, showType := c, showDisplaySize := d } : SvgOpts), baseOk, mask, rot, t)) args
    match parsed with
    | none => "ERR bad-record"
    | some (o, baseOk, mask, rot, t) =>
      let rotF : Str → Svg.RotInfo := fun tk => (rot.lookup tk).getD { fmt := [63], fmt90 := [63], zero90 := false }
      let m := Svg.compositeNodes rotF baseOk o t mask
      let ms := sOut baseOk m
      let eq := ms = " ".intercalate implToks
      let tags := [if baseOk then "base-ok" else "base-bad",
                   (match mask with | none => "nomap" | some [] => "emptymap" | some _ => "map"),
                   s!"n{(t.hwc.filter (Spec.Svg.visible mask)).length}"]
      let b := " ".intercalate (tags.map (fun x => "B:" ++ x))
      if impl.startsWith "panic:" then s!"NE H0:panic {ms} {b}"
      else
        match run pOut implToks with
        | none => s!"NE H0:shape {ms} {b}"
        | some io =>
          let h := Spec.Svg.checkSVG o t mask baseOk io.nodes io.kept io.wf
          let h := if h.isNone && !baseOk && !io.strEmpty then some "bad-base-string-not-empty" else h
          if eq then s!"EQ {hTag h} {b}" else s!"NE {hTag h} {ms} {b}"
  | _ => "ERR bad-record"

end RawPanelVerif.Driver.Svg
