import RawPanelVerif.Base.Wire
import RawPanelVerif.Model.Pix
import RawPanelVerif.Spec.PixSpec
/-! Driver glue for `pix.*` records (C17). -/
namespace RawPanelVerif.Driver.Pix
open RawPanelVerif RawPanelVerif.Wire RawPanelVerif.Mono RawPanelVerif.Pix

def toBV (a : Array UInt8) : Array Byte := a.map (fun b => BitVec.ofNat 8 b.toNat)
def hexBV (a : Array Byte) : String := hexOfBytes (a.toList.map (fun b => UInt8.ofNat b.toNat))
def byteAt (a : Array UInt8) (i : Nat) : Nat := (a.getD i 0).toNat
def bitAt (wib : Nat) (a : Array UInt8) (x y : Nat) : Bool :=
  ((a.getD (y * wib + x / 8) 0).toNat >>> (7 - x % 8)) % 2 == 1

def imgTok (i : Img) : String :=
  let bytes := i.px.toList.foldr (fun (p : RGBA) acc =>
    UInt8.ofNat p.1 :: UInt8.ofNat p.2.1 :: UInt8.ofNat p.2.2.1 :: UInt8.ofNat p.2.2.2 :: acc) []
  s!"{i.w}x{i.h}:{hexOfBytes bytes}"

def imgTok? : Option Img → String
  | some i => imgTok i
  | none => "panic"

/-- `<w>x<h>:<hex>` → observed image -/
def parseObs (tok : String) : Option Spec.Pix.Obs :=
  match tok.splitOn ":" with
  | [dim, hex] =>
    match dim.splitOn "x" with
    | [w, h] => do
      let w ← w.toNat?; let h ← h.toNat?
      let b ← unhex hex
      pure { w := w, h := h, px := fun x y =>
        let i := 4 * (y * w + x)
        if x < w ∧ y < h then (byteAt b i, byteAt b (i + 1), byteAt b (i + 2), byteAt b (i + 3)) else (0, 0, 0, 0) }
    | _ => none
  | _ => none

def fmtOf (t : Nat) : Option Fmt :=
  match t with
  | 0 => some .mono | 1 => some .rgb | 2 => some .gray | _ => none

def canvasOf (w h : Nat) (bits : Array UInt8) : Canvas := { (newCanvas w h) with bytes := toBV bits }

def verdict (impl model : String) (h : Option String) (tag : String) : String :=
  let hs := if impl.startsWith "panic:" then "H0:panic" else match h with | none => "H1" | some cl => s!"H0:{cl}"
  if impl = model then s!"EQ {hs} {tag}" else s!"NE {hs} {model} {tag}"

def step (cmd : String) (args : List String) (impl : String) : String :=
  let it := impl.splitOn " "
  let r : Option String :=
    match cmd, args with
    | "pix.color", [code] => do
      let code ← code.toNat?
      let m := color565 code
      let h := match it with
        | [b, p] => (match b.toNat?, p.toNat? with
          | some b, some p => (match Spec.Pix.checkColor code b with | none => Spec.Pix.checkColor code p | e => e)
          | _, _ => some "parse")
        | _ => some "parse"
      pure (verdict impl s!"{m} {m}" h "B:color")
    | "pix.export", [w, h, pc, bc, bits] => do
      let w ← w.toNat?; let h ← h.toNat?; let pc ← pc.toNat?; let bc ← bc.toNat?; let bits ← unhex bits
      let c := canvasOf w h bits
      let pcol := color565 pc; let bcol := color565 bc
      let rgb := match sliceRGB c pcol bcol with | some a => hexBV a | none => "panic"
      let gray := match sliceGray c pcol bcol with | some a => hexBV a | none => "panic"
      let hh := match it with
        | [ip, ib, irgb, igray] => (match ip.toNat?, ib.toNat?, unhex irgb, unhex igray with
          | some ip, some ib, some irgb, some igray =>
            (match Spec.Pix.checkColor pc ip, Spec.Pix.checkColor bc ib with
             | none, none => Spec.Pix.checkExport w h (bitAt ((w + 7) / 8) bits) ip ib irgb.size (byteAt irgb) igray.size (byteAt igray)
             | some e, _ => some e
             | _, some e => some e)
          | _, _, _, _ => some "parse")
        | _ => some "parse"
      pure (verdict impl s!"{pcol} {bcol} {rgb} {gray}" hh s!"B:export{if w % 2 = 0 then "Even" else "Odd"}")
    | "pix.rt", [w, h, inv, bits] => do
      let w ← w.toNat?; let h ← h.toNat?; let inv ← parseBool inv; let bits ← unhex bits
      let c := canvasOf w h bits
      let im := toImage c inv
      let back := im.bind fromImage
      let model := match im, back with
        | some im, some b => s!"{imgTok im} {b.geo.W} {b.geo.H} {hexBV b.bytes}"
        | _, _ => "panic"
      let hh := match it with
        | [_, w2, h2, b2] => (match w2.toNat?, h2.toNat?, unhex b2 with
          | some w2, some h2, some b2 =>
            Spec.Pix.checkRoundtrip w h inv (bitAt ((w + 7) / 8) bits) w2 h2 (bitAt ((w2 + 7) / 8) b2)
          | _, _, _ => some "parse")
        | _ => some "parse"
      pure (verdict impl model hh s!"B:rt{showBool inv}")
    | "pix.fromimg", [w, h, px] => do
      let w ← w.toNat?; let h ← h.toNat?; let px ← unhex px
      let src : Img := { w := w, h := h, px := Array.ofFn (n := w * h) (fun i =>
        (byteAt px (4 * i.val), byteAt px (4 * i.val + 1), byteAt px (4 * i.val + 2), byteAt px (4 * i.val + 3))) }
      let model := match fromImage src with
        | some b => s!"{b.geo.W} {b.geo.H} {hexBV b.bytes}"
        | none => "panic"
      pure (verdict impl model none "B:fromimg")
    | "pix.gfx", [t, W, H, tw, th, data] => do
      let t ← t.toNat?; let W ← W.toNat?; let H ← H.toNat?; let tw ← tw.toNat?; let th ← th.toNat?
      let data ← unhex data
      let fmt ← fmtOf t
      let d := toBV data
      let A := match fmt with
        | .mono => "none"
        | .rgb => imgTok? (imgFromRGBBytes W H d)
        | .gray => imgTok? (imgFromGrayBytes W H d)
      let B := imgTok? (rwpImgToImage fmt W H d W H)
      let C := imgTok? (rwpImgToImage fmt W H d tw th)
      let P := match gfxToPngImage fmt W H d with
        | none => "panic"
        | some i => (match pngCodec i with | some i => imgTok i | none => "nopng")
      let hh := match it with
        | [a, b, c, p] => (match parseObs b, parseObs c with
          | some b, some c =>
            let ao := if a = "none" then some none else (parseObs a).map some
            let po := if p = "nopng" then some none else (parseObs p).map some
            (match ao, po with
             | some ao, some po =>
               Spec.Pix.checkGfx t W H data.size (byteAt data) tw th { direct := ao, rwp := b, centred := c, png := po }
             | _, _ => some "parse")
          | _, _ => some "parse")
        | _ => some "parse"
      let need := match fmt with | .mono => (W + 7) / 8 * H | .rgb => 2 * W * H | .gray => (W * H + 1) / 2
      let lt := if data.size < need then "short" else if data.size = need then "exact" else "long"
      pure (verdict impl s!"{A} {B} {C} {P}" hh s!"B:gfx{t}{lt}")
    | _, _ => none
  r.getD "ERR bad-record"

end RawPanelVerif.Driver.Pix
