import RawPanelVerif.Base.Wire
import RawPanelVerif.Model.Pix
import RawPanelVerif.Spec.PixSpec
/-! Driver glue for `pix.*` records (C17). -/
namespace RawPanelVerif.Driver.Pix
open RawPanelVerif RawPanelVerif.Wire RawPanelVerif.Mono RawPanelVerif.Pix

def toBV (a : Array UInt8) : Array Byte := a.map (fun b => BitVec.ofNat 8 b.toNat)
def hexBV (a : Array Byte) : String := hexOfBytes (a.toList.map (fun b => UInt8.ofNat b.toNat))
def byteAt (a : Array UInt8) (i : Nat) : Nat := (a.getD i 0).toNat
def bitAt (wib : Nat) (a : Array UInt8) (x y : Nat) : Bool :=
  ((a.getD (y * wib + x / 8) 0).toNat >>> (7 - x % 8)) % 2 == 1

def imgTok (i : Img) : String :=
  let bytes := i.px.toList.foldr (fun (p : RGBA) acc =>
    UInt8.ofNat p.1 :: UInt8.ofNat p.2.1 :: UInt8.ofNat p.2.2.1 :: UInt8.ofNat p.2.2.2 :: acc) []
  s!"{i.w}x{i.h}:{hexOfBytes bytes}"

def imgTok? : Option Img → String
  | some i => imgTok i
  | none => "panic"

/-- `<w>x<h>:<hex>` → observed image -/
def parseObs (tok : String) : Option Spec.Pix.Obs :=
  match tok.splitOn ":" with
  | [dim, hex] =>
    match dim.splitOn "x" with
    | [w, h] => do
      let w ← w.toNat?; let h ← h.toNat?
      let b ← unhex hex
      pure { w := w, h := h, px := fun x y =>
        let i := 4 * (y * w + x)
        if x < w ∧ y < h then (byteAt b i, byteAt b (i + 1), byteAt b (i + 2), byteAt b (i + 3)) else (0, 0, 0, 0) }
    | _ => none
  | _ => none

def fmtOf (t : Nat) : Option Fmt :=
  match t with
  | 0 => some .mono | 1 => some .rgb | 2 => some .gray | _ => none

def canvasOf (w h : Nat) (bits : Array UInt8) : Canvas := { (newCanvas w h) with bytes := toBV bits }

def verdict (impl model : String) (h : Option String) (tag : String) : String :=
  let hs := if impl.startsWith "panic:" then "H0:panic" else match h with | none => "H1" | some cl => s!"H0:{cl}"
  if impl = model then s!"EQ {hs} {tag}" else s!"NE {hs} {model} {tag}"

def hexOpt : Option (Array Byte) → String
  | some a => hexBV a
  | none => "panic"

/-- the four results `A B C P` of the conversions of one graphics state: the model's tokens, the Spec verdict on the
implementation's four tokens, the coverage tag -/
def gfxEval (t W H tw th data : String) : Option (List String × (List String → Option String) × String) := do
  let t ← t.toNat?; let W ← W.toNat?; let H ← H.toNat?; let tw ← tw.toNat?; let th ← th.toNat?
  let data ← unhex data
  let fmt ← fmtOf t
  let d := toBV data
  let A := match fmt with
    | .mono => "none"
    | .rgb => imgTok? (imgFromRGBBytes W H d)
    | .gray => imgTok? (imgFromGrayBytes W H d)
  let B := imgTok? (rwpImgToImage fmt W H d W H)
  let C := imgTok? (rwpImgToImage fmt W H d tw th)
  let P := match gfxToPngImage fmt W H d with
    | none => "panic"
    | some i => (match pngCodec i with | some i => imgTok i | none => "nopng")
  let hh := fun (it : List String) => match it with
    | [a, b, c, p] => (match parseObs b, parseObs c with
      | some b, some c =>
        let ao := if a = "none" then some none else (parseObs a).map some
        let po := if p = "nopng" then some none else (parseObs p).map some
        (match ao, po with
         | some ao, some po =>
           Spec.Pix.checkGfx t W H data.size (byteAt data) tw th { direct := ao, rwp := b, centred := c, png := po }
         | _, _ => some "parse")
      | _, _ => some "parse")
    | _ => some "parse"
  let need := match fmt with | .mono => (W + 7) / 8 * H | .rgb => 2 * W * H | .gray => (W * H + 1) / 2
  let lt := if data.size < need then "short" else if data.size = need then "exact" else "long"
  pure ([A, B, C, P], hh, s!"B:gfx{t}{lt}")

/-- `pix.gfx type W H tw th data | A B C P` -/
def gfxStep (it : List String) (impl t W H tw th data : String) : Option String := do
  let (m, hh, tag) ← gfxEval t W H tw th data
  pure (verdict impl (" ".intercalate m) (hh it) tag)

/-! ## `pix.seq`: several conversions in a row, the caller keeping every result

`pix.seq par step…`: the steps one after the other (`par` = 1: two goroutines run the same sequence at the same time);
every result is printed right after its own call and once more after the last call.  The conversions are functions of
their arguments (`Model/Pix.lean` has no state between calls), so the model prints the same tokens both times.  Spec:
the clauses of the step on the tokens printed right away, and what is printed at the end must be the same tokens
(`retained`: a result handed to the caller is not changed by a later call).
`G:type:W:H:tw:th:data` → `A B C P` as in `pix.gfx`;
`M:same:w:h:pc:bc:inv:bits` → `pixel16 bckg16 rgb gray IMG bytes` (CreateFromBytes with exactly the bytes needed, both
colours set, both exports, `ConvertToImage(inv)`, `GetImgSlice`; `same` = on the object of the previous `M` step — every
field the step reads is set by the step, so the model does not need it). -/

def monoEval (w h pc bc inv bits : String) : Option (List String × (List String → Option String) × String) := do
  let w ← w.toNat?; let h ← h.toNat?; let pc ← pc.toNat?; let bc ← bc.toNat?; let inv ← parseBool inv; let bits ← unhex bits
  let c := canvasOf w h bits
  let pcol := color565 pc; let bcol := color565 bc
  let im := toImage c inv
  let hh := fun (it : List String) => match it with
    | [ip, ib, irgb, igray, _, _] => (match ip.toNat?, ib.toNat?, unhex irgb, unhex igray with
      | some ip, some ib, some irgb, some igray =>
        (match Spec.Pix.checkColor pc ip, Spec.Pix.checkColor bc ib with
         | none, none => Spec.Pix.checkExport w h (bitAt ((w + 7) / 8) bits) ip ib irgb.size (byteAt irgb) igray.size (byteAt igray)
         | some e, _ => some e
         | _, some e => some e)
      | _, _, _, _ => some "parse")
    | _ => some "parse"
  pure ([toString pcol, toString bcol, hexOpt (sliceRGB c pcol bcol), hexOpt (sliceGray c pcol bcol), imgTok? im, hexBV c.bytes], hh, "B:seqM")

def seqEval (tok : String) : Option (List String × (List String → Option String) × String) :=
  match tok.splitOn ":" with
  | ["G", t, W, H, tw, th, data] => do
    let (m, hh, _) ← gfxEval t W H tw th data
    pure (m, hh, s!"B:seqG{t}")
  | ["M", same, w, h, pc, bc, inv, bits] => do
    let _ ← parseBool same
    monoEval w h pc bc inv bits
  | _ => none

/-- the Spec clauses step by step on the tokens printed right after the call (`imm`), and `retained`: the tokens printed at
the end (`late`) are the same -/
def seqSpec (k : Nat) : List (List String × (List String → Option String) × String) → List String → List String → Option String
  | [], [], [] => none
  | [], _, _ => some "parse"
  | (m, sp, _) :: rest, imm, late =>
    let n := m.length
    let a := imm.take n
    let b := late.take n
    if a.length ≠ n ∨ b.length ≠ n then some "parse" else
    match sp a with
    | some e => some s!"{e}@call{k}"
    | none => if a ≠ b then some s!"retained@call{k}" else seqSpec (k + 1) rest (imm.drop n) (late.drop n)

def seqStep (it : List String) (impl : String) (args : List String) : Option String :=
  match args with
  | par :: steps => do
    let par ← parseBool par
    let evs ← steps.mapM seqEval
    let once := evs.foldr (fun e acc => e.1 ++ acc) []
    let model := " ".intercalate (once ++ once)
    let tags := (evs.map (fun e => e.2.2)).eraseDups
    pure (verdict impl model (seqSpec 0 evs (it.take once.length) (it.drop once.length))
      s!"B:seq{if par then "Par" else ""} {" ".intercalate tags}")
  | [] => none

/-! ## `pix.obj`: ONE mono image object used more than once

`pix.obj op…`: a fresh (zero-value) object, then the calls in the order given; one output token per call:
`P:code` SetOLEDPixelColor, `K:code` SetOLEDBckgColor                          → `pixel16:bckg16` (the exported colour fields)
`N:w:h` NewImage, `B:w:h:hex` CreateFromBytes, `F:x:y:w:h:c` FillRect,
`I:w:h:inv:hex` CreateFromImage(ConvertToImage(inv) of a fresh w×h image with these bits),
`J:w:h:rgba` CreateFromImage(an RGBA image), `T:inv` CreateFromImage(own ConvertToImage(inv))   → `w:h:bytes`
`E` GetImgSliceRGB + GetImgSliceGray                                          → `pixel16:bckg16:w:h:bytes:rgb:gray`
The Spec clauses are applied call by call to what the object shows at that moment: a colour setter stores the documented
colour; an export uses the colours the object's fields show **when the export is made** and the bitmap it holds then; an
image-object round trip reproduces the visible pixels whatever the destination held before. -/

def canvTok (c : Canvas) : String := s!"{c.geo.W}:{c.geo.H}:{hexBV c.bytes}"

/-- one token of a `pix.obj` record → the call it denotes (`Model/Pix.lean` `ObjCall`) -/
def parseObjCall (tok : String) : Option ObjCall :=
  match tok.splitOn ":" with
  | ["P", code] => do pure (.pixelColor (← code.toNat?))
  | ["K", code] => do pure (.bckgColor (← code.toNat?))
  | ["N", w, h] => do pure (.newImage (← w.toNat?) (← h.toNat?))
  | ["B", w, h, bits] => do pure (.fromBytes (← w.toNat?) (← h.toNat?) (toBV (← unhex bits)))
  | ["F", x, y, w, h, c] => do pure (.fillRect (← parseInt x) (← parseInt y) (← parseInt w) (← parseInt h) (← parseBool c))
  | ["I", w, h, inv, bits] => do pure (.fromMono (← w.toNat?) (← h.toNat?) (← parseBool inv) (toBV (← unhex bits)))
  | ["J", w, h, px] => do
    let w ← w.toNat?; let h ← h.toNat?; let px ← unhex px
    pure (.fromImg { w := w, h := h, px := Array.ofFn (n := w * h) (fun i =>
      (byteAt px (4 * i.val), byteAt px (4 * i.val + 1), byteAt px (4 * i.val + 2), byteAt px (4 * i.val + 3))) })
  | ["T", inv] => do pure (.selfRoundtrip (← parseBool inv))
  | ["E"] => pure .exports
  | _ => none

/-- the token the harness prints after a call -/
def objOut (o : Obj) : ObjCall → String
  | .pixelColor _ => s!"{o.pcol}:{o.bcol}"
  | .bckgColor _ => s!"{o.pcol}:{o.bcol}"
  | .exports => s!"{o.pcol}:{o.bcol}:{canvTok o.c}:{hexOpt (sliceRGB o.c o.pcol o.bcol)}:{hexOpt (sliceGray o.c o.pcol o.bcol)}"
  | _ => canvTok o.c

def objRun (o : Obj) : List String → Option (List String)
  | [] => some []
  | tok :: rest => do
    let call ← parseObjCall tok
    let o' ← applyObj o call
    let os ← objRun o' rest
    pure (objOut o' call :: os)

/-- an observed bitmap `w:h:bytes` -/
structure ObsCanv where
  w : Nat := 0
  h : Nat := 0
  bytes : Array UInt8 := #[]

def ObsCanv.bit (o : ObsCanv) : Nat → Nat → Bool := bitAt ((o.w + 7) / 8) o.bytes

def parseCanv (w h b : String) : Option ObsCanv := do
  pure { w := ← w.toNat?, h := ← h.toNat?, bytes := ← unhex b }

/-- the Spec clauses call by call, on the implementation's own outputs; `prev` = the bitmap the object showed last -/
def objSpec (prev : ObsCanv) (k : Nat) : List String → List String → Option String
  | op :: ops, ob :: obs =>
    let fail := fun (cl : String) => some s!"{cl}@op{k}"
    match op.splitOn ":", ob.splitOn ":" with
    | ["P", code], [p, _] =>
      (match code.toNat?, p.toNat? with
       | some code, some p => (match Spec.Pix.checkColor code p with | none => objSpec prev (k + 1) ops obs | some e => fail e)
       | _, _ => some "parse")
    | ["K", code], [_, b] =>
      (match code.toNat?, b.toNat? with
       | some code, some b => (match Spec.Pix.checkColor code b with | none => objSpec prev (k + 1) ops obs | some e => fail e)
       | _, _ => some "parse")
    | ["I", w, h, inv, bits], [w2, h2, b2] =>
      (match w.toNat?, h.toNat?, parseBool inv, unhex bits, parseCanv w2 h2 b2 with
       | some w, some h, some inv, some bits, some o =>
         (match Spec.Pix.checkRoundtrip w h inv (bitAt ((w + 7) / 8) bits) o.w o.h o.bit with
          | none => objSpec o (k + 1) ops obs
          | some e => fail e)
       | _, _, _, _, _ => some "parse")
    | ["T", inv], [w2, h2, b2] =>
      (match parseBool inv, parseCanv w2 h2 b2 with
       | some inv, some o =>
         (match Spec.Pix.checkRoundtrip prev.w prev.h inv prev.bit o.w o.h o.bit with
          | none => objSpec o (k + 1) ops obs
          | some e => fail e)
       | _, _ => some "parse")
    | ["E"], [p, b, w, h, bytes, rgb, gray] =>
      (match p.toNat?, b.toNat?, parseCanv w h bytes, unhex rgb, unhex gray with
       | some p, some b, some o, some rgb, some gray =>
         (match Spec.Pix.checkExport o.w o.h o.bit p b rgb.size (byteAt rgb) gray.size (byteAt gray) with
          | none => objSpec o (k + 1) ops obs
          | some e => fail e)
       | _, _, _, _, _ => some "parse")
    | _, [w, h, bytes] =>
      (match parseCanv w h bytes with
       | some o => objSpec o (k + 1) ops obs
       | none => some "parse")
    | _, _ => some "parse"
  | [], [] => none
  | _, _ => some "parse"

def objStep (it : List String) (impl : String) (ops : List String) : Option String := do
  let model := match objRun {} ops with
    | some os => " ".intercalate os
    | none => "panic"
  pure (verdict impl model (objSpec {} 0 ops it) s!"B:obj")

def step (cmd : String) (args : List String) (impl : String) : String :=
  let it := impl.splitOn " "
  let r : Option String :=
    match cmd, args with
    | "pix.color", [code] => do
      let code ← code.toNat?
      let m := color565 code
      let h := match it with
        | [b, p] => (match b.toNat?, p.toNat? with
          | some b, some p => (match Spec.Pix.checkColor code b with | none => Spec.Pix.checkColor code p | e => e)
          | _, _ => some "parse")
        | _ => some "parse"
      pure (verdict impl s!"{m} {m}" h "B:color")
    | "pix.export", [w, h, pc, bc, bits] => do
      let w ← w.toNat?; let h ← h.toNat?; let pc ← pc.toNat?; let bc ← bc.toNat?; let bits ← unhex bits
      let c := canvasOf w h bits
      let pcol := color565 pc; let bcol := color565 bc
      let rgb := match sliceRGB c pcol bcol with | some a => hexBV a | none => "panic"
      let gray := match sliceGray c pcol bcol with | some a => hexBV a | none => "panic"
      let hh := match it with
        | [ip, ib, irgb, igray] => (match ip.toNat?, ib.toNat?, unhex irgb, unhex igray with
          | some ip, some ib, some irgb, some igray =>
            (match Spec.Pix.checkColor pc ip, Spec.Pix.checkColor bc ib with
             | none, none => Spec.Pix.checkExport w h (bitAt ((w + 7) / 8) bits) ip ib irgb.size (byteAt irgb) igray.size (byteAt igray)
             | some e, _ => some e
             | _, some e => some e)
          | _, _, _, _ => some "parse")
        | _ => some "parse"
      pure (verdict impl s!"{pcol} {bcol} {rgb} {gray}" hh s!"B:export{if w % 2 = 0 then "Even" else "Odd"}")
    | "pix.rt", [w, h, inv, bits] => do
      let w ← w.toNat?; let h ← h.toNat?; let inv ← parseBool inv; let bits ← unhex bits
      let c := canvasOf w h bits
      let im := toImage c inv
      let back := im.bind fromImage
      let model := match im, back with
        | some im, some b => s!"{imgTok im} {b.geo.W} {b.geo.H} {hexBV b.bytes}"
        | _, _ => "panic"
      let hh := match it with
        | [_, w2, h2, b2] => (match w2.toNat?, h2.toNat?, unhex b2 with
          | some w2, some h2, some b2 =>
            Spec.Pix.checkRoundtrip w h inv (bitAt ((w + 7) / 8) bits) w2 h2 (bitAt ((w2 + 7) / 8) b2)
          | _, _, _ => some "parse")
        | _ => some "parse"
      pure (verdict impl model hh s!"B:rt{showBool inv}")
    | "pix.fromimg", [w, h, px] => do
      let w ← w.toNat?; let h ← h.toNat?; let px ← unhex px
      let src : Img := { w := w, h := h, px := Array.ofFn (n := w * h) (fun i =>
        (byteAt px (4 * i.val), byteAt px (4 * i.val + 1), byteAt px (4 * i.val + 2), byteAt px (4 * i.val + 3))) }
      let model := match fromImage src with
        | some b => s!"{b.geo.W} {b.geo.H} {hexBV b.bytes}"
        | none => "panic"
      pure (verdict impl model none "B:fromimg")
    | "pix.gfx", [t, W, H, tw, th, data] => gfxStep it impl t W H tw th data
    -- the placement fields `XYoffset`, `X`, `Y` of the message say where a panel puts the image on its display; the
    -- conversions do not read them (same model, same Spec clauses as `pix.gfx`)
    | "pix.gfxo", [t, W, H, tw, th, xyo, X, Y, data] => do
      let _ ← parseBool xyo; let _ ← X.toNat?; let _ ← Y.toNat?
      gfxStep it impl t W H tw th data
    | "pix.obj", ops => objStep it impl ops
    | "pix.seq", args => seqStep it impl args
    | _, _ => none
  r.getD "ERR bad-record"

end RawPanelVerif.Driver.Pix
