import RawPanelVerif.Base.Bytes
/-!
# Reading the alternation lists out of a regular-expression SOURCE text

`altsOf src n` = the alternatives of the `n`-th (0-based) top-level parenthesised group of `src`, split at the `|`s of
that group's own nesting level, as byte strings.  Used to tie the keyword tables of the hand-written byte matchers to
the regenerated regex sources (`Gen.regex_*_src`) by `decide`: adding, removing or reordering a keyword in the Go
source breaks the obligation.  (Only literal alternatives are meaningful; a group like `[0-9]+` comes back as the one
"alternative" `[0-9]+`, which no keyword table equals.)
-/
namespace RawPanelVerif.RegexAlts
open RawPanelVerif RawPanelVerif.Bytes

/-- contents of the top-level groups: `depth` = current nesting, `cur` = reversed contents of the open top-level group -/
def groupsAux : List Char → Nat → List Char → List (List Char)
  | [], _, _ => []
  | c :: cs, depth, cur =>
    if c = '(' then
      (if depth = 0 then groupsAux cs 1 [] else groupsAux cs (depth + 1) (c :: cur))
    else if c = ')' then
      (if depth = 1 then cur.reverse :: groupsAux cs 0 [] else groupsAux cs (depth - 1) (c :: cur))
    else groupsAux cs depth (if depth = 0 then cur else c :: cur)

/-- split at the `|`s of nesting level 0 -/
def splitAltsAux : List Char → Nat → List Char → List (List Char)
  | [], _, cur => [cur.reverse]
  | c :: cs, depth, cur =>
    if c = '|' ∧ depth = 0 then cur.reverse :: splitAltsAux cs 0 []
    else if c = '(' then splitAltsAux cs (depth + 1) (c :: cur)
    else if c = ')' then splitAltsAux cs (depth - 1) (c :: cur)
    else splitAltsAux cs depth (c :: cur)

def bytesOfChars (cs : List Char) : Bytes := cs.map (fun c => UInt8.ofNat c.toNat)

/-- the top-level groups of a regex source -/
def groupsOf (src : String) : List (List Char) := groupsAux src.toList 0 []

/-- alternatives of the `n`-th top-level group -/
def altsOf (src : String) (n : Nat) : List Bytes :=
  match (groupsOf src)[n]? with
  | some g => (splitAltsAux g 0 []).map bytesOfChars
  | none => []

example : altsOf "^(ab|c)([0-9]+)(|.(x|y))=(.+)$" 0 = [asc "ab", asc "c"] ∧
    altsOf "^(ab|c)([0-9]+)(|.(x|y))=(.+)$" 2 = [[], asc ".(x|y)"] ∧
    altsOf "^(ab|c)([0-9]+)(|.(x|y))=(.+)$" 4 = [] := by decide

end RawPanelVerif.RegexAlts
