import RawPanelVerif.Base.Bytes
/-!
# Lean mirror of the panel → system ("outbound") protobuf message types (types only)

`ibeam_rawpanel.OutboundMessage` and its sub-messages as used by the two outbound ASCII converters.
Pointers are `Option`, repeated fields are `List` (a Lean list has no nil *elements*: exactly what
`proto.Unmarshal` can produce), `map[uint32]uint32` is an association list, strings are byte strings.
`uint32` fields are `Nat`, `int32` fields and enums are `Int` (range predicates are stated where needed;
the models are total on all values).

`float32` fields (SysStat) are never interpreted in Lean: an `F32` is the text Go's
`strconv.FormatFloat(float64(f), 'g', -1, 32)` prints (which identifies the float32); `strconv` enters the models
only through the oracle functions of `OutOracle` (formatting `%.1f`/`%.2f`, `ParseFloat`), whose values are supplied
by the harness.  Likewise `encoding/json` on `NetworkConfig`.

Fields the ASCII protocol does not carry (`HWCEvent.Timestamp`, `AbsoluteEvent.PrevValue`, `SpeedEvent.PrevValue`,
`OutboundMessage.BusStatus`) are not mirrored: neither converter reads or writes them.
-/
namespace RawPanelVerif.MsgOut
open RawPanelVerif

/-- opaque float32 token (Go's shortest `'g'` text) -/
abbrev F32 := Bytes

/-- `RawPanelSupport`: the 13 capability flags (field order of the .proto) -/
structure Support where
  ascii : Bool := false
  binary : Bool := false
  jsonFeedback : Bool := false     -- ASCII_JSONfeedback
  jsonInbound : Bool := false      -- ASCII_Inbound
  jsonOutbound : Bool := false     -- ASCII_Outbound
  processors : Bool := false
  system : Bool := false
  rawADCValues : Bool := false
  burninProfile : Bool := false
  envHealth : Bool := false
  registers : Bool := false
  calibration : Bool := false
  networkSettings : Bool := false
  deriving DecidableEq, Repr, Inhabited

structure PanelInfo where
  model : Bytes := []
  serial : Bytes := []
  name : Bytes := []
  softwareVersion : Bytes := []
  platform : Bytes := []
  bluePillReady : Bool := false
  maxClients : Nat := 0
  lockedToIPs : List Bytes := []
  panelType : Int := 0
  support : Option Support := none
  deriving DecidableEq, Repr, Inhabited

structure Topology where
  svgbase : Bytes := []
  json : Bytes := []
  deriving DecidableEq, Repr, Inhabited

structure NetCfg where
  dhcp : Bool := false
  address : Bytes := []
  netmask : Bytes := []
  gateway : Bytes := []
  firstDns : Bytes := []
  secondDns : Bytes := []
  noDefaultRoute : Bool := false
  deriving DecidableEq, Repr, Inhabited

structure RunTimeStats where
  bootsCount : Nat := 0
  totalUptime : Nat := 0
  sessionUptime : Nat := 0
  screenSaveOnTime : Nat := 0
  deriving DecidableEq, Repr, Inhabited

structure SysStat where
  cpuUsage : Nat := 0
  cpuTemp : F32 := [48]
  extTemp : F32 := [48]
  cpuVoltage : F32 := [48]
  cpuFreqCurrent : Int := 0
  cpuFreqMin : Int := 0
  cpuFreqMax : Int := 0
  memTotal : Int := 0
  memFree : Int := 0
  memAvailable : Int := 0
  memBuffers : Int := 0
  memCached : Int := 0
  underVoltageNow : Bool := false
  underVoltage : Bool := false
  freqCapNow : Bool := false
  freqCap : Bool := false
  throttledNow : Bool := false
  throttled : Bool := false
  softTempLimitNow : Bool := false
  softTempLimit : Bool := false
  deriving DecidableEq, Repr, Inhabited

structure BinaryEvent where
  pressed : Bool := false
  edge : Int := 0
  deriving DecidableEq, Repr, Inhabited

structure Event where
  hwcid : Nat := 0
  binary : Option BinaryEvent := none
  pulsed : Option Int := none
  absolute : Option Nat := none
  speed : Option Int := none
  rawAnalog : Option Nat := none
  deriving DecidableEq, Repr, Inhabited

structure Register where
  reg : Int := 0
  id : Bytes := []
  value : Nat := 0
  deriving DecidableEq, Repr, Inhabited

structure OutMsg where
  flow : Int := 0
  avail : List (Nat × Nat) := []
  panelInfo : Option PanelInfo := none
  topology : Option Topology := none
  burnin : Option Bytes := none
  netConfig : Option NetCfg := none
  calibration : Option Bytes := none
  defaultCalibration : Option Bytes := none
  sleepTimeout : Option Nat := none
  sleepState : Option Bool := none
  heartBeat : Option Nat := none
  dimmedGain : Option Nat := none
  connections : Option (List Bytes) := none
  runTimeStats : Option RunTimeStats := none
  errorMsg : Option Bytes := none
  message : Option Bytes := none
  envHealth : Option Int := none
  sysStat : Option SysStat := none
  events : List Event := []
  registers : List Register := []
  deriving DecidableEq, Repr, Inhabited

/-- Values of Go standard-library functions the models do not interpret (supplied by the harness):
`fmtF p t`   = `fmt.Sprintf("%.<p>f", f)` for the float32 `f` whose token is `t`;
`parseF s`   = token of `float32(v)` where `v, _ := strconv.ParseFloat(s, 32)`;
`jsonOfNet c`= `string(json.Marshal(c))` (`""` on error);
`netOfJson s`= `json.Unmarshal([]byte(s), &cfg)`: `none` on error. -/
structure OutOracle where
  fmtF : Nat → F32 → Bytes
  parseF : Bytes → F32
  jsonOfNet : NetCfg → Bytes
  netOfJson : Bytes → Option NetCfg

end RawPanelVerif.MsgOut
