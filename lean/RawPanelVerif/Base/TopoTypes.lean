/-!
# Topology data types (shared vocabulary of Model/Topology and Spec/TopologySpec)

Declarations only: the Go structs of `topology/topology.go` as Lean structures, the JSON tree, and the
query/answer vocabulary of the look-up interface.  No behaviour lives here.

* Go strings are byte lists (`Str`).  `uint32` fields are `Nat`, `int` fields are `Int`.
* `Rotate float32` is carried as an opaque token: the decimal text `encoding/json` prints for the value
  (`"0"` for zero).  It is only ever compared for equality with the token `"0"` and copied.
* `TypeIndex` (a Go map) is an association list kept strictly ascending by key (canonical form of a
  finite map, see `Model/Topology.lean`, `Map.insert`).
* `hwcNil`/`tiNil` record whether the (empty) `HWc` slice / `TypeIndex` map is Go `nil`; this is visible
  only in the serialised form (`null` instead of `[]`/`{}`).
-/
namespace RawPanelVerif.Topo

abbrev Str := List UInt8

/-! ### the `float32` token

`Rotate` is carried as the decimal text of the value.  Which value a token denotes matters in exactly one respect:
whether it is zero (Go's `x != 0`, `omitempty`).  `-0`, `0.0`, `0e3` … all denote zero (`-0 == 0` in Go). -/

/-- the token denotes the value zero (either sign): optional sign, then a mantissa (the part before `e`/`E`) made
of `0` and `.` only, with at least one `0` -/
def rotIsZero (tok : Str) : Bool :=
  let s := match tok with
    | 45 :: r => r
    | 43 :: r => r
    | s => s
  let m := s.takeWhile (fun c => c != 101 && c != 69)
  m.any (· == 48) && m.all (fun c => c == 48 || c == 46)

/-- canonical text of a token as `encoding/json` prints the value it denotes, for the zero tokens (`0`, `-0`);
other tokens are taken as they are (the harness prints them canonically) -/
def rotCanon (tok : Str) : Str :=
  if rotIsZero tok then (match tok with | 45 :: _ => [45, 48] | _ => [48]) else tok

/-- normal form under Go's `==` on floats: both zeros are the token `0` -/
def rotNorm (tok : Str) : Str := if rotIsZero tok then [48] else tok

/-- `TopologyHWcTypeDefSubEl` -/
structure SubEl where
  objType : Str := []
  x : Int := 0
  y : Int := 0
  w : Int := 0
  h : Int := 0
  r : Int := 0
  rx : Int := 0
  ry : Int := 0
  style : Str := []
  idx : Int := 0
deriving Repr, DecidableEq, Inhabited

/-- `TopologyHWcTypeDef_Display` -/
structure Disp where
  w : Int := 0
  h : Int := 0
  subidx : Int := 0
  type : Str := []
  shrink : Int := 0
  border : Int := 0
deriving Repr, DecidableEq, Inhabited

/-- `TopologyHWcTypeDef` (the mutex is not data) -/
structure TypeDef where
  w : Int := 0
  h : Int := 0
  out : Str := []
  inp : Str := []
  desc : Str := []
  ext : Str := []
  subidx : Int := 0
  rotate : Str := [48]          -- token "0"
  disp : Option Disp := none
  sub : List SubEl := []
  render : Str := []
deriving Repr, DecidableEq, Inhabited

/-- `TopologyHWcomponent` -/
structure HWc where
  id : Nat := 0
  x : Int := 0
  y : Int := 0
  txt : Str := []
  type : Nat := 0
  ov : Option TypeDef := none
  uiParent : Nat := 0
  uiYang : Nat := 0
deriving Repr, DecidableEq, Inhabited

abbrev Map (α : Type) := List (Nat × α)

/-- `Topology` -/
structure Topology where
  title : Str := []
  hwc : List HWc := []
  hwcNil : Bool := false
  ti : Map TypeDef := []
  tiNil : Bool := false
deriving Repr, DecidableEq, Inhabited

/-! ### equality of values: Go's `==` on the `float32` field does not tell the two zeros apart -/

def TypeDef.norm (td : TypeDef) : TypeDef := { td with rotate := rotNorm td.rotate }
def HWc.norm (c : HWc) : HWc := { c with ov := c.ov.map TypeDef.norm }
/-- normal form of a topology under Go equality (`reflect.DeepEqual` up to nil-ness flags, which are kept) -/
def Topology.norm (t : Topology) : Topology :=
  { t with hwc := t.hwc.map HWc.norm, ti := t.ti.map (fun e => (e.1, e.2.norm)) }

/-- JSON tree.  Numbers keep their literal text (ints: decimal; float32: what Go prints). -/
inductive JVal where
  | null
  | bool (b : Bool)
  | num (lit : Str)
  | str (s : Str)
  | arr (l : List JVal)
  | obj (kvs : List (Str × JVal))
deriving Repr, Inhabited

/-- results of the eleven derived predicates of a type definition, in the order
`IsButton IsBinary IsPulsed IsAbsolute IsIntensity HasDisplay HasLED HasSteps LedBarSteps IsMotorized GetInputType` -/
structure Preds where
  isButton : Bool
  isBinary : Bool
  isPulsed : Bool
  isAbsolute : Bool
  isIntensity : Bool
  hasDisplay : Bool
  hasLED : Bool
  hasSteps : Int
  ledBarSteps : Int
  isMotorized : Bool
  inputType : Str
deriving Repr, DecidableEq, Inhabited

/-- the look-up interface (C13): which getter, with which arguments -/
inductive Query where
  | hwcs                         -- GetHWCs
  | xy (id : Nat)                -- GetHWCxy
  | text (id : Nat)              -- GetHWCtext
  | type (id : Nat)              -- GetHWCtype
  | withDisplay                  -- GetHWCsWithDisplay
  | resolveA (k : Nat)           -- GetTypeDefWithOverride(&top.HWc[k]), k < len
  | resolveAx (c : HWc)          -- GetTypeDefWithOverride(&c) for a free-standing component
  | resolveB (k : Int)           -- GetHWCTypeDefinition(k)
  | resolveBid (id : Int)        -- GetHWCTypeDefinitionFromHWCid(id)
  | defId (id : Int)             -- GetHWCDefinitionFromHWCid(id)
  | pred (td : TypeDef)          -- the predicates on a free-standing definition
  | predOf (id : Nat)            -- GetHWCtype(id), then the predicates on the returned definition
deriving Repr, DecidableEq, Inhabited

/-- what a look-up returned -/
inductive Result where
  | ids (l : List Nat)
  | xy (x y : Int)
  | text (s : Str)
  | typeDef (td : TypeDef)
  | notFound (msg : Str)                 -- `nil, error`
  | comp (c : HWc)
  | preds (p : Preds)
  | typePreds (td : TypeDef) (p : Preds)
  | panic
deriving Repr, DecidableEq, Inhabited

/-- a look-up's observable outcome: its result and the serialised topology afterwards (canonical text) -/
structure Answer where
  res : Result
  after : Str
deriving Repr, DecidableEq, Inhabited

/-! ## C15 vocabulary: an XML element appended to the SVG root, and the render switches -/

/-- an XML element: name, attributes in document order, text content -/
structure SvgNode where
  name : Str
  attrs : List (Str × Str) := []
  text : Str := []
deriving Repr, DecidableEq, Inhabited

/-- `showLabels, showHWCID, showType, showDisplaySize` of `GenerateCompositeSVGdoc` -/
structure SvgOpts where
  showLabels : Bool
  showHWCID : Bool
  showType : Bool
  showDisplaySize : Bool
deriving Repr, DecidableEq, Inhabited

end RawPanelVerif.Topo
