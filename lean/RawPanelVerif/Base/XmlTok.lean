import RawPanelVerif.Base.TopoTypes
/-!
# The token stream of an XML document as `encoding/xml` delivers it (shared vocabulary of Model/XmldomBase and
Spec/SvgBaseSpec; declarations only)

One constructor per kind of token `Decoder.Token` / `Decoder.RawToken` returns.  Names are split the way
`encoding/xml` splits them: `pfx` is what stands before the colon (empty when there is none), `loc` the local part.
* `start pfx loc attrs`   start tag; one `(pfx, loc, value)` per attribute, in document order, values unescaped
* `stop pfx loc`          end tag (also delivered for `<a/>`)
* `text s`                character data with `bytes.TrimSpace` applied (`[]` = nothing but white space); a CDATA
                          section is a token of its own
* `comment s`, `pi target inst` (`inst` trimmed), `dir s` (`<!DOCTYPE …>` and other `<!…>` directives)

The same type describes the token stream of a document `go-xmldom` prints (there every prefix is empty).
-/
namespace RawPanelVerif.Xml
open RawPanelVerif.Topo (Str)

inductive Tok where
  | start (pfx loc : Str) (attrs : List (Str × Str × Str))
  | stop (pfx loc : Str)
  | text (s : Str)
  | comment (s : Str)
  | pi (target inst : Str)
  | dir (s : Str)
deriving Repr, DecidableEq, Inhabited

namespace Tok

def isStart : Tok → Bool
  | .start .. => true
  | _ => false

def isStop : Tok → Bool
  | .stop .. => true
  | _ => false

def isComment : Tok → Bool
  | .comment _ => true
  | _ => false

def isPI : Tok → Bool
  | .pi .. => true
  | _ => false

def isDir : Tok → Bool
  | .dir _ => true
  | _ => false

/-- white space only -/
def isBlank : Tok → Bool
  | .text s => s.isEmpty
  | _ => false

end Tok

/-- the letter `tokenKinds` of the harness writes for a token -/
def kindOf : Tok → UInt8
  | .start .. => 83
  | .stop .. => 69
  | .text s => if s.isEmpty then 87 else 67
  | .comment _ => 77
  | .pi .. => 80
  | .dir _ => 68

end RawPanelVerif.Xml
