import RawPanelVerif.Base.Bytes
/-!
# IEEE-754 binary64 arithmetic on the few operations the tile renderer uses, with integers only

A finite non-zero double is `m · 2^e` with `2^52 ≤ |m| < 2^53` (subnormals, infinities and NaN cannot arise from the
operands used: quotients/products of integers of magnitude < 2^63 and divisors/factors ≠ 0).
`rn p q` = the double nearest to the rational `p/q` (round half to even) — i.e. Go's `float64(p)/float64(q)` when
`p`, `q` are exactly representable, and the correctly rounded product when `p/q` is an exact product.
Trusted: that Go's `float64` `/`, `*` are correctly rounded (IEEE-754), and `fmt`'s `%.Nf` is correctly rounded decimal.
-/
namespace RawPanelVerif.Dbl

structure D where
  neg : Bool      -- sign bit (so that -0 prints as "-0.00" like Go)
  m : Nat         -- 0, or 2^52 ≤ m < 2^53
  e : Int
deriving Repr, DecidableEq

def bitLen : Nat → Nat := fun n => Nat.log2 n + (if n = 0 then 0 else 1)

/-- round-half-even of `a / b` for naturals, `b > 0` -/
def divRNE (a b : Nat) : Nat :=
  let q := a / b
  let r := a % b
  if 2 * r < b then q else if 2 * r > b then q + 1 else (if q % 2 = 0 then q else q + 1)

/-- nearest double to `p / q` (`q ≠ 0`) -/
def rn (p q : Int) : D :=
  let neg := (p < 0) != (q < 0)
  let a := p.natAbs
  let b := q.natAbs
  if a = 0 ∨ b = 0 then { neg := false, m := 0, e := 0 } else
  -- choose e with 2^52 ≤ a / (b·2^e) < 2^53 (up to the final renormalisation)
  let e0 : Int := (bitLen a : Int) - (bitLen b : Int) - 53
  let scaled (e : Int) : Nat := if e ≥ 0 then divRNE a (b * 2 ^ e.toNat) else divRNE (a * 2 ^ (-e).toNat) b
  let floorq (e : Int) : Nat := if e ≥ 0 then a / (b * 2 ^ e.toNat) else (a * 2 ^ (-e).toNat) / b
  -- floor(a / (b 2^e0)) is in [2^51, 2^53): adjust e so that the floor is in [2^52, 2^53)
  let e := if floorq e0 < 2 ^ 52 then e0 - 1 else if floorq e0 ≥ 2 ^ 53 then e0 + 1 else e0
  let m := scaled e
  if m = 2 ^ 53 then { neg := neg, m := 2 ^ 52, e := e + 1 } else { neg := neg, m := m, e := e }

def ofInt (i : Int) : D := rn i 1

/-- double × exactly representable integer, correctly rounded -/
def mulInt (d : D) (c : Int) : D :=
  if d.m = 0 ∨ c = 0 then { neg := d.neg != (c < 0), m := 0, e := 0 } else
  let p : Int := (if d.neg then -1 else 1) * (d.m : Int) * c
  if d.e ≥ 0 then rn (p * 2 ^ d.e.toNat) 1 else rn p (2 ^ (-d.e).toNat)

/-- Go `int(x)` for a double in range: truncation toward zero -/
def trunc (d : D) : Int :=
  let mag : Nat := if d.e ≥ 0 then d.m * 2 ^ d.e.toNat else d.m / 2 ^ (-d.e).toNat
  if d.neg then -(mag : Int) else mag

/-- `fmt.Sprintf("%.<k>f", d)`: correctly rounded (half-even on the exact binary value) fixed notation -/
def fmtFixed (d : D) (k : Nat) : Bytes :=
  -- |d|·10^k as a rational num/den
  let num : Nat := if d.e ≥ 0 then d.m * 2 ^ d.e.toNat * 10 ^ k else d.m * 10 ^ k
  let den : Nat := if d.e ≥ 0 then 1 else 2 ^ (-d.e).toNat
  let n := divRNE num den
  let ip := n / 10 ^ k
  let fp := n % 10 ^ k
  let fdigits := Bytes.digitsOf fp
  let pad := List.replicate (k - fdigits.length) (48 : UInt8)
  (if d.neg then [45] else []) ++ Bytes.digitsOf ip ++ (if k = 0 then [] else 46 :: (pad ++ fdigits))

/-- `fmt.Sprintf("%1.<k>f", float64(i)/<den>)` -/
def fmtIntDiv (i den : Int) (k : Nat) : Bytes :=
  let d := rn i den
  -- float64(0)/den = +0; a negative numerator gives the sign even when the result rounds to zero
  fmtFixed { d with neg := i < 0 } k

end RawPanelVerif.Dbl
