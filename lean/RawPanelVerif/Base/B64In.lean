import RawPanelVerif.Base.Bytes
/-!
# Standard base64 (padded alphabet `A-Za-z0-9+/`, `=`), as Go `encoding/base64.StdEncoding`

* `encode`  = `EncodeToString`
* `decode`  = the bytes `b, _ := DecodeString(s)` leaves in `b`: Go decodes quantum by quantum (4 sextets, CR/LF
  skipped), and on a corrupt quantum returns the bytes decoded *so far* together with the error (which the callers
  here drop).  A padded quantum (`xx==`, `xxx=`) ends the decoding (anything after it is "trailing garbage":
  the quantum's bytes are still delivered).
* `decode_encode : decode (encode b) = b`.
-/
namespace RawPanelVerif.B64In
open RawPanelVerif

def encChar (n : Nat) : UInt8 :=
  if n < 26 then UInt8.ofNat (65 + n)
  else if n < 52 then UInt8.ofNat (97 + (n - 26))
  else if n < 62 then UInt8.ofNat (48 + (n - 52))
  else if n = 62 then 43 else 47

def decChar (c : UInt8) : Option Nat :=
  let n := c.toNat
  if 65 ≤ n ∧ n ≤ 90 then some (n - 65)
  else if 97 ≤ n ∧ n ≤ 122 then some (n - 97 + 26)
  else if 48 ≤ n ∧ n ≤ 57 then some (n - 48 + 52)
  else if n = 43 then some 62
  else if n = 47 then some 63
  else none

def encode : Bytes → Bytes
  | [] => []
  | [a] => [encChar (a.toNat / 4), encChar (a.toNat % 4 * 16), 61, 61]
  | [a, b] => [encChar (a.toNat / 4), encChar (a.toNat % 4 * 16 + b.toNat / 16), encChar (b.toNat % 16 * 4), 61]
  | a :: b :: c :: r =>
    encChar (a.toNat / 4) :: encChar (a.toNat % 4 * 16 + b.toNat / 16) ::
    encChar (b.toNat % 16 * 4 + c.toNat / 64) :: encChar (c.toNat % 64) :: encode r

def skipNL : Bytes → Bytes
  | [] => []
  | c :: r => if c = 10 ∨ c = 13 then skipNL r else c :: r

theorem skipNL_length_le (s : Bytes) : (skipNL s).length ≤ s.length := by
  induction s with
  | nil => simp [skipNL]
  | cons c r ih => unfold skipNL; split <;> simp <;> omega

/-- the bytes of a quantum with `acc` sextets (2, 3 or 4 of them) -/
def quantumBytes (acc : List Nat) : Bytes :=
  match acc with
  | [s0, s1] => [UInt8.ofNat ((s0 * 4 + s1 / 16) % 256)]
  | [s0, s1, s2] => [UInt8.ofNat ((s0 * 4 + s1 / 16) % 256), UInt8.ofNat ((s1 % 16 * 16 + s2 / 4) % 256)]
  | [s0, s1, s2, s3] =>
    [UInt8.ofNat ((s0 * 4 + s1 / 16) % 256), UInt8.ofNat ((s1 % 16 * 16 + s2 / 4) % 256), UInt8.ofNat ((s2 % 4 * 64 + s3) % 256)]
  | _ => []

/-- `decodeQuantum`: (bytes delivered, `some rest` if decoding continues / `none` if it stops here) -/
def quantum : (acc : List Nat) → Bytes → Bytes × Option Bytes
  | _, [] => ([], none)                         -- end of input: j = 0 fine, j ≥ 1 corrupt; no bytes either way
  | acc, c :: r =>
    match decChar c with
    | some v =>
      if acc.length ≥ 3 then (quantumBytes (acc ++ [v]), some r) else quantum (acc ++ [v]) r
    | none =>
      if c = 10 ∨ c = 13 then quantum acc r
      else if c ≠ 61 then ([], none)
      else if acc.length < 2 then ([], none)
      else if acc.length = 2 then
        match skipNL r with
        | [] => ([], none)
        | d :: _ => if d ≠ 61 then ([], none) else (quantumBytes acc, none)
      else (quantumBytes acc, none)

theorem quantum_rest_lt (acc : List Nat) (s : Bytes) (out r : Bytes) (h : quantum acc s = (out, some r)) :
    r.length < s.length := by
  induction s generalizing acc with
  | nil => simp [quantum] at h
  | cons c cs ih =>
    unfold quantum at h
    split at h
    · split at h
      · simp only [Prod.mk.injEq, Option.some.injEq] at h
        obtain ⟨_, h⟩ := h
        subst h; simp
      · have := ih _ h; simp; omega
    · split at h
      · have := ih _ h; simp; omega
      · split at h
        · simp at h
        · split at h
          · simp at h
          · split at h
            · split at h
              · simp at h
              · split at h <;> simp at h
            · simp at h

def decodeF : (fuel : Nat) → Bytes → Bytes
  | 0, _ => []
  | n + 1, s =>
    match quantum [] s with
    | (out, none) => out
    | (out, some r) => out ++ decodeF n r

/-- the bytes Go's `StdEncoding.DecodeString` returns (error dropped) -/
def decode (s : Bytes) : Bytes := decodeF (s.length + 1) s

theorem decChar_encChar (n : Nat) (h : n < 64) : decChar (encChar n) = some n := by
  have : ∀ k : Fin 64, decChar (encChar k.val) = some k.val := by decide
  exact this ⟨n, h⟩

theorem encChar_ne_special (n : Nat) (h : n < 64) : decChar (encChar n) ≠ none := by
  rw [decChar_encChar n h]; simp

private theorem ofNat_toNat (a : UInt8) : UInt8.ofNat a.toNat = a := by simp

private theorem quantum_full (a b c : UInt8) (rest : Bytes) :
    quantum [] (encChar (a.toNat / 4) :: encChar (a.toNat % 4 * 16 + b.toNat / 16) ::
      encChar (b.toNat % 16 * 4 + c.toNat / 64) :: encChar (c.toNat % 64) :: rest) = ([a, b, c], some rest) := by
  have ha := a.toNat_lt
  have hb := b.toNat_lt
  have hc := c.toNat_lt
  simp only [quantum, decChar_encChar (a.toNat / 4) (by omega),
    decChar_encChar (a.toNat % 4 * 16 + b.toNat / 16) (by omega),
    decChar_encChar (b.toNat % 16 * 4 + c.toNat / 64) (by omega),
    decChar_encChar (c.toNat % 64) (by omega), List.length_nil, List.nil_append, List.length_cons,
    List.cons_append, quantumBytes]
  simp only [show ¬ (0 ≥ 3) by omega, show ¬ (0 + 1 ≥ 3) by omega, show ¬ (0 + 1 + 1 ≥ 3) by omega,
    show (0 + 1 + 1 + 1 ≥ 3) by omega, if_true, if_false]
  have e1 : (a.toNat / 4 * 4 + (a.toNat % 4 * 16 + b.toNat / 16) / 16) % 256 = a.toNat := by omega
  have e2 : ((a.toNat % 4 * 16 + b.toNat / 16) % 16 * 16 + (b.toNat % 16 * 4 + c.toNat / 64) / 4) % 256 = b.toNat := by omega
  have e3 : ((b.toNat % 16 * 4 + c.toNat / 64) % 4 * 64 + c.toNat % 64) % 256 = c.toNat := by omega
  rw [e1, e2, e3, ofNat_toNat, ofNat_toNat, ofNat_toNat]

private theorem dec61 : decChar 61 = none := by decide

private theorem quantum_one (a : UInt8) :
    quantum [] [encChar (a.toNat / 4), encChar (a.toNat % 4 * 16), 61, 61] = ([a], none) := by
  have ha := a.toNat_lt
  simp only [quantum, decChar_encChar (a.toNat / 4) (by omega), decChar_encChar (a.toNat % 4 * 16) (by omega),
    dec61, List.length_nil, List.nil_append, List.length_cons, List.cons_append, quantumBytes,
    show skipNL [61] = [61] by decide]
  have e1 : (a.toNat / 4 * 4 + a.toNat % 4 * 16 / 16) % 256 = a.toNat := by omega
  simp only [show ¬ (0 ≥ 3) by omega, show ¬ (0 + 1 ≥ 3) by omega, if_false, e1, ofNat_toNat]
  simp

private theorem quantum_two (a b : UInt8) :
    quantum [] [encChar (a.toNat / 4), encChar (a.toNat % 4 * 16 + b.toNat / 16), encChar (b.toNat % 16 * 4), 61] = ([a, b], none) := by
  have ha := a.toNat_lt
  have hb := b.toNat_lt
  simp only [quantum, decChar_encChar (a.toNat / 4) (by omega), decChar_encChar (a.toNat % 4 * 16 + b.toNat / 16) (by omega),
    decChar_encChar (b.toNat % 16 * 4) (by omega),
    dec61, List.length_nil, List.nil_append, List.length_cons, List.cons_append, quantumBytes]
  have e1 : (a.toNat / 4 * 4 + (a.toNat % 4 * 16 + b.toNat / 16) / 16) % 256 = a.toNat := by omega
  have e2 : ((a.toNat % 4 * 16 + b.toNat / 16) % 16 * 16 + b.toNat % 16 * 4 / 4) % 256 = b.toNat := by omega
  simp only [show ¬ (0 ≥ 3) by omega, show ¬ (0 + 1 ≥ 3) by omega, show ¬ (0 + 1 + 1 ≥ 3) by omega, if_false,
    e1, e2, ofNat_toNat]
  simp

theorem encode_length (b : Bytes) : (encode b).length = (b.length + 2) / 3 * 4 := by
  fun_induction encode b with
  | case1 => rfl
  | case2 => simp
  | case3 => simp
  | case4 a b c r ih => simp only [List.length_cons, ih]; omega

theorem decodeF_encode (b : Bytes) (n : Nat) (h : (encode b).length < n) : decodeF n (encode b) = b := by
  fun_induction encode b generalizing n with
  | case1 => cases n with
    | zero => omega
    | succ n => simp [decodeF, quantum]
  | case2 a => cases n with
    | zero => omega
    | succ n => simp only [decodeF]; rw [quantum_one]
  | case3 a b => cases n with
    | zero => omega
    | succ n => simp only [decodeF]; rw [quantum_two]
  | case4 a b c r ih => cases n with
    | zero => omega
    | succ n =>
      simp only [decodeF]
      rw [quantum_full]
      simp only [List.length_cons] at h
      show [a, b, c] ++ decodeF n (encode r) = _
      rw [ih n (by omega)]
      rfl

/-- **base64 round trip**: decoding the encoding of any byte string returns it -/
theorem decode_encode (b : Bytes) : decode (encode b) = b :=
  decodeF_encode b _ (by omega)

/-- the encoding uses only alphabet characters and `=`: no LF, no `|`, no `:`… -/
theorem encChar_mem (n : Nat) : decChar (encChar n) ≠ none := by
  unfold encChar
  by_cases h : n < 64
  · have := decChar_encChar n h; unfold encChar at this; rw [this]; simp
  · have h1 : ¬ n < 26 := by omega
    have h2 : ¬ n < 52 := by omega
    have h3 : ¬ n < 62 := by omega
    have h4 : ¬ n = 62 := by omega
    simp only [h1, h2, h3, h4, if_false]; decide

theorem mem_encode (b : Bytes) (c : UInt8) (h : c ∈ encode b) : c = 61 ∨ decChar c ≠ none := by
  fun_induction encode b with
  | case1 => simp at h
  | case2 a =>
    simp only [List.mem_cons, List.not_mem_nil, or_false] at h
    rcases h with h | h | h | h
    · right; rw [h]; exact encChar_mem _
    · right; rw [h]; exact encChar_mem _
    · left; exact h
    · left; exact h
  | case3 a b =>
    simp only [List.mem_cons, List.not_mem_nil, or_false] at h
    rcases h with h | h | h | h
    · right; rw [h]; exact encChar_mem _
    · right; rw [h]; exact encChar_mem _
    · right; rw [h]; exact encChar_mem _
    · left; exact h
  | case4 a b c' r ih =>
    simp only [List.mem_cons] at h
    rcases h with h | h | h | h | h
    · right; rw [h]; exact encChar_mem _
    · right; rw [h]; exact encChar_mem _
    · right; rw [h]; exact encChar_mem _
    · right; rw [h]; exact encChar_mem _
    · exact ih h

end RawPanelVerif.B64In
