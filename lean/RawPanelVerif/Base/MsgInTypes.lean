import RawPanelVerif.Base.Bytes
/-!
# System → panel ("inbound") message types — TYPES ONLY (shared by Model/ and Spec/)

Mirror of `ibeam_rawpanel.InboundMessage` and its sub-messages (ibeam-rawpanel.pb.go).
* pointer sub-messages are `Option`, repeated fields are `List`
* `uint32` fields are `Nat` (values obtainable from protobuf are `< 2^32`), `int32` fields and all enums (Go `int32`)
  are `Int`, strings / `[]byte` are `Bytes`
* one-field wrapper messages (`ColorIndex{Index}`, `SleepTimeout{Value}`, `PublishRawADCValues{Enabled}` …) are the
  `Option` of their single field
* `Processors` (JSON only, outside the ASCII domain) is carried as the JSON text `encoding/json` produced for the
  whole state (opaque); `NetCfg` is the `NetworkConfig` message, its JSON text is an oracle parameter of the models.
-/
namespace RawPanelVerif.MsgIn
open RawPanelVerif

structure ColorRGB where
  red : Nat
  green : Nat
  blue : Nat
  deriving DecidableEq, Repr, Inhabited

/-- `Color` and `HWCColor` (same shape: "one of" `ColorRGB`, `ColorIndex{Index}`) -/
structure Color where
  rgb : Option ColorRGB := none
  index : Option Int := none
  deriving DecidableEq, Repr, Inhabited

structure Mode where
  state : Int := 0
  output : Bool := false
  blink : Nat := 0
  deriving DecidableEq, Repr, Inhabited

structure Ext where
  interp : Int := 0
  value : Nat := 0
  deriving DecidableEq, Repr, Inhabited

structure Font where
  face : Int := 0
  height : Nat := 0
  width : Nat := 0
  deriving DecidableEq, Repr, Inhabited

structure TextStyle where
  titleFont : Option Font := none
  textFont : Option Font := none
  fixedWidth : Bool := false
  titleBarPadding : Nat := 0
  extraSpacing : Nat := 0
  unformattedFontSize : Nat := 0
  deriving DecidableEq, Repr, Inhabited

structure Scale where
  scaleType : Int := 0
  rangeLow : Int := 0
  rangeHigh : Int := 0
  limitLow : Int := 0
  limitHigh : Int := 0
  deriving DecidableEq, Repr, Inhabited

structure Text where
  integerValue : Int := 0
  formatting : Int := 0
  stateIcon : Int := 0
  modifierIcon : Int := 0
  title : Bytes := []
  solidHeaderBar : Bool := false
  textline1 : Bytes := []
  textline2 : Bytes := []
  integerValue2 : Int := 0
  pairMode : Int := 0
  scale : Option Scale := none
  textStyling : Option TextStyle := none
  inverted : Bool := false
  pixelColor : Option Color := none
  backgroundColor : Option Color := none
  deriving DecidableEq, Repr, Inhabited

structure Gfx where
  imageType : Int := 0
  w : Nat := 0
  h : Nat := 0
  xyOffset : Bool := false
  x : Nat := 0
  y : Nat := 0
  imageData : Bytes := []
  deriving DecidableEq, Repr, Inhabited

structure State where
  ids : List Nat := []
  mode : Option Mode := none
  color : Option Color := none
  ext : Option Ext := none
  text : Option Text := none
  gfx : Option Gfx := none
  rawADC : Option Bool := none
  /-- `Processors` present: the text `json.Marshal(stateRec)` produced (opaque) -/
  processors : Option Bytes := none
  deriving DecidableEq, Repr, Inhabited

structure Register where
  reg : Int := 0
  id : Bytes := []
  value : Nat := 0
  deriving DecidableEq, Repr, Inhabited

structure NetCfg where
  dhcp : Bool := false
  address : Bytes := []
  netmask : Bytes := []
  gateway : Bytes := []
  firstDns : Bytes := []
  secondDns : Bytes := []
  noDefaultRoute : Bool := false
  deriving DecidableEq, Repr, Inhabited

/-- `Command`: 16 flags and 13 optional sub-messages (29 fields), listed in the encoder's emission order -/
structure Command where
  activatePanel : Bool := false
  sendPanelInfo : Bool := false
  reportHWCavailability : Bool := false
  sendPanelTopology : Bool := false
  sendBurninProfile : Bool := false
  sendCalibrationProfile : Bool := false
  sendNetworkConfig : Bool := false
  sendRegisters : Bool := false
  getConnections : Bool := false
  getRunTimeStats : Bool := false
  clearAll : Bool := false
  clearLEDs : Bool := false
  clearDisplays : Bool := false
  getSleepTimeout : Bool := false
  wakeUp : Bool := false
  reboot : Bool := false
  /-- `Brightness{LEDs, OLEDs}` as (LEDs, OLEDs) -/
  panelBrightness : Option (Nat × Nat) := none
  setCalibrationProfile : Option Bytes := none
  setNetworkConfig : Option NetCfg := none
  simulateEnvironmentalHealth : Option Int := none
  setSleepTimeout : Option Nat := none
  setSleepMode : Option Int := none
  setSleepScreenSaver : Option Int := none
  setDimmedGain : Option Nat := none
  setHeartBeatTimer : Option Nat := none
  publishSystemStat : Option Nat := none
  loadCPU : Option Int := none
  setWebserverEnabled : Option Bool := none
  jsonConfig : Option Bool := none
  deriving DecidableEq, Repr, Inhabited

structure InMsg where
  flow : Int := 0
  command : Option Command := none
  states : List State := []
  registers : List Register := []
  deriving DecidableEq, Repr, Inhabited

end RawPanelVerif.MsgIn

namespace RawPanelVerif.MsgIn
/-- Results of `encoding/json` on the JSON-carrying parts of the protocol.  `encoding/json` is not modelled: the
models and the reference reader take what it produced as parameters (the harness supplies them per record). -/
structure Oracles where
  /-- `json.Marshal(config)` of `networkStringFromConfig` -/
  netJson : NetCfg → Bytes
  /-- `networkConfigFromString`: `none` when `json.Unmarshal` reports an error -/
  parseNet : Bytes → Option NetCfg
  /-- `json.Unmarshal(line, &HWCState{})` (whatever it left in the state, error ignored) -/
  parseState : Bytes → State
  /-- `json.Unmarshal(line, &[]*InboundMessage{})`: `none` elements are JSON `null`s -/
  parseMsgs : Bytes → List (Option InMsg)

instance : Inhabited Oracles := ⟨⟨fun _ => [], fun _ => none, fun _ => {}, fun _ => []⟩⟩
end RawPanelVerif.MsgIn
