/-!
# Byte strings: Go `string` is a byte string (may be invalid UTF-8), so models use `List UInt8`.

`splitOn`/`join` (Go `strings.Split`/`Join` with a one-byte separator), decimal `itoa`/`atoiV`
(Go `strconv.Itoa`, and the value `v, _ := strconv.Atoi(s)` leaves in `v`), `trimSpace` (Go `strings.TrimSpace`).
-/
namespace RawPanelVerif
abbrev Bytes := List UInt8

namespace Bytes

def ofString (s : String) : Bytes := s.toUTF8.toList
/-- ASCII literal (each `Char` truncated to a byte); reduces under `decide`, unlike `ofString` -/
def asc (s : String) : Bytes := s.toList.map (fun c => UInt8.ofNat c.toNat)
def hasPrefix (p s : Bytes) : Bool := p.isPrefixOf s

/-! ## split / join -/

def splitOn (sep : UInt8) : Bytes → List Bytes
  | [] => [[]]
  | c :: cs =>
    if c = sep then [] :: splitOn sep cs
    else match splitOn sep cs with
      | [] => [[c]]
      | h :: t => (c :: h) :: t

def join (sep : UInt8) : List Bytes → Bytes
  | [] => []
  | [f] => f
  | f :: g :: fs => f ++ sep :: join sep (g :: fs)

theorem splitOn_ne_nil (sep : UInt8) (s : Bytes) : splitOn sep s ≠ [] := by
  induction s with
  | nil => simp [splitOn]
  | cons c cs ih =>
    unfold splitOn
    split
    · simp
    · split <;> simp

theorem splitOn_nosep (sep : UInt8) (f : Bytes) (h : sep ∉ f) : splitOn sep f = [f] := by
  induction f with
  | nil => rfl
  | cons c cs ih =>
    have hc : c ≠ sep := by intro e; apply h; simp [e]
    have hcs : sep ∉ cs := by intro e; apply h; simp [e]
    simp [splitOn, hc, ih hcs]

theorem splitOn_append_sep (sep : UInt8) (f rest : Bytes) (h : sep ∉ f) :
    splitOn sep (f ++ sep :: rest) = f :: splitOn sep rest := by
  induction f with
  | nil => simp [splitOn]
  | cons c cs ih =>
    have hc : c ≠ sep := by intro e; apply h; simp [e]
    have hcs : sep ∉ cs := by intro e; apply h; simp [e]
    simp [splitOn, hc, ih hcs]

/-- `Split(Join(fs, sep), sep) = fs` when no field contains the separator (and there is ≥ 1 field). -/
theorem splitOn_join (sep : UInt8) (fs : List Bytes) (hne : fs ≠ []) (h : ∀ f ∈ fs, sep ∉ f) :
    splitOn sep (join sep fs) = fs := by
  induction fs with
  | nil => exact absurd rfl hne
  | cons f rest ih =>
    cases rest with
    | nil => simpa [join] using splitOn_nosep sep f (h f (by simp))
    | cons g gs =>
      simp only [join]
      rw [splitOn_append_sep sep f _ (h f (by simp))]
      rw [ih (by simp) (fun x hx => h x (by simp [hx]))]

/-- `Join(Split(s, sep), sep) = s` -/
theorem join_splitOn (sep : UInt8) (s : Bytes) : join sep (splitOn sep s) = s := by
  induction s with
  | nil => rfl
  | cons c cs ih =>
    unfold splitOn
    split
    · rename_i h
      have hne := splitOn_ne_nil sep cs
      cases hs : splitOn sep cs with
      | nil => exact absurd hs hne
      | cons a as => rw [hs] at ih; simp [join, ih, h]
    · have hne := splitOn_ne_nil sep cs
      cases hs : splitOn sep cs with
      | nil => exact absurd hs hne
      | cons a as =>
        rw [hs] at ih
        cases as with
        | nil => simp [join] at ih ⊢; exact ih
        | cons b bs => simp [join] at ih ⊢; exact ih

theorem not_mem_of_mem_splitOn (sep : UInt8) (s f : Bytes) (h : f ∈ splitOn sep s) : sep ∉ f := by
  induction s generalizing f with
  | nil => simp [splitOn] at h; subst h; simp
  | cons c cs ih =>
    unfold splitOn at h
    split at h
    · simp at h
      rcases h with h | h
      · subst h; simp
      · exact ih f h
    · rename_i hc
      have hne := splitOn_ne_nil sep cs
      cases hs : splitOn sep cs with
      | nil => exact absurd hs hne
      | cons a as =>
        rw [hs] at h ih
        simp at h
        rcases h with h | h
        · subst h
          have := ih a (by simp)
          simp [this]; exact fun e => hc e.symm
        · exact ih f (by simp [h])

/-- no separator byte in the join of separator-free fields unless there are ≥ 2 fields -/
theorem mem_join (sep b : UInt8) (fs : List Bytes) (h : b ∈ join sep fs) : b = sep ∨ ∃ f ∈ fs, b ∈ f := by
  induction fs with
  | nil => simp [join] at h
  | cons f rest ih =>
    cases rest with
    | nil => simp [join] at h; exact Or.inr ⟨f, by simp, h⟩
    | cons g gs =>
      simp only [join, List.mem_append, List.mem_cons] at h
      rcases h with h | h | h
      · exact Or.inr ⟨f, by simp, h⟩
      · exact Or.inl h
      · rcases ih h with h | ⟨f', hf', hb⟩
        · exact Or.inl h
        · exact Or.inr ⟨f', by simp [hf'], hb⟩

/-! ## `su.StringImplodeRemoveTrailingEmpty`, `su.IndexValueToString` -/

def dropTrailingEmpty : List Bytes → List Bytes
  | [] => []
  | f :: fs => if dropTrailingEmpty fs = [] ∧ f = [] then [] else f :: dropTrailingEmpty fs

def implodeRTE (sep : UInt8) (fs : List Bytes) : Bytes := join sep (dropTrailingEmpty fs)

def idxStr (fs : List Bytes) (i : Nat) : Bytes := fs.getD i []

theorem idx_dropTrailingEmpty (fs : List Bytes) (i : Nat) : idxStr (dropTrailingEmpty fs) i = idxStr fs i := by
  unfold idxStr
  induction fs generalizing i with
  | nil => simp [dropTrailingEmpty]
  | cons f fs ih =>
    unfold dropTrailingEmpty
    split
    · rename_i h
      obtain ⟨h1, h2⟩ := h
      subst h2
      cases i with
      | zero => simp
      | succ j =>
        have := ih j
        rw [h1] at this
        simpa using this
    · cases i with
      | zero => simp
      | succ j => simpa using ih j

theorem mem_dropTrailingEmpty (fs : List Bytes) (f : Bytes) (h : f ∈ dropTrailingEmpty fs) : f ∈ fs := by
  induction fs with
  | nil => simp [dropTrailingEmpty] at h
  | cons g gs ih =>
    unfold dropTrailingEmpty at h
    split at h
    · simp at h
    · simp at h ⊢
      rcases h with h | h
      · exact Or.inl h
      · exact Or.inr (ih h)

/-- every field (any count, any presence pattern) is read back from the trimmed join -/
theorem fields_roundtrip (sep : UInt8) (fs : List Bytes) (h : ∀ f ∈ fs, sep ∉ f) (i : Nat) :
    idxStr (splitOn sep (implodeRTE sep fs)) i = idxStr fs i := by
  unfold implodeRTE
  by_cases hd : dropTrailingEmpty fs = []
  · have := idx_dropTrailingEmpty fs i
    rw [hd] at this ⊢
    simp [join, splitOn, idxStr] at this ⊢
    cases i <;> simp_all
  · rw [splitOn_join sep _ hd]
    · exact idx_dropTrailingEmpty fs i
    · intro f hf
      exact h f (mem_dropTrailingEmpty fs f hf)

/-! ## decimal -/

def isDigit (b : UInt8) : Bool := 48 ≤ b && b ≤ 57

def digitsOf (n : Nat) : Bytes := (Nat.toDigits 10 n).map (fun c => UInt8.ofNat c.toNat)

def natOfDigits (bs : Bytes) : Nat := bs.foldl (fun acc b => 10 * acc + (b.toNat - 48)) 0

/-- Go `strconv.Itoa` / `%d` -/
def itoa (n : Int) : Bytes := if n < 0 then 45 :: digitsOf n.natAbs else digitsOf n.natAbs

def maxInt64 : Int := 9223372036854775807
def minInt64 : Int := -9223372036854775808

def maxUint64 : Nat := 18446744073709551615
/-- `maxUint64/10 + 1`: the smallest `n` with `n*10 > maxUint64` -/
def cutoff10 : Nat := 1844674407370955162

/-- outcome of `strconv.ParseUint(s, 10, 64)`'s left-to-right scan: Go reports the *first* problem it meets, so a
non-digit after the point where the number already overflowed 64 bits is a range error, not a syntax error -/
inductive Scan where
  | ok (n : Nat)
  | syntax
  | range
  deriving DecidableEq, Repr

def scanU : Nat → Bytes → Scan
  | n, [] => .ok n
  | n, c :: cs =>
    if !isDigit c then .syntax
    else if n ≥ cutoff10 then .range
    else if n * 10 + (c.toNat - 48) > maxUint64 then .range
    else scanU (n * 10 + (c.toNat - 48)) cs

/-- the value `v, _ := strconv.Atoi(s)` leaves in `v`: 0 on a syntax error, clamped on a range error -/
def atoiV (s : Bytes) : Int :=
  let body (ds : Bytes) (neg : Bool) : Int :=
    if ds = [] then 0
    else match scanU 0 ds with
      | .syntax => 0
      | .range => if neg then minInt64 else maxInt64
      | .ok n =>
        if neg then (if -(n : Int) < minInt64 then minInt64 else -(n : Int))
        else (if (n : Int) > maxInt64 then maxInt64 else (n : Int))
  match s with
  | 45 :: ds => body ds true
  | 43 :: ds => body ds false
  | ds => body ds false

private theorem foldl_congr_mem {α β : Type} (f g : β → α → β) (l : List α)
    (h : ∀ a ∈ l, ∀ b, f b a = g b a) (init : β) : l.foldl f init = l.foldl g init := by
  induction l generalizing init with
  | nil => rfl
  | cons a as ih =>
    simp only [List.foldl_cons]
    rw [h a (by simp) init]
    exact ih (fun x hx b => h x (by simp [hx]) b) _

theorem isDigit_char (c : Char) (h : c.isDigit = true) : 48 ≤ c.toNat ∧ c.toNat ≤ 57 := by
  unfold Char.isDigit at h
  simp only [Bool.and_eq_true, decide_eq_true_eq] at h
  obtain ⟨h1, h2⟩ := h
  have e1 : (48 : UInt32) ≤ c.val := h1
  have e2 : c.val ≤ (57 : UInt32) := h2
  unfold Char.toNat
  rw [UInt32.le_iff_toNat_le] at e1 e2
  exact ⟨e1, e2⟩

theorem natOfDigits_digitsOf (n : Nat) : natOfDigits (digitsOf n) = n := by
  unfold natOfDigits digitsOf
  rw [List.foldl_map]
  have key := @Nat.ofDigitChars_toDigits 10 n (by omega) (by omega)
  unfold Nat.ofDigitChars at key
  refine Eq.trans ?_ key
  apply foldl_congr_mem
  intro c hc acc
  have hd := Nat.isDigit_of_mem_toDigits (by omega) (by omega) hc
  obtain ⟨h1, h2⟩ := isDigit_char c hd
  have : (UInt8.ofNat c.toNat).toNat = c.toNat := by
    simp [UInt8.toNat_ofNat]; omega
  rw [this]; rfl

theorem digitsOf_all_digit (n : Nat) : (digitsOf n).all isDigit = true := by
  unfold digitsOf
  rw [List.all_map, List.all_eq_true]
  intro c hc
  have hd := Nat.isDigit_of_mem_toDigits (by omega) (by omega) hc
  obtain ⟨h1, h2⟩ := isDigit_char c hd
  simp only [Function.comp, isDigit, Bool.and_eq_true, decide_eq_true_eq]
  have e : (UInt8.ofNat c.toNat).toNat = c.toNat := by simp [UInt8.toNat_ofNat]; omega
  constructor
  · rw [UInt8.le_iff_toNat_le, e]; exact h1
  · rw [UInt8.le_iff_toNat_le, e]; exact h2

theorem digitsOf_ne_nil (n : Nat) : digitsOf n ≠ [] := by
  intro h
  unfold digitsOf at h
  simp at h

theorem digitsOf_head_digit (n : Nat) : ∀ b ∈ digitsOf n, b ≠ 45 ∧ b ≠ 43 := by
  intro b hb
  have := digitsOf_all_digit n
  rw [List.all_eq_true] at this
  have h := this b hb
  simp only [isDigit, Bool.and_eq_true, decide_eq_true_eq] at h
  obtain ⟨h1, h2⟩ := h
  constructor <;> (intro e; subst e; simp at h1)

private theorem foldl_dec_ge (ds : Bytes) (a : Nat) :
    a ≤ ds.foldl (fun acc b => 10 * acc + (b.toNat - 48)) a := by
  induction ds generalizing a with
  | nil => simp
  | cons c cs ih =>
    simp only [List.foldl_cons]
    exact Nat.le_trans (by omega) (ih _)

/-- on an all-digit string whose value fits 64 bits the scan returns the value -/
theorem scanU_ok (ds : Bytes) (a : Nat) (hd : ds.all isDigit = true)
    (hm : ds.foldl (fun acc b => 10 * acc + (b.toNat - 48)) a ≤ maxUint64) :
    scanU a ds = .ok (ds.foldl (fun acc b => 10 * acc + (b.toNat - 48)) a) := by
  induction ds generalizing a with
  | nil => rfl
  | cons c cs ih =>
    simp only [List.all_cons, Bool.and_eq_true] at hd
    simp only [List.foldl_cons] at hm ⊢
    have hge := foldl_dec_ge cs (10 * a + (c.toNat - 48))
    unfold scanU
    have h1 : ¬ a ≥ cutoff10 := by unfold cutoff10; unfold maxUint64 at hm; omega
    have h2 : ¬ a * 10 + (c.toNat - 48) > maxUint64 := by omega
    simp only [hd.1, Bool.not_true, Bool.false_eq_true, if_false, h1, h2]
    rw [show a * 10 + (c.toNat - 48) = 10 * a + (c.toNat - 48) by omega]
    exact ih _ hd.2 hm

theorem scanU_digitsOf (n : Nat) (h : n ≤ maxUint64) : scanU 0 (digitsOf n) = .ok n := by
  have := scanU_ok (digitsOf n) 0 (digitsOf_all_digit n) (by
    have e := natOfDigits_digitsOf n; unfold natOfDigits at e; rw [e]; exact h)
  have e := natOfDigits_digitsOf n
  unfold natOfDigits at e
  rw [e] at this
  exact this

/-- `Atoi(Itoa(n)) = n` on the 64-bit range -/
theorem atoiV_itoa (n : Int) (h1 : minInt64 ≤ n) (h2 : n ≤ maxInt64) : atoiV (itoa n) = n := by
  have hs : scanU 0 (digitsOf n.natAbs) = .ok n.natAbs :=
    scanU_digitsOf _ (by unfold maxUint64; unfold minInt64 at h1; unfold maxInt64 at h2; omega)
  unfold itoa
  by_cases hn : n < 0
  · rw [if_pos hn]
    unfold atoiV
    simp only []
    rw [if_neg (digitsOf_ne_nil _), hs]
    simp only [if_true]
    unfold minInt64 at *
    split <;> omega
  · rw [if_neg hn]
    have hne := digitsOf_ne_nil n.natAbs
    cases hd : digitsOf n.natAbs with
    | nil => exact absurd hd hne
    | cons b bs =>
      have hb := digitsOf_head_digit n.natAbs b (by rw [hd]; simp)
      unfold atoiV
      split
      · rename_i ds heq; injection heq with e1 e2; exact absurd e1 hb.1
      · rename_i ds heq; injection heq with e1 e2; exact absurd e1 hb.2
      · simp only []
        rw [← hd, if_neg hne, hs]
        unfold maxInt64 at *
        simp only [Bool.false_eq_true, if_false]
        split <;> omega

/-! ## white space (Go `unicode.IsSpace` on UTF-8) and `strings.TrimSpace` -/

/-- strips one leading white-space rune, if any -/
def dropSpace1 : Bytes → Option Bytes
  | 9 :: r => some r | 10 :: r => some r | 11 :: r => some r | 12 :: r => some r | 13 :: r => some r
  | 32 :: r => some r
  | 0xC2 :: 0x85 :: r => some r
  | 0xC2 :: 0xA0 :: r => some r
  | 0xE1 :: 0x9A :: 0x80 :: r => some r
  | 0xE2 :: 0x80 :: b :: r =>
      if (0x80 ≤ b ∧ b ≤ 0x8A) ∨ b = 0xA8 ∨ b = 0xA9 ∨ b = 0xAF then some r else none
  | 0xE2 :: 0x81 :: 0x9F :: r => some r
  | 0xE3 :: 0x80 :: 0x80 :: r => some r
  | _ => none

/-- strips one trailing white-space rune of a *reversed* string -/
def dropSpace1Rev : Bytes → Option Bytes
  | 9 :: r => some r | 10 :: r => some r | 11 :: r => some r | 12 :: r => some r | 13 :: r => some r
  | 32 :: r => some r
  | 0x85 :: 0xC2 :: r => some r
  | 0xA0 :: 0xC2 :: r => some r
  | 0x80 :: 0x9A :: 0xE1 :: r => some r
  | 0x9F :: 0x81 :: 0xE2 :: r => some r
  | 0x80 :: 0x80 :: 0xE3 :: r => some r
  | b :: 0x80 :: 0xE2 :: r =>
      if (0x80 ≤ b ∧ b ≤ 0x8A) ∨ b = 0xA8 ∨ b = 0xA9 ∨ b = 0xAF then some r else none
  | _ => none

def trimLeft : (fuel : Nat) → Bytes → Bytes
  | 0, s => s
  | n+1, s => match dropSpace1 s with
    | some r => trimLeft n r
    | none => s

def trimRightRev : (fuel : Nat) → Bytes → Bytes
  | 0, s => s
  | n+1, s => match dropSpace1Rev s with
    | some r => trimRightRev n r
    | none => s

/-- Go `strings.TrimSpace` -/
def trimSpace (s : Bytes) : Bytes :=
  let l := trimLeft s.length s
  (trimRightRev l.length l.reverse).reverse

end Bytes
end RawPanelVerif
