/-!
# `strings.TrimSpace` on ASCII text

Domain: byte strings without bytes ≥ 0x80 (Go also strips the Unicode spaces U+0085, U+00A0, U+1680, U+2000…; all
generated lines are ASCII). White space = space, `\t \n \v \f \r`.
-/
namespace RawPanelVerif.Trim

def isSpace (c : UInt8) : Bool := c == 32 || (9 ≤ c && c ≤ 13)

def trimLeft : List UInt8 → List UInt8
  | [] => []
  | c :: cs => if isSpace c then trimLeft cs else c :: cs

/-- drop trailing white space (structural, from the front) -/
def trimRight : List UInt8 → List UInt8
  | [] => []
  | c :: cs =>
    match trimRight cs with
    | [] => if isSpace c then [] else [c]
    | r => c :: r

def trimSpace (l : List UInt8) : List UInt8 := trimRight (trimLeft l)

end RawPanelVerif.Trim
