/-!
# Line-protocol helpers for the driver (not part of any model or proof)

Records are single lines, space-separated tokens.  Byte strings are lowercase hex (`-` = empty),
integers are decimal with optional leading `-`, Booleans are `0`/`1`.
-/
namespace RawPanelVerif.Wire

def hexVal (c : Char) : Option Nat :=
  if '0' ≤ c ∧ c ≤ '9' then some (c.toNat - 48)
  else if 'a' ≤ c ∧ c ≤ 'f' then some (c.toNat - 87)
  else if 'A' ≤ c ∧ c ≤ 'F' then some (c.toNat - 55)
  else none

partial def unhexAux (cs : List Char) (acc : Array UInt8) : Option (Array UInt8) :=
  match cs with
  | [] => some acc
  | a :: b :: rest =>
    match hexVal a, hexVal b with
    | some x, some y => unhexAux rest (acc.push (UInt8.ofNat (x * 16 + y)))
    | _, _ => none
  | _ => none

/-- hex token → bytes (`-` is the empty string) -/
def unhex (s : String) : Option (Array UInt8) :=
  if s = "-" then some #[] else unhexAux s.toList #[]

def hexDigit (n : Nat) : Char := if n < 10 then Char.ofNat (48 + n) else Char.ofNat (87 + n)

def hexOfBytes (bs : List UInt8) : String :=
  if bs.isEmpty then "-" else
  String.ofList (bs.foldr (fun b acc => hexDigit (b.toNat / 16) :: hexDigit (b.toNat % 16) :: acc) [])

def hexOfNats (bs : List Nat) : String := hexOfBytes (bs.map UInt8.ofNat)

def parseInt (s : String) : Option Int :=
  if s.startsWith "-" then (s.drop 1).toNat?.map (fun n => - (n : Int)) else s.toNat?.map (fun n => (n : Int))

def parseBool (s : String) : Option Bool :=
  if s = "1" then some true else if s = "0" then some false else none

def showBool (b : Bool) : String := if b then "1" else "0"

end RawPanelVerif.Wire
