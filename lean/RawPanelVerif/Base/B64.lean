/-!
# Standard padded base64 (Go `encoding/base64.StdEncoding`), on byte lists

`encode` = `EncodeToString`.  `decodeGo` = `DecodeString` **including its behaviour on malformed input**: `\r` and `\n`
are skipped anywhere, decoding proceeds in quanta of four characters, a malformed quantum contributes no bytes and
stops decoding with an error, characters after a padded quantum are an error *after* the padded quantum's bytes were
produced, non-zero trailing bits are accepted (non-strict mode).  The result is `(bytes produced, no error)`; Go
callers that ignore the error (the pinned batch decoder does) see exactly `bytes produced`.

`decode_encode : decodeGo (encode b) = (b, true)` is proved below.
-/
namespace RawPanelVerif.B64

abbrev Bytes := List UInt8

def pad : UInt8 := 61  -- '='

/-- the alphabet `A–Z a–z 0–9 + /` as a function of the 6-bit value -/
def encChar (n : Nat) : UInt8 :=
  if n < 26 then UInt8.ofNat (65 + n)
  else if n < 52 then UInt8.ofNat (71 + n)
  else if n < 62 then UInt8.ofNat (n - 4)
  else if n = 62 then 43 else 47

/-- Go's `decodeMap` (`none` = 0xff) -/
def decChar (c : UInt8) : Option Nat :=
  let v := c.toNat
  if 65 ≤ v ∧ v ≤ 90 then some (v - 65)
  else if 97 ≤ v ∧ v ≤ 122 then some (v - 71)
  else if 48 ≤ v ∧ v ≤ 57 then some (v + 4)
  else if v = 43 then some 62
  else if v = 47 then some 63
  else none

def encode : Bytes → Bytes
  | [] => []
  | [a] => [encChar (a.toNat / 4), encChar (a.toNat % 4 * 16), pad, pad]
  | [a, b] => [encChar (a.toNat / 4), encChar (a.toNat % 4 * 16 + b.toNat / 16), encChar (b.toNat % 16 * 4), pad]
  | a :: b :: c :: rest =>
    encChar (a.toNat / 4) :: encChar (a.toNat % 4 * 16 + b.toNat / 16)
      :: encChar (b.toNat % 16 * 4 + c.toNat / 64) :: encChar (c.toNat % 64) :: encode rest

/-- quantum-wise decoding of a text without `\r`/`\n` -/
def decodeCore : Bytes → Bytes × Bool
  | [] => ([], true)
  | c0 :: c1 :: c2 :: c3 :: rest =>
    match decChar c0, decChar c1 with
    | some s0, some s1 =>
      match decChar c2 with
      | some s2 =>
        match decChar c3 with
        | some s3 =>
          let r := decodeCore rest
          (UInt8.ofNat (s0 * 4 + s1 / 16) :: UInt8.ofNat (s1 % 16 * 16 + s2 / 4) :: UInt8.ofNat (s2 % 4 * 64 + s3) :: r.1, r.2)
        | none =>
          if c3 = pad then ([UInt8.ofNat (s0 * 4 + s1 / 16), UInt8.ofNat (s1 % 16 * 16 + s2 / 4)], rest.isEmpty)
          else ([], false)
      | none =>
        if c2 = pad ∧ c3 = pad then ([UInt8.ofNat (s0 * 4 + s1 / 16)], rest.isEmpty) else ([], false)
    | _, _ => ([], false)
  | _ => ([], false)

def isNewline (c : UInt8) : Bool := c == 10 || c == 13

/-- `base64.StdEncoding.DecodeString`: (bytes produced, err == nil) -/
def decodeGo (s : Bytes) : Bytes × Bool := decodeCore (s.filter (fun c => !isNewline c))

/-- `some bytes` iff Go reports no error -/
def decode? (s : Bytes) : Option Bytes :=
  let r := decodeGo s
  if r.2 then some r.1 else none

/-! ### round trip -/

theorem decChar_encChar : ∀ n, n < 64 → decChar (encChar n) = some n := by decide

theorem encChar_not_newline : ∀ n, n < 64 → isNewline (encChar n) = false := by decide

theorem encChar_ne_pad : ∀ n, n < 64 → decChar (encChar n) ≠ none := by
  intro n h; rw [decChar_encChar n h]; simp

theorem decChar_pad : decChar pad = none := by decide

private theorem u8 (a : UInt8) : a.toNat < 256 := a.toNat_lt

private theorem ofNat_toNat' (a : UInt8) (n : Nat) (h : n = a.toNat) : UInt8.ofNat n = a := by
  subst h; exact UInt8.ofNat_toNat

theorem decodeCore_encode (b : Bytes) : decodeCore (encode b) = (b, true) := by
  fun_induction encode b with
  | case1 => rfl
  | case2 a =>
    have ha := u8 a
    simp only [decodeCore, decChar_encChar (a.toNat / 4) (by omega), decChar_encChar (a.toNat % 4 * 16) (by omega),
      decChar_pad, and_self, if_true, List.isEmpty_nil]
    congr 2
    exact ofNat_toNat' a _ (by omega)
  | case3 a b =>
    have ha := u8 a; have hb := u8 b
    simp only [decodeCore, decChar_encChar (a.toNat / 4) (by omega),
      decChar_encChar (a.toNat % 4 * 16 + b.toNat / 16) (by omega),
      decChar_encChar (b.toNat % 16 * 4) (by omega), decChar_pad, if_true, List.isEmpty_nil]
    congr 2
    · exact ofNat_toNat' a _ (by omega)
    · congr 1; exact ofNat_toNat' b _ (by omega)
  | case4 a b c rest ih =>
    have ha := u8 a; have hb := u8 b; have hc := u8 c
    simp only [decodeCore, decChar_encChar (a.toNat / 4) (by omega),
      decChar_encChar (a.toNat % 4 * 16 + b.toNat / 16) (by omega),
      decChar_encChar (b.toNat % 16 * 4 + c.toNat / 64) (by omega),
      decChar_encChar (c.toNat % 64) (by omega), ih]
    congr 2
    · exact ofNat_toNat' a _ (by omega)
    · congr 1
      · exact ofNat_toNat' b _ (by omega)
      · congr 1; exact ofNat_toNat' c _ (by omega)

theorem pad_not_newline : isNewline pad = false := by decide

theorem filter_encode (b : Bytes) : (encode b).filter (fun c => !isNewline c) = encode b := by
  fun_induction encode b with
  | case1 => rfl
  | case2 a =>
    have ha := u8 a
    simp [List.filter, encChar_not_newline (a.toNat / 4) (by omega), encChar_not_newline (a.toNat % 4 * 16) (by omega),
      pad_not_newline]
  | case3 a b =>
    have ha := u8 a; have hb := u8 b
    simp [List.filter, encChar_not_newline (a.toNat / 4) (by omega),
      encChar_not_newline (a.toNat % 4 * 16 + b.toNat / 16) (by omega),
      encChar_not_newline (b.toNat % 16 * 4) (by omega), pad_not_newline]
  | case4 a b c rest ih =>
    have ha := u8 a; have hb := u8 b; have hc := u8 c
    simp [List.filter, encChar_not_newline (a.toNat / 4) (by omega),
      encChar_not_newline (a.toNat % 4 * 16 + b.toNat / 16) (by omega),
      encChar_not_newline (b.toNat % 16 * 4 + c.toNat / 64) (by omega),
      encChar_not_newline (c.toNat % 64) (by omega), ih]

/-- `DecodeString (EncodeToString b) = b, nil` -/
theorem decode_encode (b : Bytes) : decodeGo (encode b) = (b, true) := by
  unfold decodeGo; rw [filter_encode, decodeCore_encode]

theorem decode?_encode (b : Bytes) : decode? (encode b) = some b := by
  simp [decode?, decode_encode]

/-- encoded text contains no `\n` (so the `(.*)$` tail of the chunk-line pattern takes it whole) -/
theorem encode_no_lf (b : Bytes) : ∀ c ∈ encode b, c ≠ 10 := by
  intro c hc
  have : c ∈ (encode b).filter (fun c => !isNewline c) := by rw [filter_encode]; exact hc
  have h := (List.mem_filter.mp this).2
  intro h10; subst h10; simp [isNewline] at h

end RawPanelVerif.B64
