import RawPanelVerif.Props.C02
open RawPanelVerif.C02
#print axioms packed_total_mode
#print axioms packed_total_ext
#print axioms packed_total_color
#print axioms colour_readability_bit_irrelevant
#print axioms nongrammar_silent
#print axioms nongrammar_decLine
#print axioms brightness_one_two_model
#print axioms brightness_one_two_spec
#print axioms dec_sound_partial
#print axioms line_sound
#print axioms text_total
#print axioms dec_sound_nogfx
#print axioms line_sound_nogfx
#print axioms dec_sound_blank_image_counterexample
#print axioms dec_sound
#print axioms dec_sound_guard_exact
#print axioms dec_sound_nb
#print axioms gfx_part_step
#print axioms gfx_line
