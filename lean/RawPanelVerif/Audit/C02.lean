import RawPanelVerif.Props.C02
open RawPanelVerif.C02
#print axioms packed_total_mode
#print axioms packed_total_ext
#print axioms packed_total_color
#print axioms colour_readability_bit_irrelevant
#print axioms nongrammar_silent
#print axioms nongrammar_decLine
#print axioms brightness_one_two_model
#print axioms brightness_one_two_spec
#print axioms dec_sound_partial
#print axioms line_sound
