import RawPanelVerif.Props.C06
#print axioms RawPanelVerif.TotalIn.encIn_total
#print axioms RawPanelVerif.TotalIn.decIn_total
#print axioms RawPanelVerif.TotalIn.decIn_no_nil_message
#print axioms RawPanelVerif.TotalOut.encOut_total
#print axioms RawPanelVerif.TotalOut.decOut_total
#print axioms RawPanelVerif.TotalOut.decOut_no_nil_message
#print axioms RawPanelVerif.TotalIn.encInPinned_panics_counterexample
#print axioms RawPanelVerif.TotalIn.decInPinned_nil_counterexample
#print axioms RawPanelVerif.C04.raw_case_would_panic
#print axioms RawPanelVerif.C06.no_shared_mutable_state
#print axioms RawPanelVerif.C06.package_vars_known
