import RawPanelVerif.Props.C16
open RawPanelVerif.C16
#print axioms step_holds
#print axioms reachable_wf
#print axioms all_steps_hold
#print axioms applyOp_touch
#print axioms applyOp_exact
#print axioms padding_never_modified
#print axioms outside_canvas_dropped
#print axioms pinned_row_wrap_counterexample
#print axioms step_tail_holds
#print axioms applyCmd_wf
#print axioms reachable_wf_cmds
#print axioms all_steps_hold_cmds
#print axioms no_panic
#print axioms no_panic_seq
#print axioms strWidth_no_panic
#print axioms work_bound
#print axioms int64_safe
#print axioms strWidth_int64_safe
#print axioms newCanvas_small
#print axioms circ_quadrant
#print axioms fcirc_side
#print axioms drawBitmap_exact
