import RawPanelVerif.Props.C16
open RawPanelVerif.C16
#print axioms step_holds
#print axioms reachable_wf
#print axioms all_steps_hold
#print axioms applyOp_touch
#print axioms applyOp_exact
#print axioms padding_never_modified
#print axioms outside_canvas_dropped
#print axioms pinned_row_wrap_counterexample
