import RawPanelVerif.Props.C03
open RawPanelVerif.C03
#print axioms event_line
#print axioms value_ranges
#print axioms enc_line
#print axioms speed_line
#print axioms abs_line
#print axioms raw_line
#print axioms caps_all_subsets
#print axioms map_line
#print axioms register_line
#print axioms encOut_no_lf
#print axioms encOut_sound_full
#print axioms encOut_sound_full_approx
#print axioms encOut_sound
#print axioms encOut_sound_approx
#print axioms msg_line_verbatim
#print axioms errormsg_line_verbatim
#print axioms profile_lines_verbatim
#print axioms topology_lines_verbatim
#print axioms payload_exact_noLF
#print axioms cbinding_lines
#print axioms encOut_no_nul
#print axioms cbinding_nul_truncates_counterexample
#print axioms caps_table_tie
#print axioms proto_fields_partition
#print axioms enc_ignores_noncarried
#print axioms encOutX_sound
