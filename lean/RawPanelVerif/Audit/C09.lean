import RawPanelVerif.Props.C09
open RawPanelVerif.C09
#print axioms write_deadline_never_armed
#print axioms reader_never_arms_write_deadline
#print axioms written_isPrefix
#print axioms written_is_concat
#print axioms drained_all_written
#print axioms writes_never_interleave
#print axioms reads_do_not_affect_writes
#print axioms set_deadline_breaks_writes_counterexample
#print axioms frames_of_written
#print axioms ascii_one_lf_per_line
#print axioms single_writer
#print axioms taken_while_connected_written_to_live_conn
#print axioms stale_writer_counterexample
#print axioms repaired_is_the_source_layout
#print axioms source_layout_readOnly
