import RawPanelVerif.Props.C09
open RawPanelVerif.C09
#print axioms written_is_concat
#print axioms drained_all_written
#print axioms reads_do_not_affect_writes
#print axioms frames_of_written
#print axioms ascii_one_lf_per_line
#print axioms writes_never_interleave
