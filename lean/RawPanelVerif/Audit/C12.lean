import RawPanelVerif.Props.C12
open RawPanelVerif.C12
#print axioms probe_bytes
#print axioms probe_is_one_ping_frame
#print axioms classifyClient_iff
#print axioms classifyClient_iff_nowrap
#print axioms detector_iff
#print axioms detector_writes
#print axioms client_writes
#print axioms ack_frame_is_binary_both
#print axioms silence_rdy_map_are_ascii_both
#print axioms client_any_other_text_is_ascii
#print axioms errormsg_extracted
#print axioms errormsg_passed_to_onconnect
#print axioms entry_points_differ_example
