import RawPanelVerif.Props.C12
open RawPanelVerif.C12
#print axioms probe_bytes
#print axioms probe_is_one_ping_frame
#print axioms classifyClient_iff
#print axioms classifyClient_iff_nowrap
#print axioms detector_iff
#print axioms detector_writes
#print axioms client_writes
#print axioms ack_frame_is_binary_both
#print axioms silence_rdy_map_are_ascii_both
#print axioms client_any_other_text_is_ascii
#print axioms timeouts_are_two_seconds
#print axioms late_is_silence
#print axioms late_is_silence_both
#print axioms ack_before_timeout_is_binary
#print axioms entry_points_see_same_reply
#print axioms entry_points_agree_before_min_timeout
#print axioms between_timeouts_disagree
#print axioms errormsg_extracted
#print axioms client_text_verdict
#print axioms errormsg_passed_to_onconnect
#print axioms errormsg_passed_to_onconnect_unterminated
#print axioms errormsg_absent
#print axioms split_ack_disagree
#print axioms entry_points_differ_example
#print axioms timeouts_are_the_window_of_the_property_text
#print axioms probe_window_is_the_constant_deadline
