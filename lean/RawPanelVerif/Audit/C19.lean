import RawPanelVerif.Props.C19
#print axioms RawPanelVerif.C19.dispatch_exactly_once_in_order
#print axioms RawPanelVerif.C19.effects_are_ack_then_invocations
#print axioms RawPanelVerif.C19.ping_gets_one_ack
#print axioms RawPanelVerif.C19.getters_return_latest
#print axioms RawPanelVerif.C19.availability_is_latest
#print axioms RawPanelVerif.C19.init_iff_four_items
#print axioms RawPanelVerif.C19.nothing_after_broken_frame
#print axioms RawPanelVerif.C19.overlimit_keeps_parsing_counterexample
#print axioms RawPanelVerif.C19.overlimit_repaired_on_trace
#print axioms RawPanelVerif.C19.queue_self_deadlock_counterexample
#print axioms RawPanelVerif.C19.pinned_blocked_is_permanent
#print axioms RawPanelVerif.C19.decoupled_blocked_is_released
#print axioms RawPanelVerif.C19.no_stuck_state_with_pending_events
