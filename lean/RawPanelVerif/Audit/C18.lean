import RawPanelVerif.Props.C18
open RawPanelVerif.C18
#print axioms tile_size_ok
#print axioms tile_active_ok
#print axioms tile_colours_ok
#print axioms tile_inversion_ok
#print axioms draws_touch
#print axioms clip_sub_active
#print axioms box_centred_within_one
#print axioms color565_eq
#print axioms color6_eq
#print axioms icon_index_guarded
#print axioms colour_index_pinned_counterexample
