import RawPanelVerif.Props.C18
open RawPanelVerif.C18
#print axioms tile_size_ok
#print axioms tile_active_ok
#print axioms tile_colours_ok
#print axioms tile_inversion_ok
#print axioms draws_touch
#print axioms clip_sub_active
#print axioms box_centred_within_one
#print axioms color565_eq
#print axioms color6_eq
#print axioms icon_index_guarded
#print axioms colour_index_pinned_counterexample
#print axioms renderTile_geo
#print axioms renderTile_sub
#print axioms bar_monotone
#print axioms bar_monotone_hidden
#print axioms bar_length_monotone
#print axioms bar_length_in_extent
#print axioms bar_reversed_range_counterexample
#print axioms text_on_start
#print axioms two_texts_on_start
#print axioms band_centred
#print axioms centre_ok_fmt10
#print axioms centre_ok_fmt11
#print axioms centre_ok_partial
#print axioms tile_check_partial
