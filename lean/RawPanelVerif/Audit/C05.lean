import RawPanelVerif.Props.C05
open RawPanelVerif.C05
#print axioms pattern_is_current
#print axioms base64_round_trip
#print axioms chunk_len_le_170
#print axioms chunk_count
#print axioms chunks_concat
#print axioms chunk_lines_read_back
#print axioms clean_run_batch
#print axioms clean_run_batch_any_state
#print axioms clean_run_stream
#print axioms clean_run_stream_serialised
#print axioms clean_run_interleaved
#print axioms all_deliveries_legitimate_batch
#print axioms all_deliveries_legitimate_stream
#print axioms all_deliveries_legitimate_serialised
#print axioms at_most_once_batch
#print axioms at_most_once_stream
#print axioms never_altered
#print axioms pinned_skip_counterexample
#print axioms pinned_alias_counterexample
#print axioms pinned_stream_duplicate_counterexample
#print axioms pinned_damaged_payload_counterexample
