import RawPanelVerif.Lemmas.TotalOut
import RawPanelVerif.Props.C04
/-! Outbound half of C06 (totality of the two outbound converters): to be listed by `Audit/C06.lean`. -/
open RawPanelVerif.TotalOut
#print axioms encOut_total
#print axioms decOut_total
#print axioms decOut_no_nil_message
#print axioms encOut_no_lf
#print axioms RawPanelVerif.C04.raw_case_would_panic
