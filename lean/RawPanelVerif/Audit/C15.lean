import RawPanelVerif.Props.C15
open RawPanelVerif.C15
#print axioms svg_holds
#print axioms bad_svg_gives_empty
#print axioms masked_contribute_nothing
#print axioms ids_of_groups
#print axioms one_main_shape_per_visible
#print axioms main_shape_geometry
#print axioms label_count_le_two
#print axioms label_count_pos
#print axioms id_text_present
