import RawPanelVerif.Props.C15
open RawPanelVerif.C15
#print axioms svg_holds
#print axioms svg_verdict_is_observation
#print axioms svg_appended_holds
#print axioms appended_wellformed
#print axioms printed_wellformed_any_node
#print axioms attr_names_distinct
#print axioms bad_svg_gives_empty
#print axioms no_root_gives_empty
#print axioms parse_root_iff_valid
#print axioms valid_base_gives_document
#print axioms masked_contribute_nothing
#print axioms ids_of_groups
#print axioms one_main_shape_per_visible
#print axioms main_shape_geometry
#print axioms transform_present_iff
#print axioms shape_rotation
#print axioms label_count_le_two
#print axioms label_count_pos
#print axioms label_positions
#print axioms label_spacing
#print axioms text_transform
#print axioms id_text_present
