import RawPanelVerif.Props.C08
open RawPanelVerif.C08
#print axioms delivered_eq_parse
#print axioms feed_segmentation_independent
#print axioms same_stream_same_outcome
#print axioms delivered_prefix
#print axioms quiescent_complete
#print axioms quiescent_complete_any
#print axioms runL_arrivals_eq_feed
#print axioms runL_deliveries_eq_parse
#print axioms idle_gap_harmless
#print axioms entry_clears_probe_deadline
#print axioms resets_moved_counterexample
#print axioms loop_top_reset_needed_counterexample
#print axioms expire_only_outside_contract
#print axioms in_contract_never_expires
#print axioms idle_wait_does_not_stop
#print axioms runT_in_contract_complete
#print axioms slow_trickle_dropped
#print axioms lines_model
#print axioms lines_eq_reference
#print axioms nbsp_line_counterexample
#print axioms lines_segmentation_independent
#print axioms unterminated_line_not_delivered
#print axioms crlf_eq_lf
#print axioms ascii_idle_gap_harmless
#print axioms ascii_reset_needed_counterexample
