import RawPanelVerif.Props.C08
open RawPanelVerif.C08
#print axioms delivered_eq_parse
#print axioms feed_segmentation_independent
#print axioms same_stream_same_outcome
#print axioms delivered_prefix
#print axioms quiescent_complete
#print axioms quiescent_complete_any
#print axioms idle_gap_harmless
#print axioms expire_only_outside_contract
#print axioms in_contract_never_expires
#print axioms idle_wait_does_not_stop
#print axioms lines_eq_reference
#print axioms lines_segmentation_independent
#print axioms unterminated_line_not_delivered
#print axioms crlf_eq_lf
