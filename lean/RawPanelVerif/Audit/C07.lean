import RawPanelVerif.Props.C07
open RawPanelVerif.C07
#print axioms strip_no_lf
#print axioms stripSvg_no_lf
#print axioms singleLine_no_lf
#print axioms singleLine_only_lf
#print axioms singleLine_id
#print axioms strip_structure
#print axioms stripSvg_structure
#print axioms framing
#print axioms framing_of_singleLine
#print axioms wire_faithful
#print axioms svgPinned_loses_content_counterexample
#print axioms contentEq_invalid_utf8_counterexample
#print axioms contentEq_trimmed_start_counterexample
#print axioms strip_content
#print axioms strip_content_utf8
#print axioms stripSvg_content
#print axioms strip_payload
#print axioms stripSvg_payload
#print axioms encoders_frame
#print axioms topo_lines_content
