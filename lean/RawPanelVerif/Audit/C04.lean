import RawPanelVerif.Props.C04
open RawPanelVerif.C04
#print axioms regex_sources_tie
#print axioms regex_alternations_tie
#print axioms press_is_down_then_up
#print axioms raw_event_lost_counterexample
#print axioms raw_case_would_panic
#print axioms decLine_sound
#print axioms decOut_sound
#print axioms nongrammar_silent
#print axioms support_any_order
#print axioms support_same_set
#print axioms sysstat_any_subset_order
#print axioms value_edge_ignored
#print axioms unknown_kind_silent
#print axioms items_spec
#print axioms support_line_any_order
#print axioms support_lines_same_set
#print axioms roundtrip_out
#print axioms decOut_line_local
#print axioms decOut_context_free
#print axioms readOutboundWith_eq
