import RawPanelVerif.Props.C10
open RawPanelVerif.C10
#print axioms allocs_below_limit
#print axioms stopped_absorbs
#print axioms limit_before_alloc
#print axioms arrival_needs_open_deadline
#print axioms stalled_frame_never_delivered
#print axioms stall_drops
#print axioms stall_drops_pinned_payload
#print axioms pinned_header_stall_counterexample
#print axioms zero_frame_clears_deadline
#print axioms zero_frame_shortcut_counterexample
#print axioms disconnect_non_cancelled
#print axioms garbage_payload_keeps_sync
#print axioms boundaries_depend_on_lengths_only
#print axioms nothing_of_incomplete_frame_delivered
