import RawPanelVerif.Props.C10
open RawPanelVerif.C10
#print axioms allocs_below_limit
#print axioms stopped_absorbs
#print axioms limit_before_alloc
#print axioms stall_drops
#print axioms stall_drops_pinned_payload
#print axioms pinned_header_stall_counterexample
#print axioms garbage_payload_keeps_sync
#print axioms boundaries_depend_on_lengths_only
#print axioms nothing_of_incomplete_frame_delivered
