import RawPanelVerif.Props.C14
open RawPanelVerif.C14
#print axioms randomize_seq_holds
#print axioms randomize_random_holds
#print axioms seq_ids_are_1_to_n
#print axioms resolved_unchanged
#print axioms components_unchanged
#print axioms type_count_unchanged
#print axioms randomize_keeps_wf
#print axioms cleanSections_eq_filter
#print axioms clean_holds
#print axioms clean_keeps_wf
#print axioms json_roundtrip
#print axioms json_fixpoint
#print axioms roundtrip_holds
#print axioms random_zero_draw_counterexample
#print axioms index_key_zero_counterexample
