import RawPanelVerif.Props.C13
open RawPanelVerif.C13
#print axioms lookup_holds
#print axioms resolveA_eq_overlay
#print axioms getHWCtype_eq_overlay
#print axioms not_found_results
#print axioms resolvers_agree_on_shared
#print axioms resolveB_never_panics_on_valid_index
#print axioms resolveB_negative_index_panics
#print axioms predicates_depend_only_on_resolved
#print axioms lookups_do_not_mutate
