import RawPanelVerif.Props.C17
open RawPanelVerif.C17
#print axioms sliceRGB_size
#print axioms sliceRGB_pixel
#print axioms sliceGray_size
#print axioms sliceGray_pixel
#print axioms export_holds
#print axioms sixbit_table
#print axioms sixbit_closed_form
#print axioms sixbit_to_565
#print axioms mono_image_roundtrip
#print axioms roundtrip_holds
#print axioms expansion_mono
#print axioms expansion_rgb
#print axioms expansion_gray
#print axioms rwp_centering
#print axioms routines_agree
#print axioms gfx_holds
#print axioms short_data_no_panic
#print axioms short_mono_png_black_counterexample
#print axioms rwp_uncovered_black
#print axioms export_of_long
#print axioms huge_size_panics_counterexample
#print axioms sliceGray_content
