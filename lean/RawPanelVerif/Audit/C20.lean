import RawPanelVerif.Props.C20
open RawPanelVerif.C20
#print axioms ink_in_box
#print axioms renderText_box
#print axioms strWidth_eq
#print axioms lineHeight_eq
#print axioms font_tables_sized
#print axioms glyph_facts
#print axioms glyph_index_in_range
#print axioms drawChar_index_in_range
#print axioms noEarly_of_fits
#print axioms translation
#print axioms translation_fits
#print axioms scale_zero_spacing
#print axioms scale_with_spacing_counterexample
