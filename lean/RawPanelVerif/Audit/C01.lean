import RawPanelVerif.Props.C01
open RawPanelVerif.C01
#print axioms mode_pack
#print axioms ext_pack
#print axioms colIndex_pack
#print axioms colRGB_pack
#print axioms textColor_pack_rgb
#print axioms textColor_pack_index
#print axioms text_fields
#print axioms chunk_len_le_170
#print axioms chunk_count
#print axioms chunks_concat
#print axioms b64_roundtrip
#print axioms enc_ok
#print axioms enc_sound
#print axioms enc_sound_E
#print axioms enc_sound_append
#print axioms mode_pack_masked
#print axioms ext_pack_masked
#print axioms colIndex_pack_masked
#print axioms text_line_masked
#print axioms enc_sound_masked
#print axioms wire_domain_contains_domain
#print axioms mask_invisible_on_domain
#print axioms both_colours_rgb_wins
#print axioms pair_mode_inferred
