import RawPanelVerif.Gen.Consts
/-!
# C11 — labelled transition system of `ConnectToPanel` (connecttopanel.go 33-249)

One label = one Go statement group.  Environment labels: the dial result, the panel dropping the connection,
single bytes arriving from the panel (with the flag "this byte completes a frame"), the caller cancelling the
context, the application offering a list on `msgsToPanel`, the consumer of `msgsFromPanel` pausing / resuming,
the clock, and the kernel/panel taking the bytes of a `conn.Write`.  Program labels: everything the main loop
(dial loop, probe, reader) and the per-connection writer goroutines do.  The scheduler is the nondeterministic
choice among enabled labels; theorems in `Props/C11.lean` quantify over all executions.

`step addEarly`: `addEarly = false` is the pinned code (the writer goroutine itself calls `wg.Add(1)`),
`addEarly = true` the repaired variant (`wg.Add(1)` before `go func()`, lines 135-137).

What is modelled
* the reader at byte granularity: `Conn.rx` is the list of arrival flags of this connection (newest first);
  `arrived` = complete frames, `partial` = bytes of a started but incomplete frame.  The panel may drop the
  connection (`peerClose`) and the caller may cancel after ANY number of bytes: every drop / cancel offset is a state.
  The reader takes a complete frame from the socket (`takeFrame`), then sends it into `msgsFromPanel`
  (`deliver`, a bare channel send, lines 206/228: possible only while the consumer reads).
* the reader ending the connection itself (`readFault`, binary mode only): the in-frame deadline of 2 s (lines
  188, 198) or an over-limit length header (line 196) — both need a started, incomplete frame (`partial > 0`).
* the writer goroutine's data path: `writerTake` (a list received from `msgsToPanel`), then `conn.Write`
  returning nil (`writeDone`, needs a kernel/panel that takes the bytes: environment) or an error (`writeErr`,
  after the socket was closed locally or the panel went away; the code ignores the error and goes back to its select).
* a clock (`now`, unit ms, advanced by the environment label `tick`) for the two waits of the dial loop:
  `time.Sleep(reConnectionRetryPeriod)` (line 246) and the `select` with `timer1` (lines 60-68), which ALSO
  ends when a list arrives on `msgsToPanel` (`noConnDrain`, line 65).

Abstractions (see the claim text): the probe is one step (C12 owns it; `dialOk bin` carries its verdict), the 2 s probe
timeout and the 1 s ASCII EOF sleep are not on the clock, the in-frame deadline is "some time after a frame has started",
the panel is assumed to speak only after the probe, payload contents are C08/C10's business.
-/
namespace RawPanelVerif.Lifecycle

inductive Tear | quit | close | callback
  deriving DecidableEq, Repr

/-- position of the main loop -/
inductive Phase
  | dialing            -- in net.Dial (56)
  | noConnWait         -- select on ctx.Done / msgsToPanel / timer (61-68)
  | probing            -- connected, probing binary/ASCII (74-130)
  | announcing         -- writer goroutine spawned, about to call onconnect (176-179)
  | connected          -- in the read loop (182-231)
  | teardown (t : Tear) -- 235 close(quit) / 236 conn.Close() / 237-240 exit.Load + ondisconnect
  | retrySleep         -- 246
  | exiting            -- ondisconnect(true) done, about to return (241-243)
  | returned           -- the call has returned (deferred wg.Done done)
  deriving DecidableEq, Repr

/-- the reader of the head connection may still be reading -/
def Phase.reading : Phase → Bool
  | .probing | .announcing | .connected => true
  | _ => false

/-- the writer goroutine of one connection (138-174): not yet created / created, not yet scheduled /
in its `select` / inside `conn.Write` with a list it took from `msgsToPanel` / finished -/
inductive WSt | unborn | spawned | running | writing | exited
  deriving DecidableEq, Repr

structure Conn where
  w : WSt := .unborn
  quit : Bool := false        -- close(quit) done
  exit : Bool := false        -- exit.Store(true) done
  closed : Bool := false      -- conn.Close() called by the client (writer on cancel, or main at teardown)
  peerClosed : Bool := false  -- the panel dropped the connection
  binary : Bool := true       -- protocol mode decided by the probe
  rx : List Bool := []        -- arrival flags of the bytes received so far, newest first; true = completes a frame
  held : Bool := false        -- the reader has taken frame number `delivered` off the socket and is in `msgsFromPanel <-`
  delivered : Nat := 0        -- frames sent into msgsFromPanel
  fault : Bool := false       -- the reader gave the connection up itself (in-frame timeout / over-limit header)
  deriving DecidableEq, Repr

/-- bytes of the frame that has started but is not complete -/
def partialOf : List Bool → Nat
  | [] => 0
  | true :: _ => 0
  | false :: r => partialOf r + 1

/-- frames that have completely arrived -/
def Conn.arrived (c : Conn) : Nat := c.rx.count true
def Conn.partial (c : Conn) : Nat := partialOf c.rx

/-- observable history, newest first -/
inductive Ev
  | dial                        -- a TCP connection was established
  | connect                     -- onconnect callback
  | disconnect (cancelled : Bool)
  | deliver (conn : Nat) (frame : Nat)   -- connection ordinal (0 = first), frame index
  | sleepDone                   -- the reconnect retry sleep is over
  | returned
  deriving DecidableEq, Repr

structure St where
  phase : Phase := .dialing
  conns : List Conn := []      -- head = current connection
  cancelled : Bool := false
  wg : Int := 1                -- wg.Add(1) at entry (49)
  log : List Ev := []
  stamps : List Nat := []      -- `now` at the moment of each `log` entry (same length, same order)
  offered : Nat := 0           -- lists the application has handed to `msgsToPanel` and nobody has received yet
  consumer : Bool := true      -- someone is receiving from `msgsFromPanel`
  now : Nat := 0               -- clock, ms
  wake : Nat := 0              -- expiry of the timer / sleep the main loop last started
  rc : Nat := 1000             -- reConnectionRetryPeriod, ms
  nc : Nat := 3000             -- noConnectionRetryPeriod, ms
  deriving DecidableEq, Repr

/-- initial state for given retry periods (ms) -/
def initWith (nc rc : Nat) : St := { nc := nc, rc := rc }

/-- lines 36-45: a zero field of `ConnectToPanelConfig` (or a nil config) means the default; seconds -/
def effNc (cfgNc : Nat) : Nat := (if cfgNc = 0 then Gen.clientNoConnRetryDefaultS else cfgNc) * 1000
def effRc (cfgRc : Nat) : Nat := (if cfgRc = 0 then Gen.clientReconnRetryDefaultS else cfgRc) * 1000

/-- initial state for a `ConnectToPanelConfig{NoConnectionRetryPeriod: cfgNc, ReConnectionRetryPeriod: cfgRc}` -/
def initCfg (cfgNc cfgRc : Nat) : St := initWith (effNc cfgNc) (effRc cfgRc)

/-- nil config -/
def init : St := initCfg 0 0

inductive Lbl
  -- environment
  | cancel | dialOk (bin : Bool) | dialFail | peerClose | byteArrive (fin : Bool) | offer
  | consumerStop | consumerResume | tick (d : Nat) | writeDone (i : Nat)
  -- program: main loop
  | noConnTimer | noConnDrain | spawnWriter | onConnect | takeFrame | deliver | readErr | readFault
  | closeQuit | connClose | onDisconnect (b : Bool) | sleepDone | ret
  -- program: writer goroutine of connection `i` (index into `conns`, 0 = current)
  | writerStart (i : Nat) | writerSeesCancel (i : Nat) | writerSeesQuit (i : Nat) | writerTake (i : Nat) | writeErr (i : Nat)
  deriving DecidableEq, Repr

def Lbl.isEnv : Lbl → Bool
  | .cancel | .dialOk _ | .dialFail | .peerClose | .byteArrive _ | .offer
  | .consumerStop | .consumerResume | .tick _ | .writeDone _ => true
  | _ => false

def Lbl.isProgram (l : Lbl) : Bool := !l.isEnv

def step (addEarly : Bool) (s : St) : Lbl → Option St
  | .cancel => some { s with cancelled := true }
  | .offer => some { s with offered := s.offered + 1 }
  | .consumerStop => some { s with consumer := false }
  | .consumerResume => some { s with consumer := true }
  | .tick d => some { s with now := s.now + d }
  | .dialOk bin =>
    if s.phase = .dialing then
      some { s with phase := .probing, conns := { binary := bin } :: s.conns, log := .dial :: s.log, stamps := s.now :: s.stamps }
    else none
  | .dialFail => if s.phase = .dialing then some { s with phase := .noConnWait, wake := s.now + s.nc } else none
  | .noConnTimer => if s.phase = .noConnWait ∧ s.wake ≤ s.now then some { s with phase := .dialing } else none
  | .noConnDrain =>
    if s.phase = .noConnWait ∧ 0 < s.offered then some { s with phase := .dialing, offered := s.offered - 1 } else none
  | .peerClose =>
    match s.conns with
    | c :: rest => if c.peerClosed then none else some { s with conns := { c with peerClosed := true } :: rest }
    | [] => none
  | .byteArrive fin =>
    match s.conns with
    | c :: rest =>
      if (s.phase = .announcing ∨ s.phase = .connected) ∧ c.peerClosed = false then
        some { s with conns := { c with rx := fin :: c.rx } :: rest }
      else none
    | [] => none
  | .spawnWriter =>
    match s.conns with
    | c :: rest =>
      if s.phase = .probing then
        some { s with phase := .announcing, conns := { c with w := .spawned } :: rest,
                      wg := if addEarly then s.wg + 1 else s.wg }
      else none
    | [] => none
  | .onConnect =>
    if s.phase = .announcing then some { s with phase := .connected, log := .connect :: s.log, stamps := s.now :: s.stamps } else none
  | .takeFrame =>
    match s.conns with
    | c :: rest =>
      if s.phase = .connected ∧ c.held = false ∧ c.delivered < c.arrived ∧ c.closed = false then
        some { s with conns := { c with held := true } :: rest }
      else none
    | [] => none
  | .deliver =>
    match s.conns with
    | c :: rest =>
      if s.phase = .connected ∧ c.held = true ∧ s.consumer = true then
        some { s with conns := { c with held := false, delivered := c.delivered + 1 } :: rest,
                      log := .deliver rest.length c.delivered :: s.log, stamps := s.now :: s.stamps }
      else none
    | [] => none
  | .readErr =>
    match s.conns with
    | c :: _ =>
      if s.phase = .connected ∧ c.held = false ∧ (c.closed = true ∨ (c.peerClosed = true ∧ c.delivered = c.arrived)) then
        some { s with phase := .teardown .quit }
      else none
    | [] => none
  | .readFault =>
    match s.conns with
    | c :: rest =>
      if s.phase = .connected ∧ c.held = false ∧ c.binary = true ∧ c.closed = false ∧ c.delivered = c.arrived ∧ 0 < c.partial then
        some { s with phase := .teardown .quit, conns := { c with fault := true } :: rest }
      else none
    | [] => none
  | .closeQuit =>
    match s.conns with
    | c :: rest =>
      if s.phase = .teardown .quit then some { s with phase := .teardown .close, conns := { c with quit := true } :: rest }
      else none
    | [] => none
  | .connClose =>
    match s.conns with
    | c :: rest =>
      if s.phase = .teardown .close then some { s with phase := .teardown .callback, conns := { c with closed := true } :: rest }
      else none
    | [] => none
  | .onDisconnect b =>
    match s.conns with
    | c :: _ =>
      if s.phase = .teardown .callback ∧ b = c.exit then
        some { s with phase := if b then .exiting else .retrySleep, log := .disconnect b :: s.log, stamps := s.now :: s.stamps,
                      wake := s.now + s.rc }
      else none
    | [] => none
  | .sleepDone =>
    if s.phase = .retrySleep ∧ s.wake ≤ s.now then
      some { s with phase := .dialing, log := .sleepDone :: s.log, stamps := s.now :: s.stamps }
    else none
  | .ret =>
    if s.phase = .exiting ∨ (s.phase = .noConnWait ∧ s.cancelled = true) then
      some { s with phase := .returned, wg := s.wg - 1, log := .returned :: s.log, stamps := s.now :: s.stamps }
    else none
  | .writerStart i =>
    match s.conns[i]? with
    | some c =>
      if c.w = .spawned then
        some { s with conns := s.conns.set i { c with w := .running }, wg := if addEarly then s.wg else s.wg + 1 }
      else none
    | none => none
  | .writerSeesCancel i =>
    match s.conns[i]? with
    | some c =>
      if c.w = .running ∧ s.cancelled = true then
        some { s with conns := s.conns.set i { c with w := .exited, exit := true, closed := true }, wg := s.wg - 1 }
      else none
    | none => none
  | .writerSeesQuit i =>
    match s.conns[i]? with
    | some c =>
      if c.w = .running ∧ c.quit = true then
        some { s with conns := s.conns.set i { c with w := .exited }, wg := s.wg - 1 }
      else none
    | none => none
  | .writerTake i =>
    match s.conns[i]? with
    | some c =>
      if c.w = .running ∧ 0 < s.offered then
        some { s with conns := s.conns.set i { c with w := .writing }, offered := s.offered - 1 }
      else none
    | none => none
  | .writeDone i =>
    match s.conns[i]? with
    | some c =>
      if c.w = .writing ∧ c.closed = false then some { s with conns := s.conns.set i { c with w := .running } } else none
    | none => none
  | .writeErr i =>
    match s.conns[i]? with
    | some c =>
      if c.w = .writing ∧ (c.closed = true ∨ c.peerClosed = true) then
        some { s with conns := s.conns.set i { c with w := .running } }
      else none
    | none => none

def run (addEarly : Bool) (s : St) : List Lbl → Option St
  | [] => some s
  | l :: ls => (step addEarly s l).bind (fun s' => run addEarly s' ls)

/-- reachable from an initial state (any retry periods) by some execution -/
inductive Reachable (addEarly : Bool) : St → Prop
  | init (nc rc : Nat) : Reachable addEarly (initWith nc rc)
  | step {s s' : St} (l : Lbl) : Reachable addEarly s → step addEarly s l = some s' → Reachable addEarly s'

theorem reachable_of_run (ae : Bool) : ∀ (ls : List Lbl) (s0 s : St), Reachable ae s0 → run ae s0 ls = some s → Reachable ae s
  | [], s0, s, h0, hr => by simp [run] at hr; subst hr; exact h0
  | l :: ls, s0, s, h0, hr => by
    simp only [run] at hr
    cases hst : step ae s0 l with
    | none => simp [hst] at hr
    | some s1 => simp [hst] at hr; exact reachable_of_run ae ls s1 s (Reachable.step l h0 hst) hr

theorem reachable_init (ae : Bool) : Reachable ae init := Reachable.init _ _

/-- the arrival flags of the first `d` bytes of one frame of `n` bytes: `n-1` bytes that do not complete it, then one that does -/
def frameFlags (n d : Nat) : List Bool :=
  List.replicate (min (n - 1) d) false ++ (if 0 < n ∧ n ≤ d then [true] else [])

/-- the arrival flags (oldest first) of the first `d` bytes of a panel stream whose frames have the byte lengths
`lens` (binary: 4 header bytes + payload; ASCII: the line with its LF) -/
def arrivals : List Nat → Nat → List Bool
  | [], _ => []
  | n :: ls, d => frameFlags n d ++ arrivals ls (d - n)

end RawPanelVerif.Lifecycle
