/-!
# C11 — labelled transition system of `ConnectToPanel` (connecttopanel.go 47-241)

One label = one Go statement group.  Environment labels: the dial result, the panel dropping the connection,
the caller cancelling the context, a frame having completely arrived.  Program labels: everything the main
loop and the per-connection writer goroutines do.  The scheduler is the nondeterministic choice among
enabled labels; theorems in `Props/C11.lean` quantify over all executions.

`step addEarly`: `addEarly = false` is the pinned code (the writer goroutine itself calls `wg.Add(1)`,
lines 135-139), `addEarly = true` the repaired variant (`wg.Add(1)` before `go func()`).

Abstractions (see the claim text): the data path is reduced to "frame complete" / "deliver" events
(C08/C10 own the byte level), the probe to one step, time to the order of events.  The panel is assumed
to speak only after the probe (frames arriving during the probe are C12's business).
-/
namespace RawPanelVerif.Lifecycle

inductive Tear | quit | close | callback
  deriving DecidableEq, Repr

/-- position of the main loop -/
inductive Phase
  | dialing            -- in net.Dial (56)
  | noConnWait         -- select on ctx.Done / msgsToPanel / timer (61-68)
  | probing            -- connected, probing binary/ASCII (74-130)
  | announcing         -- writer goroutine spawned, about to call onconnect (173-175)
  | connected          -- in the read loop (178-223)
  | teardown (t : Tear) -- 227 close(quit) / 228 conn.Close() / 229-232 exit.Load + ondisconnect
  | retrySleep         -- 238
  | exiting            -- ondisconnect(true) done, about to return (233-235)
  | returned           -- the call has returned (deferred wg.Done done)
  deriving DecidableEq, Repr

/-- the writer goroutine of one connection (135-170) -/
inductive WSt | unborn | spawned | running | exited
  deriving DecidableEq, Repr

structure Conn where
  w : WSt := .unborn
  quit : Bool := false        -- close(quit) done
  exit : Bool := false        -- exit.Store(true) done
  closed : Bool := false      -- conn.Close() called by the client (writer on cancel, or main at teardown)
  peerClosed : Bool := false  -- the panel dropped the connection
  arrived : Nat := 0          -- frames that have completely arrived
  delivered : Nat := 0        -- frames sent into msgsFromPanel
  deriving DecidableEq, Repr

/-- observable history, newest first -/
inductive Ev
  | dial                        -- a TCP connection was established
  | connect                     -- onconnect callback
  | disconnect (cancelled : Bool)
  | deliver (conn : Nat) (frame : Nat)   -- connection ordinal (0 = first), frame index
  | sleepDone                   -- the reconnect retry sleep is over
  | returned
  deriving DecidableEq, Repr

structure St where
  phase : Phase := .dialing
  conns : List Conn := []      -- head = current connection
  cancelled : Bool := false
  wg : Int := 1                -- wg.Add(1) at entry (49)
  log : List Ev := []
  deriving DecidableEq, Repr

def init : St := {}

inductive Lbl
  -- environment
  | cancel | dialOk | dialFail | peerClose | frameComplete
  -- program: main loop
  | noConnTimer | spawnWriter | onConnect | deliver | readErr | closeQuit | connClose
  | onDisconnect (b : Bool) | sleepDone | ret
  -- program: writer goroutine of connection `i` (index into `conns`, 0 = current)
  | writerStart (i : Nat) | writerSeesCancel (i : Nat) | writerSeesQuit (i : Nat)
  deriving DecidableEq, Repr

def Lbl.isEnv : Lbl → Bool
  | .cancel | .dialOk | .dialFail | .peerClose | .frameComplete => true
  | _ => false

def Lbl.isProgram (l : Lbl) : Bool := !l.isEnv

def step (addEarly : Bool) (s : St) : Lbl → Option St
  | .cancel => some { s with cancelled := true }
  | .dialOk =>
    if s.phase = .dialing then some { s with phase := .probing, conns := {} :: s.conns, log := .dial :: s.log } else none
  | .dialFail => if s.phase = .dialing then some { s with phase := .noConnWait } else none
  | .noConnTimer => if s.phase = .noConnWait then some { s with phase := .dialing } else none
  | .peerClose =>
    match s.conns with
    | c :: rest => if c.peerClosed then none else some { s with conns := { c with peerClosed := true } :: rest }
    | [] => none
  | .frameComplete =>
    match s.conns with
    | c :: rest =>
      if (s.phase = .announcing ∨ s.phase = .connected) ∧ c.peerClosed = false then
        some { s with conns := { c with arrived := c.arrived + 1 } :: rest }
      else none
    | [] => none
  | .spawnWriter =>
    match s.conns with
    | c :: rest =>
      if s.phase = .probing then
        some { s with phase := .announcing, conns := { c with w := .spawned } :: rest,
                      wg := if addEarly then s.wg + 1 else s.wg }
      else none
    | [] => none
  | .onConnect => if s.phase = .announcing then some { s with phase := .connected, log := .connect :: s.log } else none
  | .deliver =>
    match s.conns with
    | c :: rest =>
      if s.phase = .connected ∧ c.delivered < c.arrived ∧ c.closed = false then
        some { s with conns := { c with delivered := c.delivered + 1 } :: rest,
                      log := .deliver rest.length c.delivered :: s.log }
      else none
    | [] => none
  | .readErr =>
    match s.conns with
    | c :: _ =>
      if s.phase = .connected ∧ (c.closed = true ∨ (c.peerClosed = true ∧ c.delivered = c.arrived)) then
        some { s with phase := .teardown .quit }
      else none
    | [] => none
  | .closeQuit =>
    match s.conns with
    | c :: rest =>
      if s.phase = .teardown .quit then some { s with phase := .teardown .close, conns := { c with quit := true } :: rest }
      else none
    | [] => none
  | .connClose =>
    match s.conns with
    | c :: rest =>
      if s.phase = .teardown .close then some { s with phase := .teardown .callback, conns := { c with closed := true } :: rest }
      else none
    | [] => none
  | .onDisconnect b =>
    match s.conns with
    | c :: _ =>
      if s.phase = .teardown .callback ∧ b = c.exit then
        some { s with phase := if b then .exiting else .retrySleep, log := .disconnect b :: s.log }
      else none
    | [] => none
  | .sleepDone => if s.phase = .retrySleep then some { s with phase := .dialing, log := .sleepDone :: s.log } else none
  | .ret =>
    if s.phase = .exiting ∨ (s.phase = .noConnWait ∧ s.cancelled = true) then
      some { s with phase := .returned, wg := s.wg - 1, log := .returned :: s.log }
    else none
  | .writerStart i =>
    match s.conns[i]? with
    | some c =>
      if c.w = .spawned then
        some { s with conns := s.conns.set i { c with w := .running }, wg := if addEarly then s.wg else s.wg + 1 }
      else none
    | none => none
  | .writerSeesCancel i =>
    match s.conns[i]? with
    | some c =>
      if c.w = .running ∧ s.cancelled = true then
        some { s with conns := s.conns.set i { c with w := .exited, exit := true, closed := true }, wg := s.wg - 1 }
      else none
    | none => none
  | .writerSeesQuit i =>
    match s.conns[i]? with
    | some c =>
      if c.w = .running ∧ c.quit = true then
        some { s with conns := s.conns.set i { c with w := .exited }, wg := s.wg - 1 }
      else none
    | none => none

def run (addEarly : Bool) (s : St) : List Lbl → Option St
  | [] => some s
  | l :: ls => (step addEarly s l).bind (fun s' => run addEarly s' ls)

/-- reachable from the initial state by some execution -/
inductive Reachable (addEarly : Bool) : St → Prop
  | init : Reachable addEarly init
  | step {s s' : St} (l : Lbl) : Reachable addEarly s → step addEarly s l = some s' → Reachable addEarly s'

theorem reachable_of_run (ae : Bool) : ∀ (ls : List Lbl) (s0 s : St), Reachable ae s0 → run ae s0 ls = some s → Reachable ae s
  | [], s0, s, h0, hr => by simp [run] at hr; subst hr; exact h0
  | l :: ls, s0, s, h0, hr => by
    simp only [run] at hr
    cases hst : step ae s0 l with
    | none => simp [hst] at hr
    | some s1 => simp [hst] at hr; exact reachable_of_run ae ls s1 s (Reachable.step l h0 hst) hr

/-! ## executable helpers for trace validation (the driver) -/

/-- the state with its history erased (guards never read the log) -/
def St.forget (s : St) : St := { s with log := [] }

def allLabels (nconns : Nat) : List Lbl :=
  [.cancel, .dialOk, .dialFail, .peerClose, .frameComplete, .noConnTimer, .spawnWriter, .onConnect, .deliver,
   .readErr, .closeQuit, .connClose, .onDisconnect true, .onDisconnect false, .sleepDone, .ret]
  ++ (List.range nconns).flatMap (fun i => [.writerStart i, .writerSeesCancel i, .writerSeesQuit i])

end RawPanelVerif.Lifecycle
