import RawPanelVerif.Model.MsgIn
import RawPanelVerif.Base.B64In
import RawPanelVerif.Base.B64
/-!
# Model of `RawPanelASCIIstringsToInboundMessages` (converterFunctions.go 19-651)

The 20-case literal switch, then the ordered chain `{`-JSON, `[`-JSON, `regex_cmd`, `regex_gfx`, `genericSingle`,
`genericDual`, `genericSingleStr`, `registers`, fall-through empty message.  The six regular expressions are
hand-written byte matchers (Go `regexp`: `.` does not match LF, `^…$` anchor the whole text, classes are ASCII so
matching is byte-wise and — the patterns being deterministic — unique).  The matchers return the sub-matches as an
array-like list; Go indexes them with constants (`[1]`, `[2]`, … `[11]`), which is modelled by `sub` in
`Except Panic`.  `encoding/json` results are oracle parameters.  The graphics reassembly state of one call is
modelled exactly as written (counter, maximum, id-list text, image type, and the *alias* between the object under
construction and a message already appended to the result).
-/
namespace RawPanelVerif.Model.In
open RawPanelVerif RawPanelVerif.Bytes RawPanelVerif.MsgIn

/-! ## byte matchers -/

def stripPrefix : Bytes → Bytes → Option Bytes
  | [], s => some s
  | _ :: _, [] => none
  | p :: ps, c :: cs => if p = c then stripPrefix ps cs else none

/-- longest prefix of bytes satisfying `p`, and the rest -/
def spanP (p : UInt8 → Bool) : Bytes → Bytes × Bytes
  | [] => ([], [])
  | c :: cs => if p c then let (a, b) := spanP p cs; (c :: a, b) else ([], c :: cs)

def isDigitComma (b : UInt8) : Bool := isDigit b || b = 44
def isUpperDigit (b : UInt8) : Bool := (65 ≤ b && b ≤ 90) || isDigit b
/-- `.*$` : the rest of the text must not contain LF -/
def noLF (s : Bytes) : Bool := !s.contains 10

/-- first keyword of the list that is a prefix (Go alternation is leftmost-first) -/
def firstKw : List Bytes → Bytes → Option (Bytes × Bytes)
  | [], _ => none
  | k :: ks, s =>
    match stripPrefix k s with
    | some r => some (k, r)
    | none => firstKw ks s

def kwCmd : List Bytes := [asc "HWC#", asc "HWCx#", asc "HWCc#", asc "HWCt#", asc "HWCrawADCValues#"]
def kwGfx : List Bytes := [asc "HWCgRGB#", asc "HWCgGray#", asc "HWCg#"]
def kwSingle : List Bytes :=
  [asc "HeartBeatTimer", asc "DimmedGain", asc "PublishSystemStat", asc "LoadCPU", asc "SleepTimer", asc "SleepMode",
   asc "SleepScreenSaver", asc "Webserver", asc "JSONonOutbound", asc "PanelBrightness"]
def kwStr : List Bytes := [asc "SetCalibrationProfile", asc "SimulateEnvironmentalHealth", asc "SetNetworkConfig"]
def kwReg : List Bytes := [asc "Flag#", asc "Mem", asc "Shift", asc "State"]

/-- `^(HWC#|HWCx#|HWCc#|HWCt#|HWCrawADCValues#)([0-9,]+)=(.*)$` → `[whole, kw, ids, value]` -/
def matchCmd (s : Bytes) : Option (List Bytes) :=
  match firstKw kwCmd s with
  | none => none
  | some (kw, r) =>
    let (ids, r1) := spanP isDigitComma r
    if ids = [] then none else
    match r1 with
    | 61 :: v => if noLF v then some [s, kw, ids, v] else none
    | _ => none

/-- non-empty digit run, then the rest -/
def digits1 (s : Bytes) : Option (Bytes × Bytes) :=
  let (d, r) := spanP isDigit s
  if d = [] then none else some (d, r)

/-- `^(HWCgRGB#|HWCgGray#|HWCg#)([0-9,]+)=([0-9]+)(/([0-9]+),([0-9]+)x([0-9]+)(,([0-9]+),([0-9]+)|)|):(.*)$`
→ the 12 sub-matches `[whole, kw, ids, idx, hdr, max, w, h, xy, x, y, data]` -/
def matchGfx (s : Bytes) : Option (List Bytes) :=
  match firstKw kwGfx s with
  | none => none
  | some (kw, r) =>
    let (ids, r1) := spanP isDigitComma r
    if ids = [] then none else
    match r1 with
    | 61 :: r2 =>
      match digits1 r2 with
      | none => none
      | some (idx, r3) =>
        match r3 with
        | 58 :: d => if noLF d then some [s, kw, ids, idx, [], [], [], [], [], [], [], d] else none
        | 47 :: r4 =>
          match digits1 r4 with
          | none => none
          | some (mx, r5) =>
            match r5 with
            | 44 :: r6 =>
              match digits1 r6 with
              | none => none
              | some (w, r7) =>
                match r7 with
                | 120 :: r8 =>
                  match digits1 r8 with
                  | none => none
                  | some (h, r9) =>
                    match r9 with
                    | 58 :: d =>
                      if noLF d then some [s, kw, ids, idx, 47 :: mx ++ 44 :: w ++ 120 :: h, mx, w, h, [], [], [], d] else none
                    | 44 :: r10 =>
                      match digits1 r10 with
                      | none => none
                      | some (x, r11) =>
                        match r11 with
                        | 44 :: r12 =>
                          match digits1 r12 with
                          | none => none
                          | some (y, r13) =>
                            match r13 with
                            | 58 :: d =>
                              if noLF d then
                                some [s, kw, ids, idx, 47 :: mx ++ 44 :: w ++ 120 :: h ++ 44 :: x ++ 44 :: y, mx, w, h,
                                      44 :: x ++ 44 :: y, x, y, d]
                              else none
                            | _ => none
                        | _ => none
                    | _ => none
                | _ => none
            | _ => none
        | _ => none
    | _ => none

/-- `^(HeartBeatTimer|…|PanelBrightness)=([0-9]+)$` → `[whole, kw, digits]` -/
def matchSingle (s : Bytes) : Option (List Bytes) :=
  match firstKw kwSingle s with
  | none => none
  | some (kw, r) =>
    match r with
    | 61 :: d => if d ≠ [] ∧ d.all isDigit then some [s, kw, d] else none
    | _ => none

/-- `^(PanelBrightness)=([0-9]+),([0-9]+)$` -/
def matchDual (s : Bytes) : Option (List Bytes) :=
  match stripPrefix (asc "PanelBrightness=") s with
  | none => none
  | some r =>
    match digits1 r with
    | none => none
    | some (a, r1) =>
      match r1 with
      | 44 :: b => if b ≠ [] ∧ b.all isDigit then some [s, asc "PanelBrightness", a, b] else none
      | _ => none

/-- `^(SetCalibrationProfile|SimulateEnvironmentalHealth|SetNetworkConfig)=(.*)$` -/
def matchStr (s : Bytes) : Option (List Bytes) :=
  match firstKw kwStr s with
  | none => none
  | some (kw, r) =>
    match r with
    | 61 :: v => if noLF v then some [s, kw, v] else none
    | _ => none

/-- `^(Flag#|Mem|Shift|State)([A-Z0-9]*)=([0-9]+)$` -/
def matchReg (s : Bytes) : Option (List Bytes) :=
  match firstKw kwReg s with
  | none => none
  | some (kw, r) =>
    let (id, r1) := spanP isUpperDigit r
    match r1 with
    | 61 :: d => if d ≠ [] ∧ d.all isDigit then some [s, kw, id, d] else none
    | _ => none

/-- `FindStringSubmatch(s)[i]` -/
def sub (m : List Bytes) (i : Nat) : Except Panic Bytes :=
  match m[i]? with
  | some b => .ok b
  | none => .error .indexRange

/-! ## helpers of ibeam-lib-utils -/

/-- `su.IntExplode(str, ",")` -/
def intExplode (s : Bytes) : List Nat := (splitOn 44 s).map (fun v => u32 (atoiV v))
/-- `su.IndexValueToInt` -/
def idxInt (fs : List Bytes) (i : Nat) : Int := match fs[i]? with | some f => atoiV f | none => 0
/-- `su.IndexValueToString` = `Bytes.idxStr` -/
def idxS (fs : List Bytes) (i : Nat) : Bytes := idxStr fs i

/-! ## the literal switch -/

def cmdOnly (c : Command) : InMsg := { command := some c }

def literalMsg (s : Bytes) : Option (Option InMsg) :=
  if s = [] then some none
  else if s = asc "ping" then some (some { flow := 1 })
  else if s = asc "ack" then some (some { flow := 2 })
  else if s = asc "nack" then some (some { flow := 3 })
  else if s = asc "ActivePanel=1" then some (some (cmdOnly { activatePanel := true }))
  else if s = asc "list" then some (some (cmdOnly { sendPanelInfo := true }))
  else if s = asc "map" then some (some (cmdOnly { reportHWCavailability := true }))
  else if s = asc "PanelTopology?" then some (some (cmdOnly { sendPanelTopology := true }))
  else if s = asc "BurninProfile?" then some (some (cmdOnly { sendBurninProfile := true }))
  else if s = asc "CalibrationProfile?" then some (some (cmdOnly { sendCalibrationProfile := true }))
  else if s = asc "NetworkConfig?" then some (some (cmdOnly { sendNetworkConfig := true }))
  else if s = asc "Registers?" then some (some (cmdOnly { sendRegisters := true }))
  else if s = asc "Connections?" then some (some (cmdOnly { getConnections := true }))
  else if s = asc "RunTimeStats?" then some (some (cmdOnly { getRunTimeStats := true }))
  else if s = asc "Clear" then some (some (cmdOnly { clearAll := true }))
  else if s = asc "ClearLEDs" then some (some (cmdOnly { clearLEDs := true }))
  else if s = asc "ClearDisplays" then some (some (cmdOnly { clearDisplays := true }))
  else if s = asc "SleepTimer?" then some (some (cmdOnly { getSleepTimeout := true }))
  else if s = asc "WakeUp!" then some (some (cmdOnly { wakeUp := true }))
  else if s = asc "Reboot" then some (some (cmdOnly { reboot := true }))
  else none

/-! ## `regex_cmd` branch (177-341) -/

def stateMsg (s : State) : InMsg := { states := [s] }

def decMode (ids : List Nat) (value : Int) : InMsg :=
  stateMsg { ids := ids, mode := some { state := (landNat value 15 : Nat), output := landNat value 32 == 32,
                                         blink := u32 (landNat (value >>> 8) 15) } }

def decExt (ids : List Nat) (value : Int) : InMsg :=
  stateMsg { ids := ids, ext := some { interp := (landNat (value >>> 12) 15 : Nat), value := u32 (landNat value 4095) } }

def decColor (ids : List Nat) (value : Int) : InMsg :=
  if landNat value 64 > 0 then
    stateMsg { ids := ids, color := some { rgb := some { red := expand2 (landNat (value >>> 4) 3),
                                                         green := expand2 (landNat (value >>> 2) 3),
                                                         blue := expand2 (landNat (value >>> 0) 3) } } }
  else
    stateMsg { ids := ids, color := some { index := some (landNat value 31 : Nat) } }

/-- lines 238-326 -/
def decText (value : Bytes) : Text :=
  let f := splitOn 124 value
  let fmt10or11 : Bool := idxInt f 1 = 10 ∨ idxInt f 1 = 11
  let pairMode0 : Int := i32 (idxInt f 8)
  let pairMode : Int :=
    if (idxS f 7).length > 0 ∨ (idxS f 6).length > 0 then (if pairMode0 > 0 then pairMode0 else 1) else pairMode0
  let t : Text := {
    integerValue := i32 (idxInt f 0)
    formatting := i32 (idxInt f 1)
    stateIcon := (landNat (idxInt f 2) 3 : Nat)
    modifierIcon := (landNat (idxInt f 2 >>> 3) 7 : Nat)
    title := idxS f 3
    solidHeaderBar := idxInt f 4 == 0
    textline1 := idxS f 5
    textline2 := idxS f 6
    integerValue2 := i32 (idxInt f 7)
    pairMode := pairMode
    scale := some { scaleType := i32 (idxInt f 9), rangeLow := i32 (idxInt f 10), rangeHigh := i32 (idxInt f 11),
                    limitLow := i32 (idxInt f 12), limitHigh := i32 (idxInt f 13) }
    textStyling := some {
      textFont := some { face := (landNat (idxInt f 15 >>> 0) 7 : Nat), width := u32 (landNat (idxInt f 16 >>> 0) 3),
                         height := u32 (landNat (idxInt f 16 >>> 2) 3) }
      titleFont := some { face := (landNat (idxInt f 15 >>> 3) 7 : Nat), width := u32 (landNat (idxInt f 16 >>> 4) 3),
                          height := u32 (landNat (idxInt f 16 >>> 6) 3) }
      unformattedFontSize := u32 (if fmt10or11 then idxInt f 0 else 0)
      fixedWidth := landNat (idxInt f 15 >>> 6) 1 > 0
      titleBarPadding := u32 (landNat (idxInt f 17 >>> 0) 3)
      extraSpacing := u32 (landNat (idxInt f 17 >>> 2) 7) }
    inverted := idxInt f 18 > 0 }
  let t := if f.head? == some [] ∧ t.formatting = 0 then { t with formatting := 7 } else t
  let t := if idxInt f 19 > 0 then { t with pixelColor := some (colorStruct (idxInt f 19)) } else t
  let t := if idxInt f 20 > 0 then { t with backgroundColor := some (colorStruct (idxInt f 20)) } else t
  let t := match t.textStyling with
    | some ts => if (ts.unformattedFontSize : Int) > 0 then { t with integerValue := 0 } else t
    | none => t
  let t := if t.formatting = 7 then { t with integerValue := 0 } else t
  let t := if t.formatting = 10 ∨ t.formatting = 11 then { t with solidHeaderBar := false, pairMode := 0 } else t
  let t := if t.title = [] then { t with solidHeaderBar := false } else t
  t

def decCmd (m : List Bytes) : Except Panic (Option InMsg) := do
  let ids := intExplode (← sub m 2)
  let kw ← sub m 1
  if kw = asc "HWC#" then pure (some (decMode ids (atoiV (← sub m 3))))
  else if kw = asc "HWCx#" then pure (some (decExt ids (atoiV (← sub m 3))))
  else if kw = asc "HWCc#" then pure (some (decColor ids (atoiV (← sub m 3))))
  else if kw = asc "HWCt#" then pure (some (stateMsg { ids := ids, text := some (decText (← sub m 3)) }))
  else if kw = asc "HWCrawADCValues#" then
    pure (some (stateMsg { ids := ids, rawADC := some (atoiV (← sub m 3) == 1) }))
  else pure none

/-! ## `regex_gfx` branch (342-407): reassembly state of one call -/

structure GfxSt where
  temp : Gfx := {}
  count : Int := 0
  max : Int := 0
  hwcList : Bytes := []
  imageType : Int := 0
  /-- position in the result list of the message that shares the object `temp` (delivered, still appended to) -/
  alias : Option Nat := none

def gfxTypeOf (kw : Bytes) : Int := if kw = asc "HWCgRGB#" then 1 else if kw = asc "HWCgGray#" then 2 else 0

/-- returns the new state and the message (if the transfer completed).
`pinned = true` is the pinned tree (counter incremented before the comparison, delivered object kept and appended to,
damaged payloads accepted); `pinned = false` the code after `fix:` 87cf381: a chunk is accepted only if its index is
`count+1` and its base64 payload decodes, anything else drops the transfer until the next chunk 0, and a completed
transfer is detached. -/
def decGfx (pinned : Bool) (st : GfxSt) (m : List Bytes) : Except Panic (GfxSt × Option InMsg) := do
  let gPartIndex := atoiV (← sub m 3)
  let imageType := gfxTypeOf (← sub m 1)
  let decoded := B64In.decode (← sub m 11)
  let decodeOk := (B64.decodeGo (← sub m 11)).2
  let st ←
    if gPartIndex = 0 then do
      let st := { st with hwcList := (← sub m 2), count := -1, imageType := imageType, alias := none }
      if (← sub m 4).length > 0 then
        pure { st with max := atoiV (← sub m 5),
                       temp := { imageType := i32 st.imageType, w := u32 (atoiV (← sub m 6)), h := u32 (atoiV (← sub m 7)),
                                 xyOffset := (← sub m 8).length > 0, x := u32 (atoiV (← sub m 9)),
                                 y := u32 (atoiV (← sub m 10)) } }
      else
        pure { st with max := 2, temp := { imageType := i32 st.imageType, w := 64, h := 32 } }
    else pure st
  if st.imageType = imageType then
    if (← sub m 2) = st.hwcList then
      if pinned then
        let st := { st with count := st.count + 1 }
        if gPartIndex = st.count then
          let st := { st with temp := { st.temp with imageData := st.temp.imageData ++ decoded } }
          if gPartIndex = st.max then
            pure (st, some (stateMsg { ids := intExplode st.hwcList, gfx := some st.temp }))
          else pure (st, none)
        else pure (st, none)
      else
        if gPartIndex = st.count + 1 ∧ decodeOk = true then
          let st := { st with count := st.count + 1, temp := { st.temp with imageData := st.temp.imageData ++ decoded } }
          if gPartIndex = st.max then
            -- delivered: the image now belongs to the message; the transfer is closed
            pure ({ st with temp := {}, hwcList := [] }, some (stateMsg { ids := intExplode st.hwcList, gfx := some st.temp }))
          else pure (st, none)
        else pure ({ st with hwcList := [] }, none)
    else pure (st, none)
  else pure (st, none)

/-! ## generic commands and registers (408-591) -/

def decSingle (m : List Bytes) : Except Panic (Option InMsg) := do
  let p := atoiV (← sub m 2)
  let kw ← sub m 1
  if kw = asc "HeartBeatTimer" then pure (some (cmdOnly { setHeartBeatTimer := some (u32 p) }))
  else if kw = asc "DimmedGain" then pure (some (cmdOnly { setDimmedGain := some (u32 p) }))
  else if kw = asc "PublishSystemStat" then pure (some (cmdOnly { publishSystemStat := some (u32 p) }))
  else if kw = asc "LoadCPU" then pure (some (cmdOnly { loadCPU := some (i32 (u32 p)) }))
  else if kw = asc "SleepTimer" then pure (some (cmdOnly { setSleepTimeout := some (u32 p) }))
  else if kw = asc "SleepMode" then pure (some (cmdOnly { setSleepMode := some (i32 p) }))
  else if kw = asc "SleepScreenSaver" then pure (some (cmdOnly { setSleepScreenSaver := some (i32 p) }))
  else if kw = asc "Webserver" then pure (some (cmdOnly { setWebserverEnabled := some (p > 0) }))
  else if kw = asc "JSONonOutbound" then pure (some (cmdOnly { jsonConfig := some (p > 0) }))
  else if kw = asc "PanelBrightness" then pure (some (cmdOnly { panelBrightness := some (u32 p, u32 p) }))
  else pure none

def decDual (m : List Bytes) : Except Panic (Option InMsg) := do
  let p1 := atoiV (← sub m 2)
  let p2 := atoiV (← sub m 3)
  if (← sub m 1) = asc "PanelBrightness" then pure (some (cmdOnly { panelBrightness := some (u32 p1, u32 p2) }))
  else pure none

def decStr (O : Oracles) (m : List Bytes) : Except Panic (Option InMsg) := do
  let kw ← sub m 1
  if kw = asc "SetCalibrationProfile" then pure (some (cmdOnly { setCalibrationProfile := some (← sub m 2) }))
  else if kw = asc "SetNetworkConfig" then pure (some (cmdOnly { setNetworkConfig := O.parseNet (← sub m 2) }))
  else if kw = asc "SimulateEnvironmentalHealth" then
    let v ← sub m 2
    if v = asc "Normal" then pure (some (cmdOnly { simulateEnvironmentalHealth := some 0 }))
    else if v = asc "Safemode" then pure (some (cmdOnly { simulateEnvironmentalHealth := some 1 }))
    else if v = asc "Blocked" then pure (some (cmdOnly { simulateEnvironmentalHealth := some 2 }))
    else pure none
  else pure none

def regMsg (r : Register) : InMsg := { registers := [r] }

def decReg (m : List Bytes) : Except Panic (Option InMsg) := do
  let kw ← sub m 1
  if kw = asc "Mem" then pure (some (regMsg { reg := 0, id := (← sub m 2), value := u32 (atoiV (← sub m 3)) }))
  else if kw = asc "Flag#" then
    pure (some (regMsg { reg := 1, id := itoa (atoiV (← sub m 2)), value := u32 (if atoiV (← sub m 3) > 0 then 1 else 0) }))
  else if kw = asc "Shift" then pure (some (regMsg { reg := 2, id := (← sub m 2), value := u32 (atoiV (← sub m 3)) }))
  else if kw = asc "State" then pure (some (regMsg { reg := 3, id := (← sub m 2), value := u32 (atoiV (← sub m 3)) }))
  else pure none

/-! ## one line, all lines -/

structure DecSt where
  out : List (Option InMsg) := []       -- `returnMsgs`, in order (`none` = nil pointer)
  gfx : GfxSt := {}

def setGfxAt (out : List (Option InMsg)) (pos : Nat) (g : Gfx) : List (Option InMsg) :=
  match out[pos]? with
  | some (some msg) =>
    out.set pos (some { msg with states := msg.states.map (fun s => { s with gfx := s.gfx.map (fun _ => g) }) })
  | _ => out

/-- `pinned = true`: the `[`-JSON elements are appended unfiltered (nil elements included);
    repaired: nil elements are skipped. -/
def decLine (O : Oracles) (pinned : Bool) (st : DecSt) (s : Bytes) : Except Panic DecSt := do
  let push (st : DecSt) (m : Option InMsg) : DecSt :=
    match m with
    | some msg => { st with out := st.out ++ [some msg] }
    | none => st
  match literalMsg s with
  | some m => pure (push st m)
  | none =>
    if s.head? = some 123 then pure (push st (some (stateMsg (O.parseState s))))
    else if s.head? = some 91 then
      let ms := O.parseMsgs s
      pure { st with out := st.out ++ (if pinned then ms else ms.filter Option.isSome) }
    else match matchCmd s with
    | some m => pure (push st (← decCmd m))
    | none =>
      match matchGfx s with
      | some m =>
        let (g, r) ← decGfx pinned st.gfx m
        -- pinned tree: the append mutates the object shared with an already delivered message
        let out := match g.alias with | some pos => setGfxAt st.out pos g.temp | none => st.out
        match r with
        | some msg => pure { out := out ++ [some msg], gfx := { g with alias := if pinned then some out.length else none } }
        | none => pure { out := out, gfx := g }
      | none =>
        match matchSingle s with
        | some m => pure (push st (← decSingle m))
        | none =>
          match matchDual s with
          | some m => pure (push st (← decDual m))
          | none =>
            match matchStr s with
            | some m => pure (push st (← decStr O m))
            | none =>
              match matchReg s with
              | some m => pure (push st (← decReg m))
              | none => pure (push st (some {}))

def decLines (O : Oracles) (pinned : Bool) : DecSt → List Bytes → Except Panic DecSt
  | st, [] => .ok st
  | st, l :: ls =>
    match decLine O pinned st l with
    | .ok st' => decLines O pinned st' ls
    | .error e => .error e

/-- `RawPanelASCIIstringsToInboundMessages` (repaired tree) -/
def decInE (O : Oracles) (ls : List Bytes) : Except Panic (List (Option InMsg)) :=
  match decLines O false {} ls with
  | .ok st => .ok st.out
  | .error e => .error e

/-- the pinned tree (`[null]` yields a nil message) -/
def decInPinnedE (O : Oracles) (ls : List Bytes) : Except Panic (List (Option InMsg)) :=
  match decLines O true {} ls with
  | .ok st => .ok st.out
  | .error e => .error e

end RawPanelVerif.Model.In
