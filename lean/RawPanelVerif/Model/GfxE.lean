import RawPanelVerif.Model.Gfx
import RawPanelVerif.Model.DecIn
/-!
# `ASCIIreader.Parse` with Go's panics explicit (C06, streaming reader)

Same code block as `Gfx.Stream.parse` (rawpanelhelpers.go `Parse`, the tree after `fix:` 87cf381), but written over
the panic-carrying pieces of the inbound decoder model: the regular expression returns its sub-matches as a list and
every `submatches[i]` is `sub m i` in `Except Panic` (index out of range = panic); the hand-over to
`RawPanelASCIIstringsToInboundMessages` is `decInE`, which carries its own panics.  `strings.TrimSpace`, `su.Intval`,
`append` on a nil slice and the assignments cannot panic.  Loops: `Parse` has none; it calls the batch converter once.

`Lemmas/GfxTotal.lean` proves `parse_total` (no input makes it panic, no nil message comes back) and that it computes
the reader state and the handed-over lines of `Gfx.Stream.handover` (the C05 model).
-/
namespace RawPanelVerif.Gfx
open RawPanelVerif RawPanelVerif.MsgIn RawPanelVerif.Model.In

/-- "Reset image intake" of `Parse` with the sub-match list -/
def Stream.intakeE (m : List Bytes) : Except Panic RState := do
  let list ← sub m 2
  let ty ← sub m 1
  if (← sub m 4).length > 0 then
    pure { count := -1, list := list, ty := ty, buf := some [], max := Bytes.atoiV (← sub m 5) }
  else
    pure { count := -1, list := list, ty := ty, buf := some [], max := 2 }

/-- the part of `Parse` after the optional reset: type / target / index checks, buffering, hand-over.
`ty`, `list` = `submatches[1]`, `submatches[2]`; `idx` = `gPartIndex` -/
def Stream.acceptE (O : Oracles) (s : RState) (ty list : Bytes) (idx : Int) (line : Bytes) :
    Except Panic (RState × List (Option InMsg)) :=
  if s.ty = ty then
    if s.list = list then
      if idx = s.count + 1 then
        let s := { s with count := s.count + 1, buf := some (s.buf.getD [] ++ [line]) }
        if idx = s.max then do
          let ms ← decInE O (s.buf.getD [])
          pure (s.cleared, ms)
        else pure (s, [])
      else pure (s.cleared, [])
    else pure (s, [])
  else pure (s, [])

/-- `ASCIIreader.Parse(inputString)`: the new reader fields and the returned messages (`none` = nil pointer) -/
def Stream.parseE (O : Oracles) (s : RState) (input : Bytes) : Except Panic (RState × List (Option InMsg)) := do
  let s := s.initRule
  let line := trimSpace input
  match Model.In.matchGfx line with
  | some m =>
    let gPartIndex := Bytes.atoiV (← sub m 3)
    let s ← if gPartIndex = 0 then Stream.intakeE m else pure s
    Stream.acceptE O s (← sub m 1) (← sub m 2) gPartIndex line
  | none =>
    let ms ← decInE O [line]
    pure (s, ms)

/-- a streaming session: stops at the first panic -/
def Stream.runE (O : Oracles) : RState → List Bytes → Except Panic (RState × List (List (Option InMsg)))
  | s, [] => .ok (s, [])
  | s, l :: ls =>
    match Stream.parseE O s l with
    | .error e => .error e
    | .ok r =>
      match Stream.runE O r.1 ls with
      | .error e => .error e
      | .ok rest => .ok (rest.1, r.2 :: rest.2)

end RawPanelVerif.Gfx
