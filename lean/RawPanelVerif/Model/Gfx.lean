import RawPanelVerif.Base.B64
import RawPanelVerif.Gen.Consts
import RawPanelVerif.Base.Bytes
/-!
# Model of chunked graphics transfer (C05)

Mirrors, one definition per Go function / code block:

* `chunkLines`, `encodeState`  — converterFunctions.go 881-905 (`InboundMessagesToRawPanelASCIIstrings`, HWCGfx block)
* `encodeMsg`, `encodeMsgs`    — the same function on a whole call: the loops over `inboundMsgs` and over the `States` of
                                 each message around that block (messages whose states carry images only); the line
                                 prefix is chosen per image (`cmdString` is declared inside the HWCGfx block)
* `matchGfx`                   — the regular expression `regex_gfx` = `ASCIIreader_gfx` (hand-written matcher; the pattern
                                 text it was written for is `gfxPattern`, compared with the extracted source on every run)
* `Batch.step`, `Batch.run`    — converterFunctions.go 33-38, 340-402: the graphics branch of
                                 `RawPanelASCIIstringsToInboundMessages` with its five temporaries. The image object
                                 `temp_HWCGfx` is a pointer that the returned message shares, so it is a *reference into
                                 a store* here; messages carry the reference, and are dereferenced when observed.
* `Stream.parse`               — rawpanelhelpers.go `ASCIIreader.Parse`
* `serialise` / `restore`      — the `json.Marshal` / `json.Unmarshal` hop of rawpanel-lib-c/main.go 23-41: ints exact,
                                 strings through `jsonFix` (every invalid UTF-8 byte becomes U+FFFD), nil slice ↔ `null`
* `Stream.handover`, `parseH`, `runH` — the same reader with object identity: what `Parse` hands to the batch converter,
                                 one heap region per hand-over (for `stream_never_altered`)
* non-graphics lines           — passed through to the rest of the decoder, which is opaque here (`Out.other line`
                                 stands for "whatever messages the decoder yields for this single line")

`…Pinned` = behaviour of the pinned tree (three defects + ignored base64 error), kept for the counterexample
theorems; the unmarked definitions are the repaired behaviour (fix-C05.patch).

Strings are byte lists. Go `int` is `Int` (no 64-bit overflow: counters would need 2^63 lines).
-/
namespace RawPanelVerif.Gfx
open RawPanelVerif

abbrev Bytes := List UInt8

/-! ## decimal numbers -/

def isDigit (c : UInt8) : Bool := 48 ≤ c && c ≤ 57

/-- `fmt.Sprintf("%d", n)` for n ≥ 0 -/
def dec (n : Nat) : Bytes :=
  if n < 10 then [UInt8.ofNat (48 + n)] else dec (n / 10) ++ [UInt8.ofNat (48 + n % 10)]

/-- value of a digit string (empty = 0) -/
def natOfDigits (ds : Bytes) : Nat := ds.foldl (fun acc d => acc * 10 + (d.toNat - 48)) 0

def maxInt : Nat := 2 ^ 63 - 1

/-- `su.Intval` = `strconv.Atoi` with the error dropped, on a string of digits (what the pattern's groups hold):
"" is a syntax error → 0; overflow → `MaxInt64` (Atoi returns the clamped value together with the range error). -/
def atoi (ds : Bytes) : Nat :=
  if ds.isEmpty ∨ !ds.all isDigit then 0 else min (natOfDigits ds) maxInt

/-- `uint32(su.Intval(s))` -/
def atou32 (ds : Bytes) : Nat := atoi ds % 2 ^ 32

/-- `strings.Split(s, ",")` -/
def splitComma : Bytes → List Bytes
  | [] => [[]]
  | c :: cs =>
    if c = 44 then [] :: splitComma cs
    else match splitComma cs with
      | [] => [[c]]
      | p :: ps => (c :: p) :: ps

/-- `su.IntExplode(list, ",")` -/
def intExplode (s : Bytes) : List Nat := (splitComma s).map atou32

/-! ## the image and the encoder -/

/-- `rwp.HWCGfx` -/
structure Img where
  ty : Nat := 0          -- 0 MONO, 1 RGB16bit, 2 Gray4bit
  W : Nat := 0
  H : Nat := 0
  off : Bool := false
  X : Nat := 0
  Y : Nat := 0
  data : Bytes := []
  deriving DecidableEq, Repr, Inhabited

def pHWCg : Bytes := [72, 87, 67, 103]                       -- "HWCg"
def pRGB : Bytes := [72, 87, 67, 103, 82, 71, 66]            -- "HWCgRGB"
def pGray : Bytes := [72, 87, 67, 103, 71, 114, 97, 121]     -- "HWCgGray"

def cmdString (ty : Nat) : Bytes := if ty = 1 then pRGB else if ty = 2 then pGray else pHWCg

/-- `const bytesPerLine` as extracted from the current source (170 in the pinned tree) -/
def bytesPerLine : Nat := Gen.bytesPerLine

/-- `int(math.Ceil(float64(len)/float64(bytesPerLine)))` -/
def totalLines (len : Nat) : Nat := (len + (bytesPerLine - 1)) / bytesPerLine

/-- the `/max,WxH[,X,Y]` part of chunk 0 -/
def header (g : Img) (total : Nat) : Bytes :=
  [47] ++ dec (total - 1) ++ [44] ++ dec g.W ++ [120] ++ dec g.H ++
    (if g.off then [44] ++ dec g.X ++ [44] ++ dec g.Y else [])

def segment (g : Img) (i : Nat) : Bytes := (g.data.drop (i * bytesPerLine)).take bytesPerLine

/-- line `i` of the transfer of `g` to the target list text `ids` -/
def chunkLine (g : Img) (ids : Bytes) (total i : Nat) : Bytes :=
  cmdString g.ty ++ [35] ++ ids ++ [61] ++ dec i ++ (if i = 0 then header g total else []) ++ [58] ++
    B64.encode (segment g i)

def chunkLines (g : Img) (ids : Bytes) : List Bytes :=
  (List.range (totalLines g.data.length)).map (chunkLine g ids (totalLines g.data.length))

/-- the encoder emits one complete transfer per target id -/
def encodeState (g : Img) (ids : List Nat) : List Bytes := ids.flatMap (fun id => chunkLines g (dec id))

/-- the states of one `InboundMessage`, in the order of `States`: image and target ids (`HWCIDs`) of each.  The loop
over the states runs the HWCGfx block once per state and target id; nothing is carried from one state to the next. -/
def encodeMsg (states : List (Img × List Nat)) : List Bytes := states.flatMap (fun s => encodeState s.1 s.2)

/-- one call of `InboundMessagesToRawPanelASCIIstrings` on messages that carry only images: message after message -/
def encodeMsgs (msgs : List (List (Img × List Nat))) : List Bytes := msgs.flatMap encodeMsg

/-! ## the pattern -/

/-- the pattern `matchGfx` implements; `Props/C05.lean` proves the extracted sources equal it -/
def gfxPattern : String :=
  "^(HWCgRGB#|HWCgGray#|HWCg#)([0-9,]+)=([0-9]+)(/([0-9]+),([0-9]+)x([0-9]+)(,([0-9]+),([0-9]+)|)|):(.*)$"

/-- submatches 1..11 -/
structure Sub where
  g1 : Bytes
  g2 : Bytes
  g3 : Bytes
  g4 : Bytes := []
  g5 : Bytes := []
  g6 : Bytes := []
  g7 : Bytes := []
  g8 : Bytes := []
  g9 : Bytes := []
  g10 : Bytes := []
  g11 : Bytes := []
  deriving DecidableEq, Repr

def stripPrefix (p l : Bytes) : Option Bytes :=
  match p, l with
  | [], l => some l
  | _ :: _, [] => none
  | a :: p, b :: l => if a = b then stripPrefix p l else none

def isIdChar (c : UInt8) : Bool := isDigit c || c == 44

/-- longest prefix satisfying `p`, and the rest (greedy `[...]*`; the patterns never need to give a character back) -/
def spanP (p : UInt8 → Bool) : Bytes → Bytes × Bytes
  | [] => ([], [])
  | c :: cs => if p c then let r := spanP p cs; (c :: r.1, r.2) else ([], c :: cs)

/-- a non-empty run of digits followed by the byte `sep`: returns (digits, rest after sep) -/
def digitsThen (sep : UInt8) (l : Bytes) : Option (Bytes × Bytes) :=
  match spanP isDigit l with
  | (ds, c :: rest) => if ds ≠ [] ∧ c = sep then some (ds, rest) else none
  | (_, []) => none

/-- `(.*)$`: the rest of the text, which must not contain `\n` -/
def tailOK (p : Bytes) : Bool := !p.contains 10

/-- after `=index`: `:payload` or `/max,WxH[,X,Y]:payload` -/
def matchTail (g1 g2 g3 r : Bytes) : Option Sub :=
  match r with
  | 58 :: p => if tailOK p then some { g1, g2, g3, g11 := p } else none
  | 47 :: r =>
    match digitsThen 44 r with
    | none => none
    | some (g5, r) =>
      match digitsThen 120 r with
      | none => none
      | some (g6, r) =>
        let (g7, r) := spanP isDigit r
        if g7 = [] then none else
        match r with
        | 58 :: p =>
          if tailOK p then some { g1, g2, g3, g4 := [47] ++ g5 ++ [44] ++ g6 ++ [120] ++ g7, g5, g6, g7, g11 := p } else none
        | 44 :: r =>
          match digitsThen 44 r with
          | none => none
          | some (g9, r) =>
            match digitsThen 58 r with
            | none => none
            | some (g10, p) =>
              if tailOK p then
                some { g1, g2, g3, g4 := [47] ++ g5 ++ [44] ++ g6 ++ [120] ++ g7 ++ [44] ++ g9 ++ [44] ++ g10,
                       g5, g6, g7, g8 := [44] ++ g9 ++ [44] ++ g10, g9, g10, g11 := p }
              else none
        | _ => none
  | _ => none

def matchAfterPrefix (g1 r : Bytes) : Option Sub :=
  match spanP isIdChar r with
  | (g2, 61 :: r) =>
    if g2 = [] then none else
    match spanP isDigit r with
    | (g3, r) => if g3 = [] then none else matchTail g1 g2 g3 r
  | _ => none

/-- `regex_gfx.FindStringSubmatch` (`none` = `MatchString` false) -/
def matchGfx (l : Bytes) : Option Sub :=
  match stripPrefix (pRGB ++ [35]) l with
  | some r => matchAfterPrefix (pRGB ++ [35]) r
  | none =>
    match stripPrefix (pGray ++ [35]) l with
    | some r => matchAfterPrefix (pGray ++ [35]) r
    | none =>
      match stripPrefix (pHWCg ++ [35]) l with
      | some r => matchAfterPrefix (pHWCg ++ [35]) r
      | none => none

/-- the `switch submatches[1]` giving the image type -/
def typeOfPrefix (g1 : Bytes) : Nat :=
  if g1 = pRGB ++ [35] then 1 else if g1 = pGray ++ [35] then 2 else 0

/-! ## batch decoder: graphics branch -/

/-- a message appended to `returnMsgs` -/
inductive Out where
  | gfx (ids : List Nat) (ref : Nat)     -- States[0].HWCIDs, States[0].HWCGfx (pointer)
  | other (line : Bytes)                 -- whatever the rest of the decoder yields for this non-graphics line
  deriving DecidableEq, Repr

/-- the local variables of one call, with the heap of image objects -/
structure BState where
  store : List Img := [{}]     -- cell 0: the `&rwp.HWCGfx{}` allocated at entry
  cur : Nat := 0               -- temp_HWCGfx
  count : Int := 0             -- temp_HWCGfx_count
  max : Int := 0               -- temp_HWCGfx_max
  list : Bytes := []           -- temp_HWCGfx_HWClist
  ty : Nat := 0                -- temp_HWCGfx_ImageType
  deriving DecidableEq, Repr

def appendAt (st : List Img) (ref : Nat) (bs : Bytes) : List Img :=
  st.modify ref (fun i => { i with data := i.data ++ bs })

/-- the values the graphics branch computes from the submatches of a line -/
structure Parsed where
  idx : Int          -- gPartIndex
  ty : Nat           -- imageType
  pfx : Bytes        -- submatches[1]
  list : Bytes       -- submatches[2]
  max : Int          -- advanced header: Intval(submatches[5]); simple form: 2
  img : Img          -- the object a chunk-0 line allocates (header metadata, no data)
  data : Bytes       -- decodedSlice
  ok : Bool          -- err == nil of base64 DecodeString
  deriving DecidableEq, Repr

def parsedOf (m : Sub) : Parsed :=
  let ty := typeOfPrefix m.g1
  let d := B64.decodeGo m.g11
  { idx := atoi m.g3, ty := ty, pfx := m.g1, list := m.g2,
    max := if m.g4 ≠ [] then (atoi m.g5 : Int) else 2,
    img := if m.g4 ≠ [] then
        { ty := ty, W := atou32 m.g6, H := atou32 m.g7, off := m.g8 ≠ [], X := atou32 m.g9, Y := atou32 m.g10 }
      else { ty := ty, W := 64, H := 32 },
    data := d.1, ok := d.2 }

/-- "Reset image intake" for a chunk-0 line -/
def resetIntake (s : BState) (p : Parsed) : BState :=
  { store := s.store ++ [p.img], cur := s.store.length, count := -1, max := p.max, list := p.list, ty := p.ty }

/-- pinned tree: counter incremented before it is compared; object and list survive the wrap-up; decode error ignored -/
def Batch.stepPPinned (s : BState) (p : Parsed) : BState × Option Out :=
  let s := if p.idx = 0 then resetIntake s p else s
  if s.ty = p.ty then
    if p.list = s.list then
      let s := { s with count := s.count + 1 }
      if p.idx = s.count then
        let s := { s with store := appendAt s.store s.cur p.data }
        if p.idx = s.max then (s, some (.gfx (intExplode s.list) s.cur)) else (s, none)
      else (s, none)
    else (s, none)
  else (s, none)

def Batch.stepPinned (s : BState) (line : Bytes) : BState × Option Out :=
  match matchGfx line with
  | none => (s, some (.other line))
  | some m => Batch.stepPPinned s (parsedOf m)

/-- the transfer is closed: no chunk is accepted until the next chunk 0 (`temp_HWCGfx_HWClist = ""`) -/
def BState.closed (s : BState) : BState := { s with list := [] }

/-- repaired: a chunk is accepted only if it is the next one and decodes; otherwise the transfer is dropped until
the next chunk 0; after the wrap-up the image object is detached and the transfer closed -/
def Batch.stepP (s : BState) (p : Parsed) : BState × Option Out :=
  let s := if p.idx = 0 then resetIntake s p else s
  if s.ty = p.ty then
    if p.list = s.list then
      if p.idx = s.count + 1 ∧ p.ok = true then
        let s := { s with count := s.count + 1, store := appendAt s.store s.cur p.data }
        if p.idx = s.max then
          ({ s with store := s.store ++ [{}], cur := s.store.length, list := [] },
            some (.gfx (intExplode s.list) s.cur))
        else (s, none)
      else (s.closed, none)
    else (s, none)
  else (s, none)

def Batch.step (s : BState) (line : Bytes) : BState × Option Out :=
  match matchGfx line with
  | none => (s, some (.other line))
  | some m => Batch.stepP s (parsedOf m)

/-- a message appended to `returnMsgs`: position of its line, the message, and (ghost) the heap right after that line -/
structure Event where
  pos : Nat
  out : Out
  snap : List Img
  deriving DecidableEq, Repr

/-- the loop over the lines: final locals and the messages in order -/
def Batch.runFrom (step : BState → Bytes → BState × Option Out) (s : BState) (pos : Nat) :
    List Bytes → BState × List Event
  | [] => (s, [])
  | l :: ls =>
    let r := step s l
    let rest := Batch.runFrom step r.1 (pos + 1) ls
    match r.2 with
    | some o => (rest.1, ⟨pos, o, r.1.store⟩ :: rest.2)
    | none => rest

def Batch.run (step : BState → Bytes → BState × Option Out) (lines : List Bytes) : BState × List Event :=
  Batch.runFrom step {} 0 lines

/-- what an observer holding the returned messages sees at some later time (store `st`) -/
inductive Seen where
  | gfx (ids : List Nat) (img : Img) (ref : Nat)
  | other (line : Bytes)
  deriving DecidableEq, Repr

def see (st : List Img) : Out → Seen
  | .gfx ids ref => .gfx ids (st.getD ref {}) ref
  | .other l => .other l

/-- `RawPanelASCIIstringsToInboundMessages(lines)` as seen by the caller on return -/
def Batch.decode (step : BState → Bytes → BState × Option Out) (lines : List Bytes) : List Seen :=
  let r := Batch.run step lines
  r.2.map (fun e => see r.1.store e.out)

/-! ## streaming reader -/

/-- `ASCIIreader` (`buf = none` is a nil slice) -/
structure RState where
  count : Int := 0
  ty : Bytes := []
  buf : Option (List Bytes) := none
  max : Int := 0
  list : Bytes := []
  deriving DecidableEq, Repr

/-- `strings.TrimSpace`: strips the white-space *runes* of `unicode.IsSpace` at both ends — the ASCII ones and
U+0085, U+00A0, U+1680, U+2000–200A, U+2028/9, U+202F, U+205F, U+3000 in their UTF-8 form (Base/Bytes.lean) -/
def trimSpace (l : Bytes) : Bytes := RawPanelVerif.Bytes.trimSpace l

/-- "Reset image intake" of the reader for a chunk-0 line -/
def RState.intake (p : Parsed) : RState := { count := -1, list := p.list, ty := p.pfx, buf := some [], max := p.max }

/-- pinned `Parse`, graphics line -/
def Stream.parsePPinned (s : RState) (p : Parsed) (line : Bytes) : RState × List Seen :=
  let s := if p.idx = 0 then RState.intake p else s
  if s.ty = p.pfx then
    if s.list = p.list then
      let s := { s with count := s.count + 1 }
      if p.idx = s.count then
        let s := { s with buf := some (s.buf.getD [] ++ [line]) }
        if p.idx = s.max then
          ({ s with count := -1 }, Batch.decode Batch.stepPinned (s.buf.getD []))
        else (s, [])
      else (s, [])
    else (s, [])
  else (s, [])

/-- the init rule at the top of `Parse` -/
def RState.initRule (s : RState) : RState := if s.list = [] ∧ s.ty = [] then { s with count := -1 } else s

def Stream.parsePinned (s : RState) (input : Bytes) : RState × List Seen :=
  let s := s.initRule
  let line := trimSpace input
  match matchGfx line with
  | none => (s, Batch.decode Batch.stepPinned [line])
  | some m => Stream.parsePPinned s (parsedOf m) line

/-- `ar.reset()`: the reader state after a completed or dropped transfer (repaired code) -/
def RState.cleared (s : RState) : RState := { s with count := -1, buf := none, list := [], ty := [] }

/-- repaired `Parse`, graphics line -/
def Stream.parseP (s : RState) (p : Parsed) (line : Bytes) : RState × List Seen :=
  let s := if p.idx = 0 then RState.intake p else s
  if s.ty = p.pfx then
    if s.list = p.list then
      if p.idx = s.count + 1 then
        let s := { s with count := s.count + 1, buf := some (s.buf.getD [] ++ [line]) }
        if p.idx = s.max then (s.cleared, Batch.decode Batch.step (s.buf.getD []))
        else (s, [])
      else (s.cleared, [])
    else (s, [])
  else (s, [])

def Stream.parse (s : RState) (input : Bytes) : RState × List Seen :=
  let s := s.initRule
  let line := trimSpace input
  match matchGfx line with
  | none => (s, Batch.decode Batch.step [line])
  | some m => Stream.parseP s (parsedOf m) line

/-! ## the streaming reader with object identity

`Parse` creates no image object itself: it either returns nil or returns what ONE call of
`RawPanelASCIIstringsToInboundMessages` returns for lines it hands over (`handover`).  The objects of a streaming
session therefore live in one heap *region* per hand-over (the `store` of that batch call); the reader keeps no
pointer into any region (`RState` = the five fields of `ASCIIreader`: two ints, two strings, a string slice). -/

/-- repaired `Parse`, graphics line: the new reader state and the lines handed to the batch converter
(`none`: `Parse` returns nil) -/
def Stream.handoverP (s : RState) (p : Parsed) (line : Bytes) : RState × Option (List Bytes) :=
  let s := if p.idx = 0 then RState.intake p else s
  if s.ty = p.pfx then
    if s.list = p.list then
      if p.idx = s.count + 1 then
        let s := { s with count := s.count + 1, buf := some (s.buf.getD [] ++ [line]) }
        if p.idx = s.max then (s.cleared, some (s.buf.getD []))
        else (s, none)
      else (s.cleared, none)
    else (s, none)
  else (s, none)

def Stream.handover (s : RState) (input : Bytes) : RState × Option (List Bytes) :=
  let s := s.initRule
  let line := trimSpace input
  match matchGfx line with
  | none => (s, some [line])
  | some m => Stream.handoverP s (parsedOf m) line

/-- one `Parse` call with the heap region it allocated: new reader state, the returned messages as references into
the region, the region as it is when `Parse` returns (`[]` when nothing was handed over) -/
def Stream.parseH (s : RState) (input : Bytes) : RState × List Out × List Img :=
  let h := Stream.handover s input
  match h.2 with
  | none => (h.1, [], [])
  | some ls =>
    let r := Batch.run Batch.step ls
    (h.1, r.2.map (·.out), r.1.store)

/-- what one `Parse` call contributed to the session: the messages it returned and its region at return time -/
structure Call where
  outs : List Out
  region : List Img
  deriving DecidableEq, Repr

/-- a session: every call appends its region to the session heap and touches nothing else of it -/
def Stream.runH (s : RState) (heap : List (List Img)) : List Bytes → RState × List (List Img) × List Call
  | [] => (s, heap, [])
  | l :: ls =>
    let r := Stream.parseH s l
    let rest := Stream.runH r.1 (heap ++ [r.2.2]) ls
    (rest.1, rest.2.1, ⟨r.2.1, r.2.2⟩ :: rest.2.2)

/-! ## the JSON hop -/

def isCont (b : UInt8) : Bool := 0x80 ≤ b && b ≤ 0xBF

/-- `a b` is a two-byte UTF-8 sequence (`utf8.DecodeRune`: lead C2–DF) -/
def utf8Two (a b : UInt8) : Bool := 0xC2 ≤ a && a ≤ 0xDF && isCont b

/-- second byte of a three-byte sequence: E0 → A0–BF, ED → 80–9F (no surrogates), otherwise 80–BF -/
def utf8Three (a b c : UInt8) : Bool :=
  0xE0 ≤ a && a ≤ 0xEF &&
    (if a = 0xE0 then 0xA0 ≤ b && b ≤ 0xBF else if a = 0xED then 0x80 ≤ b && b ≤ 0x9F else isCont b) && isCont c

/-- second byte of a four-byte sequence: F0 → 90–BF, F4 → 80–8F, F1–F3 → 80–BF -/
def utf8Four (a b c d : UInt8) : Bool :=
  0xF0 ≤ a && a ≤ 0xF4 &&
    (if a = 0xF0 then 0x90 ≤ b && b ≤ 0xBF else if a = 0xF4 then 0x80 ≤ b && b ≤ 0x8F else isCont b) &&
    isCont c && isCont d

/-- U+FFFD -/
def replacement : Bytes := [0xEF, 0xBF, 0xBD]

/-- what a Go string becomes on its way through `json.Marshal` and back through `json.Unmarshal`: every byte at which
`utf8.DecodeRuneInString` reports `(RuneError, 1)` is replaced by U+FFFD; everything else (including the escapes for
`<`, `>`, `&`, U+2028/9 and control characters, which `Unmarshal` undoes) comes back unchanged -/
def jsonFix : Bytes → Bytes
  | [] => []
  | a :: r =>
    let keep := jsonFix r                       -- the rest, when `a` is a rune of its own (ASCII or replaced)
    if a < 0x80 then a :: keep else
    match r with
    | [] => replacement ++ keep
    | b :: r1 =>
      if utf8Two a b then a :: b :: jsonFix r1 else
      match r1 with
      | [] => replacement ++ keep
      | c :: r2 =>
        if utf8Three a b c then a :: b :: c :: jsonFix r2 else
        match r2 with
        | [] => replacement ++ keep
        | d :: r3 =>
          if utf8Four a b c d then a :: b :: c :: d :: jsonFix r3 else replacement ++ keep

/-- the JSON document: five exported fields; `HWCGfx` is `null` for a nil slice and an array otherwise; ints are exact;
the document is arbitrary here (whatever a caller passes as `state`) -/
structure Wire where
  count : Int
  ty : Bytes
  buf : Option (List Bytes)
  max : Int
  list : Bytes
  deriving DecidableEq, Repr

/-- `json.Marshal(reader)`: the three string-typed fields go through the string encoder -/
def serialise (s : RState) : Wire := ⟨s.count, jsonFix s.ty, s.buf.map (·.map jsonFix), s.max, jsonFix s.list⟩

/-- `var reader ASCIIreader; if state != nil { json.Unmarshal(state, &reader) }`: strings of the document are decoded
by the string decoder, which also replaces invalid UTF-8 -/
def restore : Option Wire → RState
  | none => {}
  | some w => ⟨w.count, jsonFix w.ty, w.buf.map (·.map jsonFix), w.max, jsonFix w.list⟩

/-- one call of `RawPanelASCIIstringToInboundMessage(ascii, state)` of rawpanel-lib-c: returns the new state document -/
def cCall (parse : RState → Bytes → RState × List Seen) (state : Option Wire) (line : Bytes) :
    Option Wire × List Seen :=
  let r := parse (restore state) line
  (some (serialise r.1), r.2)

/-! ## feeding disciplines -/

/-- line by line through one reader; deliveries with the position of the line -/
def Stream.runFrom (parse : RState → Bytes → RState × List Seen) (s : RState) (pos : Nat) :
    List Bytes → RState × List (Nat × List Seen)
  | [] => (s, [])
  | l :: ls =>
    let r := parse s l
    let rest := Stream.runFrom parse r.1 (pos + 1) ls
    (rest.1, (pos, r.2) :: rest.2)

def Stream.run (parse : RState → Bytes → RState × List Seen) (lines : List Bytes) : RState × List (Nat × List Seen) :=
  Stream.runFrom parse {} 0 lines

/-- the same with the state through JSON between any two lines -/
def Serial.runFrom (parse : RState → Bytes → RState × List Seen) (w : Option Wire) (pos : Nat) :
    List Bytes → Option Wire × List (Nat × List Seen)
  | [] => (w, [])
  | l :: ls =>
    let r := cCall parse w l
    let rest := Serial.runFrom parse r.1 (pos + 1) ls
    (rest.1, (pos, r.2) :: rest.2)

def Serial.run (parse : RState → Bytes → RState × List Seen) (lines : List Bytes) : Option Wire × List (Nat × List Seen) :=
  Serial.runFrom parse none 0 lines

end RawPanelVerif.Gfx
