import RawPanelVerif.Base.MsgInTypes
/-!
# Model side of the inbound message types: Go integer conventions and the small helpers both converters use

The message *types* live in `Base/MsgInTypes.lean` (shared with Spec/, types only).  Here: Go's casts and bit
operations on `int` / `int32` / `uint32`, `su.MapAndConstrainValue`, `convertToColorInteger`, `convertToColorStruct`,
and the `proto.Equal(x, &T{})` emptiness tests.
-/
namespace RawPanelVerif.Model.In
open RawPanelVerif RawPanelVerif.Bytes RawPanelVerif.MsgIn

/-- what a Go construct can panic with -/
inductive Panic where
  | nilDeref
  | sliceBounds
  | indexRange
  deriving DecidableEq, Repr

/-- `uint32(x)` for a Go `int` -/
def u32 (x : Int) : Nat := (x % 4294967296).toNat
/-- `int32(x)` for a Go `int` (wraps) -/
def i32 (x : Int) : Int := (x + 2147483648) % 4294967296 - 2147483648
/-- `x & c` for a Go signed integer `x` (two's complement, 64 bits) and a non-negative constant `c` -/
def landNat (x : Int) (c : Nat) : Nat := (x % 18446744073709551616).toNat &&& c

/-- `su.Qint` -/
def qint (c : Bool) (a b : Int) : Int := if c then a else b

/-- `su.MapValue` (Go `/` truncates) -/
def mapValue (x inMin inMax outMin outMax : Int) : Int :=
  Int.tdiv ((x - inMin) * (outMax - outMin)) (inMax - inMin) + outMin
/-- `su.ConstrainValue` -/
def constrainValue (x lo hi : Int) : Int := if x < lo then lo else if x > hi then hi else x
/-- `su.MapAndConstrainValue` -/
def mapConstrain (x inMin inMax outMin outMax : Int) : Int :=
  constrainValue (mapValue x inMin inMax outMin outMax) outMin outMax

/-- `su.MapAndConstrainValue(int(c), 0, 0xFF, 0, 0x3) & 0x3` -/
def quant2 (c : Nat) : Nat := landNat (mapConstrain c 0 255 0 3) 3

/-- `convertToColorInteger` -/
def colorInt (c : Color) : Nat :=
  match c.rgb with
  | some rgb => 64 ||| (quant2 rgb.red <<< 4) ||| (quant2 rgb.green <<< 2) ||| (quant2 rgb.blue <<< 0)
  | none =>
    match c.index with
    | some i => landNat i 31
    | none => 0

/-- `uint32(su.MapAndConstrainValue(k, 0, 0x3, 0, 0xFF))` -/
def expand2 (k : Nat) : Nat := u32 (mapConstrain k 0 3 0 255)

/-- `convertToColorStruct` -/
def colorStruct (v : Int) : Color :=
  if landNat v 64 > 0 then
    { rgb := some { red := expand2 (landNat (v >>> 4) 3), green := expand2 (landNat (v >>> 2) 3), blue := expand2 (landNat (v >>> 0) 3) } }
  else
    { index := some (landNat v 31 : Nat) }

/-- `proto.Equal(t, &rwp.HWCText{})` (no unknown fields: the harness decodes with `DiscardUnknown`) -/
def textIsEmpty (t : Text) : Bool := t == {}
/-- `proto.Equal(g, &rwp.HWCGfx{})` -/
def gfxIsEmpty (g : Gfx) : Bool := g == {}

end RawPanelVerif.Model.In
