import RawPanelVerif.Model.Net
/-!
# Net model — the writer goroutine of `ConnectToPanel` (connecttopanel.go 133-174) as labelled transition systems

* `WSt` / `wstep` / `wrun`   one connection, one writer goroutine: the channel hands message lists over in send order;
  the writer receives a list (`take`) and performs one `conn.Write` per message (binary: header + marshalled
  bytes) / per converter line (ASCII: line + LF).  A `conn.Write` either puts the whole chunk on the wire
  (`writeOk`), or returns an error after a proper prefix of it: because the connection's *write deadline* has passed
  (`writeTimeout`; not sticky: a later write succeeds again once the deadline is re-armed) or because the connection
  is broken (`writeError`; sticky: every later write puts nothing on the wire).  The code ignores the error and goes
  on with the next chunk (`log.Should(err)`, 162-163, 169).  The reader goroutine's `Set…Deadline` calls act on the
  same connection: label `readerOp op now`, enabled for the ops of the configuration only.
* `RSt` / `rstep` / `rrun`   reconnects: every connection gets its own writer goroutine, all of them receive from the
  same channel.  On loss of a connection the main goroutine tells that connection's writer to stop (`close(quit)`,
  235: the signal stays visible for ever, the writer sees it at its next `select`); after the retry period a new
  connection and a new writer are created.  A writer whose connection is gone and that receives a list writes it to
  a closed connection: the list is lost.

Opaque: marshalled bytes and converter lines (`Submission`).  Atomicity: one label = one Go statement group; a
`conn.Write` of one chunk is one label (its bytes are contiguous on the wire: `net.Conn` serialises concurrent
`Write` calls, and there is one writer per connection anyway: `single_writer`).
-/
namespace RawPanelVerif.Net

/-- the chunks (one `conn.Write` each) of one message list -/
def chunks : Mode → Submission → List Bytes
  | .binary, s => s.msgs.map frame
  | .ascii, s => s.lines.map (· ++ [10])

theorem writeOne_eq_chunks (m : Mode) (s : Submission) : writeOne m s = (chunks m s).flatten := by
  cases m <;> rfl

/-! ## One connection -/

structure WSt where
  pending : List Submission   -- sends in progress / buffered, in channel order
  taken : List Submission     -- received by the writer so far
  cur : List Bytes            -- chunks of the list being written that have not been passed to `conn.Write` yet
  written : Bytes             -- what reached the wire
  wdl : Option Nat            -- the connection's write deadline
  rdl : Option Nat            -- the connection's read deadline (the reader's business; here for `readerOp` only)
  broken : Bool               -- a write failed with a non-timeout error
  failed : Bool               -- ghost: some `conn.Write` returned an error
  deriving DecidableEq, Repr

inductive WLbl
  | submit (s : Submission)         -- some goroutine's `msgsToPanel <- s` is ordered into the channel
  | take                            -- writer: `incomingMessages := <-msgsToPanel` (the previous list is done)
  | writeOk (now : Nat)             -- `conn.Write(chunk)` returns `len(chunk), nil`
  | writeTimeout (now k : Nat)      -- … returns `k, timeout` (write deadline passed), `k < len(chunk)`
  | writeError (now k : Nat)        -- … returns `k, err` (connection broken), `k < len(chunk)`
  | readerOp (op : DlOp) (now : Nat) -- the reader goroutine executes one of its `Set…Deadline` calls
  deriving DecidableEq, Repr

def WSt.init : WSt := ⟨[], [], [], [], none, none, false, false⟩

/-- the write deadline `wdl` has passed at `now` -/
def wExpired (wdl : Option Nat) (now : Nat) : Bool :=
  match wdl with
  | some d => decide (d ≤ now)
  | none => false

def wstep (cfg : Cfg) (m : Mode) (s : WSt) : WLbl → Option WSt
  | .submit x => some { s with pending := s.pending ++ [x] }
  | .take =>
    match s.cur, s.pending with
    | [], x :: r => some { s with pending := r, taken := s.taken ++ [x], cur := chunks m x }
    | _, _ => none
  | .writeOk now =>
    match s.cur with
    | c :: rest =>
      if s.broken = false ∧ wExpired s.wdl now = false then some { s with cur := rest, written := s.written ++ c } else none
    | [] => none
  | .writeTimeout now k =>
    match s.cur with
    | c :: rest =>
      if s.broken = false ∧ wExpired s.wdl now = true ∧ k < c.length then
        some { s with cur := rest, written := s.written ++ c.take k, failed := true }
      else none
    | [] => none
  | .writeError _ k =>
    match s.cur with
    | c :: rest =>
      if k < c.length then
        some { s with cur := rest, written := s.written ++ (if s.broken then [] else c.take k), broken := true, failed := true }
      else none
    | [] => none
  | .readerOp op now =>
    if op ∈ cfg.ops then
      let d := op.apply now ⟨s.rdl, s.wdl⟩
      some { s with rdl := d.rd, wdl := d.wr }
    else none

def wrun (cfg : Cfg) (m : Mode) : WSt → List WLbl → Option WSt
  | s, [] => some s
  | s, l :: ls => match wstep cfg m s l with
    | none => none
    | some s' => wrun cfg m s' ls

def submitted : List WLbl → List Submission
  | [] => []
  | .submit x :: r => x :: submitted r
  | _ :: r => submitted r

/-! ## Reconnects: one writer goroutine per connection, one channel -/

/-- how the main goroutine tells a connection's writer to stop when the connection is lost -/
inductive QuitMode
  | closeChan      -- `close(quit)` (235): visible to the writer whenever it next looks
  | trySend        -- a non-blocking `quit <- true`: seen only if the writer is waiting in its `select` right now
  deriving DecidableEq, Repr

structure Writer where
  conn : Nat        -- the connection this goroutine writes to
  quit : Bool       -- its stop signal is visible
  busy : Bool       -- it is inside `conn.Write` (not at its `select`)
  deriving DecidableEq, Repr

/-- a handed-over list with ghost stamps -/
structure Sub where
  id : Nat
  conn : Nat        -- the connection that was up when it was handed over (0: none)
  deriving DecidableEq, Repr

structure RSt where
  gen : Nat                   -- connections established so far; the current one is number `gen`
  up : Bool                   -- connection `gen` is up (between its `onconnect` and its loss)
  writers : List Writer       -- the writer goroutines that exist
  chan : List Sub             -- `msgsToPanel`, in send order
  wire : List (Nat × Sub)     -- (connection, list): written to a connection that was up
  lost : List (Nat × Sub × Bool)   -- (connection, list, some connection was up then): written to a connection
                              -- that was already gone
  nextId : Nat
  deriving DecidableEq, Repr

inductive RLbl
  | connect                -- dial + probe succeeded: new connection, new writer goroutine, `onconnect`
  | lose                   -- the reader loop of the current connection ended: quit signal, `conn.Close()`, `ondisconnect`
  | submit                 -- a goroutine hands a list over
  | take (i : Nat)         -- writer i receives the list at the head of the channel and writes it
  | block (i : Nat)        -- writer i enters a `conn.Write` that does not return yet
  | unblock (i : Nat)      -- … it returns
  | exit (i : Nat)         -- writer i sees its stop signal at the `select` and returns
  deriving DecidableEq, Repr

def RSt.init : RSt := ⟨0, false, [], [], [], [], 0⟩

def removeAt {α : Type} : List α → Nat → List α
  | [], _ => []
  | _ :: r, 0 => r
  | a :: r, i + 1 => a :: removeAt r i

/-- `connect` carries the timing assumption of the model: the retry period (≥ 1 s) is long enough for every writer
whose stop signal is visible to have returned.  A writer that never got the signal is not covered by it. -/
def rstep (q : QuitMode) (s : RSt) : RLbl → Option RSt
  | .connect =>
    if s.up = false ∧ s.writers.all (fun w => !w.quit) then
      some { s with gen := s.gen + 1, up := true, writers := s.writers ++ [⟨s.gen + 1, false, false⟩] }
    else none
  | .lose =>
    if s.up then
      some { s with up := false,
                    writers := s.writers.map (fun w =>
                      if w.conn = s.gen then
                        (match q with
                         | .closeChan => { w with quit := true }
                         | .trySend => if w.busy then w else { w with quit := true })
                      else w) }
    else none
  | .submit => some { s with chan := s.chan ++ [⟨s.nextId, if s.up then s.gen else 0⟩], nextId := s.nextId + 1 }
  | .take i =>
    match s.writers[i]?, s.chan with
    | some w, x :: r =>
      if w.busy then none
      else if w.conn = s.gen ∧ s.up then some { s with chan := r, wire := s.wire ++ [(w.conn, x)] }
      else some { s with chan := r, lost := s.lost ++ [(w.conn, x, s.up)] }
    | _, _ => none
  | .block i =>
    match s.writers[i]? with
    | some w => if w.busy then none else some { s with writers := s.writers.set i { w with busy := true } }
    | none => none
  | .unblock i =>
    match s.writers[i]? with
    | some w => if w.busy then some { s with writers := s.writers.set i { w with busy := false } } else none
    | none => none
  | .exit i =>
    match s.writers[i]? with
    | some w => if w.quit ∧ ¬ w.busy then some { s with writers := removeAt s.writers i } else none
    | none => none

def rrun (q : QuitMode) : RSt → List RLbl → Option RSt
  | s, [] => some s
  | s, l :: ls => match rstep q s l with
    | none => none
    | some s' => rrun q s' ls

end RawPanelVerif.Net
