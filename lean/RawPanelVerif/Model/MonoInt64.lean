import RawPanelVerif.Model.Mono
/-!
# Overflow-carrying form of the mono drawing model: is Go's `int` (int64) faithfully modelled by `Int`?

`Model/Mono.lean` computes with unbounded integers.  Here every value the Go code computes in an `int` variable or
sub-expression is passed through `withChk`, which fails (`none`) as soon as a value leaves `(-2^62, 2^62)` — a quarter of
the int64 range.  Same functions, same order of evaluation as the Go source (`x += bbox_x`, `bbox_width+bbox_x`,
`y*widthInBytes + x/8`, `for i := x; i < x+w; i++`, the Bresenham variables, `x+w-r-1`, `(w+7)/8`, `j*byteWidth + i/8`,
`(cWidth-1)*textsizeH`, the cursor advance, `StrWidth`'s running sum, …).  Byte / `uint32` arithmetic is modelled modulo
in `Model/Mono.lean` already and is not re-checked.

`Lemmas/MonoInt64.lean` / `C16.int64_safe`: when every argument, canvas size and bounding-box field is below `2^31` in
magnitude (strings of at most `2^22` characters) no check ever fails and the result is the one `Model/Mono.lean`
computes — so on that domain no Go `int` operation overflows and the `Int` model is exact.  Beyond it nothing is claimed:
Go wraps around silently.
-/
namespace RawPanelVerif.Mono
open RawPanelVerif.Gen

deriving instance DecidableEq for Circ

def InR (v : Int) : Prop := -4611686018427387904 < v ∧ v < 4611686018427387904
instance (v : Int) : Decidable (InR v) := by unfold InR; infer_instance

/-- use the value of an `int` expression: fails when it is not safely inside int64 -/
def withChk {α : Type} (v : Int) (k : Int → Option α) : Option α := if InR v then k v else none

/-- `for i := 0; i < n; i++ { c = f c i }`, stopping at the first failure -/
def loop64 (f : Canvas → Nat → Option Canvas) : Nat → Canvas → Option Canvas
  | 0, c => some c
  | n + 1, c =>
    match loop64 f n c with
    | none => none
    | some c' => f c' n

def then64 (a : Option Canvas) (f : Canvas → Option Canvas) : Option Canvas :=
  match a with
  | none => none
  | some c => f c

/-- `DrawPixel`: `x += bbox_x; y += bbox_y; bbox_width+bbox_x; bbox_height+bbox_y; y*widthInBytes + x/8` -/
def drawPixel64 (c : Canvas) (x y : Int) (col : Bool) : Option Canvas :=
  withChk (x + c.geo.bx) fun X =>
  withChk (y + c.geo.byy) fun Y =>
  withChk (c.geo.bw + c.geo.bx) fun _ =>
  withChk (c.geo.bh + c.geo.byy) fun _ =>
  if inClip c.geo X Y then
    withChk (Y * c.geo.wib) fun yw =>
    withChk (yw + X.tdiv 8) fun index =>
    if 0 ≤ index ∧ index < c.bytes.size then
      let s : Nat := (7 - X.tmod 8).toNat
      let i := index.toNat
      some { c with bytes := c.bytes.setIfInBounds i (setBit (c.bytes.getD i 0) s (col != c.geo.inv)) }
    else some c
  else some c

def vline64 (c : Canvas) (x y h : Int) (col : Bool) : Option Canvas :=
  loop64 (fun c i => withChk (y + i) fun yy => drawPixel64 c x yy col) h.toNat c

def hline64 (c : Canvas) (x y w : Int) (col : Bool) : Option Canvas :=
  loop64 (fun c i => withChk (x + i) fun xx => drawPixel64 c xx y col) w.toNat c

/-- `for i := x; i < x+w; i++` -/
def fillRect64 (c : Canvas) (x y w h : Int) (col : Bool) : Option Canvas :=
  withChk (x + w) fun _ =>
  loop64 (fun c i => withChk (x + i) fun xx => vline64 c xx y h col) w.toNat c

/-- loop variables of the corner loops after one more round, every update checked -/
def circNext64 (s : Circ) : Option Circ :=
  if s.f ≥ 0 then
    withChk (s.y - 1) fun y' => withChk (s.ddFy + 2) fun d' => withChk (s.f + d') fun f' =>
    withChk (s.x + 1) fun x' => withChk (s.ddFx + 2) fun e' => withChk (f' + e') fun f'' =>
    some { f := f'', ddFx := e', ddFy := d', x := x', y := y' }
  else
    withChk (s.x + 1) fun x' => withChk (s.ddFx + 2) fun e' => withChk (s.f + e') fun f'' =>
    some { f := f'', ddFx := e', ddFy := s.ddFy, x := x', y := s.y }

def px2_64 (c : Canvas) (x1 y1 x2 y2 : Int) (col : Bool) : Option Canvas :=
  withChk x1 fun a => withChk y1 fun b => then64 (drawPixel64 c a b col) fun c =>
  withChk x2 fun a => withChk y2 fun b => drawPixel64 c a b col

def circPlot64 (c : Canvas) (x0 y0 corner : Int) (col : Bool) (x y : Int) : Option Canvas :=
  then64 (if cornerBit corner 4 then px2_64 c (x0 + x) (y0 + y) (x0 + y) (y0 + x) col else some c) fun c =>
  then64 (if cornerBit corner 2 then px2_64 c (x0 + x) (y0 - y) (x0 + y) (y0 - x) col else some c) fun c =>
  then64 (if cornerBit corner 8 then px2_64 c (x0 - y) (y0 + x) (x0 - x) (y0 + y) col else some c) fun c =>
  if cornerBit corner 1 then px2_64 c (x0 - y) (y0 - x) (x0 - x) (y0 - y) col else some c

def drawCircleHelperLoop64 (c : Canvas) (x0 y0 corner : Int) (col : Bool) (s : Circ) : Option Canvas :=
  if h : s.x < s.y then
    match circNext64 s with
    | none => none
    | some s' =>
      if hs : s' = s.next then
        match circPlot64 c x0 y0 corner col s'.x s'.y with
        | none => none
        | some c' => drawCircleHelperLoop64 c' x0 y0 corner col s.next
      else none
  else some c
termination_by (s.y - s.x).toNat
decreasing_by exact Circ.next_measure s h

/-- `f := 1 - r; ddF_y := -2 * r` -/
def circInit64 (r : Int) : Option Circ :=
  withChk (1 - r) fun f => withChk (-2 * r) fun d => some { f := f, ddFx := 1, ddFy := d, x := 0, y := r }

def drawCircleHelper64 (c : Canvas) (x0 y0 r corner : Int) (col : Bool) : Option Canvas :=
  match circInit64 r with
  | none => none
  | some s => drawCircleHelperLoop64 c x0 y0 corner col s

def vline2_64 (c : Canvas) (x1 y1 h1 x2 y2 h2 : Int) (col : Bool) : Option Canvas :=
  withChk x1 fun a => withChk y1 fun b => withChk h1 fun hh => then64 (vline64 c a b hh col) fun c =>
  withChk x2 fun a => withChk y2 fun b => withChk h2 fun hh => vline64 c a b hh col

def fillCircPlot64 (c : Canvas) (x0 y0 corner delta : Int) (col : Bool) (x y : Int) : Option Canvas :=
  withChk (2 * y) fun _ => withChk (2 * x) fun _ =>
  then64 (if cornerBit corner 1 then
      vline2_64 c (x0 + x) (y0 - y) (2 * y + 1 + delta) (x0 + y) (y0 - x) (2 * x + 1 + delta) col else some c) fun c =>
  if cornerBit corner 2 then
      vline2_64 c (x0 - x) (y0 - y) (2 * y + 1 + delta) (x0 - y) (y0 - x) (2 * x + 1 + delta) col else some c

def fillCircleHelperLoop64 (c : Canvas) (x0 y0 corner delta : Int) (col : Bool) (s : Circ) : Option Canvas :=
  if h : s.x < s.y then
    match circNext64 s with
    | none => none
    | some s' =>
      if hs : s' = s.next then
        match fillCircPlot64 c x0 y0 corner delta col s'.x s'.y with
        | none => none
        | some c' => fillCircleHelperLoop64 c' x0 y0 corner delta col s.next
      else none
  else some c
termination_by (s.y - s.x).toNat
decreasing_by exact Circ.next_measure s h

def fillCircleHelper64 (c : Canvas) (x0 y0 r corner delta : Int) (col : Bool) : Option Canvas :=
  match circInit64 r with
  | none => none
  | some s => fillCircleHelperLoop64 c x0 y0 corner delta col s

def drawRoundRect64 (c : Canvas) (x y w h r : Int) (col : Bool) : Option Canvas :=
  withChk (x + r) fun xr => withChk (2 * r) fun r2 => withChk (w - r2) fun wr => withChk (h - r2) fun hr =>
  withChk (y + h) fun yh => withChk (yh - 1) fun yh1 => withChk (y + r) fun yr =>
  withChk (x + w) fun xw => withChk (xw - 1) fun xw1 => withChk (xw - r) fun xwr => withChk (xwr - 1) fun xwr1 =>
  withChk (yh - r) fun yhr => withChk (yhr - 1) fun yhr1 =>
  then64 (hline64 c xr y wr col) fun c =>
  then64 (hline64 c xr yh1 wr col) fun c =>
  then64 (vline64 c x yr hr col) fun c =>
  then64 (vline64 c xw1 yr hr col) fun c =>
  then64 (drawCircleHelper64 c xr yr r 1 col) fun c =>
  then64 (drawCircleHelper64 c xwr1 yr r 2 col) fun c =>
  then64 (drawCircleHelper64 c xwr1 yhr1 r 4 col) fun c =>
  drawCircleHelper64 c xr yhr1 r 8 col

def fillRoundRect64 (c : Canvas) (x y w h r : Int) (col : Bool) : Option Canvas :=
  withChk (x + r) fun xr => withChk (2 * r) fun r2 => withChk (w - r2) fun wr =>
  withChk (x + w) fun xw => withChk (xw - r) fun xwr => withChk (xwr - 1) fun xwr1 => withChk (y + r) fun yr =>
  withChk (h - r2) fun hr => withChk (hr - 1) fun hr1 =>
  then64 (fillRect64 c xr y wr h col) fun c =>
  then64 (fillCircleHelper64 c xwr1 yr r 1 hr1 col) fun c =>
  fillCircleHelper64 c xr yr r 2 hr1 col

/-- `byteWidth := (w + 7) / 8; idx := j*byteWidth + i/8; x+i; y+j` -/
def drawBitmap64 (c : Canvas) (x y : Int) (bitmap : Array UInt8) (w h : Int) (col inverted drawAll : Bool) : Option Canvas :=
  withChk (w + 7) fun w7 =>
  let byteWidth : Nat := (w7.tdiv 8).toNat
  loop64 (fun c j =>
    loop64 (fun c i =>
      withChk ((j : Int) * byteWidth) fun jb => withChk (jb + (i / 8 : Nat)) fun _ =>
      let idx := j * byteWidth + i / 8
      if idx < bitmap.size then
        let theBit : Bool := (((bitmap.getD idx 0).toNat &&& (128 >>> (i % 8))) != 0) != inverted
        if drawAll || theBit then
          withChk (x + i) fun xx => withChk (y + j) fun yy => drawPixel64 c xx yy (col != (!theBit))
        else some c
      else some c) w.toNat c) h.toNat c

def drawBlock64 (c : Canvas) (x y : Int) (i j : Nat) (tsH tsV : Int) (col : Bool) : Option Canvas :=
  if tsH = 1 ∧ tsV = 1 then withChk (x + i) fun xx => withChk (y + j) fun yy => drawPixel64 c xx yy col
  else
    withChk (i * tsH) fun ih => withChk (x + ih) fun xx => withChk (j * tsV) fun jv => withChk (y + jv) fun yy =>
    fillRect64 c xx yy tsH tsV col

/-- `DrawChar`: `(cWidth-1)*textsizeH`, `GetBWidth() - …`, `x + fontBBWidth*textsizeH - 1`, `y + fontBBHeight*textsizeV - 1` -/
def drawChar64 (c : Canvas) (t : TextSt) (x y : Int) (ch : Nat) (col bg : Bool) (tsH tsV : Int) : Option Canvas :=
  let p := t.fp
  let cw : Nat := charWidth t ch
  withChk (((cw : Int) - 1) * tsH) fun a => withChk (getBWidth c.geo - a) fun lim =>
  withChk ((p.bbW : Int) * tsH) fun b => withChk (x + b) fun xb => withChk (xb - 1) fun xb1 =>
  withChk ((p.bbH : Int) * tsV) fun d => withChk (y + d) fun yd => withChk (yd - 1) fun yd1 =>
  if x > lim ∨ y > c.geo.H ∨ xb1 < 0 ∨ yd1 < 0 then some c
  else
    loop64 (fun c i =>
      let column := glyphColumn t ch cw i
      loop64 (fun c j =>
        if (column >>> j) % 2 = 1 then drawBlock64 c x y i j tsH tsV col
        else if bg != col then drawBlock64 c x y i j tsH tsV bg
        else some c) p.bbH c) cw c

/-- `writeChar`: `textsizeV*fontBBHeight`, `cursor_y += …`, `textsizeH*cWidth + spacing`, `cursor_x += …`,
`textsizeH*(cWidth-1)`, `GetBWidth() - …` -/
def writeChar64 (ct : Canvas × TextSt) (ch : Nat) : Option (Canvas × TextSt) :=
  let (c, t) := ct
  if ch = 10 then
    withChk (lineAdvance t) fun la => withChk (t.cy + la) fun cy' => some (c, { t with cy := cy', cx := 0 })
  else if ch = 13 then some (c, t)
  else
    match drawChar64 c t t.cx t.cy ch t.tcol t.tbg t.tsH t.tsV with
    | none => none
    | some c' =>
      let cw : Int := charWidth t ch
      withChk (t.tsH * cw) fun a => withChk (a + t.spacing) fun adv => withChk (t.cx + adv) fun cx' =>
      withChk (t.tsH * (cw - 1)) fun b => withChk (getBWidth c.geo - b) fun lim =>
      if t.wrap ∧ cx' > lim then
        withChk (lineAdvance t) fun la => withChk (t.cy + la) fun cy' => some (c', { t with cy := cy', cx := 0 })
      else some (c', { t with cx := cx' })

def renderText64 : Canvas × TextSt → List Nat → Option (Canvas × TextSt)
  | ct, [] => some ct
  | ct, ch :: rest =>
    match writeChar64 ct ch with
    | none => none
    | some ct' => renderText64 ct' rest

/-- `StrWidth`: `width += int(GetCharWidth(c))*textsizeH + spacing; return width - textsizeH` -/
def strWidthAcc64 (t : TextSt) : Int → List Nat → Option Int
  | w, [] => some w
  | w, ch :: rest =>
    withChk ((charWidth t ch : Int) * t.tsH) fun a => withChk (a + t.spacing) fun b => withChk (w + b) fun w' =>
    strWidthAcc64 t w' rest

def strWidth64 (t : TextSt) (s : List Nat) : Option Int :=
  match strWidthAcc64 t 0 s with
  | none => none
  | some w => withChk (w - t.tsH) fun r => some r

def applyOp64 (c : Canvas) : Op → Option Canvas
  | .px x y col => drawPixel64 c x y col
  | .hline x y w col => hline64 c x y w col
  | .vline x y h col => vline64 c x y h col
  | .frect x y w h col => fillRect64 c x y w h col
  | .rrect x y w h r col => drawRoundRect64 c x y w h r col
  | .frrect x y w h r col => fillRoundRect64 c x y w h r col
  | .circ x0 y0 r k col => drawCircleHelper64 c x0 y0 r k col
  | .fcirc x0 y0 r k d col => fillCircleHelper64 c x0 y0 r k d col
  | .bitmap x y bits w h col i a => drawBitmap64 c x y bits w h col i a
  | .glyph t x y ch col bg h v => drawChar64 c t x y ch col bg h v
  | .text t s => (renderText64 (c, t) s).map (·.1)
  | .bbox x y w h => some (setBoundingBox c x y w h)
  | .inv b => some (invertPixels c b)

end RawPanelVerif.Mono
