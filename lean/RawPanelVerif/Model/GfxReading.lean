import RawPanelVerif.Model.Gfx
import RawPanelVerif.Spec.GfxSpec
/-!
# The decoder's reading of a line, as a Spec-level chunk (definitions only; no proofs, so the driver can import it)

`readLine` is what the C05 safety theorems use for "the chunk a line denotes": the groups of the decoder's own
matcher, packaged as a `Spec.Gfx.Chunk`. The Spec's independently written grammar `Spec.Gfx.parseLine` is compared
with it by the driver on every line of every record.
-/
namespace RawPanelVerif.Gfx
open RawPanelVerif

def specImg (ids : List Nat) (i : Img) : Spec.Gfx.Img :=
  { ids := ids, fmt := i.ty, W := i.W, H := i.H, off := i.off, X := i.X, Y := i.Y, data := i.data }

/-- `strconv.Atoi` without the 64-bit clamp -/
def atoiNat (ds : Bytes) : Nat := if ds.isEmpty ∨ !ds.all isDigit then 0 else natOfDigits ds

/-- the digit string denotes a number below 2^32 (what survives `uint32(su.Intval(s))` unchanged) -/
def u32B (s : Bytes) : Bool := natOfDigits s < 2 ^ 32

/-- … below 2^63 (what `strconv.Atoi` returns without clamping) -/
def intB (s : Bytes) : Bool := natOfDigits s < 2 ^ 63

def chunkOf (m : Sub) : Spec.Gfx.Chunk :=
  { fmt := typeOfPrefix m.g1, ids := m.g2, idx := atoiNat m.g3,
    hdr := if m.g4 = [] then none else
      some ⟨atoiNat m.g5, atoiNat m.g6, atoiNat m.g7,
        if m.g8 = [] then none else some (atoiNat m.g9, atoiNat m.g10)⟩,
    payload := B64.decode? m.g11,
    small := (splitComma m.g2).all u32B && intB m.g3 &&
      (m.g4 = [] || (intB m.g5 && u32B m.g6 && u32B m.g7 && (m.g8 = [] || (u32B m.g9 && u32B m.g10)))) }

/-- the chunk a line denotes for the decoder (`none`: not a graphics line) -/
def readLine (l : Bytes) : Option Spec.Gfx.Chunk := (matchGfx l).map chunkOf

end RawPanelVerif.Gfx
