import RawPanelVerif.Model.MsgIn
import RawPanelVerif.Model.Strip
import RawPanelVerif.Base.B64In
import RawPanelVerif.Gen.Consts
/-!
# Model of `InboundMessagesToRawPanelASCIIstrings` (converterFunctions.go 654-963)

One definition per section of the Go function, same order of emission.  The two Go constructs that can panic are
kept visible in `Except Panic`:
* line 873 `stateRec.HWCText.TextStyling.UnformattedFontSize` (nil `TextStyling` with formatting 10/11) — the
  *pinned* tree dereferences (`pinned := true`), the repaired tree reads 0 through the protobuf getters;
* the slice expression `ImageData[lines*170 : lines*170+segmentLength]` of the chunk loop.
`encIn` is the repaired function, `encInPinned` the pinned one.
-/
namespace RawPanelVerif.Model.In
open RawPanelVerif RawPanelVerif.Bytes RawPanelVerif.MsgIn

/-- `fmt.Sprintf("%d", x)` / `strconv.Itoa(int(x))` for an unsigned field -/
def utoa (n : Nat) : Bytes := itoa (n : Int)

/-! ## flow, commands -/

def flowLines (f : Int) : List Bytes :=
  if f = 2 then [asc "ack"] else if f = 3 then [asc "nack"] else if f = 1 then [asc "ping"] else []

def flag (b : Bool) (w : Bytes) : List Bytes := if b then [w] else []

def optLine {α : Type} (o : Option α) (f : α → List Bytes) : List Bytes :=
  match o with
  | some a => f a
  | none => []

def envLine (m : Int) : List Bytes :=
  if m = 0 then [asc "SimulateEnvironmentalHealth=Normal"]
  else if m = 1 then [asc "SimulateEnvironmentalHealth=Safemode"]
  else if m = 2 then [asc "SimulateEnvironmentalHealth=Blocked"]
  else []

def b01 (b : Bool) : Bytes := if b then asc "1" else asc "0"

/-- the 29 command fields in emission order (lines 669-764) -/
def cmdLines (O : Oracles) (c : Command) : List Bytes :=
  flag c.activatePanel (asc "ActivePanel=1") ++
  flag c.sendPanelInfo (asc "list") ++
  flag c.reportHWCavailability (asc "map") ++
  flag c.sendPanelTopology (asc "PanelTopology?") ++
  flag c.sendBurninProfile (asc "BurninProfile?") ++
  flag c.sendCalibrationProfile (asc "CalibrationProfile?") ++
  flag c.sendNetworkConfig (asc "NetworkConfig?") ++
  flag c.sendRegisters (asc "Registers?") ++
  flag c.getConnections (asc "Connections?") ++
  flag c.getRunTimeStats (asc "RunTimeStats?") ++
  flag c.clearAll (asc "Clear") ++
  flag c.clearLEDs (asc "ClearLEDs") ++
  flag c.clearDisplays (asc "ClearDisplays") ++
  flag c.getSleepTimeout (asc "SleepTimer?") ++
  flag c.wakeUp (asc "WakeUp!") ++
  flag c.reboot (asc "Reboot") ++
  optLine c.panelBrightness (fun p => [asc "PanelBrightness=" ++ utoa p.1 ++ asc "," ++ utoa p.2]) ++
  optLine c.setCalibrationProfile (fun j => [asc "SetCalibrationProfile=" ++ Strip.stripLineBreaks j]) ++
  optLine c.setNetworkConfig (fun n => [asc "SetNetworkConfig=" ++ O.netJson n]) ++
  optLine c.simulateEnvironmentalHealth envLine ++
  optLine c.setSleepTimeout (fun v => [asc "SleepTimer=" ++ utoa v]) ++
  optLine c.setSleepMode (fun v => [asc "SleepMode=" ++ itoa v]) ++
  optLine c.setSleepScreenSaver (fun v => [asc "SleepScreenSaver=" ++ itoa v]) ++
  optLine c.setDimmedGain (fun v => [asc "DimmedGain=" ++ utoa v]) ++
  optLine c.setHeartBeatTimer (fun v => [asc "HeartBeatTimer=" ++ utoa v]) ++
  optLine c.publishSystemStat (fun v => [asc "PublishSystemStat=" ++ utoa v]) ++
  optLine c.loadCPU (fun v => [asc "LoadCPU=" ++ itoa v]) ++
  optLine c.setWebserverEnabled (fun v => [asc "Webserver=" ++ b01 v]) ++
  optLine c.jsonConfig (fun v => [asc "JSONonOutbound=" ++ b01 v])

/-! ## per-id state lines: bit packing (772-792) -/

/-- `uint32(State&0x7) | uint32((BlinkPattern&0xF)<<8) | uint32(su.Qint(Output, 0b100000, 0))` -/
def modeInt (m : Mode) : Nat :=
  landNat m.state 7 ||| ((m.blink &&& 15) <<< 8) ||| (if m.output then 32 else 0)

def modeLines (id : Nat) (m : Option Mode) : List Bytes :=
  optLine m (fun m => [asc "HWC#" ++ utoa id ++ asc "=" ++ utoa (modeInt m)])

def colorRGBInt (c : ColorRGB) : Nat :=
  192 ||| (quant2 c.red <<< 4) ||| (quant2 c.green <<< 2) ||| (quant2 c.blue <<< 0)

def colorIndexInt (i : Int) : Nat := 128 ||| landNat i 31

def colorLines (id : Nat) (c : Option Color) : List Bytes :=
  optLine c (fun c =>
    match c.rgb with
    | some rgb => [asc "HWCc#" ++ utoa id ++ asc "=" ++ utoa (colorRGBInt rgb)]
    | none =>
      match c.index with
      | some i => [asc "HWCc#" ++ utoa id ++ asc "=" ++ utoa (colorIndexInt i)]
      | none => [])

/-- `uint32(Value&0xFFF) | uint32((Interpretation&0xF)<<12)` -/
def extInt (e : Ext) : Nat := (e.value &&& 4095) ||| (landNat e.interp 15 <<< 12)

def extLines (id : Nat) (e : Option Ext) : List Bytes :=
  optLine e (fun e => [asc "HWCx#" ++ utoa id ++ asc "=" ++ utoa (extInt e)])

/-! ## the 21 text fields (793-880) -/

def fontFaceBits (ts : TextStyle) : Nat :=
  (match ts.textFont with | some f => landNat f.face 7 <<< 0 | none => 0) |||
  (match ts.titleFont with | some f => landNat f.face 7 <<< 3 | none => 0) |||
  ((if ts.fixedWidth then 1 else 0) <<< 6)

def fontSizeBits (ts : TextStyle) : Nat :=
  (match ts.textFont with | some f => ((f.width &&& 3) <<< 0) ||| ((f.height &&& 3) <<< 2) | none => 0) |||
  (match ts.titleFont with | some f => ((f.width &&& 3) <<< 4) ||| ((f.height &&& 3) <<< 6) | none => 0)

def advSettingsBits (ts : TextStyle) : Nat :=
  (ts.titleBarPadding &&& 3) ||| ((ts.extraSpacing &&& 7) <<< 2)

/-- `strconv.Itoa(x)` written only `if x > 0` -/
def posField (n : Nat) : Bytes := if n > 0 then utoa n else []

def iconInt (t : Text) : Nat := (landNat t.stateIcon 3 <<< 0) ||| (landNat t.modifierIcon 7 <<< 3)

def isFmt (f : Int) (l : List Int) : Bool := l.contains f

/-- field 0: value, font size (formats 10/11: the line that dereferences `TextStyling`), or empty (format 7) -/
def textField0 (pinned : Bool) (t : Text) : Except Panic Bytes :=
  if !isFmt t.formatting [7, 10, 11] then .ok (itoa t.integerValue)
  else if isFmt t.formatting [10, 11] then
    match t.textStyling with
    | some ts => .ok (utoa ts.unformattedFontSize)
    | none => if pinned then .error .nilDeref else .ok (utoa 0)
  else .ok []

/-- `Scale` counts only `if stateRec.HWCText.Scale != nil && stateRec.HWCText.Scale.ScaleType > 0` -/
def scaleOn (t : Text) : Option Scale :=
  match t.scale with
  | some s => if s.scaleType > 0 then some s else none
  | none => none

def scaleField (t : Text) (f : Scale → Int) : Bytes :=
  match scaleOn t with
  | some s => itoa (f s)
  | none => []

/-- fields 15-17: written only inside `if TextStyling != nil`, and only if `> 0` -/
def styleField (t : Text) (f : TextStyle → Nat) : Bytes :=
  match t.textStyling with
  | some ts => posField (f ts)
  | none => []

/-- fields 19, 20 -/
def colorField (c : Option Color) : Bytes :=
  match c with
  | some c => utoa (colorInt c)
  | none => []

/-- fields 1..20 in index order -/
def textFieldsTail (t : Text) : List Bytes :=
  [ /- 1 -/ (if t.formatting > 0 ∧ t.formatting ≠ 7 then itoa t.formatting else []),
    /- 2 -/ (if t.stateIcon > 0 ∨ t.modifierIcon > 0 then posField (iconInt t) else []),
    /- 3 -/ t.title,
    /- 4 -/ (if !t.solidHeaderBar then asc "1" else []),
    /- 5 -/ t.textline1,
    /- 6 -/ t.textline2,
    /- 7 -/ (if t.integerValue2 ≠ 0 then itoa t.integerValue2 else []),
    /- 8 -/ (if t.pairMode > 0 then itoa t.pairMode else []),
    /- 9 -/ scaleField t (·.scaleType),
    /- 10 -/ scaleField t (·.rangeLow),
    /- 11 -/ scaleField t (·.rangeHigh),
    /- 12 -/ scaleField t (·.limitLow),
    /- 13 -/ scaleField t (·.limitHigh),
    /- 14 -/ [],
    /- 15 -/ styleField t fontFaceBits,
    /- 16 -/ styleField t fontSizeBits,
    /- 17 -/ styleField t advSettingsBits,
    /- 18 -/ (if t.inverted then asc "1" else []),
    /- 19 -/ colorField t.pixelColor,
    /- 20 -/ colorField t.backgroundColor ]

def textFields (pinned : Bool) (t : Text) : Except Panic (List Bytes) :=
  match textField0 pinned t with
  | .ok f0 => .ok (f0 :: textFieldsTail t)
  | .error e => .error e

def textLines (pinned : Bool) (id : Nat) (t : Option Text) : Except Panic (List Bytes) :=
  match t with
  | none => .ok []
  | some t =>
    if textIsEmpty t then .ok []
    else match textFields pinned t with
      | .ok fs => .ok [asc "HWCt#" ++ utoa id ++ asc "=" ++ implodeRTE 124 fs]
      | .error e => .error e

/-! ## graphics chunking (881-905) -/

/-- Go slice expression `s[lo:hi]` (bounds checked against the length; panics otherwise) -/
def goSlice (s : Bytes) (lo hi : Int) : Except Panic Bytes :=
  if 0 ≤ lo ∧ lo ≤ hi ∧ hi ≤ s.length then .ok ((s.drop lo.toNat).take (hi - lo).toNat) else .error .sliceBounds

def gfxKeyword (imageType : Int) : Bytes :=
  if imageType = 2 then asc "HWCgGray" else if imageType = 1 then asc "HWCgRGB" else asc "HWCg"

/-- `int(math.Ceil(float64(len)/float64(bytesPerLine)))` -/
def totalLines (len : Nat) : Nat := (len + (Gen.bytesPerLine - 1)) / Gen.bytesPerLine

def gfxHeader (g : Gfx) (total : Nat) : Bytes :=
  asc "/" ++ itoa ((total : Int) - 1) ++ asc "," ++ utoa g.w ++ asc "x" ++ utoa g.h ++
  (if g.xyOffset then asc "," ++ utoa g.x ++ asc "," ++ utoa g.y else [])

/-- `ImageData[lines*bytesPerLine : lines*bytesPerLine+segmentLength]` with
`segmentLength := su.Qint(len-lines*bytesPerLine > bytesPerLine, bytesPerLine, len-lines*bytesPerLine)` -/
def gfxChunk (data : Bytes) (lines : Nat) : Except Panic Bytes :=
  let len : Int := data.length
  let bpl : Int := Gen.bytesPerLine
  let segmentLength : Int := if len - lines * bpl > bpl then bpl else len - lines * bpl
  goSlice data (lines * bpl) (lines * bpl + segmentLength)

def gfxLineOf (id : Nat) (g : Gfx) (total : Nat) (lines : Nat) (chunk : Bytes) : Bytes :=
  gfxKeyword g.imageType ++ asc "#" ++ utoa id ++ asc "=" ++ utoa lines ++
    (if lines = 0 then gfxHeader g total else []) ++ asc ":" ++ B64In.encode chunk

def gfxLine (id : Nat) (g : Gfx) (total : Nat) (lines : Nat) : Except Panic Bytes :=
  match gfxChunk g.imageData lines with
  | .ok chunk => .ok (gfxLineOf id g total lines chunk)
  | .error e => .error e

def mapE {α β : Type} (f : α → Except Panic β) : List α → Except Panic (List β)
  | [] => .ok []
  | a :: as =>
    match f a with
    | .ok b => (match mapE f as with | .ok bs => .ok (b :: bs) | .error e => .error e)
    | .error e => .error e

def gfxLines (id : Nat) (g : Option Gfx) : Except Panic (List Bytes) :=
  match g with
  | none => .ok []
  | some g =>
    if gfxIsEmpty g then .ok []
    else mapE (gfxLine id g (totalLines g.imageData.length)) (List.range (totalLines g.imageData.length))

def rawLines (id : Nat) (r : Option Bool) : List Bytes :=
  optLine r (fun en => [asc "HWCrawADCValues#" ++ utoa id ++ asc "=" ++ b01 en])

def procLines (p : Option Bytes) : List Bytes := optLine p (fun j => [j])

/-- everything one component id receives from one state record -/
def idLines (pinned : Bool) (s : State) (id : Nat) : Except Panic (List Bytes) :=
  match textLines pinned id s.text with
  | .error e => .error e
  | .ok t =>
    match gfxLines id s.gfx with
    | .error e => .error e
    | .ok g =>
      .ok (modeLines id s.mode ++ colorLines id s.color ++ extLines id s.ext ++ t ++ g ++ rawLines id s.rawADC ++
            procLines s.processors)

def stateLines (pinned : Bool) (s : State) : Except Panic (List Bytes) :=
  match mapE (idLines pinned s) s.ids with
  | .ok ls => .ok ls.flatten
  | .error e => .error e

/-! ## registers (913-926) -/

def regLine (r : Register) : List Bytes :=
  if r.reg = 0 then [asc "Mem" ++ r.id ++ asc "=" ++ utoa r.value]
  else if r.reg = 1 then [asc "Flag#" ++ r.id ++ asc "=" ++ utoa r.value]
  else if r.reg = 2 then [asc "Shift" ++ r.id ++ asc "=" ++ utoa r.value]
  else if r.reg = 3 then [asc "State" ++ r.id ++ asc "=" ++ utoa r.value]
  else []

/-! ## one message, all messages -/

def msgLines (O : Oracles) (pinned : Bool) (m : InMsg) : Except Panic (List Bytes) :=
  match mapE (stateLines pinned) m.states with
  | .error e => .error e
  | .ok ss =>
    .ok (flowLines m.flow ++ optLine m.command (cmdLines O) ++ ss.flatten ++ m.registers.flatMap regLine)

/-- the strings before the return-site flattening -/
def encRaw (O : Oracles) (pinned : Bool) (ms : List InMsg) : Except Panic (List Bytes) :=
  match mapE (msgLines O pinned) ms with
  | .ok ls => .ok ls.flatten
  | .error e => .error e

/-- `InboundMessagesToRawPanelASCIIstrings` (repaired tree): … `return flattenLineFeeds(returnStrings)` -/
def encInE (O : Oracles) (ms : List InMsg) : Except Panic (List Bytes) :=
  match encRaw O false ms with
  | .ok ls => .ok (ls.map Strip.singleLine)
  | .error e => .error e

/-- the pinned tree (nil dereference at line 873) -/
def encInPinnedE (O : Oracles) (ms : List InMsg) : Except Panic (List Bytes) :=
  match encRaw O true ms with
  | .ok ls => .ok (ls.map Strip.singleLine)
  | .error e => .error e

/-! ## pure form
`encIn` is the same function without the `Except` plumbing; `Lemmas/TotalIn.lean` proves
`encInE O ms = .ok (encIn O ms)` for all inputs (which is the totality statement of C06 for this converter). -/

def chunkAt (data : Bytes) (i : Nat) : Bytes := (data.drop (i * Gen.bytesPerLine)).take Gen.bytesPerLine

/-- `GetTextStyling().GetUnformattedFontSize()` -/
def ufsOf (t : Text) : Nat := match t.textStyling with | some ts => ts.unformattedFontSize | none => 0

def textField0P (t : Text) : Bytes :=
  if !isFmt t.formatting [7, 10, 11] then itoa t.integerValue
  else if isFmt t.formatting [10, 11] then utoa (ufsOf t)
  else []

def textLinesP (id : Nat) (t : Option Text) : List Bytes :=
  match t with
  | none => []
  | some t => if textIsEmpty t then [] else [asc "HWCt#" ++ utoa id ++ asc "=" ++ implodeRTE 124 (textField0P t :: textFieldsTail t)]

def gfxLinesP (id : Nat) (g : Option Gfx) : List Bytes :=
  match g with
  | none => []
  | some g =>
    if gfxIsEmpty g then []
    else (List.range (totalLines g.imageData.length)).map
      (fun i => gfxLineOf id g (totalLines g.imageData.length) i (chunkAt g.imageData i))

def idLinesP (s : State) (id : Nat) : List Bytes :=
  modeLines id s.mode ++ colorLines id s.color ++ extLines id s.ext ++ textLinesP id s.text ++ gfxLinesP id s.gfx ++
  rawLines id s.rawADC ++ procLines s.processors

def stateLinesP (s : State) : List Bytes := s.ids.flatMap (idLinesP s)

def msgLinesP (O : Oracles) (m : InMsg) : List Bytes :=
  flowLines m.flow ++ optLine m.command (cmdLines O) ++ m.states.flatMap stateLinesP ++ m.registers.flatMap regLine

def encRawP (O : Oracles) (ms : List InMsg) : List Bytes := ms.flatMap (msgLinesP O)

/-- `InboundMessagesToRawPanelASCIIstrings` as a total function -/
def encIn (O : Oracles) (ms : List InMsg) : List Bytes := (encRawP O ms).map Strip.singleLine

/-! ## the proto definitions this model was written against

`Message.field` for every field reachable from `InboundMessage` (ibeam_rawpanel/*.pb.go).  `protoFieldsRead`: the fields
the encoder model reads (all of `MsgIn`'s types, one structure field each).  `protoFieldsOpaque`: the sub-tree under
`HWCState.Processors`, which has no ASCII form of its own: the encoder writes the JSON text of the whole state
(`State.processors`, supplied by the harness), outside the ASCII-representable domain.  No field of an inbound message is
ignored unconditionally; which fields are read only under a condition is stated by `carried` below
(`C01.enc_ignores_unread`).  The harness prints the names from the real protobuf descriptors (`ein.fields` record); the
driver compares them with these two lists, so a field added to the proto definitions shows as a disagreement. -/

def protoFieldsRead : List String :=
  [
   "InboundMessage.FlowMessage", "InboundMessage.Command", "Command.ActivatePanel", "Command.SendPanelInfo",
   "Command.SendPanelTopology", "Command.SendRegisters", "Command.ReportHWCavailability",
   "Command.SendBurninProfile", "Command.SendCalibrationProfile", "Command.SendNetworkConfig",
   "Command.SetNetworkConfig", "NetworkConfig.dhcp", "NetworkConfig.address", "NetworkConfig.netmask",
   "NetworkConfig.gateway", "NetworkConfig.first_dns", "NetworkConfig.second_dns", "NetworkConfig.no_default_route",
   "Command.ClearAll", "Command.ClearLEDs", "Command.ClearDisplays", "Command.WakeUp", "Command.GetSleepTimeout",
   "Command.SetSleepTimeout", "SleepTimeout.Value", "Command.SetSleepMode", "SleepMode.Mode",
   "Command.SetSleepScreenSaver", "SleepScreenSaver.Type", "Command.SetWebserverEnabled", "WebserverState.Enabled",
   "Command.PanelBrightness", "Brightness.OLEDs", "Brightness.LEDs", "Command.SetHeartBeatTimer",
   "HeartBeatTimer.Value", "Command.GetConnections", "Command.SetDimmedGain", "DimmedGain.Value",
   "Command.GetRunTimeStats", "Command.PublishSystemStat", "PublishSystemStat.PeriodSec", "Command.LoadCPU",
   "LoadCPU.Level", "Command.Reboot", "Command.JSONconfig", "JSONconfig.Outbound", "Command.SetCalibrationProfile",
   "CalibrationProfile.Json", "Command.SimulateEnvironmentalHealth", "Environment.RunMode", "InboundMessage.States",
   "HWCState.HWCIDs", "HWCState.HWCMode", "HWCMode.State", "HWCMode.Output", "HWCMode.BlinkPattern",
   "HWCState.HWCColor", "HWCColor.ColorRGB", "ColorRGB.Red", "ColorRGB.Green", "ColorRGB.Blue",
   "HWCColor.ColorIndex", "ColorIndex.Index", "HWCState.HWCExtended", "HWCExtended.Interpretation",
   "HWCExtended.Value", "HWCState.HWCText", "HWCText.IntegerValue", "HWCText.Formatting", "HWCText.StateIcon",
   "HWCText.ModifierIcon", "HWCText.Title", "HWCText.SolidHeaderBar", "HWCText.Textline1", "HWCText.Textline2",
   "HWCText.IntegerValue2", "HWCText.PairMode", "HWCText.Scale", "ScaleM.ScaleType", "ScaleM.RangeLow",
   "ScaleM.RangeHigh", "ScaleM.LimitLow", "ScaleM.LimitHigh", "HWCText.TextStyling", "TextStyle.TitleFont",
   "Font.FontFace", "Font.TextHeight", "Font.TextWidth", "TextStyle.TextFont", "TextStyle.FixedWidth",
   "TextStyle.TitleBarPadding", "TextStyle.ExtraCharacterSpacing", "TextStyle.UnformattedFontSize",
   "HWCText.Inverted", "HWCText.PixelColor", "Color.ColorRGB", "Color.ColorIndex", "HWCText.BackgroundColor",
   "HWCState.HWCGfx", "HWCGfx.ImageType", "HWCGfx.W", "HWCGfx.H", "HWCGfx.XYoffset", "HWCGfx.X", "HWCGfx.Y",
   "HWCGfx.ImageData", "HWCState.PublishRawADCValues", "PublishRawADCValues.Enabled", "HWCState.Processors",
   "InboundMessage.Registers", "Register.Reg", "Register.Id", "Register.Value" ]

def protoFieldsOpaque : List String :=
  [
   "Processors.GfxConv", "ProcGfxConverter.ImageType", "ProcGfxConverter.W", "ProcGfxConverter.H",
   "ProcGfxConverter.ImageData", "ProcGfxConverter.Scaling", "ProcGfxConverter.Filters", "Processors.AudioMeter",
   "ProcAudioMeter.MeterType", "ProcAudioMeter.W", "ProcAudioMeter.H", "ProcAudioMeter.Title", "ProcAudioMeter.Mono",
   "ProcAudioMeter.RangeMapping", "ProcAudioMeter.RMYAxis", "ProcAudioMeter.Data1", "ProcAudioMeter.Data2",
   "ProcAudioMeter.Peak1", "ProcAudioMeter.Peak2", "Processors.TextToGraphics", "ProcTextToGraphics.W",
   "ProcTextToGraphics.H", "ProcTextToGraphics.Border", "ProcTextToGraphics.Shrink", "Processors.StrengthMeter",
   "ProcStrength.W", "ProcStrength.H", "ProcStrength.Title", "ProcStrength.ValueString", "ProcStrength.RangeMapping",
   "ProcStrength.RMYAxis", "ProcStrength.Data1", "Processors.Test", "ProcTest.W", "ProcTest.H", "Processors.UniText",
   "ProcUniText.W", "ProcUniText.H", "ProcUniText.Title", "ProcUniText.SolidHeaderBar", "ProcUniText.Textline1",
   "ProcUniText.Textline2" ]

/-! ## fields the encoder reads only under a condition

`carried m` puts the default value into every field of `m` that `encIn` does not read given the other fields:
the colour index next to an RGB colour, X / Y of an image without the offset flag, everything of a scale without a
positive type, the integer value of a text with formatting 7, 10 or 11 and the unformatted font size of any other, the
content of a register of unknown kind. -/

def carriedColor (c : Color) : Color := match c.rgb with | some _ => { c with index := none } | none => c

def carriedGfx (g : Gfx) : Gfx := if g.xyOffset then g else { g with x := 0, y := 0 }

def carriedScale (s : Scale) : Scale := if s.scaleType > 0 then s else {}

def carriedStyle (fmt : Int) (ts : TextStyle) : TextStyle :=
  if isFmt fmt [10, 11] then ts else { ts with unformattedFontSize := 0 }

def carriedText (t : Text) : Text :=
  { t with integerValue := if isFmt t.formatting [7, 10, 11] then 0 else t.integerValue
           scale := t.scale.map carriedScale
           textStyling := t.textStyling.map (carriedStyle t.formatting)
           pixelColor := t.pixelColor.map carriedColor
           backgroundColor := t.backgroundColor.map carriedColor }

def carriedState (s : State) : State :=
  { s with color := s.color.map carriedColor, text := s.text.map carriedText, gfx := s.gfx.map carriedGfx }

def carriedReg (r : Register) : Register :=
  if r.reg = 0 ∨ r.reg = 1 ∨ r.reg = 2 ∨ r.reg = 3 then r else { r with id := [], value := 0 }

def carried (m : InMsg) : InMsg :=
  { m with states := m.states.map carriedState, registers := m.registers.map carriedReg }

end RawPanelVerif.Model.In
