import RawPanelVerif.Base.TopoTypes
import RawPanelVerif.Gen.Tags
import RawPanelVerif.Gen.Consts
/-!
# Model of `topology/topology.go` (C13, C14)

One definition per Go function, same order of effects.  Conventions:

* `TypeIndex` is a Go map: `Map.lookup`/`Map.insert` on an association list kept strictly ascending by key.
* Look-ups are written as `Topology → result × Topology`: the second component is the topology as it is in
  memory after the call (the Go code only ever writes to local copies, so it is passed through).
* `GetHWCTypeDefinition` can panic (negative index): result `none`.
* `RandomizeTypes`: Go's map iteration order (`order`, the sequence of entries `range` yields) and the random
  source (`rnd`, the stream of `Intn(1000000)` results) are parameters; the collision loop carries `fuel`
  (`none` = fuel exhausted).  `uint32` wrap-around of `typeMapping[typeNum]++` is not modelled (needs 2^32 types).
* `CleanSections`: the index-collecting loop and the reverse-order `slices.Delete` loop as written;
  `slices.Delete` panics on a bad index: `none`.
* JSON: `toJSON`/`fromJSON` at the level of a JSON tree, driven by the regenerated tag table `Gen.topologyTags`
  and `encoding/json`'s rules (declaration order, `omitempty`, `-`, map keys sorted as strings, `null` for nil).
  The text layer (escaping, number syntax, UTF-8 coercion) is not modelled.
-/
namespace RawPanelVerif.Topo

/-! ## Go map as a sorted association list -/

def Map.lookup {α : Type} : Map α → Nat → Option α
  | [], _ => none
  | (k, v) :: r, q => if q = k then some v else Map.lookup r q

def Map.insert {α : Type} : Map α → Nat → α → Map α
  | [], k, v => [(k, v)]
  | (k', v') :: r, k, v =>
    if k < k' then (k, v) :: (k', v') :: r
    else if k = k' then (k, v) :: r
    else (k', v') :: Map.insert r k v

def Map.contains {α : Type} (m : Map α) (k : Nat) : Bool := (Map.lookup m k).isSome

def Map.keys {α : Type} (m : Map α) : List Nat := m.map (·.1)

/-! ## strings -/

def bytesOf (s : String) : Str := s.toList.map (fun c => c.toNat.toUInt8)

/-- `before, _, _ := strings.Cut(s, ",")` -/
def cutComma : Str → Str
  | [] => []
  | c :: r => if c = 44 then [] else c :: cutComma r

/-- `strings.Contains(s, sub)` -/
def containsSub : Str → Str → Bool
  | [], sub => sub.isEmpty
  | c :: r, sub => sub.isPrefixOf (c :: r) || containsSub r sub

def sSteps : Str := bytesOf "steps"

/-! ## C13: resolvers -/

/-- zero value of `TopologyHWcTypeDef` (`&TopologyHWcTypeDef{}`, missing map entry) -/
def zeroTD : TypeDef := {}

/-! the conditional assignments `if HWcDef.TypeOverride.X <non-empty> { typeDef.X = HWcDef.TypeOverride.X }`,
one function per statement (`o` = the override, `td` = the local copy being built) -/
def ovW (o td : TypeDef) : TypeDef := if o.w > 0 then { td with w := o.w } else td
def ovH (o td : TypeDef) : TypeDef := if o.h > 0 then { td with h := o.h } else td
def ovSubidx (o td : TypeDef) : TypeDef := if o.subidx > 0 then { td with subidx := o.subidx } else td
def ovOut (o td : TypeDef) : TypeDef := if o.out ≠ [] then { td with out := o.out } else td
def ovIn (o td : TypeDef) : TypeDef := if o.inp ≠ [] then { td with inp := o.inp } else td
def ovExt (o td : TypeDef) : TypeDef := if o.ext ≠ [] then { td with ext := o.ext } else td
def ovDesc (o td : TypeDef) : TypeDef := if o.desc ≠ [] then { td with desc := o.desc } else td
def ovRender (o td : TypeDef) : TypeDef := if o.render ≠ [] then { td with render := o.render } else td
/-- `if HWcDef.TypeOverride.Rotate != 0` : false for both zeros (`-0 != 0` is false in Go) -/
def ovRotate (o td : TypeDef) : TypeDef := if rotIsZero o.rotate then td else { td with rotate := o.rotate }
def ovDisp (o td : TypeDef) : TypeDef := if o.disp.isSome then { td with disp := o.disp } else td
def ovSub (o td : TypeDef) : TypeDef := if o.sub.length > 0 then { td with sub := o.sub } else td

/-- `GetTypeDefWithOverride` -/
def getTypeDefWithOverride (t : Topology) (c : HWc) : TypeDef :=
  let typeDef := (Map.lookup t.ti c.type).getD zeroTD
  match c.ov with
  | none => typeDef
  | some o =>
    typeDef |> ovW o |> ovH o |> ovSubidx o |> ovOut o |> ovIn o |> ovExt o |> ovDesc o |> ovRender o
      |> ovRotate o |> ovDisp o |> ovSub o

/-- `GetHWCTypeDefinition(HWCMapKey)`; `none` = index-out-of-range panic (negative key).
The test `fmt.Sprint(ptr) != fmt.Sprint(TopologyHWcTypeDef{})` compares `&{…}` with `{…}` and is true for
every non-nil override. -/
def getHWCTypeDefinition (t : Topology) (k : Int) : Option TypeDef :=
  if k ≥ t.hwc.length then some zeroTD
  else if k < 0 then none
  else
    match t.hwc[k.toNat]? with
    | none => none
    | some c =>
      match Map.lookup t.ti c.type with
      | none => some zeroTD
      | some typeDef =>
        match c.ov with
        | none => some typeDef
        | some o =>
          some (typeDef |> ovW o |> ovH o |> ovOut o |> ovIn o |> ovExt o |> ovSubidx o |> ovDisp o |> ovSub o
            |> ovRotate o)

/-- Go `uint32(x)` for an `int` -/
def toU32 (x : Int) : Nat := (x % 4294967296).toNat

/-- the loop `for k, r := range top.HWc { if r.Id == id { return k, r } }` -/
def findIdx : List HWc → Nat → Nat → Option (Nat × HWc)
  | [], _, _ => none
  | c :: r, id, k => if c.id = id then some (k, c) else findIdx r id (k + 1)

/-- `GetHWCTypeDefinitionFromHWCid` -/
def getHWCTypeDefinitionFromHWCid (t : Topology) (hwcid : Int) : Option TypeDef :=
  match findIdx t.hwc (toU32 hwcid) 0 with
  | some (k, _) => getHWCTypeDefinition t k
  | none => some zeroTD

/-- `GetHWCDefinitionFromHWCid` -/
def getHWCDefinitionFromHWCid (t : Topology) (hwcid : Int) : HWc :=
  match findIdx t.hwc (toU32 hwcid) 0 with
  | some (_, c) => c
  | none => {}

/-! ## C13: id look-ups -/

/-- `GetHWCs` -/
def getHWCs (t : Topology) : List Nat × Topology :=
  (t.hwc.foldl (fun retval c => retval ++ [c.id]) [], t)

/-- `GetHWCxy` -/
def getHWCxy (t : Topology) (hwc : Nat) : (Int × Int) × Topology :=
  match findIdx t.hwc hwc 0 with
  | some (_, c) => ((c.x, c.y), t)
  | none => ((-1, -1), t)

/-- `GetHWCtext` -/
def getHWCtext (t : Topology) (hwc : Nat) : Str × Topology :=
  match findIdx t.hwc hwc 0 with
  | some (_, c) => (c.txt, t)
  | none => ([], t)

def natLit (n : Nat) : Str := (Nat.toDigits 10 n).map (fun c => c.toNat.toUInt8)

/-- `fmt.Errorf("No HWC found for %d", hwc)` -/
def noHWCmsg (hwc : Nat) : Str := bytesOf "No HWC found for " ++ natLit hwc

/-- `GetHWCtype`: `inr msg` is `nil, error` -/
def getHWCtype (t : Topology) (hwc : Nat) : (TypeDef ⊕ Str) × Topology :=
  match findIdx t.hwc hwc 0 with
  | some (_, c) => (.inl (getTypeDefWithOverride t c), t)
  | none => (.inr (noHWCmsg hwc), t)

/-- `GetHWCsWithDisplay` -/
def getHWCsWithDisplay (t : Topology) : List Nat × Topology :=
  (t.hwc.foldl (fun retval c =>
      let typeDef := getTypeDefWithOverride t c
      if typeDef.disp.isSome then retval ++ [c.id] else retval) [], t)

/-! ## C13: predicates of a type definition -/

def getInputType (td : TypeDef) : Str := cutComma td.inp

def isButton (td : TypeDef) : Bool :=
  let i := getInputType td
  i = bytesOf "b" || i = bytesOf "b4" || i = bytesOf "b2h" || i = bytesOf "b2v" || i = bytesOf "pb"

def isBinary (td : TypeDef) : Bool :=
  let i := getInputType td
  isButton td || i = bytesOf "gpi"

def isPulsed (td : TypeDef) : Bool :=
  let i := getInputType td
  i = bytesOf "pb" || i = bytesOf "p"

def isAbsolute (td : TypeDef) : Bool :=
  let i := getInputType td
  i = bytesOf "av" || i = bytesOf "ah" || i = bytesOf "ar" || i = bytesOf "a"

def isIntensity (td : TypeDef) : Bool :=
  let i := getInputType td
  i = bytesOf "iv" || i = bytesOf "ih" || i = bytesOf "ir" || i = bytesOf "i"

def hasDisplay (td : TypeDef) : Bool := td.disp.isSome

def hasLED (td : TypeDef) : Bool :=
  td.out = bytesOf "rgb" || td.inp = bytesOf "rg" || td.inp = bytesOf "rb" || td.inp = bytesOf "mono"

def hasSteps (td : TypeDef) : Int :=
  if td.ext = sSteps then
    let mm := td.sub.foldl (fun (mm : Int × Int) s =>
      let mn := if s.idx < mm.1 then s.idx else mm.1
      let mx := if s.idx > mm.2 then s.idx else mm.2
      (mn, mx)) (10000, -10000)
    mm.2 - mm.1 + 1
  else 0

def ledBarSteps (td : TypeDef) : Int :=
  if containsSub td.ext sSteps then td.sub.length else 0

def isMotorized (td : TypeDef) : Bool := td.ext = bytesOf "pos"

def predsOf (td : TypeDef) : Preds :=
  { isButton := isButton td, isBinary := isBinary td, isPulsed := isPulsed td, isAbsolute := isAbsolute td,
    isIntensity := isIntensity td, hasDisplay := hasDisplay td, hasLED := hasLED td, hasSteps := hasSteps td,
    ledBarSteps := ledBarSteps td, isMotorized := isMotorized td, inputType := getInputType td }

/-! ## C14: RandomizeTypes -/

structure RState where
  newTypeStruct : Map TypeDef := []
  typeMapping : Map Nat := []
  seq : Nat := 1
  pos : Nat := 0            -- number of values drawn from the random source so far
deriving Repr, DecidableEq

/-- the inner `for { if _, exists := newTypeStruct[m]; exists { … } else { break } }`;
returns the free id `m`, `seq` and the random position -/
def collide (sequence : Bool) (rnd : Nat → Nat) (new : Map TypeDef) : Nat → Nat → Nat → Nat → Option (Nat × Nat × Nat)
  | 0, _, _, _ => none
  | fuel + 1, m, seq, pos =>
    if Map.contains new m then
      if sequence then collide sequence rnd new fuel (m + 1) (seq + 1) pos
      else collide sequence rnd new fuel (rnd pos) seq (pos + 1)
    else some (m, seq, pos)

/-- body of `for typeNum, typeStruct := range topology.TypeIndex` -/
def stepKey (sequence : Bool) (rnd : Nat → Nat) (fuel : Nat) (st : RState) (e : Nat × TypeDef) : Option RState :=
  let m0 := rnd st.pos                       -- typeMapping[typeNum] = uint32(r1.Intn(1000000))
  let pos := st.pos + 1
  let m0 := if sequence then st.seq else m0  -- if sequence { typeMapping[typeNum] = seq }
  match collide sequence rnd st.newTypeStruct fuel m0 st.seq pos with
  | none => none
  | some (m, seq, pos) =>
    some { newTypeStruct := Map.insert st.newTypeStruct m e.2,
           typeMapping := Map.insert st.typeMapping e.1 m, seq := seq, pos := pos }

def runKeys (sequence : Bool) (rnd : Nat → Nat) (fuel : Nat) : RState → List (Nat × TypeDef) → Option RState
  | st, [] => some st
  | st, e :: r =>
    match stepKey sequence rnd fuel st e with
    | none => none
    | some st' => runKeys sequence rnd fuel st' r

/-- the second loop: `if HWc.Type != 0 { if newType, ok := typeMapping[HWc.Type]; ok { HWc[i].Type = newType } }` -/
def remapHWc (typeMapping : Map Nat) (c : HWc) : HWc :=
  if c.type ≠ 0 then
    match Map.lookup typeMapping c.type with
    | none => c
    | some newType => { c with type := newType }
  else c

/-- `RandomizeTypes(sequence)`; `order` = the entries in the order Go's `range` over the map yields them -/
def randomizeTypes (order : List (Nat × TypeDef)) (rnd : Nat → Nat) (fuel : Nat) (sequence : Bool)
    (t : Topology) : Option Topology :=
  match runKeys sequence rnd fuel {} order with
  | none => none
  | some st =>
    some { t with ti := st.newTypeStruct, tiNil := false, hwc := t.hwc.map (remapHWc st.typeMapping) }

/-! ## C14: CleanSections -/

/-- first loop: indices of the section markers, ascending -/
def sectionIdxs : List HWc → Nat → List Nat
  | [], _ => []
  | c :: r, idx => if c.type = Gen.sectionType then idx :: sectionIdxs r (idx + 1) else sectionIdxs r (idx + 1)

/-- `slices.Delete(s, i, i+1)`; panics when `i+1 > len(s)` -/
def slicesDelete1 {α : Type} (s : List α) (i : Nat) : Option (List α) :=
  if i + 1 ≤ s.length then some (s.eraseIdx i) else none

/-- second loop: `for i := range removeIDs { delID := removeIDs[len-1-i]; HWc = Delete(HWc, delID, delID+1) }`,
`i` running upward -/
def deleteLoop (removeIDs : List Nat) : Nat → Nat → List HWc → Option (List HWc)
  | 0, _, hwc => some hwc
  | n + 1, i, hwc =>
    match removeIDs[removeIDs.length - 1 - i]? with
    | none => none
    | some delID =>
      match slicesDelete1 hwc delID with
      | none => none
      | some hwc' => deleteLoop removeIDs n (i + 1) hwc'

/-- `CleanSections`; `none` = panic -/
def cleanSections (t : Topology) : Option Topology :=
  let removeIDs := sectionIdxs t.hwc 0
  match deleteLoop removeIDs removeIDs.length 0 t.hwc with
  | none => none
  | some hwc => some { t with hwc := hwc }

/-! ## C14: JSON tree encoder / decoder driven by the tag table -/

structure Tag where
  key : Str
  omitEmpty : Bool
  skip : Bool
deriving Repr, DecidableEq

/-- tag of field `f` of struct `s`; a field missing from the table counts as skipped -/
def tag (s f : String) : Tag :=
  match Gen.topologyTags.find? (fun e => e.1 == s && e.2.1 == f) with
  | some e => { key := bytesOf e.2.2.1, omitEmpty := e.2.2.2.1, skip := e.2.2.2.2 }
  | none => { key := [], omitEmpty := false, skip := true }

/-- a Go field value, as far as `encoding/json` cares -/
inductive FV where
  | int (n : Int)
  | uint (n : Nat)
  | str (s : Str)
  | f32 (tok : Str)
  | ptr (v : Option JVal)
  | slice (isNil : Bool) (l : List JVal)
  | map (isNil : Bool) (kvs : List (Str × JVal))

def intLit (n : Int) : Str := if n < 0 then 45 :: natLit (-n).toNat else natLit n.toNat

/-- `isEmptyValue` of encoding/json -/
def FV.isEmpty : FV → Bool
  | .int n => n == 0
  | .uint n => n == 0
  | .str s => s.isEmpty
  | .f32 tok => rotIsZero tok          -- `v.Float() == 0`: true for `-0` as well
  | .ptr v => v.isNone
  | .slice _ l => l.isEmpty
  | .map _ kvs => kvs.isEmpty

def FV.enc : FV → JVal
  | .int n => .num (intLit n)
  | .uint n => .num (natLit n)
  | .str s => .str s
  | .f32 tok => .num tok
  | .ptr none => .null
  | .ptr (some j) => j
  | .slice isNil l => if isNil && l.isEmpty then .null else .arr l
  | .map isNil kvs => if isNil && kvs.isEmpty then .null else .obj kvs

/-- struct encoder: fields in declaration order, `-` skipped, `omitempty` honoured -/
def encodeFields : List (Tag × FV) → List (Str × JVal)
  | [] => []
  | (t, v) :: r =>
    if t.skip then encodeFields r
    else if t.omitEmpty && v.isEmpty then encodeFields r
    else (t.key, v.enc) :: encodeFields r

def subElToJ (s : SubEl) : JVal :=
  .obj (encodeFields [
    (tag "TopologyHWcTypeDefSubEl" "ObjType", .str s.objType),
    (tag "TopologyHWcTypeDefSubEl" "X", .int s.x),
    (tag "TopologyHWcTypeDefSubEl" "Y", .int s.y),
    (tag "TopologyHWcTypeDefSubEl" "W", .int s.w),
    (tag "TopologyHWcTypeDefSubEl" "H", .int s.h),
    (tag "TopologyHWcTypeDefSubEl" "R", .int s.r),
    (tag "TopologyHWcTypeDefSubEl" "Rx", .int s.rx),
    (tag "TopologyHWcTypeDefSubEl" "Ry", .int s.ry),
    (tag "TopologyHWcTypeDefSubEl" "Style", .str s.style),
    (tag "TopologyHWcTypeDefSubEl" "Idx", .int s.idx)])

def dispToJ (d : Disp) : JVal :=
  .obj (encodeFields [
    (tag "TopologyHWcTypeDef_Display" "W", .int d.w),
    (tag "TopologyHWcTypeDef_Display" "H", .int d.h),
    (tag "TopologyHWcTypeDef_Display" "Subidx", .int d.subidx),
    (tag "TopologyHWcTypeDef_Display" "Type", .str d.type),
    (tag "TopologyHWcTypeDef_Display" "Shrink", .int d.shrink),
    (tag "TopologyHWcTypeDef_Display" "Border", .int d.border)])

def typeDefToJ (td : TypeDef) : JVal :=
  .obj (encodeFields [
    (tag "TopologyHWcTypeDef" "W", .int td.w),
    (tag "TopologyHWcTypeDef" "H", .int td.h),
    (tag "TopologyHWcTypeDef" "Out", .str td.out),
    (tag "TopologyHWcTypeDef" "In", .str td.inp),
    (tag "TopologyHWcTypeDef" "Desc", .str td.desc),
    (tag "TopologyHWcTypeDef" "Ext", .str td.ext),
    (tag "TopologyHWcTypeDef" "Subidx", .int td.subidx),
    (tag "TopologyHWcTypeDef" "Rotate", .f32 td.rotate),
    (tag "TopologyHWcTypeDef" "Disp", .ptr (td.disp.map dispToJ)),
    (tag "TopologyHWcTypeDef" "Sub", .slice false (td.sub.map subElToJ)),
    (tag "TopologyHWcTypeDef" "Render", .str td.render)])

def hwcToJ (c : HWc) : JVal :=
  .obj (encodeFields [
    (tag "TopologyHWcomponent" "Id", .uint c.id),
    (tag "TopologyHWcomponent" "X", .int c.x),
    (tag "TopologyHWcomponent" "Y", .int c.y),
    (tag "TopologyHWcomponent" "Txt", .str c.txt),
    (tag "TopologyHWcomponent" "Type", .uint c.type),
    (tag "TopologyHWcomponent" "TypeOverride", .ptr (c.ov.map typeDefToJ)),
    (tag "TopologyHWcomponent" "UIparent", .uint c.uiParent),
    (tag "TopologyHWcomponent" "UIyang", .uint c.uiYang)])

/-- byte-wise `<` on strings (Go's `<` on `string`) -/
def lexLt : Str → Str → Bool
  | [], [] => false
  | [], _ :: _ => true
  | _ :: _, [] => false
  | a :: r, b :: s => a < b || (a = b && lexLt r s)

/-- encoding/json sorts map keys as strings: the entries ordered by the decimal text of their keys -/
def lexInsert (e : Nat × TypeDef) : List (Nat × TypeDef) → List (Nat × TypeDef)
  | [] => [e]
  | f :: r => if lexLt (natLit e.1) (natLit f.1) then e :: f :: r else f :: lexInsert e r

def lexSort : List (Nat × TypeDef) → List (Nat × TypeDef)
  | [] => []
  | e :: r => lexInsert e (lexSort r)

def typeIndexToJ (m : Map TypeDef) : List (Str × JVal) :=
  (lexSort m).map (fun e => (natLit e.1, typeDefToJ e.2))

/-- `json.Marshal(topology)` as a tree -/
def toJSON (t : Topology) : JVal :=
  .obj (encodeFields [
    (tag "Topology" "Title", .str t.title),
    (tag "Topology" "HWc", .slice t.hwcNil (t.hwc.map hwcToJ)),
    (tag "Topology" "TypeIndex", .map t.tiNil (typeIndexToJ t.ti))])

/-! ### canonical text of a JSON tree (what the harness prints for `ToJSON()` after re-tokenising it) -/

def hexDigit (n : Nat) : UInt8 := if n < 10 then (48 + n).toUInt8 else (87 + n).toUInt8

def hexStr : Str → Str
  | [] => []
  | b :: r => hexDigit (b.toNat / 16) :: hexDigit (b.toNat % 16) :: hexStr r

mutual
def render : JVal → Str
  | .null => [122]
  | .bool b => if b then [116] else [102]
  | .num l => 110 :: l
  | .str s => 115 :: hexStr s
  | .arr l => 91 :: renderL l
  | .obj kvs => 123 :: renderO kvs
def renderL : List JVal → Str
  | [] => [93]
  | v :: r => render v ++ 44 :: renderL r
def renderO : List (Str × JVal) → Str
  | [] => [125]
  | (k, v) :: r => hexStr k ++ 58 :: render v ++ 44 :: renderO r
end

/-- `ToJSON()` / `JSONstring()` in canonical text -/
def serialise (t : Topology) : Str := render (toJSON t)

/-! ### decoder -/

def jget (kvs : List (Str × JVal)) (k : Str) : Option JVal := kvs.lookup k

def digitVal (b : UInt8) : Option Nat := if 48 ≤ b ∧ b ≤ 57 then some (b.toNat - 48) else none

def parseNatAux : Str → Nat → Option Nat
  | [], acc => some acc
  | b :: r, acc => match digitVal b with
    | none => none
    | some d => parseNatAux r (acc * 10 + d)

def parseNat (s : Str) : Option Nat := if s.isEmpty then none else parseNatAux s 0

def parseInt : Str → Option Int
  | 45 :: r => (parseNat r).map (fun n => - (n : Int))
  | s => (parseNat s).map (fun n => (n : Int))

def decInt : Option JVal → Option Int
  | none => some 0
  | some .null => some 0
  | some (.num l) => parseInt l
  | some _ => none

def decNat : Option JVal → Option Nat
  | none => some 0
  | some .null => some 0
  | some (.num l) => parseNat l
  | some _ => none

def decStr : Option JVal → Option Str
  | none => some []
  | some .null => some []
  | some (.str s) => some s
  | some _ => none

/-- float32 field: the literal is kept as the token (assumed law: Go re-prints a literal it printed itself) -/
def decF32 : Option JVal → Option Str
  | none => some [48]
  | some .null => some [48]
  | some (.num l) => some l
  | some _ => none

def decPtr {α : Type} (f : JVal → Option α) : Option JVal → Option (Option α)
  | none => some none
  | some .null => some none
  | some j => (f j).map some

/-- slice field: (is nil, elements) -/
def decSlice {α : Type} (f : JVal → Option α) : Option JVal → Option (Bool × List α)
  | none => some (true, [])
  | some .null => some (true, [])
  | some (.arr l) => (l.mapM f).map (fun x => (false, x))
  | some _ => none

def subElOfJ : JVal → Option SubEl
  | .null => some {}
  | .obj kvs => do
    let objType ← decStr (jget kvs (tag "TopologyHWcTypeDefSubEl" "ObjType").key)
    let x ← decInt (jget kvs (tag "TopologyHWcTypeDefSubEl" "X").key)
    let y ← decInt (jget kvs (tag "TopologyHWcTypeDefSubEl" "Y").key)
    let w ← decInt (jget kvs (tag "TopologyHWcTypeDefSubEl" "W").key)
    let h ← decInt (jget kvs (tag "TopologyHWcTypeDefSubEl" "H").key)
    let r ← decInt (jget kvs (tag "TopologyHWcTypeDefSubEl" "R").key)
    let rx ← decInt (jget kvs (tag "TopologyHWcTypeDefSubEl" "Rx").key)
    let ry ← decInt (jget kvs (tag "TopologyHWcTypeDefSubEl" "Ry").key)
    let style ← decStr (jget kvs (tag "TopologyHWcTypeDefSubEl" "Style").key)
    let idx ← decInt (jget kvs (tag "TopologyHWcTypeDefSubEl" "Idx").key)
    pure { objType, x, y, w, h, r, rx, ry, style, idx }
  | _ => none

def dispOfJ : JVal → Option Disp
  | .obj kvs => do
    let w ← decInt (jget kvs (tag "TopologyHWcTypeDef_Display" "W").key)
    let h ← decInt (jget kvs (tag "TopologyHWcTypeDef_Display" "H").key)
    let subidx ← decInt (jget kvs (tag "TopologyHWcTypeDef_Display" "Subidx").key)
    let type ← decStr (jget kvs (tag "TopologyHWcTypeDef_Display" "Type").key)
    let shrink ← decInt (jget kvs (tag "TopologyHWcTypeDef_Display" "Shrink").key)
    let border ← decInt (jget kvs (tag "TopologyHWcTypeDef_Display" "Border").key)
    pure { w, h, subidx, type, shrink, border }
  | _ => none

def typeDefOfJ : JVal → Option TypeDef
  | .null => some {}
  | .obj kvs => do
    let w ← decInt (jget kvs (tag "TopologyHWcTypeDef" "W").key)
    let h ← decInt (jget kvs (tag "TopologyHWcTypeDef" "H").key)
    let out ← decStr (jget kvs (tag "TopologyHWcTypeDef" "Out").key)
    let inp ← decStr (jget kvs (tag "TopologyHWcTypeDef" "In").key)
    let desc ← decStr (jget kvs (tag "TopologyHWcTypeDef" "Desc").key)
    let ext ← decStr (jget kvs (tag "TopologyHWcTypeDef" "Ext").key)
    let subidx ← decInt (jget kvs (tag "TopologyHWcTypeDef" "Subidx").key)
    let rotate ← decF32 (jget kvs (tag "TopologyHWcTypeDef" "Rotate").key)
    let disp ← decPtr dispOfJ (jget kvs (tag "TopologyHWcTypeDef" "Disp").key)
    let sub ← decSlice subElOfJ (jget kvs (tag "TopologyHWcTypeDef" "Sub").key)
    let render ← decStr (jget kvs (tag "TopologyHWcTypeDef" "Render").key)
    pure { w, h, out, inp, desc, ext, subidx, rotate, disp, sub := sub.2, render }
  | _ => none

def hwcOfJ : JVal → Option HWc
  | .null => some {}
  | .obj kvs => do
    let id ← decNat (jget kvs (tag "TopologyHWcomponent" "Id").key)
    let x ← decInt (jget kvs (tag "TopologyHWcomponent" "X").key)
    let y ← decInt (jget kvs (tag "TopologyHWcomponent" "Y").key)
    let txt ← decStr (jget kvs (tag "TopologyHWcomponent" "Txt").key)
    let type ← decNat (jget kvs (tag "TopologyHWcomponent" "Type").key)
    let ov ← decPtr typeDefOfJ (jget kvs (tag "TopologyHWcomponent" "TypeOverride").key)
    let uiParent ← decNat (jget kvs (tag "TopologyHWcomponent" "UIparent").key)
    let uiYang ← decNat (jget kvs (tag "TopologyHWcomponent" "UIyang").key)
    pure { id, x, y, txt, type, ov, uiParent, uiYang }
  | _ => none

/-- object → map: entries inserted one by one (`m[key] = value`) -/
def mapOfJ : List (Str × JVal) → Map TypeDef → Option (Map TypeDef)
  | [], m => some m
  | (k, v) :: r, m => do
    let n ← parseNat k
    let td ← typeDefOfJ v
    mapOfJ r (Map.insert m n td)

def decMap : Option JVal → Option (Bool × Map TypeDef)
  | none => some (true, [])
  | some .null => some (true, [])
  | some (.obj kvs) => (mapOfJ kvs []).map (fun m => (false, m))
  | some _ => none

/-- `json.Unmarshal(text, &Topology{})` as a tree function; `none` = error -/
def fromJSON : JVal → Option Topology
  | .obj kvs => do
    let title ← decStr (jget kvs (tag "Topology" "Title").key)
    let hwc ← decSlice hwcOfJ (jget kvs (tag "Topology" "HWc").key)
    let ti ← decMap (jget kvs (tag "Topology" "TypeIndex").key)
    pure { title, hwc := hwc.2, hwcNil := hwc.1, ti := ti.2, tiNil := ti.1 }
  | _ => none

/-! ## the look-up interface as one function (what the driver runs per record) -/

def execRes (t : Topology) : Query → Result × Topology
  | .hwcs => let r := getHWCs t; (.ids r.1, r.2)
  | .xy id => let r := getHWCxy t id; (.xy r.1.1 r.1.2, r.2)
  | .text id => let r := getHWCtext t id; (.text r.1, r.2)
  | .type id =>
    let r := getHWCtype t id
    (match r.1 with | .inl td => .typeDef td | .inr msg => .notFound msg, r.2)
  | .withDisplay => let r := getHWCsWithDisplay t; (.ids r.1, r.2)
  | .resolveA k =>
    match t.hwc[k]? with
    | some c => (.typeDef (getTypeDefWithOverride t c), t)
    | none => (.panic, t)
  | .resolveAx c => (.typeDef (getTypeDefWithOverride t c), t)
  | .resolveB k =>
    (match getHWCTypeDefinition t k with | some td => .typeDef td | none => .panic, t)
  | .resolveBid id =>
    (match getHWCTypeDefinitionFromHWCid t id with | some td => .typeDef td | none => .panic, t)
  | .defId id => (.comp (getHWCDefinitionFromHWCid t id), t)
  | .pred td => (.preds (predsOf td), t)
  | .predOf id =>
    let r := getHWCtype t id
    (match r.1 with | .inl td => .typePreds td (predsOf td) | .inr msg => .notFound msg, r.2)

def exec (t : Topology) (q : Query) : Answer × Topology :=
  let r := execRes t q
  ({ res := r.1, after := serialise r.2 }, r.2)

end RawPanelVerif.Topo
