import RawPanelVerif.Gen.Consts
/-!
# Net model — data path of `ConnectToPanel` (connecttopanel.go) and of
# `AutoDetectIfPanelEncodingIsBinary` (rawpanelhelpers.go)

One definition per piece of Go control flow, same order of effects.

* `stepByte` / `feed`      binary read loop (connecttopanel.go 178-205): `io.ReadFull` of the 4-byte header,
                           limit check, `make`, `io.ReadFull` of the payload, delivery.  `io.ReadFull(conn, buf)`
                           is modelled by its contract: it returns when exactly `len buf` bytes of the stream
                           have been consumed, however the stream was cut into segments.
* `tstep` / `step` / `runT` the same loop with the read deadline as explicit state (`SetReadDeadline(time.Time{})`
                           before each header, `SetReadDeadline(now+2s)`), as an LTS with labels `arrive`,
                           `expire`, `peerClose`, and as a deterministic run over a timed script.
* `asciiStep` / `asciiFeed` ASCII read loop (206-223): `bufio.ReadString('\n')` + `strings.TrimSpace`.
* `writeOne` / `WSt`       the writer goroutine (135-170).
* `classifyClient`, `classifyDetector`  probe reply classification (90-130, rawpanelhelpers.go 701-738).

Opaque parameters (supplied by the harness, never interpreted here): `proto.Marshal` bytes of submitted
messages, converter lines, the decoder applied to a delivered payload / line.
-/
namespace RawPanelVerif.Net

abbrev Bytes := List UInt8

/-- `binary.LittleEndian.Uint32(b[0:4])` -/
def le32 : Bytes → Nat
  | a :: b :: c :: d :: _ => a.toNat + 256 * b.toNat + 65536 * c.toNat + 16777216 * d.toNat
  | _ => 0

/-- `binary.LittleEndian.PutUint32(header, uint32(n))` (the cast truncates modulo 2^32) -/
def putLe32 (n : Nat) : Bytes :=
  [UInt8.ofNat n, UInt8.ofNat (n / 256), UInt8.ofNat (n / 65536), UInt8.ofNat (n / 16777216)]

/-- the frame limit of the client's read loop (`currentPayloadLength < 500000`), regenerated from the source -/
def limit : Nat := Gen.clientFrameLimit

/-- the in-frame read deadline in ms (`time.Now().Add(2 * time.Second)`), regenerated from the source -/
def frameTimeout : Nat := Gen.clientFrameTimeoutMs

/-! ## Binary reader: framing -/

inductive Stop
  | overLimit (len : Nat)   -- header ≥ limit: `break` before `make`
  | timeout                 -- read deadline expired
  | peerClosed              -- EOF / error from the socket
  deriving DecidableEq, Repr

/-- observable effects of the read loop -/
inductive Eff
  | alloc (n : Nat)         -- `make([]byte, n)` for a payload
  | deliver (p : Bytes)     -- `msgsFromPanel <- [Unmarshal p]`
  deriving DecidableEq, Repr

/-- `rgot` = the bytes consumed so far by the current `io.ReadFull`, newest first (so that consuming a byte is O(1));
`need` = how many bytes the payload read still lacks. -/
inductive RState
  | waitHdr (rgot : Bytes)                    -- inside `io.ReadFull(conn, headerArray)`
  | waitPayload (need : Nat) (rgot : Bytes)   -- inside `io.ReadFull(conn, payload)`, `need ≥ 1`
  | stopped (why : Stop)                      -- left the loop (teardown follows)
  deriving DecidableEq, Repr

def RState.init : RState := .waitHdr []

/-- consume one byte of the stream -/
def stepByte (s : RState) (b : UInt8) : RState × List Eff :=
  match s with
  | .waitHdr rgot =>
    let rgot' := b :: rgot
    if rgot'.length < 4 then (.waitHdr rgot', [])
    else
      let len := le32 rgot'.reverse
      if len < limit then
        -- `make` happens only here, after the check
        if len = 0 then (.waitHdr [], [.alloc 0, .deliver []])   -- ReadFull of 0 bytes returns at once
        else (.waitPayload len [], [.alloc len])
      else (.stopped (.overLimit len), [])
  | .waitPayload need rgot =>
    if need ≤ 1 then (.waitHdr [], [.deliver (b :: rgot).reverse])
    else (.waitPayload (need - 1) (b :: rgot), [])
  | .stopped w => (.stopped w, [])

/-- consume a segment byte by byte -/
def feed : RState → Bytes → RState × List Eff
  | s, [] => (s, [])
  | s, b :: bs =>
    let r1 := stepByte s b
    let r2 := feed r1.1 bs
    (r2.1, r1.2 ++ r2.2)

/-- tail-recursive form used by compiled code (long payloads) -/
def feedTR : RState → Bytes → List Eff → RState × List Eff
  | s, [], acc => (s, acc)
  | s, b :: bs, acc => let r := stepByte s b; feedTR r.1 bs (acc ++ r.2)

theorem feedTR_eq (s : RState) (bs : Bytes) (acc : List Eff) :
    feedTR s bs acc = ((feed s bs).1, acc ++ (feed s bs).2) := by
  induction bs generalizing s acc with
  | nil => simp [feedTR, feed]
  | cons b bs ih => simp [feedTR, feed, ih, List.append_assoc]

def feedFast (s : RState) (bs : Bytes) : RState × List Eff := feedTR s bs []

@[csimp] theorem feed_eq_feedFast : @feed = @feedFast := by
  funext s bs; simp [feedFast, feedTR_eq]

/-- consume a list of segments -/
def feedAll : RState → List Bytes → RState × List Eff
  | s, [] => (s, [])
  | s, seg :: segs =>
    let r1 := feed s seg
    let r2 := feedAll r1.1 segs
    (r2.1, r1.2 ++ r2.2)

def deliveries : List Eff → List Bytes
  | [] => []
  | .deliver p :: r => p :: deliveries r
  | .alloc _ :: r => deliveries r

def allocs : List Eff → List Nat
  | [] => []
  | .alloc n :: r => n :: allocs r
  | .deliver _ :: r => allocs r

/-! ## Binary reader with the read deadline as state -/

structure Cfg where
  /-- `true`: repaired code (first header byte without deadline, then 2 s for the rest of the header; the
  payload read re-arms 2 s).  `false`: pinned code (whole header without deadline). -/
  armInHeader : Bool
  deriving DecidableEq, Repr

def repaired : Cfg := ⟨true⟩
def pinned : Cfg := ⟨false⟩

structure CState where
  r : RState
  dl : Option Nat      -- armed read deadline (absolute ms); `none` = cleared (`time.Time{}`)
  last : Nat           -- time the last byte was consumed (connection start if none yet)
  clock : Nat
  fstart : Nat         -- ghost: time the first byte of the current (or last) frame was consumed
  deriving DecidableEq, Repr

def CState.init (t0 : Nat) : CState := ⟨.init, none, t0, t0, t0⟩

/-- the deadline in force after a byte was consumed at time `now` -/
def nextDl (cfg : Cfg) (now : Nat) (before after : RState) (dl : Option Nat) : Option Nat :=
  match after with
  | .waitHdr [] => none                                   -- loop top: `SetReadDeadline(time.Time{})`
  | .waitHdr (_ :: _) =>
    match before with
    | .waitHdr [] => if cfg.armInHeader then some (now + frameTimeout) else none   -- first header byte
    | _ => dl
  | .waitPayload _ [] => some (now + frameTimeout)        -- header complete: `SetReadDeadline(now + 2 s)`
  | .waitPayload _ (_ :: _) => dl
  | .stopped _ => none

def tstep (cfg : Cfg) (now : Nat) (s : CState) (b : UInt8) : CState × List Eff :=
  let r := stepByte s.r b
  ({ r := r.1, dl := nextDl cfg now s.r r.1 s.dl, last := now, clock := now,
     fstart := if s.r = .waitHdr [] then now else s.fstart }, r.2)

def feedT (cfg : Cfg) (now : Nat) : CState → Bytes → CState × List Eff
  | s, [] => (s, [])
  | s, b :: bs =>
    let r1 := tstep cfg now s b
    let r2 := feedT cfg now r1.1 bs
    (r2.1, r1.2 ++ r2.2)

def feedTTR (cfg : Cfg) (now : Nat) : CState → Bytes → List Eff → CState × List Eff
  | s, [], acc => (s, acc)
  | s, b :: bs, acc => let r := tstep cfg now s b; feedTTR cfg now r.1 bs (acc ++ r.2)

theorem feedTTR_eq (cfg : Cfg) (now : Nat) (s : CState) (bs : Bytes) (acc : List Eff) :
    feedTTR cfg now s bs acc = ((feedT cfg now s bs).1, acc ++ (feedT cfg now s bs).2) := by
  induction bs generalizing s acc with
  | nil => simp [feedTTR, feedT]
  | cons b bs ih => simp [feedTTR, feedT, ih, List.append_assoc]

def feedTFast (cfg : Cfg) (now : Nat) (s : CState) (bs : Bytes) : CState × List Eff := feedTTR cfg now s bs []

@[csimp] theorem feedT_eq_feedTFast : @feedT = @feedTFast := by
  funext cfg now s bs; simp [feedTFast, feedTTR_eq]

def RState.live : RState → Bool
  | .stopped _ => false
  | _ => true

inductive Lbl
  | arrive (now : Nat) (b : UInt8)   -- a byte reaches the reader (any segmentation, any spacing)
  | expire (now : Nat)               -- the armed deadline has passed: the blocked `Read` returns a timeout
  | peerClose (now : Nat)            -- EOF / reset
  deriving DecidableEq, Repr

/-- one LTS step; `none` = label not enabled -/
def step (cfg : Cfg) (s : CState) : Lbl → Option (CState × List Eff)
  | .arrive now b =>
    if s.clock ≤ now then
      (if s.r.live then some (tstep cfg now s b) else some ({ s with clock := now }, []))
    else none
  | .expire now =>
    match s.dl with
    | some d => if s.clock ≤ now ∧ d ≤ now ∧ s.r.live then some ({ s with r := .stopped .timeout, dl := none, clock := now }, []) else none
    | none => none
  | .peerClose now =>
    if s.clock ≤ now ∧ s.r.live then some ({ s with r := .stopped .peerClosed, dl := none, clock := now }, []) else none

def runL (cfg : Cfg) : CState → List Lbl → Option (CState × List Eff)
  | s, [] => some (s, [])
  | s, l :: ls =>
    match step cfg s l with
    | none => none
    | some r1 =>
      match runL cfg r1.1 ls with
      | none => none
      | some r2 => some (r2.1, r1.2 ++ r2.2)

/-- argument of `ondisconnect`: the `exit` flag, set only by the context-cancel branch of the writer -/
def disconnectArg (cancelled : Bool) (_why : Option Stop) : Bool := cancelled

/-! ### Deterministic run over a timed script (trace validation) -/

inductive PAct
  | bytes (b : Bytes)
  | close
  | nothing
  deriving DecidableEq, Repr

/-- (delay before the action in ms, action) -/
abbrev TScript := List (Nat × PAct)

structure Outcome where
  effs : List Eff := []
  stop : Option (Stop × Nat) := none   -- why and when the read loop ended (none: still reading at the end)
  tight : Bool := false                -- some deadline decision had less than `margin` ms to spare
  deriving DecidableEq, Repr

def absDiff (a b : Nat) : Nat := if a ≤ b then b - a else a - b

def runT (cfg : Cfg) (margin : Nat) : CState → TScript → Outcome → Outcome
  | _, [], o => o
  | s, (d, a) :: rest, o =>
    let now := s.clock + d
    -- urgency: an armed deadline that has passed fires before anything later happens
    let fired : Option Nat := match s.dl with
      | some dl => if dl ≤ now then some dl else none
      | none => none
    let tight := o.tight || (match s.dl with | some dl => decide (absDiff dl now < margin) | none => false)
    match fired with
    | some dl => { o with stop := some (.timeout, dl), tight := tight }
    | none =>
      match a with
      | .nothing => runT cfg margin { s with clock := now } rest { o with tight := tight }
      | .close => { o with stop := some (.peerClosed, now), tight := tight }
      | .bytes b =>
        let r := feedT cfg now { s with clock := now } b
        let o' := { o with effs := o.effs ++ r.2, tight := tight }
        match r.1.r with
        | .stopped w => { o' with stop := some (w, now) }
        | _ => runT cfg margin r.1 rest o'

/-! ## ASCII reader -/

/-- the white space `strings.TrimSpace` removes among single bytes < 0x80 -/
def isSpace (b : UInt8) : Bool := b = 9 || b = 10 || b = 11 || b = 12 || b = 13 || b = 32

def trimLeft : Bytes → Bytes
  | [] => []
  | b :: r => if isSpace b then trimLeft r else b :: r

/-- drop trailing white space (structural from the front: a byte is kept iff something non-blank follows or it is non-blank) -/
def trimRight : Bytes → Bytes
  | [] => []
  | b :: r =>
    match trimRight r with
    | [] => if isSpace b then [] else [b]
    | r' => b :: r'

/-- `strings.TrimSpace` on byte strings whose first/last non-blank bytes are ASCII (multi-byte Unicode blanks
are outside the modelled domain) -/
def trimSpace (l : Bytes) : Bytes := trimRight (trimLeft l)

/-- `ReadString('\n')`: state = bytes of the current unterminated line; on LF the trimmed line is delivered -/
def asciiStep (buf : Bytes) (b : UInt8) : Bytes × List Bytes :=
  if b = 10 then ([], [trimSpace (buf ++ [b])]) else (buf ++ [b], [])

def asciiFeed : Bytes → Bytes → Bytes × List Bytes
  | buf, [] => (buf, [])
  | buf, b :: bs =>
    let r1 := asciiStep buf b
    let r2 := asciiFeed r1.1 bs
    (r2.1, r1.2 ++ r2.2)

def asciiFeedAll : Bytes → List Bytes → Bytes × List Bytes
  | buf, [] => (buf, [])
  | buf, seg :: segs =>
    let r1 := asciiFeed buf seg
    let r2 := asciiFeedAll r1.1 segs
    (r2.1, r1.2 ++ r2.2)

/-- the one second the ASCII loop sleeps after EOF before the teardown (connecttopanel.go 214) -/
def asciiEofSleep : Nat := Gen.clientAsciiEofSleepMs

/-- ASCII run over a timed script: no deadline is armed in this mode (117), only `close` ends it -/
def runA : Nat → Bytes → TScript → Outcome → Outcome × List Bytes → Outcome × List Bytes
  | _, _, [], _, acc => acc
  | clk, buf, (d, a) :: rest, o, acc =>
    let now := clk + d
    match a with
    | .nothing => runA now buf rest o acc
    | .close => ({ acc.1 with stop := some (.peerClosed, now + asciiEofSleep) }, acc.2)
    | .bytes b =>
      let r := asciiFeed buf b
      runA now r.1 rest o (acc.1, acc.2 ++ r.2)

/-! ## Writer goroutine -/

inductive Mode | binary | ascii
  deriving DecidableEq, Repr

/-- one message list taken from `msgsToPanel`: `marshal` bytes of each message (binary path) and the
converter's lines for the whole list (ASCII path); both opaque -/
structure Submission where
  msgs : List Bytes
  lines : List Bytes
  deriving DecidableEq, Repr

def frame (p : Bytes) : Bytes := putLe32 p.length ++ p

def writeOne : Mode → Submission → Bytes
  | .binary, s => (s.msgs.map frame).flatten
  | .ascii, s => (s.lines.map (· ++ [10])).flatten

def writeBytes (m : Mode) (subs : List Submission) : Bytes := (subs.map (writeOne m)).flatten

/-- writer LTS: the channel hands submissions over in send order; one goroutine per connection takes them -/
structure WSt where
  pending : List Submission   -- sends in progress / buffered, in channel order
  taken : List Submission     -- received by the writer so far
  written : Bytes
  inbound : Nat               -- bytes read from the panel so far (reader side; irrelevant to the writer)
  deriving DecidableEq, Repr

inductive WLbl
  | submit (s : Submission)    -- some goroutine's `msgsToPanel <- s` is ordered into the channel
  | take                       -- writer: `incomingMessages := <-msgsToPanel` and the `conn.Write`s of that list
  | panelTraffic (n : Nat)     -- reader consumed n bytes from the panel
  deriving DecidableEq, Repr

def WSt.init : WSt := ⟨[], [], [], 0⟩

def wstep (m : Mode) (s : WSt) : WLbl → Option WSt
  | .submit x => some { s with pending := s.pending ++ [x] }
  | .take =>
    match s.pending with
    | [] => none
    | x :: r => some { s with pending := r, taken := s.taken ++ [x], written := s.written ++ writeOne m x }
  | .panelTraffic n => some { s with inbound := s.inbound + n }

def wrun (m : Mode) : WSt → List WLbl → Option WSt
  | s, [] => some s
  | s, l :: ls => match wstep m s l with
    | none => none
    | some s' => wrun m s' ls

def submitted : List WLbl → List Submission
  | [] => []
  | .submit x :: r => x :: submitted r
  | _ :: r => submitted r

/-! ## Probe and classification -/

/-- the probe both entry points write: header + `proto.Marshal(ping)` -/
def probeBytes (marshalPing : Bytes) : Bytes := frame marshalPing

/-- result of the single `conn.Read(byteArray)` after the probe -/
inductive Reply
  | timeout             -- nothing within the 2000 ms deadline
  | error               -- EOF / reset
  | bytes (b : Bytes)   -- `byteCount = b.length` (1 … buffer size) bytes
  deriving DecidableEq, Repr

structure Verdict where
  binary : Bool
  writes : List Bytes      -- what is written to the panel as part of the negotiation, after the probe
  errorMsg : Bytes         -- client only
  deriving DecidableEq, Repr

def beforeLF : Bytes → Bytes
  | [] => []
  | b :: r => if b = 10 then [] else b :: beforeLF r

/-- `"ErrorMsg="` -/
def errorMsgPrefix : Bytes := [69, 114, 114, 111, 114, 77, 115, 103, 61]

def hasPrefix : Bytes → Bytes → Bool
  | _, [] => true
  | [], _ :: _ => false
  | a :: l, b :: p => a = b && hasPrefix l p

/-- connecttopanel.go 119-124 on `byteArray[:byteCount]` -/
def extractErrorMsg (b : Bytes) : Bytes :=
  let p0 := beforeLF b                       -- `strings.Split(s, "\n")[0]`
  if hasPrefix p0 errorMsgPrefix then p0.drop 9 else []

def lf : Bytes := [10]

/-- connecttopanel.go 90-130 -/
def classifyClient : Reply → Verdict
  | .bytes b =>
    if b.length > 4 then
      if (le32 b + 4) % 4294967296 = b.length then
        ⟨true, [], []⟩                                  -- ACK or anything else in a well-formed frame: binary
      else ⟨false, [lf], extractErrorMsg b⟩           -- "Bytecount didn't match header"
    else ⟨false, [lf], extractErrorMsg b⟩             -- "Unexpected reply length"
  | _ => ⟨false, [lf], []⟩                            -- read error (timeout, EOF): byteCount = 0

/-- `"RDY\n"` -/
def rdy : Bytes := [82, 68, 89, 10]
/-- `"map="` -/
def mapEq : Bytes := [109, 97, 112, 61]

/-- rawpanelhelpers.go 701-738 -/
def classifyDetector : Reply → Verdict
  | .bytes b =>
    if b.length ≥ 4 ∧ (b.take 4 = rdy ∨ b.take 4 = mapEq) then ⟨false, [lf], []⟩
    else if b.length ≤ 4 then ⟨true, [], []⟩
    else if (le32 b + 4) % 4294967296 ≠ b.length then ⟨true, [], []⟩
    else ⟨true, [], []⟩
  | _ => ⟨false, [lf], []⟩

/-- which `Reply` the single read sees: bytes sent `delay` ms after the probe -/
def replyOf (delay : Nat) (reply : Option Bytes) (closes : Bool) (bufSize : Nat) : Reply :=
  match reply with
  | some b => if delay < frameTimeout then (if b.isEmpty then (if closes then .error else .timeout) else .bytes (b.take bufSize)) else .timeout
  | none => if closes ∧ delay < frameTimeout then .error else .timeout

end RawPanelVerif.Net
