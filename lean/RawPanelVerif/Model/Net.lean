import RawPanelVerif.Gen.Consts
import RawPanelVerif.Gen.NetSites
import RawPanelVerif.Base.Bytes
/-!
# Net model — data path of `ConnectToPanel` (connecttopanel.go) and of
# `AutoDetectIfPanelEncodingIsBinary` (rawpanelhelpers.go)

One definition per piece of Go control flow, same order of effects.

* `stepByte` / `feed`      binary read loop (connecttopanel.go 178-205): `io.ReadFull` of the 4-byte header,
                           limit check, `make`, `io.ReadFull` of the payload, delivery.  `io.ReadFull(conn, buf)`
                           is modelled by its contract: it returns when exactly `len buf` bytes of the stream
                           have been consumed, however the stream was cut into segments.
* `Cfg` / `DlOp`            every `Set…Deadline` call site of the reader (88, 117, 184, 188, 198) as a field: which
                           call (`SetReadDeadline` / `SetDeadline`, clear / arm) sits there, or none.  `repaired` = the
                           code as it is, `pinned` = the pinned tree (no call at 188).
* `stepByteT` / `tstep` / `step` / `runT`   the same loop with the connection's read and write deadline as explicit
                           state and the deadline calls in program order; as an LTS with labels `enter` (117 … 184),
                           `arrive`, `expire`, `peerClose`, `cancel`, `teardown` and *urgent* time (nothing but `expire`
                           happens at or after an armed deadline), and as a deterministic run over a timed script.
* `asciiStep` / `asciiFeed` / `runA`   ASCII read loop (216-230): `bufio.ReadString('\n')` + `strings.TrimSpace`
                           (Unicode white space, `Base/Bytes.lean`), with the read deadline lines 88/117 leave behind.
* `writeOne` / `writeBytes`  what the writer goroutine (138-174) puts on the wire for a message list; the writer as an
                           LTS is in `Model/NetWriter.lean`.
* `classifyClient`, `classifyDetector`, `replyOf`  probe reply classification (90-130, rawpanelhelpers.go 694-752) and
                           what the single probe `Read` returns given the reply delay and the probe timeout.

Opaque parameters (supplied by the harness, never interpreted here): `proto.Marshal` bytes of submitted
messages, converter lines, the decoder applied to a delivered payload / line.
-/
namespace RawPanelVerif.Net

abbrev Bytes := List UInt8

/-- `binary.LittleEndian.Uint32(b[0:4])` -/
def le32 : Bytes → Nat
  | a :: b :: c :: d :: _ => a.toNat + 256 * b.toNat + 65536 * c.toNat + 16777216 * d.toNat
  | _ => 0

/-- `binary.LittleEndian.PutUint32(header, uint32(n))` (the cast truncates modulo 2^32) -/
def putLe32 (n : Nat) : Bytes :=
  [UInt8.ofNat n, UInt8.ofNat (n / 256), UInt8.ofNat (n / 65536), UInt8.ofNat (n / 16777216)]

/-- the frame limit of the client's read loop (`currentPayloadLength < 500000`), regenerated from the source -/
def limit : Nat := Gen.clientFrameLimit

/-- the in-frame read deadline in ms (`time.Now().Add(2 * time.Second)`), regenerated from the source -/
def frameTimeout : Nat := Gen.clientFrameTimeoutMs

/-! ## Binary reader: framing -/

inductive Stop
  | overLimit (len : Nat)   -- header ≥ limit: `break` before `make`
  | timeout                 -- read deadline expired
  | peerClosed              -- EOF / error from the socket
  deriving DecidableEq, Repr

/-- observable effects of the read loop -/
inductive Eff
  | alloc (n : Nat)         -- `make([]byte, n)` for a payload
  | deliver (p : Bytes)     -- `msgsFromPanel <- [Unmarshal p]`
  deriving DecidableEq, Repr

/-- `rgot` = the bytes consumed so far by the current `io.ReadFull`, newest first (so that consuming a byte is O(1));
`need` = how many bytes the payload read still lacks. -/
inductive RState
  | waitHdr (rgot : Bytes)                    -- inside `io.ReadFull(conn, headerArray)`
  | waitPayload (need : Nat) (rgot : Bytes)   -- inside `io.ReadFull(conn, payload)`, `need ≥ 1`
  | stopped (why : Stop)                      -- left the loop (teardown follows)
  deriving DecidableEq, Repr

def RState.init : RState := .waitHdr []

/-- consume one byte of the stream -/
def stepByte (s : RState) (b : UInt8) : RState × List Eff :=
  match s with
  | .waitHdr rgot =>
    let rgot' := b :: rgot
    if rgot'.length < 4 then (.waitHdr rgot', [])
    else
      let len := le32 rgot'.reverse
      if len < limit then
        -- `make` happens only here, after the check
        if len = 0 then (.waitHdr [], [.alloc 0, .deliver []])   -- ReadFull of 0 bytes returns at once
        else (.waitPayload len [], [.alloc len])
      else (.stopped (.overLimit len), [])
  | .waitPayload need rgot =>
    if need ≤ 1 then (.waitHdr [], [.deliver (b :: rgot).reverse])
    else (.waitPayload (need - 1) (b :: rgot), [])
  | .stopped w => (.stopped w, [])

/-- consume a segment byte by byte -/
def feed : RState → Bytes → RState × List Eff
  | s, [] => (s, [])
  | s, b :: bs =>
    let r1 := stepByte s b
    let r2 := feed r1.1 bs
    (r2.1, r1.2 ++ r2.2)

/-- tail-recursive form used by compiled code (long payloads) -/
def feedTR : RState → Bytes → List Eff → RState × List Eff
  | s, [], acc => (s, acc)
  | s, b :: bs, acc => let r := stepByte s b; feedTR r.1 bs (acc ++ r.2)

theorem feedTR_eq (s : RState) (bs : Bytes) (acc : List Eff) :
    feedTR s bs acc = ((feed s bs).1, acc ++ (feed s bs).2) := by
  induction bs generalizing s acc with
  | nil => simp [feedTR, feed]
  | cons b bs ih => simp [feedTR, feed, ih, List.append_assoc]

def feedFast (s : RState) (bs : Bytes) : RState × List Eff := feedTR s bs []

@[csimp] theorem feed_eq_feedFast : @feed = @feedFast := by
  funext s bs; simp [feedFast, feedTR_eq]

/-- consume a list of segments -/
def feedAll : RState → List Bytes → RState × List Eff
  | s, [] => (s, [])
  | s, seg :: segs =>
    let r1 := feed s seg
    let r2 := feedAll r1.1 segs
    (r2.1, r1.2 ++ r2.2)

def deliveries : List Eff → List Bytes
  | [] => []
  | .deliver p :: r => p :: deliveries r
  | .alloc _ :: r => deliveries r

def allocs : List Eff → List Nat
  | [] => []
  | .alloc n :: r => n :: allocs r
  | .deliver _ :: r => allocs r

/-! ## The connection's deadlines and the reader's `Set…Deadline` calls

A `net.Conn` has a read and a write deadline.  `SetReadDeadline` touches the first, `SetDeadline` both.  Every call
site of the reader (connecttopanel.go 88, 117, 184, 188, 198) is a field of `Cfg`, so that "this call is missing",
"this call sits elsewhere" or "this call is `SetDeadline`" are *configurations*, and the theorems say for which
configurations they hold (`repaired` = the code as it is). -/

inductive DlKind
  | read      -- `SetReadDeadline`
  | both      -- `SetDeadline`
  deriving DecidableEq, Repr

inductive DlOp
  | skip                          -- no call at this place
  | clear (k : DlKind)            -- `Set…Deadline(time.Time{})`
  | arm (k : DlKind) (ms : Nat)   -- `Set…Deadline(time.Now().Add(ms))`
  deriving DecidableEq, Repr

structure Deadlines where
  rd : Option Nat := none     -- read deadline (absolute ms); `none` = cleared
  wr : Option Nat := none     -- write deadline
  deriving DecidableEq, Repr

def DlOp.apply (now : Nat) : DlOp → Deadlines → Deadlines
  | .skip, d => d
  | .clear .read, d => { d with rd := none }
  | .clear .both, _ => ⟨none, none⟩
  | .arm .read ms, d => { d with rd := some (now + ms) }
  | .arm .both ms, _ => ⟨some (now + ms), some (now + ms)⟩

def applyOps (now : Nat) : List DlOp → Deadlines → Deadlines
  | [], d => d
  | op :: r, d => applyOps now r (op.apply now d)

/-- the probe read deadline in ms (connecttopanel.go 88), regenerated from the source -/
def probeTimeout : Nat := Gen.clientProbeTimeoutMs

/-- the deadline calls of `ConnectToPanel`, by call site -/
structure Cfg where
  probeArm : DlOp      -- 88   before the probe `Read`
  afterProbe : DlOp    -- 117  after the probe `Read`, both modes ("Reset - necessary for ASCII line reading")
  loopTop : DlOp       -- 184  top of the binary read loop
  hdrRest : DlOp       -- 188  after the first header byte
  payload : DlOp       -- 198  before the payload read
  afterPayload : DlOp := .skip   -- a call right after the payload read (the code has none)
  zeroShortcut : Bool := false   -- an empty frame is delivered without passing 198 / 199 / `afterPayload` (it is not)
  deriving DecidableEq, Repr

/-- the code as it is -/
def repaired : Cfg :=
  { probeArm := .arm .read probeTimeout, afterProbe := .clear .read, loopTop := .clear .read,
    hdrRest := .arm .read frameTimeout, payload := .arm .read frameTimeout }
/-- the pinned code (whole header read without deadline) -/
def pinned : Cfg := { repaired with hdrRest := .skip }

def Cfg.ops (c : Cfg) : List DlOp := [c.probeArm, c.afterProbe, c.loopTop, c.hdrRest, c.payload, c.afterPayload]

def DlOp.readOnly : DlOp → Bool
  | .clear .both => false
  | .arm .both _ => false
  | _ => true

/-! ### The configuration the source has

`Gen.deadlineSites` is regenerated from connecttopanel.go on every run: every `Set…Deadline` call of `ConnectToPanel`
in source order with its position in the loop structure.  `cfgOfSites` reads the configuration off that list; a call
at a place (or with an argument) the model has no field for gives `none`.  That the result is `repaired` is a proof
obligation of C08, C09 and C10 (`…repaired_is_the_source_layout`), so a change that drops, moves, adds or rewrites a
deadline call no longer passes as "the code as it is". -/

/-- the call: `SetReadDeadline` / `SetDeadline`, `time.Time{}` / `time.Now().Add(constant)` -/
def opOfSite (s : Gen.DeadlineSite) : Option DlOp :=
  match s.fn, s.clear, s.addMs with
  | 0, true, none => some (.clear .read)
  | 1, true, none => some (.clear .both)
  | 0, false, some ms => some (.arm .read ms)
  | 1, false, some ms => some (.arm .both ms)
  | _, _, _ => none

/-- the place, as the index of the `Cfg` field (order of `Cfg.ops`):
0  probeArm      in the connection loop (else-branch of the dial error test), before the probe `Read`
1  afterProbe    same block, after the probe `Read`, under no further condition
2  loopTop       first statement of the binary read loop (then-branch of `if binaryPanel`)
3  hdrRest       in that loop, after the read of the first header byte, under `if err == nil`
4  payload       in that loop, after both header reads, under `else { if len < limit {`
5  afterPayload  in that loop, after the payload read, in the same block or below it -/
def slotOfSite (s : Gen.DeadlineSite) : Option Nat :=
  if s.loops = 1 ∧ s.path = [0] ∧ s.reads = 0 then some 0
  else if s.loops = 1 ∧ s.path = [0] ∧ s.reads = 1 then some 1
  else if s.loops = 2 ∧ s.path = [0, 1] ∧ s.reads = 1 ∧ s.first = true then some 2
  else if s.loops = 2 ∧ s.path = [0, 1, 1] ∧ s.reads = 2 then some 3
  else if s.loops = 2 ∧ s.path = [0, 1, 0, 1] ∧ s.reads = 3 then some 4
  else if s.loops = 2 ∧ s.path.take 4 = [0, 1, 0, 1] ∧ s.reads = 4 then some 5
  else none

def Cfg.noCalls : Cfg :=
  { probeArm := .skip, afterProbe := .skip, loopTop := .skip, hdrRest := .skip, payload := .skip }

def Cfg.setSlot (c : Cfg) (i : Nat) (op : DlOp) : Cfg :=
  match i with
  | 0 => { c with probeArm := op }
  | 1 => { c with afterProbe := op }
  | 2 => { c with loopTop := op }
  | 3 => { c with hdrRest := op }
  | 4 => { c with payload := op }
  | _ => { c with afterPayload := op }

/-- the sites in source order fill the fields in field order, each at most once (`next` = first field still free) -/
def placeSites : List Gen.DeadlineSite → Nat → Cfg → Option Cfg
  | [], _, c => some c
  | s :: r, next, c =>
    match slotOfSite s, opOfSite s with
    | some i, some op => if next ≤ i then placeSites r (i + 1) (c.setSlot i op) else none
    | _, _ => none

def cfgOfSites (l : List Gen.DeadlineSite) : Option Cfg := placeSites l 0 Cfg.noCalls

/-- a site list written by hand (NOT the regenerated one): the five calls of the repaired code, for examples that must
not depend on the source of the day -/
def exampleSites : List Gen.DeadlineSite := [
  { fn := 0, clear := false, addMs := some 2000, loops := 1, path := [0], first := false, reads := 0 },
  { fn := 0, clear := true, addMs := none, loops := 1, path := [0], first := false, reads := 1 },
  { fn := 0, clear := true, addMs := none, loops := 2, path := [0, 1], first := true, reads := 1 },
  { fn := 0, clear := false, addMs := some 2000, loops := 2, path := [0, 1, 1], first := false, reads := 2 },
  { fn := 0, clear := false, addMs := some 2000, loops := 2, path := [0, 1, 0, 1], first := false, reads := 3 }]

/-! ## Binary reader with the deadlines as state -/

/-- `stepByte` with the deadline calls in program order: the byte `b` is consumed at time `now`, then the loop
runs on to its next blocking read.  State and effects are those of `stepByte` (`stepByteT_eq`). -/
def stepByteT (cfg : Cfg) (now : Nat) (s : RState) (b : UInt8) (dl : Deadlines) : RState × Deadlines × List Eff :=
  match s with
  | .waitHdr rgot =>
    let rgot' := b :: rgot
    -- 186-188: the first header byte has arrived
    let dl1 := if rgot = [] then cfg.hdrRest.apply now dl else dl
    if rgot'.length < 4 then (.waitHdr rgot', dl1, [])
    else
      let len := le32 rgot'.reverse
      if len < limit then
        if len = 0 then
          -- 198, 199 (`ReadFull` of 0 bytes returns at once), 206, then 184
          if cfg.zeroShortcut then (.waitHdr [], cfg.loopTop.apply now dl1, [.alloc 0, .deliver []])
          else (.waitHdr [], cfg.loopTop.apply now (cfg.afterPayload.apply now (cfg.payload.apply now dl1)),
                [.alloc 0, .deliver []])
        else (.waitPayload len [], cfg.payload.apply now dl1, [.alloc len])                    -- 198
      else (.stopped (.overLimit len), dl1, [])
  | .waitPayload need rgot =>
    if need ≤ 1 then
      (.waitHdr [], cfg.loopTop.apply now (cfg.afterPayload.apply now dl), [.deliver (b :: rgot).reverse])  -- 206, 184
    else (.waitPayload (need - 1) (b :: rgot), dl, [])
  | .stopped w => (.stopped w, dl, [])

def RState.live : RState → Bool
  | .stopped _ => false
  | _ => true

structure CState where
  r : RState
  dl : Deadlines
  entered : Bool       -- lines 117-184 have run: the read loop is at its first blocking read
  last : Nat           -- time the last byte was consumed (loop entry if none yet)
  clock : Nat
  fstart : Nat         -- ghost: time the first byte of the current (or last) frame was consumed
  exit : Bool          -- the `exit` flag (set only by the context-cancel branch of the writer goroutine, 146-150)
  reported : Option Bool   -- argument of `ondisconnect`, once it has been called (237-239)
  deriving DecidableEq, Repr

/-- the connection when the probe `Read` has returned: the probe deadline (armed at `tp`) is still in force -/
def CState.probed (cfg : Cfg) (tp : Nat) : CState :=
  ⟨.init, cfg.probeArm.apply tp {}, false, tp, tp, tp, false, none⟩

/-- lines 117 … 184: the deadline call after the probe, then the first pass through the loop top -/
def enterLoop (cfg : Cfg) (now : Nat) (s : CState) : CState :=
  { s with dl := applyOps now [cfg.afterProbe, cfg.loopTop] s.dl, entered := true, last := now, clock := now,
           fstart := now }

/-- the read loop at its first blocking read, probe at `tp`, loop entered at `now` -/
def CState.start (cfg : Cfg) (tp now : Nat) : CState := enterLoop cfg now (CState.probed cfg tp)

def tstep (cfg : Cfg) (now : Nat) (s : CState) (b : UInt8) : CState × List Eff :=
  if s.r.live then
    let r := stepByteT cfg now s.r b s.dl
    ({ s with r := r.1, dl := r.2.1, last := now, clock := now,
              fstart := if s.r = .waitHdr [] then now else s.fstart }, r.2.2)
  else ({ s with clock := now }, [])      -- the loop has ended: nobody reads

def feedT (cfg : Cfg) (now : Nat) : CState → Bytes → CState × List Eff
  | s, [] => (s, [])
  | s, b :: bs =>
    let r1 := tstep cfg now s b
    let r2 := feedT cfg now r1.1 bs
    (r2.1, r1.2 ++ r2.2)

def feedTTR (cfg : Cfg) (now : Nat) : CState → Bytes → List Eff → CState × List Eff
  | s, [], acc => (s, acc)
  | s, b :: bs, acc => let r := tstep cfg now s b; feedTTR cfg now r.1 bs (acc ++ r.2)

theorem feedTTR_eq (cfg : Cfg) (now : Nat) (s : CState) (bs : Bytes) (acc : List Eff) :
    feedTTR cfg now s bs acc = ((feedT cfg now s bs).1, acc ++ (feedT cfg now s bs).2) := by
  induction bs generalizing s acc with
  | nil => simp [feedTTR, feedT]
  | cons b bs ih => simp [feedTTR, feedT, ih, List.append_assoc]

def feedTFast (cfg : Cfg) (now : Nat) (s : CState) (bs : Bytes) : CState × List Eff := feedTTR cfg now s bs []

@[csimp] theorem feedT_eq_feedTFast : @feedT = @feedTFast := by
  funext cfg now s bs; simp [feedTFast, feedTTR_eq]

inductive Lbl
  | enter (now : Nat)                -- program: lines 117 … 184
  | arrive (now : Nat) (b : UInt8)   -- a byte reaches the reader (any segmentation, any spacing)
  | expire (now : Nat)               -- the armed read deadline has passed: the blocked `Read` returns a timeout
  | peerClose (now : Nat)            -- EOF / reset
  | cancel (now : Nat)               -- writer goroutine, context done: `exit.Store(true); conn.Close()`
  | teardown (now : Nat)             -- main goroutine after the loop: `ondisconnect(exit.Load())`
  deriving DecidableEq, Repr

/-- no armed read deadline has passed at `now` -/
def notExpired (s : CState) (now : Nat) : Bool :=
  match s.dl.rd with
  | some d => decide (now < d)
  | none => true

/-- One LTS step; `none` = label not enabled.  Time is *urgent*: while the loop is blocked in a read with a deadline
`d`, nothing but `expire` can happen at a time ≥ `d` — a byte (or a close) that comes at or after the deadline finds
the read already returned with a timeout. -/
def step (cfg : Cfg) (s : CState) : Lbl → Option (CState × List Eff)
  | .enter now =>
    if s.entered = false ∧ s.clock ≤ now then some (enterLoop cfg now s, []) else none
  | .arrive now b =>
    if s.entered = true ∧ s.clock ≤ now ∧ (s.r.live = true → notExpired s now = true) then some (tstep cfg now s b)
    else none
  | .expire now =>
    match s.dl.rd with
    | some d =>
      if s.entered = true ∧ s.clock ≤ now ∧ d ≤ now ∧ s.r.live = true then
        some ({ s with r := .stopped .timeout, clock := now }, [])
      else none
    | none => none
  | .peerClose now =>
    if s.entered = true ∧ s.clock ≤ now ∧ s.r.live = true ∧ notExpired s now = true then
      some ({ s with r := .stopped .peerClosed, clock := now }, [])
    else none
  | .cancel now =>
    if s.entered = true ∧ s.clock ≤ now ∧ (s.r.live = true → notExpired s now = true) then
      -- our own `conn.Close()` makes a blocked read fail like a close by the peer
      some ({ s with exit := true, r := if s.r.live then .stopped .peerClosed else s.r, clock := now }, [])
    else none
  | .teardown now =>
    if s.entered = true ∧ s.clock ≤ now ∧ s.r.live = false ∧ s.reported = none then
      some ({ s with reported := some s.exit, clock := now }, [])
    else none

def runL (cfg : Cfg) : CState → List Lbl → Option (CState × List Eff)
  | s, [] => some (s, [])
  | s, l :: ls =>
    match step cfg s l with
    | none => none
    | some r1 =>
      match runL cfg r1.1 ls with
      | none => none
      | some r2 => some (r2.1, r1.2 ++ r2.2)

/-! ### Deterministic run over a timed script (trace validation) -/

inductive PAct
  | bytes (b : Bytes)
  | close
  | nothing
  deriving DecidableEq, Repr

/-- (delay before the action in ms, action) -/
abbrev TScript := List (Nat × PAct)

structure Outcome where
  effs : List Eff := []
  stop : Option (Stop × Nat) := none   -- why and when the read loop ended (none: still reading at the end)
  tight : Bool := false                -- some deadline decision had less than `margin` ms to spare
  deriving DecidableEq, Repr

def absDiff (a b : Nat) : Nat := if a ≤ b then b - a else a - b

/-- the armed deadline that has passed at `now`, if any -/
def firedAt (rd : Option Nat) (now : Nat) : Option Nat :=
  match rd with
  | some dl => if dl ≤ now then some dl else none
  | none => none

def tightAt (margin : Nat) (rd : Option Nat) (now : Nat) : Bool :=
  match rd with
  | some dl => decide (absDiff dl now < margin)
  | none => false

def runT (cfg : Cfg) (margin : Nat) : CState → TScript → Outcome → Outcome
  | _, [], o => o
  | s, (d, a) :: rest, o =>
    let now := s.clock + d
    let tight := o.tight || tightAt margin s.dl.rd now
    -- urgency: an armed deadline that has passed fires before anything later happens
    match firedAt s.dl.rd now with
    | some dl => { o with stop := some (.timeout, dl), tight := tight }
    | none =>
      match a with
      | .nothing => runT cfg margin { s with clock := now } rest { o with tight := tight }
      | .close => { o with stop := some (.peerClosed, now), tight := tight }
      | .bytes b =>
        let r := feedT cfg now { s with clock := now } b
        let o' := { o with effs := o.effs ++ r.2, tight := tight }
        match r.1.r with
        | .stopped w => { o' with stop := some (w, now) }
        | _ => runT cfg margin r.1 rest o'

/-! ## ASCII reader -/

/-- `strings.TrimSpace`: white space is Go's `unicode.IsSpace` on UTF-8 (the six ASCII blanks, U+0085, U+00A0,
U+1680, U+2000…U+200A, U+2028, U+2029, U+202F, U+205F, U+3000) -/
def trimSpace (l : Bytes) : Bytes := RawPanelVerif.Bytes.trimSpace l

/-- `ReadString('\n')`: state = bytes of the current unterminated line; on LF the trimmed line is delivered -/
def asciiStep (buf : Bytes) (b : UInt8) : Bytes × List Bytes :=
  if b = 10 then ([], [trimSpace (buf ++ [b])]) else (buf ++ [b], [])

def asciiFeed : Bytes → Bytes → Bytes × List Bytes
  | buf, [] => (buf, [])
  | buf, b :: bs =>
    let r1 := asciiStep buf b
    let r2 := asciiFeed r1.1 bs
    (r2.1, r1.2 ++ r2.2)

def asciiFeedAll : Bytes → List Bytes → Bytes × List Bytes
  | buf, [] => (buf, [])
  | buf, seg :: segs =>
    let r1 := asciiFeed buf seg
    let r2 := asciiFeedAll r1.1 segs
    (r2.1, r1.2 ++ r2.2)

/-- the one second the ASCII loop sleeps after EOF before the teardown (connecttopanel.go 222) -/
def asciiEofSleep : Nat := Gen.clientAsciiEofSleepMs

/-- the ASCII read loop with the connection's read deadline: the loop itself never touches the deadline, so what
is in force is what lines 88 and 117 left there -/
structure AState where
  buf : Bytes
  rd : Option Nat
  clock : Nat
  deriving DecidableEq, Repr

/-- the ASCII loop at its first `ReadString`: probe deadline armed at `tp`, line 117 executed at `now` -/
def AState.start (cfg : Cfg) (tp now : Nat) : AState :=
  ⟨[], (cfg.afterProbe.apply now (cfg.probeArm.apply tp {})).rd, now⟩

/-- ASCII run over a timed script: a deadline left armed makes `ReadString` fail with a timeout (no EOF sleep
then); `close` ends the loop after the EOF sleep -/
def runA : AState → TScript → Outcome × List Bytes → Outcome × List Bytes
  | _, [], acc => acc
  | s, (d, a) :: rest, acc =>
    let now := s.clock + d
    match firedAt s.rd now with
    | some dl => ({ acc.1 with stop := some (.timeout, dl) }, acc.2)
    | none =>
      match a with
      | .nothing => runA { s with clock := now } rest acc
      | .close => ({ acc.1 with stop := some (.peerClosed, now + asciiEofSleep) }, acc.2)
      | .bytes b =>
        let r := asciiFeed s.buf b
        runA { s with buf := r.1, clock := now } rest (acc.1, acc.2 ++ r.2)

/-! ## Writer goroutine -/

inductive Mode | binary | ascii
  deriving DecidableEq, Repr

/-- one message list taken from `msgsToPanel`: `marshal` bytes of each message (binary path) and the
converter's lines for the whole list (ASCII path); both opaque -/
structure Submission where
  msgs : List Bytes
  lines : List Bytes
  deriving DecidableEq, Repr

def frame (p : Bytes) : Bytes := putLe32 p.length ++ p

def writeOne : Mode → Submission → Bytes
  | .binary, s => (s.msgs.map frame).flatten
  | .ascii, s => (s.lines.map (· ++ [10])).flatten

def writeBytes (m : Mode) (subs : List Submission) : Bytes := (subs.map (writeOne m)).flatten

/-! ## Probe and classification -/

/-- the probe both entry points write: header + `proto.Marshal(ping)` -/
def probeBytes (marshalPing : Bytes) : Bytes := frame marshalPing

/-- result of the single `conn.Read(byteArray)` after the probe -/
inductive Reply
  | timeout             -- nothing within the 2000 ms deadline
  | error               -- EOF / reset
  | bytes (b : Bytes)   -- `byteCount = b.length` (1 … buffer size) bytes
  deriving DecidableEq, Repr

structure Verdict where
  binary : Bool
  writes : List Bytes      -- what is written to the panel as part of the negotiation, after the probe
  errorMsg : Bytes         -- client only
  deriving DecidableEq, Repr

def beforeLF : Bytes → Bytes
  | [] => []
  | b :: r => if b = 10 then [] else b :: beforeLF r

/-- `"ErrorMsg="` -/
def errorMsgPrefix : Bytes := [69, 114, 114, 111, 114, 77, 115, 103, 61]

def hasPrefix : Bytes → Bytes → Bool
  | _, [] => true
  | [], _ :: _ => false
  | a :: l, b :: p => a = b && hasPrefix l p

/-- connecttopanel.go 119-124 on `byteArray[:byteCount]` -/
def extractErrorMsg (b : Bytes) : Bytes :=
  let p0 := beforeLF b                       -- `strings.Split(s, "\n")[0]`
  if hasPrefix p0 errorMsgPrefix then p0.drop 9 else []

def lf : Bytes := [10]

/-- connecttopanel.go 90-130 -/
def classifyClient : Reply → Verdict
  | .bytes b =>
    if b.length > 4 then
      if (le32 b + 4) % 4294967296 = b.length then
        ⟨true, [], []⟩                                  -- ACK or anything else in a well-formed frame: binary
      else ⟨false, [lf], extractErrorMsg b⟩           -- "Bytecount didn't match header"
    else ⟨false, [lf], extractErrorMsg b⟩             -- "Unexpected reply length"
  | _ => ⟨false, [lf], []⟩                            -- read error (timeout, EOF): byteCount = 0

/-- `"RDY\n"` -/
def rdy : Bytes := [82, 68, 89, 10]
/-- `"map="` -/
def mapEq : Bytes := [109, 97, 112, 61]

/-- rawpanelhelpers.go 701-738 -/
def classifyDetector : Reply → Verdict
  | .bytes b =>
    if b.length ≥ 4 ∧ (b.take 4 = rdy ∨ b.take 4 = mapEq) then ⟨false, [lf], []⟩
    else if b.length ≤ 4 then ⟨true, [], []⟩
    else if (le32 b + 4) % 4294967296 ≠ b.length then ⟨true, [], []⟩
    else ⟨true, [], []⟩
  | _ => ⟨false, [lf], []⟩

/-- the detector's probe read deadline in ms (rawpanelhelpers.go 711), regenerated from the source -/
def detectorTimeout : Nat := Gen.detectorProbeTimeoutMs

/-- which `Reply` the single probe `Read` (deadline `timeout` ms after the probe) sees when the panel sends `reply`
`delay` ms after the probe (and / or closes) -/
def replyOf (timeout : Nat) (delay : Nat) (reply : Option Bytes) (closes : Bool) (bufSize : Nat) : Reply :=
  match reply with
  | some b =>
    if delay < timeout then (if b.isEmpty then (if closes then .error else .timeout) else .bytes (b.take bufSize))
    else .timeout
  | none => if closes ∧ delay < timeout then .error else .timeout

/-- the reconnecting client's probe read (connecttopanel.go 87-90) -/
def clientReply (delay : Nat) (reply : Option Bytes) (closes : Bool) : Reply :=
  replyOf probeTimeout delay reply closes Gen.clientProbeBuf

/-- the stand-alone detector's probe read (rawpanelhelpers.go 710-714) -/
def detectorReply (delay : Nat) (reply : Option Bytes) (closes : Bool) : Reply :=
  replyOf detectorTimeout delay reply closes Gen.detectorProbeBuf

end RawPanelVerif.Net
