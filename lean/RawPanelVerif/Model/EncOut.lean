import RawPanelVerif.Base.MsgOutTypes
import RawPanelVerif.Model.Strip
/-!
# Model of `OutboundMessagesToRawPanelASCIIstrings` (converterFunctions.go) — panel → system encoder

One definition per section of the Go function, in emission order.  `encMsg` is the pure function (used by the
soundness theorems); `encMsgE` is the same function with every pointer dereference explicit (`deref`, which fails on
a nil pointer) behind the guard the Go code writes, so that "no nil dereference" is a theorem (`Lemmas/TotalOut`).
The availability map is emitted in the order of the association list (Go: unspecified map order; the
correspondence compares the `map=` lines of a message as a set).  Every returned string passes through `singleLine`
(`flattenLineFeeds`).
-/
namespace RawPanelVerif.EncOut
open RawPanelVerif RawPanelVerif.Bytes RawPanelVerif.Strip RawPanelVerif.MsgOut

/-- `%d` of a `uint32` -/
def utoa (n : Nat) : Bytes := digitsOf n

/-! ## capability table (shared with the decoder model; equal to the tables regenerated from the Go source:
`C03.caps_table_tie`) -/

inductive Cap
  | ascii | binary | jsonFeedback | jsonInbound | jsonOutbound | system | rawADCValues | burninProfile
  | envHealth | registers | calibration | processors | networkSettings
  deriving DecidableEq, Repr

/-- the encoder's emission order (converterFunctions.go 1561-1600) -/
def Cap.all : List Cap :=
  [.ascii, .binary, .jsonFeedback, .jsonInbound, .jsonOutbound, .system, .rawADCValues, .burninProfile,
   .envHealth, .registers, .calibration, .processors, .networkSettings]

def Cap.name : Cap → Bytes
  | .ascii => asc "ASCII"
  | .binary => asc "Binary"
  | .jsonFeedback => asc "JSONFeedback"
  | .jsonInbound => asc "JSONonInbound"
  | .jsonOutbound => asc "JSONonOutbound"
  | .system => asc "System"
  | .rawADCValues => asc "RawADCValues"
  | .burninProfile => asc "BurninProfile"
  | .envHealth => asc "EnvHealth"
  | .registers => asc "Registers"
  | .calibration => asc "Calibration"
  | .processors => asc "Processors"
  | .networkSettings => asc "NetworkSettings"

/-- the Go field of `RawPanelSupport` a capability stands for (tied, with `Cap.all` and `Cap.name`, to the tables regenerated
from converterFunctions.go by `C03.caps_table_tie`) -/
def Cap.goField : Cap → String
  | .ascii => "ASCII"
  | .binary => "Binary"
  | .jsonFeedback => "ASCII_JSONfeedback"
  | .jsonInbound => "ASCII_Inbound"
  | .jsonOutbound => "ASCII_Outbound"
  | .system => "System"
  | .rawADCValues => "RawADCValues"
  | .burninProfile => "BurninProfile"
  | .envHealth => "EnvHealth"
  | .registers => "Registers"
  | .calibration => "Calibration"
  | .processors => "Processors"
  | .networkSettings => "NetworkSettings"

def _root_.RawPanelVerif.MsgOut.Support.get (s : Support) : Cap → Bool
  | .ascii => s.ascii
  | .binary => s.binary
  | .jsonFeedback => s.jsonFeedback
  | .jsonInbound => s.jsonInbound
  | .jsonOutbound => s.jsonOutbound
  | .system => s.system
  | .rawADCValues => s.rawADCValues
  | .burninProfile => s.burninProfile
  | .envHealth => s.envHealth
  | .registers => s.registers
  | .calibration => s.calibration
  | .processors => s.processors
  | .networkSettings => s.networkSettings

/-- `supportObj.X = true` -/
def _root_.RawPanelVerif.MsgOut.Support.set (s : Support) : Cap → Support
  | .ascii => { s with ascii := true }
  | .binary => { s with binary := true }
  | .jsonFeedback => { s with jsonFeedback := true }
  | .jsonInbound => { s with jsonInbound := true }
  | .jsonOutbound => { s with jsonOutbound := true }
  | .system => { s with system := true }
  | .rawADCValues => { s with rawADCValues := true }
  | .burninProfile => { s with burninProfile := true }
  | .envHealth => { s with envHealth := true }
  | .registers => { s with registers := true }
  | .calibration => { s with calibration := true }
  | .processors => { s with processors := true }
  | .networkSettings => { s with networkSettings := true }

/-! ## key literals -/
def kModel := asc "_model="
def kSerial := asc "_serial="
def kVersion := asc "_version="
def kName := asc "_name="
def kPlatform := asc "_platform="
def kBluePill1 := asc "_bluePillReady=1"
def kMaxClients := asc "_serverModeMaxClients="
def kLockToIP := asc "_serverModeLockToIP="
def kPanelType := asc "_panelType="
def kSupport := asc "_support="
def kSvgbase := asc "_panelTopology_svgbase="
def kTopoHWC := asc "_panelTopology_HWC="
def kBurnin := asc "_burninProfile="
def kNetCfg := asc "_networkConfig="
def kCalib := asc "_calibrationProfile="
def kDefCalib := asc "_defaultCalibrationProfile="
def kSleepTimer := asc "_sleepTimer="
def kIsSleeping := asc "_isSleeping="
def kHeartBeat := asc "_heartBeatTimer="
def kDimmedGain := asc "DimmedGain="
def kConnections := asc "_connections="
def kBoots := asc "_bootsCount="
def kTotalUp := asc "_totalUptimeMin="
def kSessionUp := asc "_sessionUptimeMin="
def kScreenSaver := asc "_screenSaverOnMin="
def kErrorMsg := asc "ErrorMsg="
def kMsg := asc "Msg="
def kMap := asc "map="
def kEnvHealth := asc "EnvironmentalHealth="
def kSysStat := asc "SysStat="
def kHWC := asc "HWC#"

/-! ## sections -/

/-- `switch outboundMsg.FlowMessage` -/
def flowLines (f : Int) : List Bytes :=
  if f = 2 then [asc "ack"] else if f = 3 then [asc "nack"] else if f = 1 then [asc "ping"]
  else if f = 4 then [asc "BSY"] else if f = 5 then [asc "RDY"] else if f = 100 then [asc "list"] else []

def textLine (key v : Bytes) : List Bytes := if v ≠ [] then [key ++ v] else []

def panelTypeWord (t : Int) : Option Bytes :=
  if t = 1 then some (asc "BPI") else if t = 2 then some (asc "Physical") else if t = 3 then some (asc "Emulation")
  else if t = 4 then some (asc "Touch") else if t = 5 then some (asc "Composite") else none

def panelTypeLines (t : Int) : List Bytes :=
  match panelTypeWord t with | some w => [kPanelType ++ w] | none => []

/-- the names of the set flags, in the fixed order -/
def supportNames (s : Support) : List Bytes := (Cap.all.filter (Support.get s)).map Cap.name

def supportLine (s : Support) : Bytes := kSupport ++ join 44 (supportNames s)

def panelInfoHead (p : PanelInfo) : List Bytes :=
  textLine kModel p.model ++ textLine kSerial p.serial ++ textLine kVersion p.softwareVersion ++
  textLine kName p.name ++ textLine kPlatform p.platform ++
  (if p.bluePillReady then [kBluePill1] else []) ++
  (if p.maxClients > 0 then [kMaxClients ++ utoa p.maxClients] else []) ++
  (if p.lockedToIPs ≠ [] then [kLockToIP ++ join 59 p.lockedToIPs] else []) ++
  panelTypeLines p.panelType

def panelInfoLines (p : PanelInfo) : List Bytes :=
  panelInfoHead p ++ (match p.support with | some s => [supportLine s] | none => [])

def topologyLines (t : Topology) : List Bytes :=
  [kSvgbase ++ stripLineBreaksSvg t.svgbase, kTopoHWC ++ stripLineBreaks t.json]

def b01 (b : Bool) : Bytes := if b then [49] else [48]

def runTimeLines (r : RunTimeStats) : List Bytes :=
  (if r.bootsCount > 0 then [kBoots ++ utoa r.bootsCount] else []) ++
  (if r.totalUptime > 0 then [kTotalUp ++ utoa r.totalUptime] else []) ++
  (if r.sessionUptime > 0 then [kSessionUp ++ utoa r.sessionUptime] else []) ++
  (if r.screenSaveOnTime > 0 then [kScreenSaver ++ utoa r.screenSaveOnTime] else [])

def mapLine (kv : Nat × Nat) : Bytes := kMap ++ utoa kv.1 ++ 58 :: utoa kv.2

def envWord (m : Int) : Option Bytes :=
  if m = 0 then some (asc "Normal") else if m = 1 then some (asc "Safemode") else if m = 2 then some (asc "Blocked") else none

def envLines (m : Int) : List Bytes := match envWord m with | some w => [kEnvHealth ++ w] | none => []

/-- the 20 `key:value:` fields of the SysStat format string, in order -/
def sysStatFields (o : OutOracle) (s : SysStat) : List (Bytes × Bytes) :=
  [(asc "CPUUsage", utoa s.cpuUsage), (asc "CPUTemp", o.fmtF 1 s.cpuTemp), (asc "ExtTemp", o.fmtF 1 s.extTemp),
   (asc "CPUVoltage", o.fmtF 2 s.cpuVoltage), (asc "CPUFreqCurrent", itoa s.cpuFreqCurrent),
   (asc "CPUFreqMin", itoa s.cpuFreqMin), (asc "CPUFreqMax", itoa s.cpuFreqMax), (asc "MemTotal", itoa s.memTotal),
   (asc "MemFree", itoa s.memFree), (asc "MemAvailable", itoa s.memAvailable), (asc "MemBuffers", itoa s.memBuffers),
   (asc "MemCached", itoa s.memCached), (asc "UnderVoltageNow", b01 s.underVoltageNow),
   (asc "UnderVoltage", b01 s.underVoltage), (asc "FreqCapNow", b01 s.freqCapNow), (asc "FreqCap", b01 s.freqCap),
   (asc "ThrottledNow", b01 s.throttledNow), (asc "Throttled", b01 s.throttled),
   (asc "SoftTempLimitNow", b01 s.softTempLimitNow), (asc "SoftTempLimit", b01 s.softTempLimit)]

def sysStatLine (o : OutOracle) (s : SysStat) : Bytes :=
  kSysStat ++ (sysStatFields o s).flatMap (fun kv => kv.1 ++ 58 :: (kv.2 ++ [58]))

/-- edge suffix rule: `su.Qstr(Edge > 0, fmt.Sprintf(".%d", Edge), "")` -/
def edgeSuffix (edge : Int) : Bytes := if edge > 0 then 46 :: itoa edge else []

def binaryLine (id : Nat) (b : BinaryEvent) : Bytes :=
  kHWC ++ utoa id ++ edgeSuffix b.edge ++ 61 :: (if b.pressed then asc "Down" else asc "Up")

def valueLine (id : Nat) (kind : Bytes) (v : Bytes) : Bytes := kHWC ++ utoa id ++ 61 :: (kind ++ 58 :: v)

def optLine {α : Type} (x : Option α) (f : α → Bytes) : List Bytes := match x with | some a => [f a] | none => []

def eventLines (e : Event) : List Bytes :=
  optLine e.binary (binaryLine e.hwcid) ++
  optLine e.pulsed (fun v => valueLine e.hwcid (asc "Enc") (itoa v)) ++
  optLine e.absolute (fun v => valueLine e.hwcid (asc "Abs") (utoa v)) ++
  optLine e.speed (fun v => valueLine e.hwcid (asc "Speed") (itoa v)) ++
  optLine e.rawAnalog (fun v => valueLine e.hwcid (asc "Raw") (utoa v))

def regPrefix (r : Int) : Option Bytes :=
  if r = 0 then some (asc "Mem") else if r = 1 then some (asc "Flag#") else if r = 2 then some (asc "Shift")
  else if r = 3 then some (asc "State") else none

def registerLines (r : Register) : List Bytes :=
  match regPrefix r.reg with | some p => [p ++ r.id ++ 61 :: utoa r.value] | none => []

def optLines {α : Type} (x : Option α) (f : α → List Bytes) : List Bytes := match x with | some a => f a | none => []

/-- one message, before the return-site flattening -/
def encMsgRaw (o : OutOracle) (m : OutMsg) : List Bytes :=
  flowLines m.flow ++
  optLines m.panelInfo panelInfoLines ++
  optLines m.topology topologyLines ++
  optLine m.burnin (fun j => kBurnin ++ stripLineBreaks j) ++
  optLine m.netConfig (fun c => kNetCfg ++ o.jsonOfNet c) ++
  optLine m.calibration (fun j => kCalib ++ stripLineBreaks j) ++
  optLine m.defaultCalibration (fun j => kDefCalib ++ stripLineBreaks j) ++
  optLine m.sleepTimeout (fun v => kSleepTimer ++ utoa v) ++
  optLine m.sleepState (fun b => kIsSleeping ++ b01 b) ++
  optLine m.heartBeat (fun v => kHeartBeat ++ utoa v) ++
  optLine m.dimmedGain (fun v => kDimmedGain ++ utoa v) ++
  optLine m.connections (fun c => kConnections ++ join 59 c) ++
  optLines m.runTimeStats runTimeLines ++
  optLine m.errorMsg (fun t => kErrorMsg ++ stripLineBreaks t) ++
  optLine m.message (fun t => kMsg ++ stripLineBreaks t) ++
  m.avail.map mapLine ++
  optLines m.envHealth envLines ++
  optLine m.sysStat (sysStatLine o) ++
  m.events.flatMap eventLines ++
  m.registers.flatMap registerLines

/-- `OutboundMessagesToRawPanelASCIIstrings` -/
def encOut (o : OutOracle) (ms : List OutMsg) : List Bytes := (ms.flatMap (encMsgRaw o)).map singleLine

/-! ## the C binding (rawpanel-lib-c/main.go `OutboundMessageToRawPanelASCIIstring`) -/

/-- what a C caller reads from the `char*` that `C.CString(s)` returns: the bytes before the first NUL -/
def cRead : Bytes → Bytes
  | [] => []
  | b :: r => if b = 0 then [] else b :: cRead r

/-- `C.CString(strings.Join(strs, "\n"))` (`C.CString("")` when there is no string) as the C caller sees it -/
def cBinding (o : OutOracle) (m : OutMsg) : Bytes := cRead (join 10 (encOut o [m]))

/-- the lines a C caller obtains by splitting what it read at LF (none for the empty string) -/
def cBindingLines (o : OutOracle) (m : OutMsg) : List Bytes :=
  if cBinding o m = [] then [] else splitOn 10 (cBinding o m)

/-! ## the same function with explicit pointer dereferences (for the totality theorem) -/

inductive Panic | nilDeref | index
  deriving DecidableEq, Repr

/-- `*p` / `p.Field`: panics on nil -/
def deref {α : Type} (p : Option α) : Except Panic α := match p with | some a => .ok a | none => .error .nilDeref

/-- `if p != nil { body(*p) }` -/
def guardedSection {α : Type} (p : Option α) (body : α → Except Panic (List Bytes)) : Except Panic (List Bytes) :=
  if p.isSome then (do let a ← deref p; body a) else .ok []

def panelInfoLinesE (p : PanelInfo) : Except Panic (List Bytes) := do
  let sup ← guardedSection p.support (fun s => .ok [supportLine s])
  .ok (panelInfoHead p ++ sup)

def eventLinesE (e : Event) : Except Panic (List Bytes) := do
  let b ← guardedSection e.binary (fun b => .ok [binaryLine e.hwcid b])
  let p ← guardedSection e.pulsed (fun v => .ok [valueLine e.hwcid (asc "Enc") (itoa v)])
  let a ← guardedSection e.absolute (fun v => .ok [valueLine e.hwcid (asc "Abs") (utoa v)])
  let s ← guardedSection e.speed (fun v => .ok [valueLine e.hwcid (asc "Speed") (itoa v)])
  let r ← guardedSection e.rawAnalog (fun v => .ok [valueLine e.hwcid (asc "Raw") (utoa v)])
  .ok (b ++ p ++ a ++ s ++ r)

def encMsgE (o : OutOracle) (m : OutMsg) : Except Panic (List Bytes) := do
  let pi ← guardedSection m.panelInfo panelInfoLinesE
  let topo ← guardedSection m.topology (fun t => .ok (topologyLines t))
  let burn ← guardedSection m.burnin (fun j => .ok [kBurnin ++ stripLineBreaks j])
  let net ← guardedSection m.netConfig (fun c => .ok [kNetCfg ++ o.jsonOfNet c])
  let cal ← guardedSection m.calibration (fun j => .ok [kCalib ++ stripLineBreaks j])
  let dcal ← guardedSection m.defaultCalibration (fun j => .ok [kDefCalib ++ stripLineBreaks j])
  let st ← guardedSection m.sleepTimeout (fun v => .ok [kSleepTimer ++ utoa v])
  let ss ← guardedSection m.sleepState (fun b => .ok [kIsSleeping ++ b01 b])
  let hb ← guardedSection m.heartBeat (fun v => .ok [kHeartBeat ++ utoa v])
  let dg ← guardedSection m.dimmedGain (fun v => .ok [kDimmedGain ++ utoa v])
  let conn ← guardedSection m.connections (fun c => .ok [kConnections ++ join 59 c])
  let rts ← guardedSection m.runTimeStats (fun r => .ok (runTimeLines r))
  let err ← guardedSection m.errorMsg (fun t => .ok [kErrorMsg ++ stripLineBreaks t])
  let msg ← guardedSection m.message (fun t => .ok [kMsg ++ stripLineBreaks t])
  let env ← guardedSection m.envHealth (fun e => .ok (envLines e))
  let sys ← guardedSection m.sysStat (fun s => .ok [sysStatLine o s])
  let evs ← m.events.mapM eventLinesE
  .ok (flowLines m.flow ++ pi ++ topo ++ burn ++ net ++ cal ++ dcal ++ st ++ ss ++ hb ++ dg ++ conn ++ rts ++ err ++ msg ++
       m.avail.map mapLine ++ env ++ sys ++ evs.flatten ++ m.registers.flatMap registerLines)

def encOutE (o : OutOracle) (ms : List OutMsg) : Except Panic (List Bytes) := do
  let ls ← ms.mapM (encMsgE o)
  .ok (ls.flatten.map singleLine)

/-! ## the proto definitions this model was written against; the fields the ASCII form does not carry

`Message.field` for every field reachable from `OutboundMessage` (ibeam_rawpanel/*.pb.go).  `protoFieldsRead`: the fields
the encoder model reads (`MsgOut`'s types have one structure field for each).  `protoFieldsNotCarried`: the remaining ones
— the encoder has no line for them and reads none of them: the bus status, the time stamp of an event, the previous
value of an absolute / speed event.  The harness prints the names from the real protobuf descriptors (`eout.fields`
record); the driver compares them with these two lists, so a field added to the proto definitions shows as a
disagreement.  `OutMsgX` is a message WITH those fields; `encOutX` is the encoder on it (`C03.enc_ignores_noncarried`);
`eout.msgsx` records run the real encoder on messages whose non-carried fields are set. -/

def protoFieldsRead : List String :=
  [
   "OutboundMessage.FlowMessage", "OutboundMessage.HWCavailability", "OutboundMessage.PanelInfo", "PanelInfo.Model",
   "PanelInfo.Serial", "PanelInfo.Name", "PanelInfo.SoftwareVersion", "PanelInfo.Platform",
   "PanelInfo.BluePillReady", "PanelInfo.MaxClients", "PanelInfo.LockedToIPs", "PanelInfo.PanelType",
   "PanelInfo.RawPanelSupport", "RawPanelSupport.ASCII", "RawPanelSupport.Binary",
   "RawPanelSupport.ASCII_JSONfeedback", "RawPanelSupport.ASCII_Inbound", "RawPanelSupport.ASCII_Outbound",
   "RawPanelSupport.Processors", "RawPanelSupport.System", "RawPanelSupport.RawADCValues",
   "RawPanelSupport.BurninProfile", "RawPanelSupport.EnvHealth", "RawPanelSupport.Registers",
   "RawPanelSupport.Calibration", "RawPanelSupport.NetworkSettings", "OutboundMessage.PanelTopology",
   "PanelTopology.Svgbase", "PanelTopology.Json", "OutboundMessage.BurninProfile", "BurninProfile.Json",
   "OutboundMessage.SleepTimeout", "SleepTimeout.Value", "OutboundMessage.SleepState", "SleepState.IsSleeping",
   "OutboundMessage.Events", "HWCEvent.HWCID", "HWCEvent.Binary", "BinaryEvent.Pressed", "BinaryEvent.Edge",
   "HWCEvent.Pulsed", "PulsedEvent.Value", "HWCEvent.Absolute", "AbsoluteEvent.Value", "HWCEvent.Speed",
   "SpeedEvent.Value", "HWCEvent.RawAnalog", "RawAnalogEvent.Value", "OutboundMessage.Connections",
   "Connections.Connection", "OutboundMessage.HeartBeatTimer", "HeartBeatTimer.Value", "OutboundMessage.DimmedGain",
   "DimmedGain.Value", "OutboundMessage.RunTimeStats", "RunTimeStats.BootsCount", "RunTimeStats.TotalUptime",
   "RunTimeStats.SessionUptime", "RunTimeStats.ScreenSaveOnTime", "OutboundMessage.SysStat", "SystemStat.CPUUsage",
   "SystemStat.CPUTemp", "SystemStat.ExtTemp", "SystemStat.CPUVoltage", "SystemStat.CPUFreqCurrent",
   "SystemStat.CPUFreqMin", "SystemStat.CPUFreqMax", "SystemStat.MemTotal", "SystemStat.MemFree",
   "SystemStat.MemAvailable", "SystemStat.MemBuffers", "SystemStat.MemCached", "SystemStat.UnderVoltageNow",
   "SystemStat.UnderVoltage", "SystemStat.FreqCapNow", "SystemStat.FreqCap", "SystemStat.ThrottledNow",
   "SystemStat.Throttled", "SystemStat.SoftTempLimitNow", "SystemStat.SoftTempLimit", "OutboundMessage.Message",
   "Message.Message", "OutboundMessage.ErrorMessage", "OutboundMessage.EnvironmentalHealth", "Environment.RunMode",
   "OutboundMessage.Registers", "Register.Reg", "Register.Id", "Register.Value",
   "OutboundMessage.CalibrationProfile", "CalibrationProfile.Json", "OutboundMessage.DefaultCalibrationProfile",
   "OutboundMessage.NetworkConfig", "NetworkConfig.dhcp", "NetworkConfig.address", "NetworkConfig.netmask",
   "NetworkConfig.gateway", "NetworkConfig.first_dns", "NetworkConfig.second_dns", "NetworkConfig.no_default_route" ]

def protoFieldsNotCarried : List String :=
  [
   "OutboundMessage.BusStatus", "BusStatus.Fault", "HWCEvent.Timestamp", "AbsoluteEvent.PrevValue",
   "SpeedEvent.PrevValue" ]

/-- `HWCEvent.Timestamp`, `AbsoluteEvent.PrevValue`, `SpeedEvent.PrevValue` of one event -/
structure EventNC where
  timestamp : Nat := 0
  absPrev : Nat := 0
  speedPrev : Int := 0
  deriving DecidableEq, Repr

/-- an outbound message with the fields the ASCII form does not carry -/
structure OutMsgX where
  msg : OutMsg
  /-- `OutboundMessage.BusStatus` (`none` = nil, `some f` = `{Fault: f}`) -/
  busFault : Option Bool := none
  /-- per event, in order (missing = defaults) -/
  evNC : List EventNC := []
  deriving Repr

/-- the encoder on full messages: it reads `msg` only -/
def encOutX (o : OutOracle) (ms : List OutMsgX) : List Bytes := encOut o (ms.map (·.msg))

end RawPanelVerif.EncOut
