import RawPanelVerif.Model.Tile
import RawPanelVerif.Model.MonoChecked
/-!
# Panic-carrying form of the tile layout (`Model/Tile.lean`)

The same layout code, same order of effects, in `Option` (`none` = Go run-time panic).  Every slice access the layout
code performs, directly or through the mono-graphics API, is a checked access:

* `convertToColorRGB16bit`: `buttonColors[outputInteger]` (19-entry table) and `buttonColors[0]`,
* `icons8by8[ModifierIcon-1]` (7-entry table),
* `disp.StrWidth(s)` → `Mono.strWidthC` (font-table reads of `GetCharWidth`),
* `disp.RenderText(s)` → `Mono.renderTextC` (font-table reads of `GetCharWidth` / `GetCharStart` / `DrawChar`),
* the drawing of the emitted operations → `Mono.applyOpC` (canvas bytes, font tables, bitmap slices), in `renderTileC`.

Strings are ranged over (`for _, char := range str`), never indexed, so they contribute no access.  `nil` sub-messages are
the `Option`s of `TileIn` read through `getD {}` (the renderer fills them first: `fillNil`).  The layout never reads the
canvas, so — as in `Model/Tile.lean` — it is run first (cursor movements of `RenderText` on a scratch canvas) and the
emitted operations are executed afterwards; the tick counter of `Model/MonoChecked.lean` counts the loop bodies of that
execution.  Nothing here is used by the driver; `Lemmas/TileTotal.lean` proves `… = some (plain model's value)`.
-/
namespace RawPanelVerif.Tile
open RawPanelVerif RawPanelVerif.Mono RawPanelVerif.Gen

/-- `convertToColorRGB16bit` with `buttonColors[i]` as checked accesses (the code after `fix:` 75f1773: the default
entry is read first, the indexed entry only under the length test) -/
def color6C : Col → Option Int
  | .rgb r g b =>
    some (u32 (((mapConstrain r 0 255 0 3).emod 4) * 16) + u32 (((mapConstrain g 0 255 0 3).emod 4) * 4)
      + u32 ((mapConstrain b 0 255 0 3).emod 4))
  | .idx i =>
    let k := (i.emod 32).toNat
    match buttonColors[0]? with
    | none => none
    | some d => if k < buttonColors.size then (buttonColors[k]?).map (fun e => (e.toNat : Int)) else some (d.toNat : Int)
  | .empty => some 0

/-- the pinned tree (`su.Qint` is strict: the indexed entry is read before the length test is looked at) -/
def color6Pinned : Col → Option Int
  | .idx i =>
    let k := (i.emod 32).toNat
    match buttonColors[k]?, buttonColors[0]? with
    | some e, some d => some (if k < buttonColors.size then (e.toNat : Int) else (d.toNat : Int))
    | _, _ => none
  | c => color6C c

def tileColoursC (inp : TileIn) : Option (Int × Int) :=
  match (match inp.bg with | some c => (color6C c).map color565 | none => some 0) with
  | none => none
  | some bc =>
    match (match inp.pix with | some c => (color6C c).map color565 | none => some 65535) with
    | none => none
    | some pc => some (pc, bc)

def iconBytesC (k : Nat) : Option (Array UInt8) := icons8by8[k]?

def Acc.strWidthC (a : Acc) (s : List Nat) : Option Int := Mono.strWidthC a.t s

/-- `disp.RenderText(s)` in the layout phase: the text operation is recorded, the cursor moves as the renderer moves it -/
def Acc.renderC (a : Acc) (g : Geom) (s : List Nat) : Option Acc :=
  (renderTextC ((({ geo := g, bytes := #[] } : Canvas), 0), a.t) s).map
    (fun r => { ops := a.ops.push (.text a.t s), t := r.2 })

/-- the centring offset `ConstrainValue(activeWidth - StrWidth(s) - sub, 0, activeWidth) >> 1` -/
def Acc.centreC (a : Acc) (s : List Nat) (activeWidth sub : Int) : Option Int :=
  (a.strWidthC s).map (fun sw => shr1 (constrain (activeWidth - sw - sub) 0 activeWidth))

/-- `if activeWidth < disp.StrWidth(s) { disp.SetTextSize(narrow…) }` -/
def Acc.narrowC (a : Acc) (s : List Nat) (activeWidth h v : Int) : Option Acc :=
  (a.strWidthC s).map (fun sw => if activeWidth < sw then a.size h v else a)

/-- one iteration of the value/label loop, checked -/
def contentIterC (acc : Acc) (g : Geom) (inp : TileIn) (sc : Scale) (a : Int)
    (width height activeWidth activeHeight mainContentAvailableHeight mainContentMiddle
     fontTextSizeH fontTextSizeV : Int) : Option Acc :=
  let pair := inp.pair
  let intValue := if a = 0 then inp.intVal else inp.intVal2
  let outputString := valueString inp.fmt intValue
  let textLine := if a = 0 then inp.line1 else inp.line2
  let nH := qint (fontTextSizeH > 0) fontTextSizeH 1
  let nV := qint (fontTextSizeV > 0) fontTextSizeV (qint (mainContentAvailableHeight ≥ 12) 2 0)
  -- label
  (if textLine.length > 0 then
      if pair > 0 then
        (if outputString.length > 0 then some 2
          else (acc.strWidthC textLine).map (fun sw => shr1 (constrain (activeWidth - sw) 0 activeWidth))).bind fun xOffset =>
        let yOffset := mainContentMiddle + 1 + (a - 1) * (acc.lineHeight + 1)
        (acc.cursor xOffset yOffset).renderC g textLine
      else
        (acc.narrowC textLine activeWidth nH nV).bind fun acc =>
        (if outputString.length > 0 then some 2
          else (acc.strWidthC textLine).map (fun sw => shr1 (constrain (activeWidth - sw) 0 activeWidth))).bind fun xOffset =>
        let yOffset := mainContentMiddle + 1 - (u32 acc.lineHeight) / 2
        (acc.cursor xOffset yOffset).renderC g textLine
    else some acc).bind fun acc =>
  -- value
  (if outputString.length > 0 then
      if pair > 0 then
        (if textLine.length > 0 then (acc.strWidthC outputString).map (fun sw => constrain (activeWidth - sw - 2) 0 activeWidth)
          else (acc.strWidthC outputString).map (fun sw => shr1 (constrain (activeWidth - sw) 0 activeWidth))).bind fun xOffset =>
        let yOffset := mainContentMiddle + 1 + (a - 1) * (u32 (acc.lineHeight + 1))
        ((acc.cursor xOffset yOffset).renderC g outputString).bind fun acc =>
        if inp.fmt = 5 then
          ((acc.size 1 1).cursor (constrain (xOffset - 10) 0 100) yOffset).renderC g (asciiBytes "1/")
        else some acc
      else
        (acc.narrowC outputString activeWidth nH nV).bind fun acc =>
        (if textLine.length > 0 then (acc.strWidthC outputString).map (fun sw => constrain (activeWidth - sw - 2) 0 activeWidth)
          else (acc.strWidthC outputString).map (fun sw => shr1 (constrain (activeWidth - sw) 0 activeWidth))).bind fun xOffset =>
        let yOffset := mainContentMiddle + 1 - (u32 acc.lineHeight) / 2
        ((acc.cursor xOffset yOffset).renderC g outputString).bind fun acc =>
        if inp.fmt = 5 then
          ((acc.size 1 1).cursor (constrain (xOffset - 10) 0 100) (yOffset - 2)).renderC g (asciiBytes "1/")
        else some acc
    else some acc).bind fun acc =>
  -- borders for pairs (no slice access)
  let acc :=
    if pair = a + 2 then
      acc.emit (.rrect 0 (mainContentMiddle - 1 + (a - 1) * (acc.lineHeight + 1)) activeWidth (acc.lineHeight + 3) 1 true)
    else if pair = 4 then
      if a = 0 then
        acc.emit (.rrect 0 (mainContentMiddle - 1 + (a - 1) * (acc.lineHeight + 1)) activeWidth (acc.lineHeight * 2 + 4) 1 true)
      else acc
    else acc
  -- scale (float arithmetic only)
  some (if a = 0 then scaleBar acc inp sc width activeWidth activeHeight else acc)

/-- the layout, checked; the content iteration is a parameter (as in `Lemmas/TileBar.lean`'s `tileAccWith`) -/
def tileAccWithC (ci : Acc → Geom → Scale → Int → Int → Int → Int → Int → Int → Int → Int → Int → Option Acc)
    (inp : TileIn) (width height shrink border : Int) : Option Acc :=
  let st : Styling := inp.styling.getD {}
  let tf : Font := st.textFont.getD {}
  let ttf : Font := st.titleFont.getD {}
  let sc : Scale := inp.scale.getD {}
  let wShrink := qint (shrink.emod 2 = 1) 1 0
  let hShrink := qint ((shrink.emod 4) / 2 = 1) 1 0
  let acc : Acc := {}
  let fontFaceContent := tf.face.emod 8
  let fontFaceTitle := ttf.face.emod 8
  let fontProportional := !st.fixedWidth
  let fontTextSizeH := tf.tw.emod 4
  let fontTextSizeV := tf.th.emod 4
  let titleTextSizeH := ttf.tw.emod 4
  let titleTextSizeV := ttf.th.emod 4
  let acc := { acc with t := { acc.t with spacing := (st.extraSp.emod 4).toNat, wrap := false } }
  let activeWidth := qint (border > 0) (width - border * 2) (width - wShrink)
  let activeHeight := qint (border > 0) (height - border * 2) (height - hShrink)
  let g : Geom := { W := width.toNat, H := height.toNat, wib := (width.toNat + 7) / 8,
                    bx := border, byy := border, bw := activeWidth, bh := activeHeight, inv := false }
  if inp.fmt = 10 then
    let acc := (acc.font fontFaceContent fontProportional).color true
    let textSizeH := constrain st.unfSize 1 4
    let acc := acc.size (qint (fontTextSizeH > 0) fontTextSizeH textSizeH) (qint (fontTextSizeV > 0) fontTextSizeV textSizeH)
    (acc.strWidthC inp.title).bind fun sw =>
    let xOffset := shr1 (constrain (activeWidth - sw) 0 activeWidth)
    let yOffset := shr1 (activeHeight - acc.lineHeight)
    (acc.cursor xOffset yOffset).renderC g inp.title
  else if inp.fmt = 11 then
    let acc := (acc.font fontFaceContent fontProportional).color true
    let textSizeH := constrain st.unfSize 1 4
    let acc := acc.size (qint (fontTextSizeH > 0) fontTextSizeH textSizeH) (qint (fontTextSizeV > 0) fontTextSizeV textSizeH)
    (acc.strWidthC inp.line1).bind fun sw1 =>
    let xOffset := shr1 (constrain (activeWidth - sw1) 0 activeWidth)
    let yOffset := shr1 activeHeight - acc.lineHeight
    ((acc.cursor xOffset yOffset).renderC g inp.line1).bind fun acc =>
    (acc.strWidthC inp.line2).bind fun sw2 =>
    let xOffset := shr1 (constrain (activeWidth - sw2) 0 activeWidth)
    let yOffset := shr1 activeHeight
    (acc.cursor xOffset yOffset).renderC g inp.line2
  else
    let isTitle := inp.title.length > 0
    let mini := height < 32 ∧ width ≠ 256
    let titlePadding := qint (st.titlePad > 0) st.titlePad (qint mini 1 (qint (width = 256) 3 1))
    let acc := acc.font (qint mini 2 fontFaceTitle) fontProportional
    let acc := acc.size (qint (titleTextSizeH > 0) titleTextSizeH (qint (width = 256) 2 1)) (qint (titleTextSizeV > 0) titleTextSizeV 1)
    let titleHeight := u32 ((acc.lineHeight - 1) + 2 * u32 titlePadding)
    (if isTitle then
        let acc :=
          if !inp.solid then
            (acc.emit (.hline 1 (u32 (titleHeight - 1)) (activeWidth - 2) true)).color true
          else
            (acc.emit (.frrect 0 0 activeWidth titleHeight 1 true)).color false
        (acc.strWidthC inp.title).bind fun sw =>
        let xOffset := shr1 (constrain (activeWidth - sw - qint (inp.stateIcon = 2) 6 0) 0 activeWidth)
        let yOffset := constrain (titlePadding - qint (!inp.solid) 1 0) 0 10
        let xOffset := if inp.solid ∧ xOffset = 0 then xOffset + 1 else xOffset
        (acc.cursor xOffset yOffset).renderC g inp.title
      else some acc).bind fun acc =>
    let acc := if inp.stateIcon = 1 then
        acc.emit (.bitmap (activeWidth - 7) titleHeight speedGraphic 5 2 true false false) else acc
    let acc := if inp.stateIcon = 2 then
        acc.emit (.bitmap (activeWidth - 8) (constrain ((u32 (titleHeight - 8)) / 2) (-1) 10) lockGraphic 8 8 true (!inp.solid) true) else acc
    let mainContentTopOffset := qint isTitle titleHeight 0
    let mainContentAvailableHeight := activeHeight - mainContentTopOffset - qint (sc.stype > 0) 3 0
    let mainContentMiddle := mainContentTopOffset + shr1 (mainContentAvailableHeight + 1)
    if mainContentAvailableHeight ≥ 8 then
      let acc := acc.font fontFaceContent fontProportional
      let pair := inp.pair
      let acc := acc.color true
      let acc := acc.size (qint (fontTextSizeH > 0) fontTextSizeH (qint (pair > 0) 1 2))
        (qint (fontTextSizeV > 0) fontTextSizeV (qint (height ≥ 48) 2 0))
      let acc := if height < 32 ∧ pair > 0 then acc.font 2 fontProportional else acc
      let acc := if mainContentAvailableHeight < 12 ∧ pair = 0 ∧ fontTextSizeH = 0 ∧ fontTextSizeV = 0 then acc.size 1 1 else acc
      (ci acc g sc 0 width height activeWidth activeHeight mainContentAvailableHeight mainContentMiddle fontTextSizeH fontTextSizeV).bind fun acc =>
      (if pair > 0 then
          ci acc g sc 1 width height activeWidth activeHeight mainContentAvailableHeight mainContentMiddle fontTextSizeH fontTextSizeV
        else some acc).bind fun acc =>
      let acc := if inp.stateIcon = 3 then
          acc.emit (.bitmap (activeWidth - 8) (activeHeight - 8) noAccessGraphic 8 8 true true true) else acc
      if inp.modIcon ≥ 1 ∧ inp.modIcon ≤ 7 then
        (iconBytesC (inp.modIcon - 1).toNat).map fun bits =>
          acc.emit (.bitmap (activeWidth - 8) (qint isTitle (titleHeight + 1) 0) bits 8 8 true false true)
      else some acc
    else some acc

def tileAccC (inp : TileIn) (width height shrink border : Int) : Option Acc :=
  tileAccWithC (fun acc g sc a w h aw ah m1 m2 f1 f2 => contentIterC acc g inp sc a w h aw ah m1 m2 f1 f2)
    inp width height shrink border

/-- run a list of operations on the checked mono model, stopping at the first panic -/
def runOpsCList : RunSt → List Op → Option RunSt
  | s, [] => some s
  | s, op :: rest =>
    match applyOpC s op with
    | none => none
    | some s' => runOpsCList s' rest

/-- `NewImage(width, height)`: `make([]byte, widthInBytes*height)` panics for a negative length -/
def newCanvasC (width height : Int) : Option Canvas :=
  if width < 0 ∨ height < 0 then none else some (newCanvas width.toNat height.toNat)

/-- the whole call, checked: new image, colours, black-out, bounding box, layout, drawing; result = the canvas, the
colours and the number of loop bodies executed by the drawing operations -/
def renderTileC (inp : TileIn) (inverted : Bool) (width height shrink border : Int) : Option (Canvas × (Int × Int) × Nat) :=
  match newCanvasC width height with
  | none => none
  | some c0 =>
    match tileColoursC inp with
    | none => none
    | some cols =>
      match tileAccC inp width height shrink border with
      | none => none
      | some acc =>
        let (aw, ah) := activeWH width height shrink border
        (runOpsCList (invertPixels c0 inverted, 0)
          (.frect 0 0 width height false :: .bbox border border aw ah :: acc.ops.toList.map DOp.toOp)).map
          (fun s => (s.1, cols, s.2))

end RawPanelVerif.Tile
