import RawPanelVerif.Base.XmlTok
/-!
# Model of the `go-xmldom` parse / print round trip on the base document (C15)

`GenerateCompositeSVGdoc` parses the base with `xmldom.ParseXML`, appends elements to the root and the callers print
the tree with `Document.XML()` / `XMLPretty()`.  What of the base reaches the printed document is decided by that
third-party round trip.  This file models it **at the level of `encoding/xml` tokens**: from the token stream of the
base (`Base/XmlTok.lean`, delivered by `Decoder.Token`, names as `Decoder.RawToken` writes them) to the token stream of
the printed document.  The byte level (escaping on output, unescaping on re-tokenizing) is trusted to be inverse; the
correspondence check compares the consequences (`kept2`, `wellformed`) on every record.

`xmldom.Parse`, token by token (dom.go):
* `StartElement`: a new node named `token.Name.Local` — **the prefix is dropped** — with one attribute per
  `token.Attr`, named `attr.Name.Local` — **prefix dropped**; appended to the children of the current node `e`
  (when there is one); it becomes `e`; the first one ever becomes `doc.Root`.  A later element at the top level has
  `Parent == nil` and is not reachable from the root (`live = false`), nor is anything inside it.
* `EndElement`: `e = e.Parent`.
* `CharData`: `if e != nil { e.Text = TrimSpace(token) }` — **every character-data token overwrites the text** of the
  current element, also a blank one; outside the root it is ignored.
* `ProcInst`: `doc.ProcInst = "<?target inst?>"` — **only the last one is kept**.
* `Directive`: appended to `doc.Directives`.
* `Comment`: **ignored**.
`Document.XML()` / `XMLPretty()` (document.go, print.go): `ProcInst`, then the directives, then the root: start tag
with the attributes, the children, **then** the element's text, the end tag (`<a />` when there are neither).

An end tag without an open element would make `e.Parent` dereference `nil`; `Decoder.Token` never delivers one (it
reports `unexpected end element` as a syntax error instead), so the model ignores it.
-/
namespace RawPanelVerif.Xmldom
open RawPanelVerif.Xml
open RawPanelVerif.Topo (Str SvgNode)

/-- an open element during parsing: its (local) name, its `Text` so far, whether it hangs under `doc.Root` -/
structure Frame where
  name : Str
  text : Str := []
  live : Bool := true
deriving Repr, DecidableEq

/-- the text of an element as the printer writes it: nothing when empty -/
def pend (s : Str) : List Tok := if s.isEmpty then [] else [.text s]

/-- `Attribute{Name: attr.Name.Local, Value: attr.Value}` -/
def stripAttr (a : Str × Str × Str) : Str × Str × Str := ([], a.2.1, a.2.2)

/-- whether a new element is reachable from `doc.Root`: a child of a reachable element, or the first element ever -/
def liveNext (st : List Frame) (seen : Bool) : Bool :=
  match st with
  | [] => !seen
  | f :: _ => f.live

/-- what the root's end tag is preceded by: the elements appended to the root by the caller (`app`), for the root only -/
def appAt (app : List Tok) (st : List Frame) : List Tok := if st.isEmpty then app else []

/-- The element part of the printed document: the tokens of `printXML(doc.Root)` after `xmldom.Parse` of the token
stream, with `app` (the tokens of the elements the caller appended to the root) after the root's own children.
`st` = the open elements, innermost first; `seen` = `doc.Root != nil`. -/
def elemToks (app : List Tok) : List Frame → Bool → List Tok → List Tok
  | _, _, [] => []
  | st, seen, .start _ l as :: r =>
    (if liveNext st seen then [Tok.start [] l (as.map stripAttr)] else []) ++
      elemToks app ({ name := l, live := liveNext st seen } :: st) true r
  | [], seen, .stop _ _ :: r => elemToks app [] seen r
  | f :: st, seen, .stop _ _ :: r =>
    (if f.live then appAt app st ++ pend f.text ++ [Tok.stop [] f.name] else []) ++ elemToks app st seen r
  | [], seen, .text _ :: r => elemToks app [] seen r
  | f :: st, seen, .text s :: r => elemToks app ({ f with text := s } :: st) seen r
  | st, seen, .comment _ :: r => elemToks app st seen r
  | st, seen, .pi _ _ :: r => elemToks app st seen r
  | st, seen, .dir _ :: r => elemToks app st seen r

/-- `doc.ProcInst`: the last processing instruction -/
def lastPI : List Tok → Option Tok
  | [] => none
  | t :: r =>
    match lastPI r with
    | some p => some p
    | none => if t.isPI then some t else none

/-- `doc.Directives` -/
def dirs (ts : List Tok) : List Tok := ts.filter Tok.isDir

/-- the token stream of `doc.XML()` (and of `doc.XMLPretty()`, which differs in white space only) -/
def printedToks (app : List Tok) (ts : List Tok) : List Tok :=
  (lastPI ts).toList ++ dirs ts ++ elemToks app [] false ts

/-- the tokens of an appended, childless element as printed: `<name a="v"…>text</name>` / `<name a="v"… />`.
Values and text are the node's own bytes: what the printer's escaping replaces (invalid UTF-8, control bytes) and the
trimming a re-tokenizer would apply are not modelled — they matter for the containment test only if a token of the base
coincides with an appended one (`C15.mixed_text_kept_by_coincidence`). -/
def nodeToks (n : SvgNode) : List Tok :=
  [Tok.start [] n.name (n.attrs.map (fun a => ([], a.1, a.2)))] ++ pend n.text ++ [Tok.stop [] n.name]

def appToks (nodes : List SvgNode) : List Tok := nodes.flatMap nodeToks

end RawPanelVerif.Xmldom
