import RawPanelVerif.Gen.Fonts
/-!
# Model of `ibeam_lib_monogfx/monogfx.go` (drawing part)

Executable, total, core-only.  One definition per Go function, same order of effects.
`Int` for Go `int` (64-bit overflow is outside the model: see DESIGN.md trusted base),
`Int.tdiv`/`Int.tmod` for Go `/` and `%`, `BitVec 8` for the canvas bytes
(`1#8 <<< s` with a `Nat` shift count is 0 for `s ≥ 8`, exactly like Go's `byte(1 << s)`).
-/
namespace RawPanelVerif.Mono
open RawPanelVerif.Gen

/-- Geometry + flags of a canvas: everything `DrawPixel` reads besides the bytes. -/
structure Geom where
  W : Nat
  H : Nat
  wib : Nat        -- widthInBytes
  bx : Int         -- bbox_x
  byy : Int        -- bbox_y
  bw : Int         -- bbox_width
  bh : Int         -- bbox_height
  inv : Bool       -- invertPixels
deriving DecidableEq, Repr

structure Canvas where
  geo : Geom
  bytes : Array (BitVec 8)
deriving DecidableEq, Repr

/-- `NewImage(width,height)` + `init()` (bounding box = whole canvas). -/
def newCanvas (w h : Nat) : Canvas :=
  let wib := (w + 7) / 8
  { geo := { W := w, H := h, wib := wib, bx := 0, byy := 0, bw := w, bh := h, inv := false },
    bytes := Array.replicate (wib * h) 0 }

/-- well-formed canvas: the row stride covers the width and the buffer holds at least `wib·H` bytes
(`NewImage`/`CreateFromImage` give exactly `wib·H`; `CreateFromBytes` installs the caller's slice, which may be longer). -/
def Canvas.WF (c : Canvas) : Prop := c.geo.W ≤ c.geo.wib * 8 ∧ c.geo.wib * c.geo.H ≤ c.bytes.size

def wMax (g : Geom) : Int := if g.bw + g.bx > g.W then g.W else g.bw + g.bx
def hMax (g : Geom) : Int := if g.bh + g.byy > g.H then g.H else g.bh + g.byy
def xMin (g : Geom) : Int := if g.bx > 0 then g.bx else 0
def yMin (g : Geom) : Int := if g.byy > 0 then g.byy else 0

/-- absolute pixel (X,Y) is inside the clip rectangle = canvas ∩ bounding box -/
def inClip (g : Geom) (X Y : Int) : Prop := xMin g ≤ X ∧ yMin g ≤ Y ∧ X < wMax g ∧ Y < hMax g
instance (g : Geom) (X Y : Int) : Decidable (inClip g X Y) := by unfold inClip; infer_instance

def setBit (old : BitVec 8) (s : Nat) (on : Bool) : BitVec 8 :=
  if on then old ||| (1#8 <<< s) else old &&& ((1#8 <<< s) ^^^ 0xFF#8)

/-- `DrawPixel` (with the lower-bound guard of the `fix:` commit; `drawPixelPinned` is the pinned code). -/
def drawPixel (c : Canvas) (x y : Int) (col : Bool) : Canvas :=
  let X := x + c.geo.bx
  let Y := y + c.geo.byy
  if inClip c.geo X Y then
    let index : Int := Y * c.geo.wib + X.tdiv 8
    if 0 ≤ index ∧ index < c.bytes.size then
      let s : Nat := (7 - X.tmod 8).toNat
      let i := index.toNat
      { c with bytes := c.bytes.setIfInBounds i (setBit (c.bytes.getD i 0) s (col != c.geo.inv)) }
    else c
  else c

/-- `DrawPixel` exactly as in the pinned tree (no lower bound): kept for the counterexample theorem. -/
def drawPixelPinned (c : Canvas) (x y : Int) (col : Bool) : Canvas :=
  let X := x + c.geo.bx
  let Y := y + c.geo.byy
  if X < wMax c.geo ∧ Y < hMax c.geo then
    let index : Int := Y * c.geo.wib + X.tdiv 8
    if 0 ≤ index ∧ index < c.bytes.size then
      let s : Nat := (7 - X.tmod 8).toNat
      let i := index.toNat
      { c with bytes := c.bytes.setIfInBounds i (setBit (c.bytes.getD i 0) s (col != c.geo.inv)) }
    else c
  else c

/-- value of the stored bit of absolute pixel (X,Y) (X may address padding bits up to wib*8) -/
def getPx (c : Canvas) (X Y : Nat) : Bool :=
  (c.bytes.getD (Y * c.geo.wib + X / 8) 0).getLsbD (7 - X % 8)

/-- `for i := 0; i < n; i++ { g = f g i }` -/
def loopN (n : Nat) (f : Canvas → Nat → Canvas) (c : Canvas) : Canvas :=
  (List.range n).foldl f c

def vline (c : Canvas) (x y h : Int) (col : Bool) : Canvas :=
  loopN h.toNat (fun c i => drawPixel c x (y + i) col) c

def hline (c : Canvas) (x y w : Int) (col : Bool) : Canvas :=
  loopN w.toNat (fun c i => drawPixel c (x + i) y col) c

def fillRect (c : Canvas) (x y w h : Int) (col : Bool) : Canvas :=
  loopN w.toNat (fun c i => vline c (x + i) y h col) c

/-- state of the two Bresenham corner loops -/
structure Circ where
  f : Int
  ddFx : Int
  ddFy : Int
  x : Int
  y : Int

/-- one iteration header of `for x < y { … }` : returns the updated loop variables -/
def Circ.next (s : Circ) : Circ :=
  let s1 : Circ := if s.f ≥ 0 then { s with y := s.y - 1, ddFy := s.ddFy + 2, f := s.f + (s.ddFy + 2) } else s
  { s1 with x := s1.x + 1, ddFx := s1.ddFx + 2, f := s1.f + (s1.ddFx + 2) }

def Circ.init (r : Int) : Circ := { f := 1 - r, ddFx := 1, ddFy := -2 * r, x := 0, y := r }

theorem Circ.next_measure (s : Circ) (h : s.x < s.y) :
    ((Circ.next s).y - (Circ.next s).x).toNat < (s.y - s.x).toNat := by
  unfold Circ.next
  by_cases hf : s.f ≥ 0 <;> simp [hf] <;> omega

/-- `cornername & m > 0` for the masks 1,2,4,8 (two's complement for negative corner names) -/
def cornerBit (corner : Int) (m : Nat) : Bool :=
  ((corner.emod 16).toNat &&& m) != 0

/-- body of one iteration of `DrawCircleHelper` after the loop variables were advanced to (x,y) -/
def circPlot (c : Canvas) (x0 y0 corner : Int) (col : Bool) (x y : Int) : Canvas :=
  let c := if cornerBit corner 4 then drawPixel (drawPixel c (x0 + x) (y0 + y) col) (x0 + y) (y0 + x) col else c
  let c := if cornerBit corner 2 then drawPixel (drawPixel c (x0 + x) (y0 - y) col) (x0 + y) (y0 - x) col else c
  let c := if cornerBit corner 8 then drawPixel (drawPixel c (x0 - y) (y0 + x) col) (x0 - x) (y0 + y) col else c
  if cornerBit corner 1 then drawPixel (drawPixel c (x0 - y) (y0 - x) col) (x0 - x) (y0 - y) col else c

def drawCircleHelperLoop (c : Canvas) (x0 y0 corner : Int) (col : Bool) (s : Circ) : Canvas :=
  if h : s.x < s.y then
    drawCircleHelperLoop (circPlot c x0 y0 corner col s.next.x s.next.y) x0 y0 corner col s.next
  else c
termination_by (s.y - s.x).toNat
decreasing_by exact Circ.next_measure s h

def drawCircleHelper (c : Canvas) (x0 y0 r corner : Int) (col : Bool) : Canvas :=
  drawCircleHelperLoop c x0 y0 corner col (Circ.init r)

def fillCircPlot (c : Canvas) (x0 y0 corner delta : Int) (col : Bool) (x y : Int) : Canvas :=
  let c := if cornerBit corner 1 then
      vline (vline c (x0 + x) (y0 - y) (2 * y + 1 + delta) col) (x0 + y) (y0 - x) (2 * x + 1 + delta) col else c
  if cornerBit corner 2 then
      vline (vline c (x0 - x) (y0 - y) (2 * y + 1 + delta) col) (x0 - y) (y0 - x) (2 * x + 1 + delta) col else c

def fillCircleHelperLoop (c : Canvas) (x0 y0 corner delta : Int) (col : Bool) (s : Circ) : Canvas :=
  if h : s.x < s.y then
    fillCircleHelperLoop (fillCircPlot c x0 y0 corner delta col s.next.x s.next.y) x0 y0 corner delta col s.next
  else c
termination_by (s.y - s.x).toNat
decreasing_by exact Circ.next_measure s h

def fillCircleHelper (c : Canvas) (x0 y0 r corner delta : Int) (col : Bool) : Canvas :=
  fillCircleHelperLoop c x0 y0 corner delta col (Circ.init r)

def drawRoundRect (c : Canvas) (x y w h r : Int) (col : Bool) : Canvas :=
  let c := hline c (x + r) y (w - 2 * r) col
  let c := hline c (x + r) (y + h - 1) (w - 2 * r) col
  let c := vline c x (y + r) (h - 2 * r) col
  let c := vline c (x + w - 1) (y + r) (h - 2 * r) col
  let c := drawCircleHelper c (x + r) (y + r) r 1 col
  let c := drawCircleHelper c (x + w - r - 1) (y + r) r 2 col
  let c := drawCircleHelper c (x + w - r - 1) (y + h - r - 1) r 4 col
  drawCircleHelper c (x + r) (y + h - r - 1) r 8 col

def fillRoundRect (c : Canvas) (x y w h r : Int) (col : Bool) : Canvas :=
  let c := fillRect c (x + r) y (w - 2 * r) h col
  let c := fillCircleHelper c (x + w - r - 1) (y + r) r 1 (h - 2 * r - 1) col
  fillCircleHelper c (x + r) (y + r) r 2 (h - 2 * r - 1) col

/-- `DrawBitmap`: bits beyond the supplied slice are skipped (`len(bitmap) > idx`). -/
def drawBitmap (c : Canvas) (x y : Int) (bitmap : Array UInt8) (w h : Int) (col inverted drawAll : Bool) : Canvas :=
  let byteWidth : Nat := ((w + 7).tdiv 8).toNat
  loopN h.toNat (fun c j =>
    loopN w.toNat (fun c i =>
      let idx := j * byteWidth + i / 8
      if idx < bitmap.size then
        let theBit : Bool := (((bitmap.getD idx 0).toNat &&& (128 >>> (i % 8))) != 0) != inverted
        if drawAll || theBit then drawPixel c (x + i) (y + j) (col != (!theBit)) else c
      else c) c) c

def setBoundingBox (c : Canvas) (x y w h : Int) : Canvas :=
  { c with geo := { c.geo with bx := x, byy := y, bw := w, bh := h } }

def invertPixels (c : Canvas) (inv : Bool) : Canvas :=
  { c with geo := { c.geo with inv := inv } }

def getBWidth (g : Geom) : Int := if g.bw > 0 then g.bw else g.W
def getBHeight (g : Geom) : Int := if g.bh > 0 then g.bh else g.H

/-! ## Text -/

structure TextSt where
  font : Int := 0        -- argument of the last `SetFont`
  prop : Bool := true
  spacing : Nat := 0     -- charSpacingCompensation (byte)
  cx : Int := 0
  cy : Int := 0
  tcol : Bool := false
  tbg : Bool := false
  tsH : Int := 1
  tsV : Int := 1
  wrap : Bool := true
deriving DecidableEq, Repr

def TextSt.fp (t : TextSt) : FontParams := fontParams t.font

/-- number of glyph bytes per character in the table (`fontBBWidth - fontTight`) -/
def _root_.RawPanelVerif.Gen.FontParams.memW (p : FontParams) : Nat := p.bbW - p.tight

def _root_.RawPanelVerif.Gen.FontParams.inRange (p : FontParams) (ch : Nat) : Bool := p.first ≤ ch && ch ≤ p.last

/-- count of leading zero columns, as the first loop of `GetCharWidth`/`GetCharStart` -/
def startBlanks (p : FontParams) (off : Nat) : Nat → Nat → Nat
  | 0, acc => acc
  | n+1, acc => if (p.table.getD (off + acc) 0) > 0 then acc else startBlanks p off n (acc + 1)

/-- count of trailing zero columns: second loop (`a := fMemW; a > 0; a--`) -/
def endBlanks (p : FontParams) (off : Nat) : Nat → Nat → Nat
  | 0, acc => acc
  | a+1, acc => if (p.table.getD (off + a) 0) > 0 then acc else endBlanks p off a (acc + 1)

def constrain (v lo hi : Int) : Int := if v < lo then lo else if v > hi then hi else v

/-- `GetCharWidth(c)` (result is a Go `byte`; arithmetic is done modulo 256 as in Go) -/
def charWidth (t : TextSt) (ch : Nat) : Nat :=
  let p := t.fp
  if p.inRange ch && t.prop then
    let memW := p.memW
    let off := (ch - p.first) * memW
    let sb := startBlanks p off memW 0
    let eb := endBlanks p off memW 0
    if sb = memW then (constrain (p.bbW / 2 : Nat) 3 p.bbW).toNat % 256
    else (memW + 256 + 256 - sb - eb + 1) % 256
  else p.bbW

/-- `GetCharStart(c)` -/
def charStart (t : TextSt) (ch : Nat) : Nat :=
  let p := t.fp
  if p.inRange ch && t.prop then
    let memW := p.memW
    let off := (ch - p.first) * memW
    let sb := startBlanks p off memW 0
    if sb = memW then 0 else sb
  else 0

/-- the column byte `DrawChar` uses for column `i` of character `ch` -/
def glyphColumn (t : TextSt) (ch : Nat) (cw : Nat) (i : Nat) : Nat :=
  let p := t.fp
  if p.inRange ch then
    if (t.prop || p.tight > 0) && i + 1 = cw then 0
    else (p.table.getD ((ch - p.first) * p.memW + charStart t ch + i) 0).toNat
  else
    if i = 0 || i + 1 = cw then 0xFF else (1 ||| (1 <<< (p.bbH - 1))) % 256

def drawBlock (c : Canvas) (x y : Int) (i j : Nat) (tsH tsV : Int) (col : Bool) : Canvas :=
  if tsH = 1 ∧ tsV = 1 then drawPixel c (x + i) (y + j) col
  else fillRect c (x + i * tsH) (y + j * tsV) tsH tsV col

/-- `DrawChar` -/
def drawChar (c : Canvas) (t : TextSt) (x y : Int) (ch : Nat) (col bg : Bool) (tsH tsV : Int) : Canvas :=
  let p := t.fp
  let cw : Nat := charWidth t ch
  if x > getBWidth c.geo - ((cw : Int) - 1) * tsH ∨ y > c.geo.H ∨
     x + p.bbW * tsH - 1 < 0 ∨ y + p.bbH * tsV - 1 < 0 then c
  else
    loopN cw (fun c i =>
      let column := glyphColumn t ch cw i
      loopN p.bbH (fun c j =>
        if (column >>> j) % 2 = 1 then drawBlock c x y i j tsH tsV col
        else if bg != col then drawBlock c x y i j tsH tsV bg
        else c) c) c

def lineAdvance (t : TextSt) : Int := t.tsV * t.fp.bbH

/-- `writeChar` -/
def writeChar (ct : Canvas × TextSt) (ch : Nat) : Canvas × TextSt :=
  let (c, t) := ct
  if ch = 10 then (c, { t with cy := t.cy + lineAdvance t, cx := 0 })
  else if ch = 13 then (c, t)
  else
    let c' := drawChar c t t.cx t.cy ch t.tcol t.tbg t.tsH t.tsV
    let cw : Int := charWidth t ch
    let cx' := t.cx + t.tsH * cw + t.spacing
    if t.wrap ∧ cx' > getBWidth c.geo - t.tsH * (cw - 1) then
      (c', { t with cy := t.cy + lineAdvance t, cx := 0 })
    else (c', { t with cx := cx' })

/-- `RenderText` on the already decoded `byte(rune)` sequence of the string -/
def renderText (ct : Canvas × TextSt) (s : List Nat) : Canvas × TextSt := s.foldl writeChar ct

/-- `StrWidth` -/
def strWidth (t : TextSt) (s : List Nat) : Int :=
  s.foldl (fun w ch => w + (charWidth t ch : Int) * t.tsH + t.spacing) 0 - t.tsH

/-- the LF-separated segments of a string (never empty: a string without LF is one line) -/
def lines : List Nat → List (List Nat)
  | [] => [[]]
  | ch :: rest =>
    if ch = 10 then [] :: lines rest
    else match lines rest with
      | [] => [[ch]]
      | l :: ls => (ch :: l) :: ls

/-- `LineHeight` (uint32 arithmetic) -/
def lineHeight (t : TextSt) : Nat := ((t.tsV.emod 4294967296).toNat * t.fp.bbH) % 4294967296

def setTextSize (t : TextSt) (h v : Int) : TextSt :=
  let hh := if h > 0 then h else 1
  { t with tsH := hh, tsV := if v = 0 then hh else v }

def setFont (t : TextSt) (n : Int) (prop : Bool) : TextSt := { t with font := n, prop := prop }
def setTextColor (t : TextSt) (c : Bool) : TextSt := { t with tcol := c, tbg := c }
def setCursor (t : TextSt) (x y : Int) : TextSt := { t with cx := x, cy := y }

/-! ## Operation language (what a caller can do to a canvas) -/

inductive Op where
  | px (x y : Int) (c : Bool)
  | hline (x y w : Int) (c : Bool)
  | vline (x y h : Int) (c : Bool)
  | frect (x y w h : Int) (c : Bool)
  | rrect (x y w h r : Int) (c : Bool)
  | frrect (x y w h r : Int) (c : Bool)
  | circ (x0 y0 r corner : Int) (c : Bool)
  | fcirc (x0 y0 r corner delta : Int) (c : Bool)
  | bitmap (x y : Int) (bits : Array UInt8) (w h : Int) (c inverted drawAll : Bool)
  | glyph (t : TextSt) (x y : Int) (ch : Nat) (col bg : Bool) (tsH tsV : Int)
  | text (t : TextSt) (s : List Nat)
  | bbox (x y w h : Int)
  | inv (b : Bool)

def applyOp (c : Canvas) : Op → Canvas
  | .px x y col => drawPixel c x y col
  | .hline x y w col => hline c x y w col
  | .vline x y h col => vline c x y h col
  | .frect x y w h col => fillRect c x y w h col
  | .rrect x y w h r col => drawRoundRect c x y w h r col
  | .frrect x y w h r col => fillRoundRect c x y w h r col
  | .circ x0 y0 r k col => drawCircleHelper c x0 y0 r k col
  | .fcirc x0 y0 r k d col => fillCircleHelper c x0 y0 r k d col
  | .bitmap x y bits w h col i a => drawBitmap c x y bits w h col i a
  | .glyph t x y ch col bg h v => drawChar c t x y ch col bg h v
  | .text t s => (renderText (c, t) s).1
  | .bbox x y w h => setBoundingBox c x y w h
  | .inv b => invertPixels c b

/-! ## Commands of an image object: drawing operations plus the two (re)constructors that replace the buffer -/

/-- `copy(dst, src)` -/
def copyBytes (dst src : Array (BitVec 8)) : Array (BitVec 8) :=
  Array.ofFn (n := dst.size) (fun i => if h : i.val < src.size then src[i.val] else dst[i])

/-- `NewImage(w, h)` on an existing object: fresh zeroed buffer, bounding box = canvas; `init()` does not touch
`invertPixels`, so the flag `inv` of the object survives. -/
def newImageOn (inv : Bool) (w h : Nat) : Canvas :=
  { geo := { (newCanvas w h).geo with inv := inv }, bytes := (newCanvas w h).bytes }

/-- `CreateFromBytes(w, h, bytes)` on an object whose inversion flag is `inv`: the caller's slice is installed as the
buffer when it holds at least `wib·h` bytes (**it may be longer**); otherwise the bytes present are copied into a fresh
`wib·h` buffer (and an error is returned). -/
def createFromBytesOn (inv : Bool) (w h : Nat) (bytes : Array (BitVec 8)) : Canvas :=
  let c := newCanvas w h
  { geo := { c.geo with inv := inv },
    bytes := if c.geo.wib * h > bytes.size then copyBytes c.bytes bytes else bytes }

inductive Cmd where
  | op (o : Op)
  | newImage (w h : Nat)
  | fromBytes (w h : Nat) (bytes : Array (BitVec 8))

def applyCmd (c : Canvas) : Cmd → Canvas
  | .op o => applyOp c o
  | .newImage w h => newImageOn c.geo.inv w h
  | .fromBytes w h b => createFromBytesOn c.geo.inv w h b

/-- what the (re)constructors do to the text state: `init()` = `SetFont(0, true)`, text size 1×1, wrap on; cursor, text
colours and spacing are left as they are -/
def initText (t : TextSt) : TextSt := { t with font := 0, prop := true, tsH := 1, tsV := 1, wrap := true }

/-! ## Calls on the text side of ONE image object, in any order (the `text.sess` records of C20)

The object is the pair canvas × text state; a call changes one of them (or neither: the metric queries).  The model
answers every query from the current state: there is no other state (no cached line height, no memo of a glyph width). -/

inductive TextCall where
  | font (n : Int) (prop : Bool)          -- `SetFont`
  | size (h v : Int)                      -- `SetTextSize`
  | spacing (s : Nat)                     -- `SetCharSpacingCompensation` (a byte)
  | wrap (b : Bool)                       -- `SetTextWrap`
  | cursor (x y : Int)                    -- `SetCursor`
  | color (b : Bool)                      -- `SetTextColor`
  | newImage (w h : Nat)                  -- `NewImage` on the object in use
  | fromBytes (w h : Nat) (bytes : Array (BitVec 8))   -- `CreateFromBytes` on the object in use
  | strWidth (s : List Nat)               -- `StrWidth`   (query)
  | lineHeight                            -- `LineHeight` (query)
  | charWidth (ch : Nat)                  -- `GetCharWidth` / `GetCharStart` (query)
  | render (s : List Nat)                 -- `RenderText`
  | drawChar (x y : Int) (ch : Nat) (col bg : Bool) (h v : Int)   -- direct `DrawChar` with its own sizes
  | bbox (x y w h : Int)                  -- `SetBoundingBox` (canvas side: clip rectangle and drawing origin)
  | inv (b : Bool)                        -- `InvertPixels`   (canvas side)

def applyCall (st : Canvas × TextSt) : TextCall → Canvas × TextSt
  | .font n p => (st.1, setFont st.2 n p)
  | .size h v => (st.1, setTextSize st.2 h v)
  | .spacing s => (st.1, { st.2 with spacing := s % 256 })
  | .wrap b => (st.1, { st.2 with wrap := b })
  | .cursor x y => (st.1, setCursor st.2 x y)
  | .color b => (st.1, setTextColor st.2 b)
  | .newImage w h => (newImageOn st.1.geo.inv w h, initText st.2)
  | .fromBytes w h b => (createFromBytesOn st.1.geo.inv w h b, initText st.2)
  | .strWidth _ => st
  | .lineHeight => st
  | .charWidth _ => st
  | .render s => renderText st s
  | .drawChar x y ch col bg h v => (drawChar st.1 st.2 x y ch col bg h v, st.2)
  | .bbox x y w h => (setBoundingBox st.1 x y w h, st.2)
  | .inv b => (invertPixels st.1 b, st.2)

/-- the object after a call history -/
def runCalls (st : Canvas × TextSt) (calls : List TextCall) : Canvas × TextSt := calls.foldl applyCall st

/-- the three text states of the final case of a session whose history left the state `t`: wrapping off, cursor set;
`C` additionally at size 1 -/
def sessA (t : TextSt) (cx cy : Int) : TextSt := setCursor { t with wrap := false } cx cy
def sessC (t : TextSt) (cx cy : Int) : TextSt := setCursor (setTextSize { t with wrap := false } 1 1) cx cy

end RawPanelVerif.Mono
