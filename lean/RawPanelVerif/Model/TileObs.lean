import RawPanelVerif.Model.Tile
import RawPanelVerif.Model.Pix
import RawPanelVerif.Spec.TileSpec
/-!
# Observations of the tile model in the Spec's vocabulary (proof-free; shared by Driver/Tile.lean and Props/C18.lean)
-/
namespace RawPanelVerif.Tile
open RawPanelVerif RawPanelVerif.Mono

def obsCol : Col → Spec.Tile.Col
  | .rgb r g b => .rgb r g b
  | .idx i => .idx i
  | .empty => .empty

def obsFont (f : Font) : Spec.Tile.FontA := { face := f.face, tw := f.tw, th := f.th }

def obsStyle (s : Styling) : Spec.Tile.StyleA :=
  { fixedWidth := s.fixedWidth, titlePad := s.titlePad, extraSp := s.extraSp, unfSize := s.unfSize,
    textFont := s.textFont.map obsFont, titleFont := s.titleFont.map obsFont }

def obsScale (s : Scale) : Spec.Tile.ScaleA := { stype := s.stype, rl := s.rl, rh := s.rh, ll := s.ll, lh := s.lh }

/-- the text state (with its `Inverted` flag) as the Spec observes it -/
def obsArg (inp : TileIn) (inverted : Bool) : Spec.Tile.ArgA :=
  { inverted := inverted, intVal := inp.intVal, intVal2 := inp.intVal2, fmt := inp.fmt, stateIcon := inp.stateIcon,
    modIcon := inp.modIcon, solid := inp.solid, pair := inp.pair, title := inp.title, line1 := inp.line1, line2 := inp.line2,
    scale := inp.scale.map obsScale, styling := inp.styling.map obsStyle, pix := inp.pix.map obsCol, bg := inp.bg.map obsCol }

/-- `GetImgSliceRGB()` of the returned image: C17's export model applied to the rendered canvas and the tile's colours -/
def tileRGB (inp : TileIn) (inverted : Bool) (width height : Nat) (shrink border : Int) : Option (Array Pix.Byte) :=
  Pix.sliceRGB (renderTile inp inverted width height shrink border) (tileColours inp).1.toNat (tileColours inp).2.toNat

end RawPanelVerif.Tile
