import RawPanelVerif.Model.Mono
/-!
# Panic-carrying, work-counting form of the mono drawing model (`Model/Mono.lean`)

Same functions, same order of effects, but
* every Go slice access is `a[i]?` — the canvas bytes in `DrawPixel`, the font table in `GetCharWidth` / `GetCharStart` /
  `DrawChar`, the caller's slice in `DrawBitmap` — and a shift by a negative count is checked as well:
  `none` is Go's run-time panic;
* the state carries a counter of executed loop bodies (one tick per iteration of every `for` loop, at every nesting
  level; the straight-line code between two ticks makes at most eight `DrawPixel` calls), so that "no hang" is a statement
  about this number.

Nothing here is used by the driver: `Lemmas/MonoTotal.lean` proves that for **every** canvas and **all** arguments each
function returns `some` of what the `getD`-totalised function of `Model/Mono.lean` returns, and bounds the ticks.
-/
namespace RawPanelVerif.Mono
open RawPanelVerif.Gen

/-- canvas + number of loop bodies executed so far -/
abbrev RunSt := Canvas × Nat

/-- `for i := 0; i < n; i++ { s = f s i }`; one tick per iteration; `none` as soon as an iteration panics -/
def loopC (f : RunSt → Nat → Option RunSt) : Nat → RunSt → Option RunSt
  | 0, s => some s
  | n + 1, s =>
    match loopC f n s with
    | none => none
    | some s' => f (s'.1, s'.2 + 1) n

/-- Go panics on a negative shift count -/
def shiftCount (k : Int) : Option Nat := if k < 0 then none else some k.toNat

/-- `DrawPixel` with `imgBytes[index]` as a checked access -/
def drawPixelC (c : Canvas) (x y : Int) (col : Bool) : Option Canvas :=
  let X := x + c.geo.bx
  let Y := y + c.geo.byy
  if inClip c.geo X Y then
    let index : Int := Y * c.geo.wib + X.tdiv 8
    if 0 ≤ index ∧ index < c.bytes.size then
      match shiftCount (7 - X.tmod 8) with
      | none => none
      | some s =>
        let i := index.toNat
        match c.bytes[i]? with
        | none => none
        | some old =>
          if h : i < c.bytes.size then some { c with bytes := c.bytes.set i (setBit old s (col != c.geo.inv)) h }
          else none
    else some c
  else some c

def pxC (s : RunSt) (x y : Int) (col : Bool) : Option RunSt :=
  (drawPixelC s.1 x y col).map (fun c => (c, s.2))

def vlineC (s : RunSt) (x y h : Int) (col : Bool) : Option RunSt :=
  loopC (fun s i => pxC s x (y + i) col) h.toNat s

def hlineC (s : RunSt) (x y w : Int) (col : Bool) : Option RunSt :=
  loopC (fun s i => pxC s (x + i) y col) w.toNat s

def fillRectC (s : RunSt) (x y w h : Int) (col : Bool) : Option RunSt :=
  loopC (fun s i => vlineC s (x + i) y h col) w.toNat s

/-- `a; b` on optional states -/
def thenC (a : Option RunSt) (f : RunSt → Option RunSt) : Option RunSt :=
  match a with
  | none => none
  | some s => f s

def circPlotC (s : RunSt) (x0 y0 corner : Int) (col : Bool) (x y : Int) : Option RunSt :=
  let s1 := if cornerBit corner 4 then thenC (pxC s (x0 + x) (y0 + y) col) (fun s => pxC s (x0 + y) (y0 + x) col) else some s
  let s2 := thenC s1 (fun s =>
    if cornerBit corner 2 then thenC (pxC s (x0 + x) (y0 - y) col) (fun s => pxC s (x0 + y) (y0 - x) col) else some s)
  let s3 := thenC s2 (fun s =>
    if cornerBit corner 8 then thenC (pxC s (x0 - y) (y0 + x) col) (fun s => pxC s (x0 - x) (y0 + y) col) else some s)
  thenC s3 (fun s =>
    if cornerBit corner 1 then thenC (pxC s (x0 - y) (y0 - x) col) (fun s => pxC s (x0 - x) (y0 - y) col) else some s)

def drawCircleHelperLoopC (s : RunSt) (x0 y0 corner : Int) (col : Bool) (k : Circ) : Option RunSt :=
  if h : k.x < k.y then
    match circPlotC (s.1, s.2 + 1) x0 y0 corner col k.next.x k.next.y with
    | none => none
    | some s' => drawCircleHelperLoopC s' x0 y0 corner col k.next
  else some s
termination_by (k.y - k.x).toNat
decreasing_by exact Circ.next_measure k h

def drawCircleHelperC (s : RunSt) (x0 y0 r corner : Int) (col : Bool) : Option RunSt :=
  drawCircleHelperLoopC s x0 y0 corner col (Circ.init r)

def fillCircPlotC (s : RunSt) (x0 y0 corner delta : Int) (col : Bool) (x y : Int) : Option RunSt :=
  let s1 := if cornerBit corner 1 then
      thenC (vlineC s (x0 + x) (y0 - y) (2 * y + 1 + delta) col) (fun s => vlineC s (x0 + y) (y0 - x) (2 * x + 1 + delta) col)
    else some s
  thenC s1 (fun s =>
    if cornerBit corner 2 then
      thenC (vlineC s (x0 - x) (y0 - y) (2 * y + 1 + delta) col) (fun s => vlineC s (x0 - y) (y0 - x) (2 * x + 1 + delta) col)
    else some s)

def fillCircleHelperLoopC (s : RunSt) (x0 y0 corner delta : Int) (col : Bool) (k : Circ) : Option RunSt :=
  if h : k.x < k.y then
    match fillCircPlotC (s.1, s.2 + 1) x0 y0 corner delta col k.next.x k.next.y with
    | none => none
    | some s' => fillCircleHelperLoopC s' x0 y0 corner delta col k.next
  else some s
termination_by (k.y - k.x).toNat
decreasing_by exact Circ.next_measure k h

def fillCircleHelperC (s : RunSt) (x0 y0 r corner delta : Int) (col : Bool) : Option RunSt :=
  fillCircleHelperLoopC s x0 y0 corner delta col (Circ.init r)

def drawRoundRectC (s : RunSt) (x y w h r : Int) (col : Bool) : Option RunSt :=
  thenC (hlineC s (x + r) y (w - 2 * r) col) fun s =>
  thenC (hlineC s (x + r) (y + h - 1) (w - 2 * r) col) fun s =>
  thenC (vlineC s x (y + r) (h - 2 * r) col) fun s =>
  thenC (vlineC s (x + w - 1) (y + r) (h - 2 * r) col) fun s =>
  thenC (drawCircleHelperC s (x + r) (y + r) r 1 col) fun s =>
  thenC (drawCircleHelperC s (x + w - r - 1) (y + r) r 2 col) fun s =>
  thenC (drawCircleHelperC s (x + w - r - 1) (y + h - r - 1) r 4 col) fun s =>
  drawCircleHelperC s (x + r) (y + h - r - 1) r 8 col

def fillRoundRectC (s : RunSt) (x y w h r : Int) (col : Bool) : Option RunSt :=
  thenC (fillRectC s (x + r) y (w - 2 * r) h col) fun s =>
  thenC (fillCircleHelperC s (x + w - r - 1) (y + r) r 1 (h - 2 * r - 1) col) fun s =>
  fillCircleHelperC s (x + r) (y + r) r 2 (h - 2 * r - 1) col

/-- body of the inner loop of `DrawBitmap`: `bitmap[idx]` is a checked access behind the `len(bitmap) > idx` guard -/
def bitmapBodyC (x y : Int) (bitmap : Array UInt8) (byteWidth : Nat) (col inverted drawAll : Bool) (j : Nat)
    (s : RunSt) (i : Nat) : Option RunSt :=
  let idx := j * byteWidth + i / 8
  if idx < bitmap.size then
    match bitmap[idx]? with
    | none => none
    | some b =>
      let theBit : Bool := ((b.toNat &&& (128 >>> (i % 8))) != 0) != inverted
      if drawAll || theBit then pxC s (x + i) (y + j) (col != (!theBit)) else some s
  else some s

def drawBitmapC (s : RunSt) (x y : Int) (bitmap : Array UInt8) (w h : Int) (col inverted drawAll : Bool) : Option RunSt :=
  let byteWidth : Nat := ((w + 7).tdiv 8).toNat
  loopC (fun s j => loopC (bitmapBodyC x y bitmap byteWidth col inverted drawAll j) w.toNat s) h.toNat s

/-! ## Text: the font table is a Go slice -/

def startBlanksC (p : FontParams) (off : Nat) : Nat → Nat → Option Nat
  | 0, acc => some acc
  | n + 1, acc =>
    match p.table[off + acc]? with
    | none => none
    | some b => if b > 0 then some acc else startBlanksC p off n (acc + 1)

def endBlanksC (p : FontParams) (off : Nat) : Nat → Nat → Option Nat
  | 0, acc => some acc
  | a + 1, acc =>
    match p.table[off + a]? with
    | none => none
    | some b => if b > 0 then some acc else endBlanksC p off a (acc + 1)

/-- `GetCharWidth(c)` -/
def charWidthC (t : TextSt) (ch : Nat) : Option Nat :=
  let p := t.fp
  if p.inRange ch && t.prop then
    let memW := p.memW
    let off := (ch - p.first) * memW
    match startBlanksC p off memW 0 with
    | none => none
    | some sb =>
      match endBlanksC p off memW 0 with
      | none => none
      | some eb =>
        if sb = memW then some ((constrain (p.bbW / 2 : Nat) 3 p.bbW).toNat % 256)
        else some ((memW + 256 + 256 - sb - eb + 1) % 256)
  else some p.bbW

/-- `GetCharStart(c)` -/
def charStartC (t : TextSt) (ch : Nat) : Option Nat :=
  let p := t.fp
  if p.inRange ch && t.prop then
    let memW := p.memW
    let off := (ch - p.first) * memW
    match startBlanksC p off memW 0 with
    | none => none
    | some sb => if sb = memW then some 0 else some sb
  else some 0

/-- the column byte of `DrawChar` for column `i`; `cs` = the `cStart` computed before the loop -/
def glyphColumnC (t : TextSt) (ch : Nat) (cw cs : Nat) (i : Nat) : Option Nat :=
  let p := t.fp
  if p.inRange ch then
    if (t.prop || p.tight > 0) && i + 1 = cw then some 0
    else (p.table[(ch - p.first) * p.memW + cs + i]?).map (·.toNat)
  else
    if i = 0 || i + 1 = cw then some 0xFF else some ((1 ||| (1 <<< (p.bbH - 1))) % 256)

def drawBlockC (s : RunSt) (x y : Int) (i j : Nat) (tsH tsV : Int) (col : Bool) : Option RunSt :=
  if tsH = 1 ∧ tsV = 1 then pxC s (x + i) (y + j) col
  else fillRectC s (x + i * tsH) (y + j * tsV) tsH tsV col

/-- body of the row loop of `DrawChar` for column byte `column` -/
def charRowC (x y : Int) (i : Nat) (column : Nat) (col bg : Bool) (tsH tsV : Int) (s : RunSt) (j : Nat) : Option RunSt :=
  if (column >>> j) % 2 = 1 then drawBlockC s x y i j tsH tsV col
  else if bg != col then drawBlockC s x y i j tsH tsV bg
  else some s

/-- body of the column loop of `DrawChar` -/
def charColC (t : TextSt) (x y : Int) (ch cw cs : Nat) (col bg : Bool) (tsH tsV : Int) (s : RunSt) (i : Nat) : Option RunSt :=
  match glyphColumnC t ch cw cs i with
  | none => none
  | some column => loopC (charRowC x y i column col bg tsH tsV) t.fp.bbH s

/-- `DrawChar` -/
def drawCharC (s : RunSt) (t : TextSt) (x y : Int) (ch : Nat) (col bg : Bool) (tsH tsV : Int) : Option RunSt :=
  let p := t.fp
  match charWidthC t ch with
  | none => none
  | some cw =>
    if x > getBWidth s.1.geo - ((cw : Int) - 1) * tsH ∨ y > s.1.geo.H ∨
       x + p.bbW * tsH - 1 < 0 ∨ y + p.bbH * tsV - 1 < 0 then some s
    else
      match charStartC t ch with
      | none => none
      | some cs => loopC (charColC t x y ch cw cs col bg tsH tsV) cw s

/-- `writeChar` (calls `GetCharWidth` a second time after drawing, as the code does) -/
def writeCharC (st : RunSt × TextSt) (ch : Nat) : Option (RunSt × TextSt) :=
  let (s, t) := st
  if ch = 10 then some (s, { t with cy := t.cy + lineAdvance t, cx := 0 })
  else if ch = 13 then some (s, t)
  else
    match drawCharC s t t.cx t.cy ch t.tcol t.tbg t.tsH t.tsV with
    | none => none
    | some s' =>
      match charWidthC t ch with
      | none => none
      | some cwN =>
        let cw : Int := cwN
        let cx' := t.cx + t.tsH * cw + t.spacing
        if t.wrap ∧ cx' > getBWidth s'.1.geo - t.tsH * (cw - 1) then
          some (s', { t with cy := t.cy + lineAdvance t, cx := 0 })
        else some (s', { t with cx := cx' })

/-- `RenderText`: one tick per character -/
def renderTextC : RunSt × TextSt → List Nat → Option (RunSt × TextSt)
  | st, [] => some st
  | st, ch :: rest =>
    match writeCharC ((st.1.1, st.1.2 + 1), st.2) ch with
    | none => none
    | some st' => renderTextC st' rest

/-- `StrWidth` -/
def strWidthAccC (t : TextSt) : Int → List Nat → Option Int
  | w, [] => some w
  | w, ch :: rest =>
    match charWidthC t ch with
    | none => none
    | some cw => strWidthAccC t (w + (cw : Int) * t.tsH + t.spacing) rest

def strWidthC (t : TextSt) (s : List Nat) : Option Int := (strWidthAccC t 0 s).map (· - t.tsH)

def applyOpC (s : RunSt) : Op → Option RunSt
  | .px x y col => pxC s x y col
  | .hline x y w col => hlineC s x y w col
  | .vline x y h col => vlineC s x y h col
  | .frect x y w h col => fillRectC s x y w h col
  | .rrect x y w h r col => drawRoundRectC s x y w h r col
  | .frrect x y w h r col => fillRoundRectC s x y w h r col
  | .circ x0 y0 r k col => drawCircleHelperC s x0 y0 r k col
  | .fcirc x0 y0 r k d col => fillCircleHelperC s x0 y0 r k d col
  | .bitmap x y bits w h col i a => drawBitmapC s x y bits w h col i a
  | .glyph t x y ch col bg h v => drawCharC s t x y ch col bg h v
  | .text t str => (renderTextC (s, t) str).map (·.1)
  | .bbox x y w h => some (setBoundingBox s.1 x y w h, s.2)
  | .inv b => some (invertPixels s.1 b, s.2)

end RawPanelVerif.Mono
