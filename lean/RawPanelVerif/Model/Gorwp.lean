import RawPanelVerif.Gen.Consts
/-!
# C19 — model of the high-level client `gorwp`

(a) `procesMessagesFromPanel` (gorwp/rawpanel.go 278-365) as a pure function: effects (ack sends, handler
    invocations) and state updates per message, same order of effects as the Go code; the reader's message filter
    (`readerKeeps`: the binary read loop drops a bare acknowledge; the pinned one dropped every message with flow field ACK); dispatch over a
    history that interleaves `Bind*` calls with events (`dispatchDyn`); `Connect`/`init` as a function of what
    happens inside the initialisation window (`connect`).
(b) a small LTS of the goroutines around the two bounded channels `fromPanel` / `toPanel` (capacities taken from the
    source, `Gen.gorwpFromPanelCap` / `Gen.gorwpToPanelCap`).  The code as it is now (`decoupled = true`) has THREE
    goroutines: the reader (`readFromPanel`, 212-276), the dispatcher (`listen`, 156-165: takes from `fromPanel`, runs
    the handlers, whose feedback and the ping reply are sends into `toPanel`) and the writer (168-202: drains
    `toPanel`, owns the ticker and enqueues its ping without waiting).  `decoupled = false` is the pinned code, in
    which ONE `select` loop did the dispatcher's and the writer's work and so sent into the queue only it drained.

(c) the reader's read deadlines as a timed LTS with every `SetReadDeadline` call site as configuration (`DlCfg`, `coded`
    = what the extractor reads from the source), `rstep`/`RdReach`.

Strings are byte lists.  `uint32`/`int32` values are carried as `Nat`/`Int` (the harness stays inside the ranges).
-/
namespace RawPanelVerif.Gorwp

/-! ## (a) dispatch -/

structure BinaryEv where
  pressed : Bool
  edge : Nat
  deriving DecidableEq, Repr

structure Event where
  id : Nat
  binary : Option BinaryEv := none
  pulsed : Option Int := none
  absolute : Option Nat := none
  speed : Option Int := none
  deriving DecidableEq, Repr

inductive Flow | none | ping | ack | other
  deriving DecidableEq, Repr

structure PanelInfo where
  model : List Nat := []
  serial : List Nat := []
  name : List Nat := []
  deriving DecidableEq, Repr

structure Topo where
  json : List Nat := []
  svg : List Nat := []
  deriving DecidableEq, Repr

/-- one `OutboundMessage`, reduced to what the dispatcher reads -/
structure OutMsg where
  flow : Flow := .none
  info : Option PanelInfo := none
  avail : Option (List (Nat × Nat)) := none    -- `HWCavailability` (nil when empty)
  topo : Option Topo := none
  events : List Event := []
  deriving DecidableEq, Repr

/-- the five binding maps, as the sets of ids that have a handler -/
structure Bindings where
  trigger : List Nat := []
  binary : List Nat := []
  pulsed : List Nat := []
  absolute : List Nat := []
  intensity : List Nat := []
  deriving DecidableEq, Repr

inductive Invocation
  | trigger (id : Nat) (ev : Event)
  | binary (id : Nat) (status : Nat) (edge : Nat)     -- BinaryStatus(Qint(pressed,1,0)), BinaryEdge(uint8(edge))
  | pulsed (id : Nat) (v : Int)
  | absolute (id : Nat) (v : Int)
  | intensity (id : Nat) (v : Int)
  deriving DecidableEq, Repr

inductive Effect
  | sendAck                     -- `rp.toPanel <- ACK` (284)
  | invoke (i : Invocation)
  deriving DecidableEq, Repr

/-- lines 347-349: the generic handler -/
def callTrigger (b : Bindings) (e : Event) : List Invocation :=
  if e.id ∈ b.trigger then [Invocation.trigger e.id e] else []

/-- lines 350-352 -/
def callBinary (b : Bindings) (e : Event) : List Invocation :=
  match e.binary with
  | some be => if e.id ∈ b.binary then [Invocation.binary e.id (if be.pressed then 1 else 0) (be.edge % 256)] else []
  | none => []

/-- lines 353-355 -/
def callPulsed (b : Bindings) (e : Event) : List Invocation :=
  match e.pulsed with
  | some v => if e.id ∈ b.pulsed then [Invocation.pulsed e.id v] else []
  | none => []

/-- lines 356-358 -/
def callAbsolute (b : Bindings) (e : Event) : List Invocation :=
  match e.absolute with
  | some v => if e.id ∈ b.absolute then [Invocation.absolute e.id (v : Int)] else []
  | none => []

/-- lines 359-361 -/
def callIntensity (b : Bindings) (e : Event) : List Invocation :=
  match e.speed with
  | some v => if e.id ∈ b.intensity then [Invocation.intensity e.id v] else []
  | none => []

/-- lines 337-362, one event: the five handlers in program order -/
def dispatchEvent (b : Bindings) (e : Event) : List Invocation :=
  callTrigger b e ++ callBinary b e ++ callPulsed b e ++ callAbsolute b e ++ callIntensity b e

def dispatchMsg (b : Bindings) (m : OutMsg) : List Invocation := m.events.flatMap (dispatchEvent b)

/-- the invocation log of a whole history -/
def dispatch (b : Bindings) (h : List OutMsg) : List Invocation := h.flatMap (dispatchMsg b)

/-- effects of one message in program order: ack first (283-287), then the handlers (337-363) -/
def effects (b : Bindings) (m : OutMsg) : List Effect :=
  (if m.flow = .ping then [Effect.sendAck] else []) ++ (dispatchMsg b m).map Effect.invoke

def acks (h : List OutMsg) : Nat := (h.filter (fun m => m.flow = .ping)).length

/-- `RawPanelState` -/
structure PState where
  model : List Nat := []
  serial : List Nat := []
  name : List Nat := []
  topoJSON : List Nat := []
  topoSVG : List Nat := []
  /-- the JSON text from which the parsed topology object handed out by `GetTopology` was built.  Line 321 allocates a
  fresh `topology.Topology` before every `json.Unmarshal`, so the object is a function of that one text only. -/
  topoSrc : List Nat := []
  avail : List (Nat × Nat) := []        -- association list, newest binding of a key first
  deriving DecidableEq, Repr

def setIfNonEmpty (old new : List Nat) : List Nat := if new = [] then old else new

/-- lines 289-334 -/
def applyMsg (s : PState) (m : OutMsg) : PState :=
  let s := match m.info with
    | some i => { s with model := setIfNonEmpty s.model i.model, serial := setIfNonEmpty s.serial i.serial,
                         name := setIfNonEmpty s.name i.name }
    | none => s
  let s := match m.avail with
    | some kv => { s with avail := kv.foldl (fun a e => e :: a) s.avail }
    | none => s
  match m.topo with
  | some t => { s with topoJSON := setIfNonEmpty s.topoJSON t.json, topoSrc := setIfNonEmpty s.topoSrc t.json,
                       topoSVG := setIfNonEmpty s.topoSVG t.svg }
  | none => s

def finalState (s : PState) (h : List OutMsg) : PState := h.foldl applyMsg s

def lookupAvail (s : PState) (k : Nat) : Option Nat := (s.avail.find? (·.1 = k)).map (·.2)

/-- `IsInitialized` (367-378) -/
def isInitialized (s : PState) : Bool :=
  s.model ≠ [] && s.serial ≠ [] && s.topoJSON ≠ [] && s.topoSVG ≠ []

/-! ### the reader's message filter -/

/-- which messages with flow field ACK `readFromPanel` does not forward.  `bare`: the binary reader of the code as it
is — only a message that equals a bare acknowledge (`proto.Equal(msg, &OutboundMessage{FlowMessage: ACK})`, 242);
`none`: the ASCII reader, which skips the line `ack` only (271), so that whatever else the panel sent arrives as lines
(messages) of its own; `whole`: the pinned binary reader (`if outgoingMessage.FlowMessage != 2`), which dropped such a
message with everything else it carried. -/
inductive AckFilter | whole | bare | none
  deriving DecidableEq, Repr

/-- an ACK message that carries nothing else (the only kind a filter may drop without loss) -/
def pureAck (m : OutMsg) : Bool := m.info.isNone && m.avail.isNone && m.topo.isNone && m.events.isEmpty

def readerKeeps : AckFilter → OutMsg → Bool
  | .whole, m => !decide (m.flow = .ack)
  | .bare, m => !(decide (m.flow = .ack) && pureAck m)
  | .none, _ => true

/-- what the dispatcher gets to see of a history -/
def readerView (f : AckFilter) (h : List OutMsg) : List OutMsg := h.filter (readerKeeps f)

/-- invocation log / ack count / state of the client for what the panel SENT -/
def clientLog (f : AckFilter) (b : Bindings) (h : List OutMsg) : List Invocation := dispatch b (readerView f h)
def clientAcks (f : AckFilter) (h : List OutMsg) : Nat := acks (readerView f h)
def clientState (f : AckFilter) (s : PState) (h : List OutMsg) : PState := finalState s (readerView f h)

/-! ### `Bind*` while events are flowing

Every event looks all five maps up under the read lock (339-346) and `Bind*` writes one map under the write lock
(inputs.go 46-104): relative to the look-ups a registration is atomic, so a run is a sequence of registrations and
events in the order in which they took the lock. -/

inductive Kind | trigger | binary | pulsed | absolute | intensity
  deriving DecidableEq, Repr

def Bindings.add (b : Bindings) : Kind → Nat → Bindings
  | .trigger, id => { b with trigger := id :: b.trigger }
  | .binary, id => { b with binary := id :: b.binary }
  | .pulsed, id => { b with pulsed := id :: b.pulsed }
  | .absolute, id => { b with absolute := id :: b.absolute }
  | .intensity, id => { b with intensity := id :: b.intensity }

def Bindings.has (b : Bindings) : Kind → Nat → Bool
  | .trigger, id => decide (id ∈ b.trigger)
  | .binary, id => decide (id ∈ b.binary)
  | .pulsed, id => decide (id ∈ b.pulsed)
  | .absolute, id => decide (id ∈ b.absolute)
  | .intensity, id => decide (id ∈ b.intensity)

inductive DynItem
  | bind (k : Kind) (id : Nat)      -- a `Bind*` call took the write lock
  | event (e : Event)               -- the dispatcher looked the handlers of `e` up and called them
  deriving DecidableEq, Repr

def dispatchDyn (b : Bindings) : List DynItem → List Invocation
  | [] => []
  | .bind k id :: r => dispatchDyn (b.add k id) r
  | .event e :: r => dispatchEvent b e ++ dispatchDyn b r

/-! ### `Connect` / `init` (63-150) -/

/-- what `init`'s `select` can observe after the initial request went out, in the order in which it happens -/
inductive InitEv
  | dispatched (m : OutMsg)   -- the dispatcher processed a message of the panel (state updated under the lock)
  | ctxDone                   -- the context was cancelled: `readFromPanel` returned (EOF, over-limit header, stalled
                              -- frame) and `listen` closed the connection and called `cancel` (208-209) — or the caller did
  | windowClosed              -- `time.After(2 * time.Second)` fired
  deriving DecidableEq, Repr

/-- Does `Connect` return `(panel, nil)`?  The poller (131-139) reports an initialised state; `ctx.Done()` makes `init`
return — `strictInit`, the code as it is (143-148) — an error unless the state is initialised, and nil in the pinned code;
the timer returns the error.  A history that just ends is one in which nothing more happens until the timer fires.
(The 10 ms polling period and the 2 s are real time and outside the model.) -/
def connectFrom (strictInit : Bool) : PState → List InitEv → Bool
  | s, [] => isInitialized s
  | s, .dispatched m :: r => isInitialized s || connectFrom strictInit (applyMsg s m) r
  | s, .ctxDone :: _ => isInitialized s || !strictInit
  | s, .windowClosed :: _ => isInitialized s

def connect (strictInit : Bool) (evs : List InitEv) : Bool := connectFrom strictInit {} evs

/-- the messages dispatched before the window closed or the connection ended -/
def windowMsgs : List InitEv → List OutMsg
  | .dispatched m :: r => m :: windowMsgs r
  | _ => []

/-- the window ended by a cancelled context (connection lost / caller's cancel), not by the timer -/
def endedByCtxDone : List InitEv → Bool
  | .dispatched _ :: r => endedByCtxDone r
  | .ctxDone :: _ => true
  | _ => false

/-! ## (b) reader, dispatcher and writer around the two bounded queues -/

/-- capacities of the two channels -/
structure Caps where
  fromPanel : Nat
  toPanel : Nat
  deriving DecidableEq, Repr

/-- `make(chan …, N)` in `Connect` (83-84), read from the source by the extractor -/
def caps : Caps := { fromPanel := Gen.gorwpFromPanelCap, toPanel := Gen.gorwpToPanelCap }

/-- what the panel put on the wire, one entry per frame -/
inductive Frame
  | valid (id : Nat) (sends : Nat)  -- a message; processing it makes `sends` sends into `toPanel` (acks + feedback)
  | skipped                         -- a message the reader does not forward (flow field ACK, see `readerKeeps`)
  | overLimit                       -- header ≥ 500000
  | truncated                       -- payload does not arrive within 2 s
  deriving DecidableEq, Repr

inductive Loop
  | idle
  | sending (r : Nat)               -- inside `procesMessagesFromPanel` / the ticker case with `r` sends still to do
  deriving DecidableEq, Repr

structure QSt where
  stream : List Frame               -- not yet read
  readerRunning : Bool := true
  fromPanel : List (Nat × Nat) := []   -- queued messages (id, sends), oldest first
  toPanel : Nat := 0                -- queued outgoing messages
  loop : Loop := .idle              -- the goroutine that dispatches (pinned: the one `select` loop)
  dispatched : List Nat := []       -- ids handed to `procesMessagesFromPanel`, oldest first
  written : Nat := 0                -- messages written to the socket
  deriving DecidableEq, Repr

def qinit (stream : List Frame) : QSt := { stream }

inductive QLbl
  | readerFrame      -- the reader consumes the next frame
  | loopTakeFrom     -- `case messagesFromPanel := <-rp.fromPanel`
  | loopSend         -- one `rp.toPanel <- …` inside the dispatching goroutine
  | loopDrain        -- (pinned only) `case messagesToPanel := <-rp.toPanel` + socket write in the same loop
  | tick             -- `case <-ticker.C`
  | writerDrain      -- (code as it is) the writer goroutine takes from `toPanel` and writes
  deriving DecidableEq, Repr

/-- `strict`: the over-limit branch returns an error (repair 1).  `decoupled`: `toPanel` is drained by its own
goroutine, which also owns the ticker and enqueues the ping without blocking (repair 2).  `false false` is the pinned
code, `true true` the code as it is.  The abstraction is generous to the environment: a slot freed by the writer may
be taken by the ticker's ping before the waiting dispatcher gets it (Go hands the slot to the parked sender). -/
def qstep (c : Caps) (strict decoupled : Bool) (s : QSt) : QLbl → Option QSt
  | .readerFrame =>
    if s.readerRunning then
      match s.stream with
      | [] => none
      | .valid id k :: rest =>
        if s.fromPanel.length < c.fromPanel then some { s with stream := rest, fromPanel := s.fromPanel ++ [(id, k)] } else none
      | .skipped :: rest => some { s with stream := rest }
      | .overLimit :: rest =>
        if strict then some { s with stream := rest, readerRunning := false }
        else some { s with stream := rest }            -- pinned: logs and keeps parsing
      | .truncated :: rest => some { s with stream := rest, readerRunning := false }  -- `break` leaves the `for` (232-234)
    else none
  | .loopTakeFrom =>
    if s.loop = .idle then
      match s.fromPanel with
      | (id, k) :: rest => some { s with fromPanel := rest, dispatched := s.dispatched ++ [id], loop := if k = 0 then .idle else .sending k }
      | [] => none
    else none
  | .loopSend =>
    match s.loop with
    | .sending (r + 1) =>
      if s.toPanel < c.toPanel then some { s with toPanel := s.toPanel + 1, loop := if r = 0 then .idle else .sending r } else none
    | _ => none
  | .loopDrain =>
    if decoupled then none
    else if s.loop = .idle ∧ s.toPanel > 0 then some { s with toPanel := s.toPanel - 1, written := s.written + 1 } else none
  | .tick =>
    if decoupled then
      -- the ticker lives in the writer goroutine and enqueues its ping without waiting (dropped when the queue is full)
      some { s with toPanel := if s.toPanel < c.toPanel then s.toPanel + 1 else s.toPanel }
    else if s.loop = .idle then some { s with loop := .sending 1 }
    else none
  | .writerDrain =>
    if decoupled ∧ s.toPanel > 0 then some { s with toPanel := s.toPanel - 1, written := s.written + 1 } else none

def qrun (c : Caps) (strict decoupled : Bool) (s : QSt) : List QLbl → Option QSt
  | [] => some s
  | l :: ls => (qstep c strict decoupled s l).bind (fun s' => qrun c strict decoupled s' ls)

inductive QReachable (c : Caps) (strict decoupled : Bool) (stream : List Frame) : QSt → Prop
  | init : QReachable c strict decoupled stream (qinit stream)
  | step {s s' : QSt} (l : QLbl) : QReachable c strict decoupled stream s → qstep c strict decoupled s l = some s' →
      QReachable c strict decoupled stream s'

/-- the dispatching goroutine is blocked sending into a full `toPanel` -/
def blocked (c : Caps) (s : QSt) : Bool :=
  match s.loop with
  | .sending (_ + 1) => s.toPanel == c.toPanel
  | _ => false

/-- events are waiting behind the dispatcher -/
def pending (s : QSt) : Bool := !s.fromPanel.isEmpty || (s.readerRunning && !s.stream.isEmpty)

/-- ids of the forwarded frames before the first broken frame -/
def goodPrefix : List Frame → List Nat
  | .valid id _ :: rest => id :: goodPrefix rest
  | .skipped :: rest => goodPrefix rest
  | _ => []

/-! ## (c) the reader's read deadlines (real time)

`AutoDetectIfPanelEncodingIsBinary` (rawpanelhelpers.go 711) arms a read deadline for its probe and leaves it armed;
`readFromPanel` (gorwp/rawpanel.go 216-276) resets it — binary: as the FIRST statement of the frame loop (219), ASCII:
once before the line loop (254) — and arms `Gen.gorwpFrameTimeoutMs` before every payload read (233).  As in
`Model/Net.lean` every such place is a field of a configuration, so that "the reset sits before the loop instead of in
it" is a configuration, and the theorems say for which configurations they hold.  `coded` is built from what the
extractor finds in the source (constants and the syntactic places of the resets).  Granularity: whole headers, whole
payloads, whole lines (the code has no deadline call between the bytes of a header). -/

inductive DlOp
  | skip                -- no call at this place
  | clear               -- `SetReadDeadline(time.Time{})`
  | arm (ms : Nat)      -- `SetReadDeadline(time.Now().Add(ms))`
  deriving DecidableEq, Repr

def DlOp.apply (now : Nat) : DlOp → Option Nat → Option Nat
  | .skip, d => d
  | .clear, _ => none
  | .arm ms, _ => some (now + ms)

structure DlCfg where
  probeArm : DlOp        -- rawpanelhelpers.go 711, still in force when `readFromPanel` starts
  binBeforeLoop : DlOp   -- binary branch, before the `for` (the code has no call there)
  binLoopTop : DlOp      -- 219: first statement of the binary `for`
  binPayload : DlOp      -- 233: before the payload `io.ReadFull`
  ascBeforeLoop : DlOp   -- 254: ASCII branch, before the `for`
  ascLoopTop : DlOp      -- first statement of the ASCII `for` (the code has no call there)
  deriving DecidableEq, Repr

def DlOp.ofFlag (b : Bool) : DlOp := if b then .clear else .skip

/-- the code as the extractor reads it -/
def coded : DlCfg :=
  { probeArm := .arm Gen.detectorProbeTimeoutMs,
    binBeforeLoop := .ofFlag Gen.gorwpResetBinBeforeLoop, binLoopTop := .ofFlag Gen.gorwpResetBinLoopTop,
    binPayload := .arm Gen.gorwpFrameTimeoutMs,
    ascBeforeLoop := .ofFlag Gen.gorwpResetAscBeforeLoop, ascLoopTop := .ofFlag Gen.gorwpResetAscLoopTop }

/-- the reset of the binary loop hoisted out of the loop (shape of seeded change C19-7) -/
def resetHoisted (c : DlCfg) : DlCfg := { c with binBeforeLoop := .clear, binLoopTop := .skip }

inductive RPhase
  | header     -- blocked reading a header (binary) / a line (ASCII)
  | payload    -- blocked in the payload `io.ReadFull`
  | stopped    -- the read returned a timeout: `readFromPanel` returns, `listen` closes the connection and cancels
  deriving DecidableEq, Repr

structure RdSt where
  phase : RPhase
  rd : Option Nat       -- the connection's read deadline (absolute ms), `none` = cleared
  clock : Nat
  lastHdr : Nat         -- ghost: when the header of the current / last frame was complete
  forwarded : Nat       -- frames / lines handed on
  deriving DecidableEq, Repr

/-- `readFromPanel` at its first blocking read: probe deadline armed at `tp`, the function entered at `now` -/
def RdSt.start (cfg : DlCfg) (ascii : Bool) (tp now : Nat) : RdSt :=
  let d0 := cfg.probeArm.apply tp none
  if ascii then ⟨.header, cfg.ascLoopTop.apply now (cfg.ascBeforeLoop.apply now d0), now, now, 0⟩
  else ⟨.header, cfg.binLoopTop.apply now (cfg.binBeforeLoop.apply now d0), now, now, 0⟩

inductive RdLbl
  | hdr (now : Nat)      -- the four header bytes are complete
  | body (now : Nat)     -- the payload is complete: forward, back to the loop top
  | line (now : Nat)     -- ASCII: a line is complete: forward, back to the loop top
  | expire (now : Nat)   -- the armed read deadline has passed: the blocked read returns a timeout
  deriving DecidableEq, Repr

def notExpired (rd : Option Nat) (now : Nat) : Bool :=
  match rd with
  | some d => decide (now < d)
  | none => true

/-- one step; time is urgent (nothing but `expire` happens at or after an armed deadline) -/
def rstep (cfg : DlCfg) (ascii : Bool) (s : RdSt) : RdLbl → Option RdSt
  | .hdr now =>
    if ascii = false ∧ s.phase = .header ∧ s.clock ≤ now ∧ notExpired s.rd now = true then
      some { s with phase := .payload, rd := cfg.binPayload.apply now s.rd, clock := now, lastHdr := now }
    else none
  | .body now =>
    if ascii = false ∧ s.phase = .payload ∧ s.clock ≤ now ∧ notExpired s.rd now = true then
      some { s with phase := .header, rd := cfg.binLoopTop.apply now s.rd, clock := now, forwarded := s.forwarded + 1 }
    else none
  | .line now =>
    if ascii = true ∧ s.phase = .header ∧ s.clock ≤ now ∧ notExpired s.rd now = true then
      some { s with rd := cfg.ascLoopTop.apply now s.rd, clock := now, lastHdr := now, forwarded := s.forwarded + 1 }
    else none
  | .expire now =>
    match s.rd with
    | some d =>
      if s.phase ≠ .stopped ∧ s.clock ≤ now ∧ d ≤ now then some { s with phase := .stopped, clock := now } else none
    | none => none

def rrun (cfg : DlCfg) (ascii : Bool) (s : RdSt) : List RdLbl → Option RdSt
  | [] => some s
  | l :: ls => (rstep cfg ascii s l).bind (fun s' => rrun cfg ascii s' ls)

inductive RdReach (cfg : DlCfg) (ascii : Bool) : RdSt → Prop
  | start (tp now : Nat) : tp ≤ now → RdReach cfg ascii (RdSt.start cfg ascii tp now)
  | step {s s' : RdSt} (l : RdLbl) : RdReach cfg ascii s → rstep cfg ascii s l = some s' → RdReach cfg ascii s'

/-- the reset that makes waiting for a header deadline-free: binary — at the loop top; ASCII — at the loop top, or
before the loop with nothing in it -/
def DlCfg.hdrClear (cfg : DlCfg) (ascii : Bool) : Bool :=
  if ascii then decide (cfg.ascLoopTop = .clear) || (decide (cfg.ascLoopTop = .skip) && decide (cfg.ascBeforeLoop = .clear))
  else decide (cfg.binLoopTop = .clear)

end RawPanelVerif.Gorwp
