/-!
# C19 — model of the high-level client `gorwp`

(a) `procesMessagesFromPanel` (gorwp/rawpanel.go 261-340) as a pure function: effects (ack sends, handler
    invocations) and state updates per message, same order of effects as the Go code.
(b) a small LTS of the reader (`readFromPanel`, 196-259) and the single `select` loop (150-186) with its two
    bounded channels, in which the handlers' feedback and the ticker's ping are sent into the queue that the
    same loop drains.

Strings are byte lists.  `uint32`/`int32` values are carried as `Nat`/`Int` (the harness stays inside the ranges).
-/
namespace RawPanelVerif.Gorwp

/-! ## (a) dispatch -/

structure BinaryEv where
  pressed : Bool
  edge : Nat
  deriving DecidableEq, Repr

structure Event where
  id : Nat
  binary : Option BinaryEv := none
  pulsed : Option Int := none
  absolute : Option Nat := none
  speed : Option Int := none
  deriving DecidableEq, Repr

inductive Flow | none | ping | ack | other
  deriving DecidableEq, Repr

structure PanelInfo where
  model : List Nat := []
  serial : List Nat := []
  name : List Nat := []
  deriving DecidableEq, Repr

structure Topo where
  json : List Nat := []
  svg : List Nat := []
  deriving DecidableEq, Repr

/-- one `OutboundMessage`, reduced to what the dispatcher reads -/
structure OutMsg where
  flow : Flow := .none
  info : Option PanelInfo := none
  avail : Option (List (Nat × Nat)) := none    -- `HWCavailability` (nil when empty)
  topo : Option Topo := none
  events : List Event := []
  deriving DecidableEq, Repr

/-- the five binding maps, as the sets of ids that have a handler -/
structure Bindings where
  trigger : List Nat := []
  binary : List Nat := []
  pulsed : List Nat := []
  absolute : List Nat := []
  intensity : List Nat := []
  deriving DecidableEq, Repr

inductive Invocation
  | trigger (id : Nat) (ev : Event)
  | binary (id : Nat) (status : Nat) (edge : Nat)     -- BinaryStatus(Qint(pressed,1,0)), BinaryEdge(uint8(edge))
  | pulsed (id : Nat) (v : Int)
  | absolute (id : Nat) (v : Int)
  | intensity (id : Nat) (v : Int)
  deriving DecidableEq, Repr

inductive Effect
  | sendAck                     -- `rp.toPanel <- ACK` (267)
  | invoke (i : Invocation)
  deriving DecidableEq, Repr

/-- lines 322-336, one event -/
def dispatchEvent (b : Bindings) (e : Event) : List Invocation :=
  (if e.id ∈ b.trigger then [Invocation.trigger e.id e] else [])
  ++ (match e.binary with
      | some be => if e.id ∈ b.binary then [Invocation.binary e.id (if be.pressed then 1 else 0) (be.edge % 256)] else []
      | none => [])
  ++ (match e.pulsed with
      | some v => if e.id ∈ b.pulsed then [Invocation.pulsed e.id v] else []
      | none => [])
  ++ (match e.absolute with
      | some v => if e.id ∈ b.absolute then [Invocation.absolute e.id (v : Int)] else []
      | none => [])
  ++ (match e.speed with
      | some v => if e.id ∈ b.intensity then [Invocation.intensity e.id v] else []
      | none => [])

def dispatchMsg (b : Bindings) (m : OutMsg) : List Invocation := m.events.flatMap (dispatchEvent b)

/-- the invocation log of a whole history -/
def dispatch (b : Bindings) (h : List OutMsg) : List Invocation := h.flatMap (dispatchMsg b)

/-- effects of one message in program order: ack first (266-270), then the handlers (320-338) -/
def effects (b : Bindings) (m : OutMsg) : List Effect :=
  (if m.flow = .ping then [Effect.sendAck] else []) ++ (dispatchMsg b m).map Effect.invoke

def acks (h : List OutMsg) : Nat := (h.filter (fun m => m.flow = .ping)).length

/-- `RawPanelState` -/
structure PState where
  model : List Nat := []
  serial : List Nat := []
  name : List Nat := []
  topoJSON : List Nat := []
  topoSVG : List Nat := []
  /-- the JSON text from which the parsed topology object handed out by `GetTopology` was built.  Line 304 allocates a
  fresh `topology.Topology` before every `json.Unmarshal`, so the object is a function of that one text only. -/
  topoSrc : List Nat := []
  avail : List (Nat × Nat) := []        -- association list, newest binding of a key first
  deriving DecidableEq, Repr

def setIfNonEmpty (old new : List Nat) : List Nat := if new = [] then old else new

/-- lines 272-317 -/
def applyMsg (s : PState) (m : OutMsg) : PState :=
  let s := match m.info with
    | some i => { s with model := setIfNonEmpty s.model i.model, serial := setIfNonEmpty s.serial i.serial,
                         name := setIfNonEmpty s.name i.name }
    | none => s
  let s := match m.avail with
    | some kv => { s with avail := kv.foldl (fun a e => e :: a) s.avail }
    | none => s
  match m.topo with
  | some t => { s with topoJSON := setIfNonEmpty s.topoJSON t.json, topoSrc := setIfNonEmpty s.topoSrc t.json,
                       topoSVG := setIfNonEmpty s.topoSVG t.svg }
  | none => s

def finalState (s : PState) (h : List OutMsg) : PState := h.foldl applyMsg s

def lookupAvail (s : PState) (k : Nat) : Option Nat := (s.avail.find? (·.1 = k)).map (·.2)

/-- `IsInitialized` (342-353) -/
def isInitialized (s : PState) : Bool :=
  s.model ≠ [] && s.serial ≠ [] && s.topoJSON ≠ [] && s.topoSVG ≠ []

/-! ## (b) reader + select loop with bounded queues -/

/-- capacity of `toPanel` and `fromPanel` (rawpanel.go 81-82) -/
def cap : Nat := 10

/-- what the panel put on the wire, one entry per frame -/
inductive Frame
  | valid (id : Nat) (sends : Nat)  -- a message; processing it makes `sends` sends into `toPanel` (acks + feedback)
  | overLimit                       -- header ≥ 500000
  | truncated                       -- payload does not arrive within 2 s
  deriving DecidableEq, Repr

inductive Loop
  | idle
  | sending (r : Nat)               -- inside `procesMessagesFromPanel` / the ticker case with `r` sends still to do
  deriving DecidableEq, Repr

structure QSt where
  stream : List Frame               -- not yet read
  readerRunning : Bool := true
  fromPanel : List (Nat × Nat) := []   -- queued messages (id, sends), oldest first
  toPanel : Nat := 0                -- queued outgoing messages
  loop : Loop := .idle
  dispatched : List Nat := []       -- ids handed to `procesMessagesFromPanel`, oldest first
  written : Nat := 0                -- messages written to the socket
  deriving DecidableEq, Repr

def qinit (stream : List Frame) : QSt := { stream }

inductive QLbl
  | readerFrame      -- the reader consumes the next frame
  | loopTakeFrom     -- `case messagesFromPanel := <-rp.fromPanel`
  | loopSend         -- one `rp.toPanel <- …` inside the loop goroutine
  | loopDrain        -- `case messagesToPanel := <-rp.toPanel` + socket write
  | tick             -- `case <-ticker.C`
  | writerDrain      -- (repaired variant only) a separate writer goroutine takes from `toPanel`
  deriving DecidableEq, Repr

/-- `strict`: the over-limit branch returns an error (repair 1).  `decoupled`: `toPanel` is drained by its own
goroutine, which also owns the ticker and enqueues the ping without blocking (repair 2).  `false false` is the pinned code. -/
def qstep (strict decoupled : Bool) (s : QSt) : QLbl → Option QSt
  | .readerFrame =>
    if s.readerRunning then
      match s.stream with
      | [] => none
      | .valid id k :: rest =>
        if s.fromPanel.length < cap then some { s with stream := rest, fromPanel := s.fromPanel ++ [(id, k)] } else none
      | .overLimit :: rest =>
        if strict then some { s with stream := rest, readerRunning := false }
        else some { s with stream := rest }            -- logs and keeps parsing (226-228)
      | .truncated :: rest => some { s with stream := rest, readerRunning := false }  -- `break` leaves the `for` (216-218)
    else none
  | .loopTakeFrom =>
    if s.loop = .idle then
      match s.fromPanel with
      | (id, k) :: rest => some { s with fromPanel := rest, dispatched := s.dispatched ++ [id], loop := if k = 0 then .idle else .sending k }
      | [] => none
    else none
  | .loopSend =>
    match s.loop with
    | .sending (r + 1) =>
      if s.toPanel < cap then some { s with toPanel := s.toPanel + 1, loop := if r = 0 then .idle else .sending r } else none
    | _ => none
  | .loopDrain =>
    if decoupled then none
    else if s.loop = .idle ∧ s.toPanel > 0 then some { s with toPanel := s.toPanel - 1, written := s.written + 1 } else none
  | .tick =>
    if decoupled then
      -- the ticker lives in the writer goroutine and enqueues its ping without waiting (dropped when the queue is full)
      some { s with toPanel := if s.toPanel < cap then s.toPanel + 1 else s.toPanel }
    else if s.loop = .idle then some { s with loop := .sending 1 }
    else none
  | .writerDrain =>
    if decoupled ∧ s.toPanel > 0 then some { s with toPanel := s.toPanel - 1, written := s.written + 1 } else none

def qrun (strict decoupled : Bool) (s : QSt) : List QLbl → Option QSt
  | [] => some s
  | l :: ls => (qstep strict decoupled s l).bind (fun s' => qrun strict decoupled s' ls)

inductive QReachable (strict decoupled : Bool) (stream : List Frame) : QSt → Prop
  | init : QReachable strict decoupled stream (qinit stream)
  | step {s s' : QSt} (l : QLbl) : QReachable strict decoupled stream s → qstep strict decoupled s l = some s' →
      QReachable strict decoupled stream s'

/-- the loop goroutine is blocked sending into a full `toPanel` -/
def blocked (s : QSt) : Bool :=
  match s.loop with
  | .sending (_ + 1) => s.toPanel == cap
  | _ => false

/-- events are waiting behind the loop -/
def pending (s : QSt) : Bool := !s.fromPanel.isEmpty || (s.readerRunning && !s.stream.isEmpty)

/-- ids of the valid frames before the first broken frame -/
def goodPrefix : List Frame → List Nat
  | .valid id _ :: rest => id :: goodPrefix rest
  | _ => []

end RawPanelVerif.Gorwp
