/-!
# `for _, r := range str` and `byte(r)`: how `RenderText` / `StrWidth` read a Go string

Go decodes the string as UTF-8, one rune per iteration; a byte that does not start a well-formed sequence yields
`utf8.RuneError` (U+FFFD) and consumes one byte (`unicode/utf8.DecodeRuneInString`: first-byte table, accept ranges for
the second byte, continuation bytes `80..BF`).  `RenderText` then truncates every rune to a byte (`byte(char)`), so
U+010A is a line feed, U+0141 an `A`, and every malformed byte the glyph of `0xFD`.

Executable, core-only; tied to the Go runtime by the C20 correspondence (strings with multi-byte runes, runes ≥ U+0100,
surrogates, overlong forms, truncated sequences, stray continuation bytes).
-/
namespace RawPanelVerif.GoRunes

def runeError : Nat := 0xFFFD

/-- size and accepted range of the second byte for a leading byte (`first[]` / `acceptRanges[]` of `unicode/utf8`);
`none` = not a leading byte of a multi-byte sequence -/
def lead (b0 : Nat) : Option (Nat × Nat × Nat) :=
  if 0xC2 ≤ b0 ∧ b0 ≤ 0xDF then some (2, 0x80, 0xBF)
  else if b0 = 0xE0 then some (3, 0xA0, 0xBF)
  else if 0xE1 ≤ b0 ∧ b0 ≤ 0xEC then some (3, 0x80, 0xBF)
  else if b0 = 0xED then some (3, 0x80, 0x9F)
  else if 0xEE ≤ b0 ∧ b0 ≤ 0xEF then some (3, 0x80, 0xBF)
  else if b0 = 0xF0 then some (4, 0x90, 0xBF)
  else if 0xF1 ≤ b0 ∧ b0 ≤ 0xF3 then some (4, 0x80, 0xBF)
  else if b0 = 0xF4 then some (4, 0x80, 0x8F)
  else none

def cont (b : Nat) : Bool := 0x80 ≤ b && b ≤ 0xBF

/-- `utf8.DecodeRuneInString`: (rune, number of bytes consumed ≥ 1) for a non-empty string `b0 :: rest` -/
def decodeRune (b0 : Nat) (rest : List Nat) : Nat × Nat :=
  if b0 < 0x80 then (b0, 1)
  else
    match lead b0 with
    | none => (runeError, 1)
    | some (sz, lo, hi) =>
      match rest with
      | [] => (runeError, 1)
      | b1 :: r1 =>
        if ¬ (lo ≤ b1 ∧ b1 ≤ hi) then (runeError, 1)
        else if sz = 2 then ((b0 % 32) * 64 + b1 % 64, 2)
        else
          match r1 with
          | [] => (runeError, 1)
          | b2 :: r2 =>
            if ¬ cont b2 then (runeError, 1)
            else if sz = 3 then ((b0 % 16) * 4096 + (b1 % 64) * 64 + b2 % 64, 3)
            else
              match r2 with
              | [] => (runeError, 1)
              | b3 :: _ =>
                if ¬ cont b3 then (runeError, 1)
                else ((b0 % 8) * 262144 + (b1 % 64) * 4096 + (b2 % 64) * 64 + b3 % 64, 4)

/-- the runes `range` yields; `fuel` = length of the string (every iteration consumes at least one byte) -/
def runesFuel : Nat → List Nat → List Nat
  | 0, _ => []
  | _, [] => []
  | fuel + 1, b0 :: rest =>
    let (r, n) := decodeRune b0 rest
    r :: runesFuel fuel (rest.drop (n - 1))

def runes (s : List Nat) : List Nat := runesFuel s.length s

/-- the `byte(char)` values `RenderText` and `StrWidth` work on -/
def runeBytes (s : List Nat) : List Nat := (runes s).map (· % 256)

end RawPanelVerif.GoRunes
