import RawPanelVerif.Model.Topology
/-!
# The text layer of `ToJSON()` / `JSONstring()` (C14): `encoding/json`'s compact output of a JSON tree

`json.Marshal` writes a struct without any white space: `{"k":v,…}`, `[v,…]`, numbers as their literal, `null`,
strings through `appendString` with `escapeHTML` on:

* `"` and `\` get a backslash; `\b \f \n \r \t` their short forms; every other byte below 0x20 and the three HTML
  characters `<`, `>`, `&` become `\u00XX` (lower-case hex); 0x7f and all other ASCII are copied;
* U+2028 / U+2029 (`E2 80 A8`, `E2 80 A9`) become the six bytes `\u2028` / `\u2029`; every other multi-byte sequence is copied.

`escape` is written byte-wise.  It is `appendString` exactly on valid UTF-8 (in valid UTF-8 the bytes `E2 80 A8/A9`
can only be the encoding of U+2028/9, and no other byte ≥ 0x80 is touched).  On invalid UTF-8 Go substitutes
the escape `\ufffd` for every offending byte — not modelled: the driver marks such records `invalid-utf8` (the generators
emit valid UTF-8 only; Go strings that come out of JSON or protobuf are valid UTF-8).

`unescape` reads a JSON string body back (all escapes of RFC 8259 except surrogate pairs, which `escape` never
writes); `Props/C14.lean` proves `unescape (escape s) = some s` for every byte string.
-/
namespace RawPanelVerif.Topo

/-- one ASCII byte through `appendString` (escapeHTML on) -/
def escByte (b : UInt8) : Str :=
  if b = 34 then [92, 34]
  else if b = 92 then [92, 92]
  else if b = 8 then [92, 98]
  else if b = 12 then [92, 102]
  else if b = 10 then [92, 110]
  else if b = 13 then [92, 114]
  else if b = 9 then [92, 116]
  else if b < 32 ∨ b = 60 ∨ b = 62 ∨ b = 38 then
    [92, 117, 48, 48, hexDigit (b.toNat / 16), hexDigit (b.toNat % 16)]
  else [b]

/-- the body of a JSON string literal as `encoding/json` writes it -/
def escape : Str → Str
  | [] => []
  | 0xE2 :: 0x80 :: 0xA8 :: r => [92, 117, 50, 48, 50, 56] ++ escape r
  | 0xE2 :: 0x80 :: 0xA9 :: r => [92, 117, 50, 48, 50, 57] ++ escape r
  | b :: r => escByte b ++ escape r

def hexVal (b : UInt8) : Option Nat :=
  if 48 ≤ b ∧ b ≤ 57 then some (b.toNat - 48)
  else if 97 ≤ b ∧ b ≤ 102 then some (b.toNat - 87)
  else if 65 ≤ b ∧ b ≤ 70 then some (b.toNat - 55)
  else none

def hex4 (a b c d : UInt8) : Option Nat :=
  match hexVal a, hexVal b, hexVal c, hexVal d with
  | some a, some b, some c, some d => some (((a * 16 + b) * 16 + c) * 16 + d)
  | _, _, _, _ => none

/-- UTF-8 encoding of a code point of the basic plane -/
def utf8enc (cp : Nat) : Str :=
  if cp < 0x80 then [cp.toUInt8]
  else if cp < 0x800 then [(0xC0 + cp / 64).toUInt8, (0x80 + cp % 64).toUInt8]
  else [(0xE0 + cp / 4096).toUInt8, (0x80 + cp / 64 % 64).toUInt8, (0x80 + cp % 64).toUInt8]

/-- read a JSON string body (no surrounding quotes) back; `none` = malformed escape -/
def unescape : Str → Option Str
  | [] => some []
  | 92 :: 117 :: a :: b :: c :: d :: r =>
    match hex4 a b c d with
    | some cp => (unescape r).map (utf8enc cp ++ ·)
    | none => none
  | 92 :: e :: r =>
    let one (x : UInt8) : Option Str := (unescape r).map (x :: ·)
    if e = 34 then one 34 else if e = 92 then one 92 else if e = 47 then one 47
    else if e = 98 then one 8 else if e = 102 then one 12 else if e = 110 then one 10
    else if e = 114 then one 13 else if e = 116 then one 9 else none
  | [92] => none
  | b :: r => (unescape r).map (b :: ·)

def quoted (s : Str) : Str := 34 :: (escape s ++ [34])

mutual
/-- `json.Marshal` text of a JSON tree -/
def renderText : JVal → Str
  | .null => [110, 117, 108, 108]
  | .bool b => if b then [116, 114, 117, 101] else [102, 97, 108, 115, 101]
  | .num l => l
  | .str s => quoted s
  | .arr l => 91 :: renderTextL l
  | .obj kvs => 123 :: renderTextO kvs
def renderTextL : List JVal → Str
  | [] => [93]
  | [v] => renderText v ++ [93]
  | v :: w :: r => renderText v ++ 44 :: renderTextL (w :: r)
def renderTextO : List (Str × JVal) → Str
  | [] => [125]
  | [(k, v)] => quoted k ++ 58 :: renderText v ++ [125]
  | (k, v) :: kv :: r => quoted k ++ 58 :: renderText v ++ 44 :: renderTextO (kv :: r)
end

/-- `ToJSON()` / `JSONstring()`: the bytes -/
def toJSONText (t : Topology) : Str := renderText (toJSON t)

end RawPanelVerif.Topo
