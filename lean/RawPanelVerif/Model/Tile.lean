import RawPanelVerif.Model.Mono
import RawPanelVerif.Base.Dbl
import RawPanelVerif.Gen.Icons
/-!
# Model of `WriteDisplayTileNew` (rawpanelhelpers.go 306-608) and `convertToColorRGB16bit` (188-224)

The layout logic never reads the canvas, so the model is a pure function `tileOps` from the text state and the tile
geometry to the list of canvas operations (`Mono.Op`) the Go code performs, in order; the rendered image is
`tileOps.foldl applyOp`.  Go `int32`/`uint32` arithmetic is made explicit (`i32`, `u32`).
-/
namespace RawPanelVerif.Tile
open RawPanelVerif RawPanelVerif.Mono RawPanelVerif.Gen

def u32 (x : Int) : Int := x.emod 4294967296
def i32 (x : Int) : Int := (x + 2147483648).emod 4294967296 - 2147483648

structure Font where
  face : Int := 0      -- FontFace (int32 enum)
  tw : Int := 0        -- TextWidth (uint32)
  th : Int := 0        -- TextHeight (uint32)
deriving Repr, DecidableEq

structure Styling where
  textFont : Option Font := none
  titleFont : Option Font := none
  fixedWidth : Bool := false
  titlePad : Int := 0      -- TitleBarPadding (uint32)
  extraSp : Int := 0       -- ExtraCharacterSpacing (uint32)
  unfSize : Int := 0       -- UnformattedFontSize (uint32)
deriving Repr, DecidableEq

structure Scale where
  stype : Int := 0
  rl : Int := 0
  rh : Int := 0
  ll : Int := 0
  lh : Int := 0
deriving Repr, DecidableEq

/-- `rwp.Color`: `ColorRGB` takes precedence over `ColorIndex`; neither = output 0 -/
inductive Col where
  | rgb (r g b : Int)     -- uint32 channel values
  | idx (i : Int)         -- ColorIndex enum (int32)
  | empty
deriving Repr, DecidableEq

structure TileIn where
  intVal : Int := 0
  intVal2 : Int := 0
  fmt : Int := 0
  stateIcon : Int := 0
  modIcon : Int := 0
  title : List Nat := []      -- byte(rune) sequence of the string
  solid : Bool := false
  line1 : List Nat := []
  line2 : List Nat := []
  pair : Int := 0
  scale : Option Scale := none
  styling : Option Styling := none
  pix : Option Col := none
  bg : Option Col := none
deriving Repr, DecidableEq

def constrain (v lo hi : Int) : Int := if v < lo then lo else if v > hi then hi else v
def mapConstrain (x inMin inMax outMin outMax : Int) : Int :=
  constrain (((x - inMin) * (outMax - outMin)).tdiv (inMax - inMin) + outMin) outMin outMax

/-- `convertToColorRGB16bit`: 6-bit rrggbb -/
def color6 : Col → Int
  | .rgb r g b =>
    u32 (((mapConstrain r 0 255 0 3).emod 4) * 16) + u32 (((mapConstrain g 0 255 0 3).emod 4) * 4)
      + u32 ((mapConstrain b 0 255 0 3).emod 4)
  | .idx i =>
    let k := (i.emod 32).toNat
    if k < buttonColors.size then (buttonColors.getD k 0).toNat else (buttonColors.getD 0 0).toNat
  | .empty => 0

/-- `SetOLEDBckgColor` / `SetOLEDPixelColor`: 6 bit → RGB565 (bbbbbggg gggrrrrr) -/
def color565 (c : Int) : Int :=
  let r := (c / 16 % 4) * 31 / 3
  let g := (c / 4 % 4) * 63 / 3
  let b := (c % 4) * 31 / 3
  (b % 32) * 2048 + (g % 64) * 32 + r % 32

def asciiBytes (s : String) : List Nat := s.toList.map (·.toNat)
def natsOfBytes (b : Bytes) : List Nat := b.map (·.toNat)

/-- value → string, the inner `switch textStruct.Formatting` -/
def valueString (fmt : Int) (v : Int) : List Nat :=
  if fmt = 1 then natsOfBytes (Dbl.fmtIntDiv v 1000 2)        -- FMT_FLOAT_2DEZ
  else if fmt = 8 then natsOfBytes (Dbl.fmtIntDiv v 1000 3)   -- FMT_FLOAT_X_XXX
  else if fmt = 9 then natsOfBytes (Dbl.fmtIntDiv v 100 2)    -- FMT_FLOAT_XX_XX
  else if fmt = 12 then natsOfBytes (Dbl.fmtIntDiv v 10 1)    -- FMT_FLOAT_XXX_X
  else if fmt = 2 then natsOfBytes (Bytes.itoa v) ++ [37]     -- "%d%%"
  else if fmt = 3 then natsOfBytes (Bytes.itoa v) ++ [100, 66] -- "%ddB"
  else if fmt = 4 then natsOfBytes (Bytes.itoa v) ++ [102]    -- "%df"
  else if fmt = 6 then natsOfBytes (Bytes.itoa v) ++ [75]     -- "%dK"
  else if fmt = 7 then []                                      -- FMT_HIDE
  else natsOfBytes (Bytes.itoa v)

/-- the drawing operations the layout code emits (a sub-language of `Mono.Op`: no geometry setters) -/
inductive DOp where
  | hline (x y w : Int) (c : Bool)
  | rrect (x y w h r : Int) (c : Bool)
  | frrect (x y w h r : Int) (c : Bool)
  | bitmap (x y : Int) (bits : Array UInt8) (w h : Int) (c inverted drawAll : Bool)
  | text (t : TextSt) (s : List Nat)

def DOp.toOp : DOp → Op
  | .hline x y w c => .hline x y w c
  | .rrect x y w h r c => .rrect x y w h r c
  | .frrect x y w h r c => .frrect x y w h r c
  | .bitmap x y b w h c i a => .bitmap x y b w h c i a
  | .text t s => .text t s

/-- accumulated effect of the layout code: emitted operations + the text state it keeps in `disp` -/
structure Acc where
  ops : Array DOp := #[]
  t : TextSt := {}

def Acc.emit (a : Acc) (op : DOp) : Acc := { a with ops := a.ops.push op }
def Acc.font (a : Acc) (n : Int) (prop : Bool) : Acc := { a with t := setFont a.t n prop }
def Acc.size (a : Acc) (h v : Int) : Acc := { a with t := setTextSize a.t h v }
def Acc.color (a : Acc) (c : Bool) : Acc := { a with t := setTextColor a.t c }
def Acc.cursor (a : Acc) (x y : Int) : Acc := { a with t := setCursor a.t x y }
/-- `disp.RenderText(s)`: emits the text op with the current text state and advances the cursor as the renderer
does (the cursor never depends on the canvas contents; `wrap` is off so only the geometry of the bounding box would
matter, and it does not either) -/
def Acc.render (a : Acc) (g : Geom) (s : List Nat) : Acc :=
  let t' := (renderText ({ geo := g, bytes := #[] }, a.t) s).2
  { ops := a.ops.push (.text a.t s), t := t' }
def Acc.strWidth (a : Acc) (s : List Nat) : Int := Mono.strWidth a.t s
def Acc.lineHeight (a : Acc) : Int := Mono.lineHeight a.t

def qint (c : Bool) (a b : Int) : Int := if c then a else b
def shr1 (x : Int) : Int := x / 2     -- Go `>> 1` on int is an arithmetic shift = floor division (`Int./` is Euclidean)

/-- the scale bar section (lines 559-588), `a == 0` only -/
def scaleBar (acc : Acc) (inp : TileIn) (sc : Scale) (width activeWidth activeHeight : Int) : Acc :=
  let rangeDiff := i32 (sc.rh - sc.rl)
  if sc.stype > 0 ∧ rangeDiff ≠ 0 then
    let acc := acc.emit (.rrect 0 (activeHeight - 1) width 1 0 true)
    let theValue := inp.intVal
    let wOf (num : Int) : Int :=
      constrain (Dbl.trunc (Dbl.mulInt (Dbl.rn num rangeDiff) activeWidth)) 0 activeWidth
    let wBar := wOf (theValue - sc.rl)
    let acc := if sc.stype = 1 ∧ wBar > 0 then acc.emit (.frrect 0 (activeHeight - 3) wBar 3 0 true) else acc
    let acc := if sc.stype = 2 then
        acc.emit (.frrect (constrain (wBar - 1) 0 (activeWidth - 3)) (activeHeight - 3) 3 3 0 true) else acc
    let acc := if sc.stype = 3 then
        let bWidth := wBar - shr1 activeWidth
        let bX := qint (bWidth < 0) (constrain (shr1 activeWidth + bWidth) 0 activeWidth) (shr1 activeWidth)
        acc.emit (.frrect bX (activeHeight - 3) (constrain bWidth.natAbs 1 (shr1 activeWidth)) 3 0 true) else acc
    let acc := if sc.rh > sc.lh then
        let w := wOf (i32 (sc.lh - sc.rl))
        acc.emit (.frrect (constrain w 0 (activeWidth - 1)) (activeHeight - 4) 1 3 0 true) else acc
    let acc := if sc.rl < sc.ll then
        let w := wOf (i32 (sc.ll - sc.rl))
        acc.emit (.frrect (constrain w 0 (activeWidth - 1)) (activeHeight - 4) 1 3 0 true) else acc
    acc
  else acc

/-- one iteration `a` of the value/label loop (lines 447-589) -/
def contentIter (acc : Acc) (g : Geom) (inp : TileIn) (sc : Scale) (a : Int)
    (width height activeWidth activeHeight mainContentAvailableHeight mainContentMiddle
     fontTextSizeH fontTextSizeV : Int) : Acc :=
  let pair := inp.pair
  let intValue := if a = 0 then inp.intVal else inp.intVal2
  let outputString := valueString inp.fmt intValue
  let textLine := if a = 0 then inp.line1 else inp.line2
  let narrow (acc : Acc) : Acc :=
    acc.size (qint (fontTextSizeH > 0) fontTextSizeH 1)
      (qint (fontTextSizeV > 0) fontTextSizeV (qint (mainContentAvailableHeight ≥ 12) 2 0))
  -- label
  let acc :=
    if textLine.length > 0 then
      if pair > 0 then
        let xOffset := if outputString.length > 0 then 2
          else shr1 (constrain (activeWidth - acc.strWidth textLine) 0 activeWidth)
        let yOffset := mainContentMiddle + 1 + (a - 1) * (acc.lineHeight + 1)
        (acc.cursor xOffset yOffset).render g textLine
      else
        let acc := if activeWidth < acc.strWidth textLine then narrow acc else acc
        let xOffset := if outputString.length > 0 then 2
          else shr1 (constrain (activeWidth - acc.strWidth textLine) 0 activeWidth)
        let yOffset := mainContentMiddle + 1 - (u32 acc.lineHeight) / 2
        (acc.cursor xOffset yOffset).render g textLine
    else acc
  -- value
  let acc :=
    if outputString.length > 0 then
      if pair > 0 then
        let xOffset := if textLine.length > 0 then constrain (activeWidth - acc.strWidth outputString - 2) 0 activeWidth
          else shr1 (constrain (activeWidth - acc.strWidth outputString) 0 activeWidth)
        let yOffset := mainContentMiddle + 1 + (a - 1) * (u32 (acc.lineHeight + 1))
        let acc := (acc.cursor xOffset yOffset).render g outputString
        if inp.fmt = 5 then
          ((acc.size 1 1).cursor (constrain (xOffset - 10) 0 100) yOffset).render g (asciiBytes "1/")
        else acc
      else
        let acc := if activeWidth < acc.strWidth outputString then narrow acc else acc
        let xOffset := if textLine.length > 0 then constrain (activeWidth - acc.strWidth outputString - 2) 0 activeWidth
          else shr1 (constrain (activeWidth - acc.strWidth outputString) 0 activeWidth)
        let yOffset := mainContentMiddle + 1 - (u32 acc.lineHeight) / 2
        let acc := (acc.cursor xOffset yOffset).render g outputString
        if inp.fmt = 5 then
          ((acc.size 1 1).cursor (constrain (xOffset - 10) 0 100) (yOffset - 2)).render g (asciiBytes "1/")
        else acc
    else acc
  -- borders for pairs
  let acc :=
    if pair = a + 2 then
      acc.emit (.rrect 0 (mainContentMiddle - 1 + (a - 1) * (acc.lineHeight + 1)) activeWidth (acc.lineHeight + 3) 1 true)
    else if pair = 4 then
      if a = 0 then
        acc.emit (.rrect 0 (mainContentMiddle - 1 + (a - 1) * (acc.lineHeight + 1)) activeWidth (acc.lineHeight * 2 + 4) 1 true)
      else acc
    else acc
  -- scale
  if a = 0 then scaleBar acc inp sc width activeWidth activeHeight else acc

def iconBytes (k : Nat) : Array UInt8 := icons8by8.getD k #[]

/-- everything after `disp.NewImage` : colours are returned separately -/
def tileAcc (inp : TileIn) (width height shrink border : Int) : Acc :=
  let st : Styling := inp.styling.getD {}
  let tf : Font := st.textFont.getD {}
  let ttf : Font := st.titleFont.getD {}
  let sc : Scale := inp.scale.getD {}
  let wShrink := qint (shrink.emod 2 = 1) 1 0
  let hShrink := qint ((shrink.emod 4) / 2 = 1) 1 0
  let acc : Acc := {}
  let fontFaceContent := tf.face.emod 8
  let fontFaceTitle := ttf.face.emod 8
  let fontProportional := !st.fixedWidth
  let fontTextSizeH := tf.tw.emod 4
  let fontTextSizeV := tf.th.emod 4
  let titleTextSizeH := ttf.tw.emod 4
  let titleTextSizeV := ttf.th.emod 4
  let acc := { acc with t := { acc.t with spacing := (st.extraSp.emod 4).toNat, wrap := false } }
  let activeWidth := qint (border > 0) (width - border * 2) (width - wShrink)
  let activeHeight := qint (border > 0) (height - border * 2) (height - hShrink)
  let g : Geom := { W := width.toNat, H := height.toNat, wib := (width.toNat + 7) / 8,
                    bx := border, byy := border, bw := activeWidth, bh := activeHeight, inv := false }
  if inp.fmt = 10 then
    let acc := (acc.font fontFaceContent fontProportional).color true
    let textSizeH := constrain st.unfSize 1 4
    let acc := acc.size (qint (fontTextSizeH > 0) fontTextSizeH textSizeH) (qint (fontTextSizeV > 0) fontTextSizeV textSizeH)
    let xOffset := shr1 (constrain (activeWidth - acc.strWidth inp.title) 0 activeWidth)
    let yOffset := shr1 (activeHeight - acc.lineHeight)
    (acc.cursor xOffset yOffset).render g inp.title
  else if inp.fmt = 11 then
    let acc := (acc.font fontFaceContent fontProportional).color true
    let textSizeH := constrain st.unfSize 1 4
    let acc := acc.size (qint (fontTextSizeH > 0) fontTextSizeH textSizeH) (qint (fontTextSizeV > 0) fontTextSizeV textSizeH)
    let xOffset := shr1 (constrain (activeWidth - acc.strWidth inp.line1) 0 activeWidth)
    let yOffset := shr1 activeHeight - acc.lineHeight
    let acc := (acc.cursor xOffset yOffset).render g inp.line1
    let xOffset := shr1 (constrain (activeWidth - acc.strWidth inp.line2) 0 activeWidth)
    let yOffset := shr1 activeHeight
    (acc.cursor xOffset yOffset).render g inp.line2
  else
    let isTitle := inp.title.length > 0
    let mini := height < 32 ∧ width ≠ 256
    let titlePadding := qint (st.titlePad > 0) st.titlePad (qint mini 1 (qint (width = 256) 3 1))
    let acc := acc.font (qint mini 2 fontFaceTitle) fontProportional
    let acc := acc.size (qint (titleTextSizeH > 0) titleTextSizeH (qint (width = 256) 2 1)) (qint (titleTextSizeV > 0) titleTextSizeV 1)
    let titleHeight := u32 ((acc.lineHeight - 1) + 2 * u32 titlePadding)
    let acc :=
      if isTitle then
        let acc :=
          if !inp.solid then
            (acc.emit (.hline 1 (u32 (titleHeight - 1)) (activeWidth - 2) true)).color true
          else
            (acc.emit (.frrect 0 0 activeWidth titleHeight 1 true)).color false
        let xOffset := shr1 (constrain (activeWidth - acc.strWidth inp.title - qint (inp.stateIcon = 2) 6 0) 0 activeWidth)
        let yOffset := constrain (titlePadding - qint (!inp.solid) 1 0) 0 10
        let xOffset := if inp.solid ∧ xOffset = 0 then xOffset + 1 else xOffset
        (acc.cursor xOffset yOffset).render g inp.title
      else acc
    let acc := if inp.stateIcon = 1 then
        acc.emit (.bitmap (activeWidth - 7) titleHeight speedGraphic 5 2 true false false) else acc
    let acc := if inp.stateIcon = 2 then
        acc.emit (.bitmap (activeWidth - 8) (constrain ((u32 (titleHeight - 8)) / 2) (-1) 10) lockGraphic 8 8 true (!inp.solid) true) else acc
    let mainContentTopOffset := qint isTitle titleHeight 0
    let mainContentAvailableHeight := activeHeight - mainContentTopOffset - qint (sc.stype > 0) 3 0
    let mainContentMiddle := mainContentTopOffset + shr1 (mainContentAvailableHeight + 1)
    if mainContentAvailableHeight ≥ 8 then
      let acc := acc.font fontFaceContent fontProportional
      let pair := inp.pair
      let acc := acc.color true
      let acc := acc.size (qint (fontTextSizeH > 0) fontTextSizeH (qint (pair > 0) 1 2))
        (qint (fontTextSizeV > 0) fontTextSizeV (qint (height ≥ 48) 2 0))
      let acc := if height < 32 ∧ pair > 0 then acc.font 2 fontProportional else acc
      let acc := if mainContentAvailableHeight < 12 ∧ pair = 0 ∧ fontTextSizeH = 0 ∧ fontTextSizeV = 0 then acc.size 1 1 else acc
      let acc := contentIter acc g inp sc 0 width height activeWidth activeHeight mainContentAvailableHeight mainContentMiddle fontTextSizeH fontTextSizeV
      let acc := if pair > 0 then
          contentIter acc g inp sc 1 width height activeWidth activeHeight mainContentAvailableHeight mainContentMiddle fontTextSizeH fontTextSizeV
        else acc
      let acc := if inp.stateIcon = 3 then
          acc.emit (.bitmap (activeWidth - 8) (activeHeight - 8) noAccessGraphic 8 8 true true true) else acc
      if inp.modIcon ≥ 1 ∧ inp.modIcon ≤ 7 then
        acc.emit (.bitmap (activeWidth - 8) (qint isTitle (titleHeight + 1) 0) (iconBytes (inp.modIcon - 1).toNat) 8 8 true false true)
      else acc
    else acc

/-- active width / height (lines 354-355) -/
def activeWH (width height shrink border : Int) : Int × Int :=
  let wShrink := qint (shrink.emod 2 = 1) 1 0
  let hShrink := qint ((shrink.emod 4) / 2 = 1) 1 0
  (qint (border > 0) (width - border * 2) (width - wShrink), qint (border > 0) (height - border * 2) (height - hShrink))

/-- the layout operations after the bounding box was set (do not depend on `Inverted`) -/
def layoutOps (inp : TileIn) (width height shrink border : Int) : List Op :=
  (tileAcc inp width height shrink border).ops.toList.map DOp.toOp

/-- the whole operation list: black out the tile, set the bounding box, lay out -/
def tileOps (inp : TileIn) (width height shrink border : Int) : List Op :=
  let (aw, ah) := activeWH width height shrink border
  .frect 0 0 width height false :: .bbox border border aw ah :: layoutOps inp width height shrink border

/-- the rendered canvas: `NewImage`, `InvertPixels(inverted)`, then the operations -/
def renderTile (inp : TileIn) (inverted : Bool) (width height : Nat) (shrink border : Int) : Canvas :=
  (tileOps inp width height shrink border).foldl applyOp (invertPixels (newCanvas width height) inverted)

/-- `OLEDPixelColor`, `OLEDBckgColor` of the returned image -/
def tileColours (inp : TileIn) : Int × Int :=
  ((match inp.pix with | some c => color565 (color6 c) | none => 65535),
   (match inp.bg with | some c => color565 (color6 c) | none => 0))

/-! ## the argument after the call (lines 308-319: absent sub-messages of `*textStruct` are replaced by empty ones) -/

def Styling.fill (st : Styling) : Styling :=
  { st with textFont := some (st.textFont.getD {}), titleFont := some (st.titleFont.getD {}) }

/-- `*textStruct` after `WriteDisplayTileNew` returned -/
def fillNil (inp : TileIn) : TileIn :=
  { inp with styling := some ((inp.styling.getD {}).fill), scale := some (inp.scale.getD {}) }

end RawPanelVerif.Tile
