import RawPanelVerif.Model.EncOut
/-!
# Model of `RawPanelASCIIstringsToOutboundMessages` (converterFunctions.go) and `TrimExplode` (rawpanelhelpers.go)

The four regular expressions are hand-written byte matchers with Go `regexp` semantics (leftmost-first
alternation, greedy repetition with backtracking, `.` = one UTF-8 encoded rune or one invalid byte, never LF,
`$` = end of text).  Each matcher returns the sub-match record; `subs` is the slice `FindStringSubmatch` returns, and
`decLineE` indexes that slice with `idx` (which fails out of range, like Go) so that "no index panic" is a theorem
(`Lemmas/TotalOut`).  `decLine` is the same function without the indexing detour.

`Variant` selects the event-kind alternation of `regex_cmd_inbound` and the regex indexed by `case "Raw"`:
`repaired` is the code after the `fix:` for C04 (kinds include `Raw`, the case indexes `regex_cmd_inbound`), `pinned`
the code before it.
-/
namespace RawPanelVerif.DecOut
open RawPanelVerif RawPanelVerif.Bytes RawPanelVerif.MsgOut RawPanelVerif.EncOut

/-! ## small helpers -/

def stripPrefix : Bytes → Bytes → Option Bytes
  | [], s => some s
  | _ :: _, [] => none
  | p :: ps, c :: cs => if p = c then stripPrefix ps cs else none

/-- longest prefix satisfying `p`, and the rest -/
def spanP (p : UInt8 → Bool) : Bytes → Bytes × Bytes
  | [] => ([], [])
  | c :: cs => if p c then ((c :: (spanP p cs).1), (spanP p cs).2) else ([], c :: cs)

def isDashDigit (b : UInt8) : Bool := b = 45 || isDigit b
def isUpperDigit (b : UInt8) : Bool := (65 ≤ b && b ≤ 90) || isDigit b
def isDigitComma (b : UInt8) : Bool := b = 44 || isDigit b

/-- `uint32(x)` of a Go `int` -/
def u32 (x : Int) : Nat := (x % 4294967296).toNat
/-- `int32(x)` of a Go `int` -/
def i32 (x : Int) : Int := let r := x % 4294967296; if r ≥ 2147483648 then r - 4294967296 else r

/-- `su.Intval` -/
def intval (s : Bytes) : Int := atoiV s

/-! ## UTF-8: width of the rune Go's `utf8.DecodeRune` reads at the head of `s` (1 for an invalid byte) -/
def isCont (b : UInt8) : Bool := 0x80 ≤ b && b ≤ 0xBF

def runeLen : Bytes → Nat
  | [] => 0
  | b0 :: rest =>
    if b0 < 0x80 then 1
    else if 0xC2 ≤ b0 && b0 ≤ 0xDF then
      match rest with
      | b1 :: _ => if isCont b1 then 2 else 1
      | _ => 1
    else if 0xE0 ≤ b0 && b0 ≤ 0xEF then
      match rest with
      | b1 :: b2 :: _ =>
        let lo : UInt8 := if b0 = 0xE0 then 0xA0 else 0x80
        let hi : UInt8 := if b0 = 0xED then 0x9F else 0xBF
        if lo ≤ b1 && b1 ≤ hi && isCont b2 then 3 else 1
      | _ => 1
    else if 0xF0 ≤ b0 && b0 ≤ 0xF4 then
      match rest with
      | b1 :: b2 :: b3 :: _ =>
        let lo : UInt8 := if b0 = 0xF0 then 0x90 else 0x80
        let hi : UInt8 := if b0 = 0xF4 then 0x8F else 0xBF
        if lo ≤ b1 && b1 ≤ hi && isCont b2 && isCont b3 then 4 else 1
      | _ => 1
    else 1

/-- regexp `.`: one rune that is not LF -/
def takeDot (s : Bytes) : Option (Bytes × Bytes) :=
  match s with
  | [] => none
  | 10 :: _ => none
  | _ => some (s.take (runeLen s), s.drop (runeLen s))

/-! ## `regex_cmd_inbound` = `^HWC#([0-9]+)(|.([0-9]+))=(K1|K2|…)(|:([-0-9]+))$` -/

structure CmdM where
  id : Bytes
  g2 : Bytes
  edge : Bytes
  kind : Bytes
  g5 : Bytes
  val : Bytes
  deriving DecidableEq, Repr

def CmdM.subs (whole : Bytes) (m : CmdM) : List Bytes := [whole, m.id, m.g2, m.edge, m.kind, m.g5, m.val]

/-- `(|:([-0-9]+))$` after kind `k` -/
def tailValue (k r : Bytes) : Option (Bytes × Bytes × Bytes) :=
  match r with
  | [] => some (k, [], [])
  | 58 :: v => if v ≠ [] ∧ v.all isDashDigit then some (k, r, v) else none
  | _ => none

/-- `(K1|K2|…)(|:([-0-9]+))$` -/
def matchTail (kinds : List Bytes) (t : Bytes) : Option (Bytes × Bytes × Bytes) :=
  kinds.findSome? (fun k => match stripPrefix k t with | some r => tailValue k r | none => none)

def kindsRepaired : List Bytes := [asc "Down", asc "Up", asc "Press", asc "Abs", asc "Speed", asc "Enc", asc "Raw"]
def kindsPinned : List Bytes := [asc "Down", asc "Up", asc "Press", asc "Abs", asc "Speed", asc "Enc"]

/-- after `HWC#` and the (maximal) digit run `d`: first the empty alternative of group 2, then `.([0-9]+)`.
(A shorter group 1 can only succeed if the empty alternative with the full run succeeds, which is tried first.) -/
def matchCmd (kinds : List Bytes) (s : Bytes) : Option CmdM :=
  match stripPrefix kHWC s with
  | none => none
  | some r0 =>
    let d := (spanP isDigit r0).1
    let r := (spanP isDigit r0).2
    if d = [] then none
    else
      match (match r with | 61 :: t => matchTail kinds t | _ => none) with
      | some (k, g5, v) => some ⟨d, [], [], k, g5, v⟩
      | none =>
        match takeDot r with
        | none => none
        | some (ru, r1) =>
          let e := (spanP isDigit r1).1
          let r2 := (spanP isDigit r1).2
          if e = [] then none
          else match r2 with
            | 61 :: t =>
              match matchTail kinds t with
              | some (k, g5, v) => some ⟨d, ru ++ e, e, k, g5, v⟩
              | none => none
            | _ => none

/-! ## `regex_map` = `^map=([0-9]+):([0-9]+)$` -/
def matchMap (s : Bytes) : Option (Bytes × Bytes) :=
  match stripPrefix kMap s with
  | none => none
  | some r0 =>
    let a := (spanP isDigit r0).1
    match (spanP isDigit r0).2 with
    | 58 :: r1 =>
      if a ≠ [] ∧ r1 ≠ [] ∧ r1.all isDigit then some (a, r1) else none
    | _ => none

/-! ## `regex_genericSingle_inbound` = `^(key1|key2|…)=(.+)$` -/
def genericKeys : List Bytes :=
  [asc "_model", asc "_serial", asc "_version", asc "_platform", asc "_bluePillReady", asc "_name", asc "_panelType",
   asc "_support", asc "_isSleeping", asc "_sleepTimer", asc "_panelTopology_svgbase", asc "_panelTopology_HWC",
   asc "_burninProfile", asc "_networkConfig", asc "_calibrationProfile", asc "_defaultCalibrationProfile",
   asc "_serverModeLockToIP", asc "_serverModeMaxClients", asc "_heartBeatTimer", asc "DimmedGain", asc "_connections",
   asc "_bootsCount", asc "_totalUptimeMin", asc "_sessionUptimeMin", asc "_screenSaverOnMin", asc "ErrorMsg", asc "Msg",
   asc "EnvironmentalHealth", asc "SysStat"]

def matchGeneric (s : Bytes) : Option (Bytes × Bytes) :=
  genericKeys.findSome? (fun k =>
    match stripPrefix k s with
    | some (61 :: v) => if v ≠ [] ∧ ¬ (10 : UInt8) ∈ v then some (k, v) else none
    | _ => none)

/-! ## `regex_registersOut` = `^(Flag#|Mem|Shift|State)([A-Z0-9]*)=([0-9]+)$` -/
def regWords : List Bytes := [asc "Flag#", asc "Mem", asc "Shift", asc "State"]

/-- one alternative `w` of the prefix group, then `([A-Z0-9]*)=([0-9]+)$` -/
def matchRegWord (w s : Bytes) : Option (Bytes × Bytes × Bytes) :=
  match stripPrefix w s with
  | none => none
  | some r0 =>
    let i := (spanP isUpperDigit r0).1
    match (spanP isUpperDigit r0).2 with
    | 61 :: v => if v ≠ [] ∧ v.all isDigit then some (w, i, v) else none
    | _ => none

def matchReg (s : Bytes) : Option (Bytes × Bytes × Bytes) := regWords.findSome? (fun w => matchRegWord w s)

/-! ## the inbound `regex_cmd` = `^(HWC#|HWCx#|HWCc#|HWCt#|HWCrawADCValues#)([0-9,]+)=(.*)$` (indexed by the pinned `case "Raw"`) -/
def cmdWords : List Bytes := [asc "HWC#", asc "HWCx#", asc "HWCc#", asc "HWCt#", asc "HWCrawADCValues#"]

def matchInboundCmd (s : Bytes) : Option (List Bytes) :=
  cmdWords.findSome? (fun w =>
    match stripPrefix w s with
    | none => none
    | some r0 =>
      let i := (spanP isDigitComma r0).1
      match (spanP isDigitComma r0).2 with
      | 61 :: v => if i ≠ [] ∧ ¬ (10 : UInt8) ∈ v then some [s, w, i, v] else none
      | _ => none)

/-! ## `TrimExplode(str, ";")` -/
def trimExplode (sep : UInt8) (s : Bytes) : List Bytes :=
  ((splitOn sep s).map trimSpace).filter (fun v => v ≠ [])

/-! ## decoding -/

structure Variant where
  kinds : List Bytes
  rawViaCmdRegex : Bool

def repaired : Variant := ⟨kindsRepaired, false⟩
def pinned : Variant := ⟨kindsPinned, true⟩

def capOfName (n : Bytes) : Option Cap :=
  if n = asc "ASCII" then some .ascii
  else if n = asc "Binary" then some .binary
  else if n = asc "JSONFeedback" then some .jsonFeedback
  else if n = asc "JSONonInbound" then some .jsonInbound
  else if n = asc "JSONonOutbound" then some .jsonOutbound
  else if n = asc "System" then some .system
  else if n = asc "RawADCValues" then some .rawADCValues
  else if n = asc "BurninProfile" then some .burninProfile
  else if n = asc "EnvHealth" then some .envHealth
  else if n = asc "Registers" then some .registers
  else if n = asc "Calibration" then some .calibration
  else if n = asc "Processors" then some .processors
  else if n = asc "NetworkSettings" then some .networkSettings
  else none

/-- the `for _, part := range parts { switch part {…} }` loop -/
def supportStep (s : Support) (part : Bytes) : Support :=
  match capOfName part with | some c => s.set c | none => s

def supportOfParts (parts : List Bytes) : Support := parts.foldl supportStep {}

def eq1 (v : Bytes) : Bool := intval v == 1

/-- one step of the SysStat scan: `switch parts[a] { case …: field = f(parts[a+1]) }` -/
def sysAssign (o : OutOracle) (k v : Bytes) (st : SysStat) : SysStat :=
  if k = asc "CPUUsage" then { st with cpuUsage := u32 (intval v) }
  else if k = asc "CPUTemp" then { st with cpuTemp := o.parseF v }
  else if k = asc "ExtTemp" then { st with extTemp := o.parseF v }
  else if k = asc "CPUVoltage" then { st with cpuVoltage := o.parseF v }
  else if k = asc "CPUFreqCurrent" then { st with cpuFreqCurrent := i32 (intval v) }
  else if k = asc "CPUFreqMin" then { st with cpuFreqMin := i32 (intval v) }
  else if k = asc "CPUFreqMax" then { st with cpuFreqMax := i32 (intval v) }
  else if k = asc "MemTotal" then { st with memTotal := i32 (intval v) }
  else if k = asc "MemFree" then { st with memFree := i32 (intval v) }
  else if k = asc "MemAvailable" then { st with memAvailable := i32 (intval v) }
  else if k = asc "MemBuffers" then { st with memBuffers := i32 (intval v) }
  else if k = asc "MemCached" then { st with memCached := i32 (intval v) }
  else if k = asc "UnderVoltageNow" then { st with underVoltageNow := eq1 v }
  else if k = asc "UnderVoltage" then { st with underVoltage := eq1 v }
  else if k = asc "FreqCapNow" then { st with freqCapNow := eq1 v }
  else if k = asc "FreqCap" then { st with freqCap := eq1 v }
  else if k = asc "ThrottledNow" then { st with throttledNow := eq1 v }
  else if k = asc "Throttled" then { st with throttled := eq1 v }
  else if k = asc "SoftTempLimitNow" then { st with softTempLimitNow := eq1 v }
  else if k = asc "SoftTempLimit" then { st with softTempLimit := eq1 v }
  else st

/-- `for a := 0; a+1 < len(parts); a++` — the window slides by ONE (as written) -/
def sysScan (o : OutOracle) : List Bytes → SysStat → SysStat
  | k :: v :: rest, st => sysScan o (v :: rest) (sysAssign o k v st)
  | _, st => st

def panelTypeOfWord (w : Bytes) : Option Int :=
  if w = asc "BPI" then some 1 else if w = asc "Physical" then some 2 else if w = asc "Emulation" then some 3
  else if w = asc "Touch" then some 4 else if w = asc "Composite" then some 5 else none

def envOfWord (w : Bytes) : Option Int :=
  if w = asc "Normal" then some 0 else if w = asc "Safemode" then some 1 else if w = asc "Blocked" then some 2 else none

def piMsg (p : PanelInfo) : OutMsg := { panelInfo := some p }

/-- the `switch eventType` of the key=value family; `none` = `msg` stays nil -/
def decGeneric (o : OutOracle) (key v : Bytes) : Option OutMsg :=
  if key = asc "_model" then some (piMsg { model := v })
  else if key = asc "_serial" then some (piMsg { serial := v })
  else if key = asc "_version" then some (piMsg { softwareVersion := v })
  else if key = asc "_platform" then some (piMsg { platform := v })
  else if key = asc "_bluePillReady" then some (piMsg { bluePillReady := intval v != 0 })
  else if key = asc "_panelType" then (panelTypeOfWord v).map (fun t => piMsg { panelType := t })
  else if key = asc "_support" then some (piMsg { support := some (supportOfParts (splitOn 44 v)) })
  else if key = asc "_name" then some (piMsg { name := v })
  else if key = asc "_isSleeping" then some { sleepState := some (intval v != 0) }
  else if key = asc "_sleepTimer" then some { sleepTimeout := some (u32 (intval v)) }
  else if key = asc "_panelTopology_svgbase" then some { topology := some { svgbase := v } }
  else if key = asc "_panelTopology_HWC" then some { topology := some { json := v } }
  else if key = asc "_burninProfile" then some { burnin := some v }
  else if key = asc "_networkConfig" then some { netConfig := o.netOfJson v }
  else if key = asc "_calibrationProfile" then some { calibration := some v }
  else if key = asc "_defaultCalibrationProfile" then some { defaultCalibration := some v }
  else if key = asc "_serverModeLockToIP" then some (piMsg { lockedToIPs := trimExplode 59 v })
  else if key = asc "_serverModeMaxClients" then some (piMsg { maxClients := u32 (intval v) })
  else if key = asc "_heartBeatTimer" then some { heartBeat := some (u32 (intval v)) }
  else if key = asc "DimmedGain" then some { dimmedGain := some (u32 (intval v)) }
  else if key = asc "_connections" then some { connections := some (trimExplode 59 v) }
  else if key = asc "_bootsCount" then some { runTimeStats := some { bootsCount := u32 (intval v) } }
  else if key = asc "_totalUptimeMin" then some { runTimeStats := some { totalUptime := u32 (intval v) } }
  else if key = asc "_sessionUptimeMin" then some { runTimeStats := some { sessionUptime := u32 (intval v) } }
  else if key = asc "_screenSaverOnMin" then some { runTimeStats := some { screenSaveOnTime := u32 (intval v) } }
  else if key = asc "ErrorMsg" then some { errorMsg := some v }
  else if key = asc "Msg" then some { message := some v }
  else if key = asc "EnvironmentalHealth" then (envOfWord v).map (fun m => { envHealth := some m })
  else if key = asc "SysStat" then some { sysStat := some (sysScan o (splitOn 58 v) {}) }
  else none

def binEv (id : Nat) (pressed : Bool) (edge : Int) : Event := { hwcid := id, binary := some ⟨pressed, edge⟩ }

/-- `switch eventType` of the event family, given the sub-matches actually used -/
def decEvent (id edge kind val : Bytes) : Option OutMsg :=
  let hid := u32 (intval id)
  if kind = asc "Down" ∨ kind = asc "Up" then
    some { events := [binEv hid (kind == asc "Down") (i32 (intval edge))] }
  else if kind = asc "Press" then
    some { events := [binEv hid true (i32 (intval edge)), binEv hid false (i32 (intval edge))] }
  else if kind = asc "Enc" then some { events := [{ hwcid := hid, pulsed := some (i32 (intval val)) }] }
  else if kind = asc "Abs" then some { events := [{ hwcid := hid, absolute := some (u32 (intval val)) }] }
  else if kind = asc "Speed" then some { events := [{ hwcid := hid, speed := some (i32 (intval val)) }] }
  else if kind = asc "Raw" then some { events := [{ hwcid := hid, rawAnalog := some (u32 (intval val)) }] }
  else none

def decReg (w i v : Bytes) : Option OutMsg :=
  if w = asc "Mem" then some { registers := [⟨0, i, u32 (intval v)⟩] }
  else if w = asc "Flag#" then some { registers := [⟨1, itoa (intval i), if intval v > 0 then 1 else 0⟩] }
  else if w = asc "Shift" then some { registers := [⟨2, i, u32 (intval v)⟩] }
  else if w = asc "State" then some { registers := [⟨3, i, u32 (intval v)⟩] }
  else none

def flowOfWord (s : Bytes) : Option Int :=
  if s = asc "ping" then some 1 else if s = asc "ack" then some 2 else if s = asc "nack" then some 3
  else if s = asc "BSY" then some 4 else if s = asc "RDY" then some 5 else if s = asc "list" then some 100 else none

/-- one input string; `none` = `msg` stays nil (nothing appended) -/
def decLine (V : Variant) (o : OutOracle) (s : Bytes) : Option OutMsg :=
  if s = [] then none
  else match flowOfWord s with
  | some f => some { flow := f }
  | none =>
    match matchCmd V.kinds s with
    | some m => decEvent m.id m.edge m.kind m.val
    | none =>
      match matchMap s with
      | some (k, v) => some { avail := [(u32 (intval k), u32 (intval v))] }
      | none =>
        match matchGeneric s with
        | some (key, v) => decGeneric o key v
        | none =>
          match matchReg s with
          | some (w, i, v) => decReg w i v
          | none => some {}

/-- `RawPanelASCIIstringsToOutboundMessages` (nil messages are not appended) -/
def decOutV (V : Variant) (o : OutOracle) (ls : List Bytes) : List OutMsg := ls.filterMap (decLine V o)

def decOut (o : OutOracle) (ls : List Bytes) : List OutMsg := decOutV repaired o ls

/-! ## the same function with the slice indexing explicit -/

/-- `xs[i]` -/
def idx (xs : List Bytes) (i : Nat) : Except Panic Bytes :=
  match xs[i]? with | some x => .ok x | none => .error .index

/-- SysStat loop with explicit indices `parts[a]`, `parts[a+1]` under the guard `a+1 < len(parts)` -/
def sysLoopE (o : OutOracle) (parts : List Bytes) : (fuel : Nat) → (a : Nat) → SysStat → Except Panic SysStat
  | 0, _, st => .ok st
  | fuel + 1, a, st =>
    if a + 1 < parts.length then do
      let v ← idx parts (a + 1)
      let k ← idx parts a
      sysLoopE o parts fuel (a + 1) (sysAssign o k v st)
    else .ok st

def decGenericE (o : OutOracle) (key v : Bytes) : Except Panic (Option OutMsg) :=
  if key = asc "SysStat" then do
    let parts := splitOn 58 v
    let st ← sysLoopE o parts parts.length 0 {}
    .ok (some { sysStat := some st })
  else .ok (decGeneric o key v)

def decEventE (V : Variant) (s : Bytes) (subs : List Bytes) : Except Panic (Option OutMsg) := do
  let id ← idx subs 1
  let kind ← idx subs 4
  let hid := u32 (intval id)
  if kind = asc "Down" ∨ kind = asc "Up" then do
    let edge ← idx subs 3
    .ok (some { events := [binEv hid (kind == asc "Down") (i32 (intval edge))] })
  else if kind = asc "Press" then do
    let edge ← idx subs 3
    .ok (some { events := [binEv hid true (i32 (intval edge)), binEv hid false (i32 (intval edge))] })
  else if kind = asc "Enc" then do
    let val ← idx subs 6
    .ok (some { events := [{ hwcid := hid, pulsed := some (i32 (intval val)) }] })
  else if kind = asc "Abs" then do
    let val ← idx subs 6
    .ok (some { events := [{ hwcid := hid, absolute := some (u32 (intval val)) }] })
  else if kind = asc "Speed" then do
    let val ← idx subs 6
    .ok (some { events := [{ hwcid := hid, speed := some (i32 (intval val)) }] })
  else if kind = asc "Raw" then do
    -- pinned: `regex_cmd.FindStringSubmatch(inputString)[6]` (a 4-group regex, or nil)
    let val ← if V.rawViaCmdRegex then idx ((matchInboundCmd s).getD []) 6 else idx subs 6
    .ok (some { events := [{ hwcid := hid, rawAnalog := some (u32 (intval val)) }] })
  else .ok none

def decLineE (V : Variant) (o : OutOracle) (s : Bytes) : Except Panic (Option OutMsg) :=
  if s = [] then .ok none
  else match flowOfWord s with
  | some f => .ok (some { flow := f })
  | none =>
    match (matchCmd V.kinds s).map (CmdM.subs s) with
    | some subs => decEventE V s subs
    | none =>
      match (matchMap s).map (fun kv => [s, kv.1, kv.2]) with
      | some subs => do
        let k ← idx subs 1
        let v ← idx subs 2
        .ok (some { avail := [(u32 (intval k), u32 (intval v))] })
      | none =>
        match (matchGeneric s).map (fun kv => [s, kv.1, kv.2]) with
        | some subs => do
          let key ← idx subs 1
          let v ← idx subs 2
          decGenericE o key v
        | none =>
          match (matchReg s).map (fun t => [s, t.1, t.2.1, t.2.2]) with
          | some subs => do
            let w ← idx subs 1
            let i ← idx subs 2
            let v ← idx subs 3
            .ok (decReg w i v)
          | none => .ok (some {})

/-- the whole function: a list of possibly-nil messages is never built — nil results are skipped — so the returned
list has no nil element by construction of the `if msg != nil` guard; that guard is `filterMap` here -/
def decOutE (V : Variant) (o : OutOracle) (ls : List Bytes) : Except Panic (List OutMsg) := do
  let rs ← ls.mapM (decLineE V o)
  .ok (rs.filterMap id)

end RawPanelVerif.DecOut
