import RawPanelVerif.Model.Mono
/-!
# Model of the pixel-format conversions (C17)

`ibeam_lib_monogfx/monogfx.go` 65-122 (`CreateFromImage`, `CreateFromBytes`, `ConvertToImage`), 150-233
(`GetImgSliceRGB`, `GetImgSliceGray`, `RGB16BitToGray`, `SetOLEDBckgColor`, `SetOLEDPixelColor`) and
`rawpanelhelpers.go` 742-905 (`CreateImgObjectFromRGBBytes`, `CreateImgObjectFromGrayBytes`,
`ConvertGfxStateToPngBytes`, `RwpImgToImage`).

Executable, core-only, one definition per Go function, same loop structure and the same index guards.
**Every slice access is `a[i]?` / `wr a i v` in the `Option` monad: `none` is Go's index-out-of-range panic.**
Nothing is totalised away with `getD`: that no function returns `none` is the theorem `C17.short_data_no_panic`.
The mono bitmap is the `Canvas` of `Model/Mono.lean`.  `image.RGBA` is the trusted `Img` below (`Set` ignores points
outside the rectangle, `At` returns the zero colour there); the PNG codec is trusted to be the identity on pixels
and to refuse images without pixels (`pngCodec`).
-/
namespace RawPanelVerif.Pix
open RawPanelVerif.Mono

abbrev Byte := BitVec 8
/-- 8-bit R,G,B,A -/
abbrev RGBA := Nat × Nat × Nat × Nat

/-! ## loops whose body may panic -/

def loopFrom {σ : Type} (f : σ → Nat → Option σ) : Nat → Nat → σ → Option σ
  | 0, _, s => some s
  | k + 1, i, s =>
    match f s i with
    | none => none
    | some s' => loopFrom f k (i + 1) s'

/-- `for i := 0; i < n; i++ { s = f s i }`; `none` as soon as an iteration panics -/
def forN {σ : Type} (n : Nat) (f : σ → Nat → Option σ) (s : σ) : Option σ := loopFrom f n 0 s

/-- `for r := 0; r < H; r++ { for k := 0; k < W; k++ { s = body s r k } }` -/
def raster {σ : Type} (H W : Nat) (body : σ → Nat → Nat → Option σ) (s : σ) : Option σ :=
  forN H (fun s r => forN W (fun s k => body s r k) s) s

/-- `a[i] = v` on a Go slice -/
def wr {α : Type} (a : Array α) (i : Nat) (v : α) : Option (Array α) :=
  if h : i < a.size then some (a.set i v h) else none

/-- `b & (1 << s) > 0` on bytes (`1 << s` is 0 for `s ≥ 8`) -/
def bitSet (b : Byte) (s : Nat) : Bool := (b &&& (1#8 <<< s)) != 0#8

/-- `su.MapValue` (Go `/` truncates toward zero) -/
def mapValue (x inMin inMax outMin outMax : Int) : Int :=
  ((x - inMin) * (outMax - outMin)).tdiv (inMax - inMin) + outMin

/-- Go `uint8(v)` -/
def u8 (v : Int) : Nat := (v % 256).toNat

/-! ## `image.RGBA` (trusted) -/

structure Img where
  w : Nat
  h : Nat
  px : Array RGBA
deriving DecidableEq, Repr

def Img.WF (i : Img) : Prop := i.px.size = i.w * i.h

/-- `image.NewRGBA(image.Rect(0,0,w,h))`: all pixels the zero colour -/
def Img.new (w h : Nat) : Img := { w := w, h := h, px := Array.replicate (w * h) (0, 0, 0, 0) }

/-- `NewRGBA` followed by `draw.Draw(img, img.Bounds(), &image.Uniform{c}, image.ZP, draw.Src)` -/
def Img.fill (w h : Nat) (c : RGBA) : Img := { w := w, h := h, px := Array.replicate (w * h) c }

/-- `(*image.RGBA).Set`: points outside the rectangle are ignored -/
def Img.setPx (i : Img) (x y : Int) (c : RGBA) : Img :=
  if 0 ≤ x ∧ x < i.w ∧ 0 ≤ y ∧ y < i.h then
    { i with px := i.px.setIfInBounds (y.toNat * i.w + x.toNat) c }
  else i

/-- `(*image.RGBA).At`: the zero colour outside the rectangle -/
def Img.at (i : Img) (x y : Int) : RGBA :=
  if 0 ≤ x ∧ x < i.w ∧ 0 ≤ y ∧ y < i.h then i.px.getD (y.toNat * i.w + x.toNat) (0, 0, 0, 0) else (0, 0, 0, 0)

def black : RGBA := (0, 0, 0, 255)
def white : RGBA := (255, 255, 255, 255)

/-- `png.Decode(png.Encode(img))` (trusted): identity on the pixels; the encoder refuses images without pixels -/
def pngCodec (i : Img) : Option Img := if i.w = 0 ∨ i.h = 0 then none else some i

/-! ## 6-bit colours, luma -/

/-- `SetOLEDBckgColor` / `SetOLEDPixelColor` (identical bodies): `xxrrggbb` → `bbbbbggg gggrrrrr` -/
def color565 (color : Nat) : Nat :=
  let r := (mapValue (((color >>> 4) &&& 0b11 : Nat) : Int) 0 3 0 31).toNat
  let g := (mapValue (((color >>> 2) &&& 0b11 : Nat) : Int) 0 3 0 63).toNat
  let b := (mapValue (((color >>> 0) &&& 0b11 : Nat) : Int) 0 3 0 31).toNat
  ((((b &&& 0b11111) <<< 11) ||| ((g &&& 0b111111) <<< 5)) ||| (r &&& 0b11111)) % 65536

/-- `RGB16BitToGray` (the three products are `uint16`, the sum `uint32`) -/
def rgb16ToGray (color : Nat) : Byte :=
  let colR := ((color &&& 0b11111) * 2114) % 65536
  let colG := (((color >>> 5) &&& 0b111111) * 1040) % 65536
  let colB := (((color >>> 11) &&& 0b11111) * 2114) % 65536
  let pixelColor := (((19595 * colR + 38470 * colG + 7471 * colB + (1 <<< 15)) % 4294967296) >>> 16) &&& 0xFFFF
  BitVec.ofNat 8 (pixelColor >>> 8)

/-! ## exports of the mono bitmap -/

/-- body of the column loop of `GetImgSliceRGB`; state = (output, pointer) -/
def rgbBody (c : Canvas) (pMSB pLSB bMSB bLSB : Byte) (st : Array Byte × Nat) (row col : Nat) : Option (Array Byte × Nat) :=
  match c.bytes[row * c.geo.wib + col / 8]? with
  | none => none
  | some b =>
    let hi := if bitSet b (7 - col % 8) then pMSB else bMSB
    let lo := if bitSet b (7 - col % 8) then pLSB else bLSB
    match wr st.1 st.2 hi with
    | none => none
    | some o1 =>
      match wr o1 (st.2 + 1) lo with
      | none => none
      | some o2 => some (o2, st.2 + 2)

/-- `GetImgSliceRGB` -/
def sliceRGB (c : Canvas) (pcol bcol : Nat) : Option (Array Byte) :=
  let pMSB : Byte := BitVec.ofNat 8 (pcol >>> 8)
  let pLSB : Byte := BitVec.ofNat 8 (pcol &&& 0xFF)
  let bMSB : Byte := BitVec.ofNat 8 (bcol >>> 8)
  let bLSB : Byte := BitVec.ofNat 8 (bcol &&& 0xFF)
  let out0 : Array Byte := Array.replicate (c.geo.W * c.geo.H * 2) 0#8
  (raster c.geo.H c.geo.W (rgbBody c pMSB pLSB bMSB bLSB) (out0, 0)).map (·.1)

/-- one row of `GetImgSliceGray`: the column loop with its inner `columns++`; state = (pointer, output) -/
def grayRow (c : Canvas) (gp gb : Byte) (row : Nat) (col ptr : Nat) (out : Array Byte) : Option (Nat × Array Byte) :=
  if col < c.geo.W then
    if hp : ptr < out.size then           -- "Image must/should have even number width"
      match c.bytes[row * c.geo.wib + col / 8]? with
      | none => none
      | some b1 =>
        let hiV : Byte := (if bitSet b1 (7 - col % 8) then gp else gb) &&& 0xF0#8
        -- columns++
        match c.bytes[row * c.geo.wib + (col + 1) / 8]? with
        | none => none
        | some b2 =>
          -- `Gray16Image[pointer] |= …` reads the value just stored
          let v : Byte := hiV ||| (((if bitSet b2 (7 - (col + 1) % 8) then gp else gb) >>> 4) &&& 0x0F#8)
          grayRow c gp gb row (col + 2) (ptr + 1) (out.set ptr v hp)
    else grayRow c gp gb row (col + 1) ptr out
  else some (ptr, out)
termination_by c.geo.W - col

/-- `GetImgSliceGray` -/
def sliceGray (c : Canvas) (pcol bcol : Nat) : Option (Array Byte) :=
  let out0 : Array Byte := Array.replicate (c.geo.W * c.geo.H / 2) 0#8
  (forN c.geo.H (fun (st : Nat × Array Byte) row =>
      grayRow c (rgb16ToGray pcol) (rgb16ToGray bcol) row 0 st.1 st.2) (0, out0)).map (·.2)

/-! ## mono bitmap ↔ image object -/

/-- `copy(dst, src)` -/
def copyInto {α : Type} (dst src : Array α) : Array α :=
  Array.ofFn (n := dst.size) (fun i => if h : i.val < src.size then src[i.val] else dst[i])

/-- `CreateFromBytes` with the repair (the bytes that exist are copied before the error is returned);
second component: an error was returned -/
def createFromBytes (w h : Nat) (bytes : Array Byte) : Canvas × Bool :=
  let c := newCanvas w h
  if c.geo.wib * h > bytes.size then ({ c with bytes := copyInto c.bytes bytes }, true)
  else ({ c with bytes := bytes }, false)

/-- `CreateFromBytes` as in the pinned tree: on short data the zeroed buffer of `NewImage` stays -/
def createFromBytesPinned (w h : Nat) (bytes : Array Byte) : Canvas × Bool :=
  let c := newCanvas w h
  if c.geo.wib * h > bytes.size then (c, true)
  else ({ c with bytes := bytes }, false)

/-- the 8-pixel loop of `ConvertToImage` for byte `b` at byte column `col` of row `row` -/
def toImageByte (b : Byte) (invert : Bool) (row col : Nat) (dest : Img) : Option Img :=
  forN 8 (fun (dest : Img) p =>
    some (dest.setPx ((col <<< 3 : Nat) + p : Nat) row
      (if (bitSet b ((7 - p) &&& 0xFF)) != invert then black else white))) dest

/-- body of the byte-column loop of `ConvertToImage`; state = (image, running byte index `i`) -/
def toImageBody (c : Canvas) (invert : Bool) (st : Img × Nat) (row col : Nat) : Option (Img × Nat) :=
  match c.bytes[st.2]? with
  | none => none
  | some b => (toImageByte b invert row col st.1).map (fun d => (d, st.2 + 1))

/-- `ConvertToImage(invert)` -/
def toImage (c : Canvas) (invert : Bool) : Option Img :=
  (raster c.geo.H c.geo.wib (toImageBody c invert) (Img.new c.geo.W c.geo.H, 0)).map (·.1)

/-- one `img.imgBytes[i] |= …` of `CreateFromImage` -/
def fromImageBit (src : Img) (row col i : Nat) (bytes : Array Byte) (p : Nat) : Option (Array Byte) :=
  let pixel : Nat := (src.at ((col <<< 3 : Nat) + p : Nat) row).1 * 0x101   -- color.RGBA.RGBA(): 16-bit red
  match bytes[i]? with
  | none => none
  | some old => wr bytes i (old ||| BitVec.ofNat 8 (((if pixel > 127 then 0 else 1) <<< (7 - p)) &&& 0xFF))

/-- body of the byte-column loop of `CreateFromImage`; state = (bytes, running byte index `i`) -/
def fromImageBody (src : Img) (st : Array Byte × Nat) (row col : Nat) : Option (Array Byte × Nat) :=
  (forN 8 (fromImageBit src row col st.2) st.1).map (fun b => (b, st.2 + 1))

/-- `CreateFromImage` of an `image.RGBA` with origin (0,0): bit = 1 unless the 16-bit red channel is `> 127`;
`At` outside the image is the zero colour, so padding bits become 1 -/
def fromImage (src : Img) : Option Canvas :=
  let wib := (src.w + 7) / 8
  let bytes0 : Array Byte := Array.replicate (wib * src.h) 0#8
  (raster src.h wib (fromImageBody src) (bytes0, 0)).map
    (fun st => { geo := (newCanvas src.w src.h).geo, bytes := st.1 })

/-! ## graphics state → image -/

inductive Fmt where
  | mono | rgb | gray
deriving DecidableEq, Repr

def rgbOfWord (word : Nat) : RGBA :=
  let blue := u8 (mapValue (((word >>> 11) &&& 0b11111 : Nat) : Int) 0 0b11111 0 255)
  let green := u8 (mapValue (((word >>> 5) &&& 0b111111 : Nat) : Int) 0 0b111111 0 255)
  let red := u8 (mapValue ((word &&& 0b11111 : Nat) : Int) 0 0b11111 0 255)
  (red, green, blue, 255)

def grayOfNibble (n : Byte) : RGBA :=
  let g := u8 (mapValue (n.toNat : Int) 0 0b1111 0 255)
  (g, g, g, 255)

def rgbBytesBody (w : Nat) (data : Array Byte) (dest : Img) (rows columns : Nat) : Option Img :=
  let idx := (rows * w + columns) * 2
  if idx + 1 < data.size then
    match data[idx]?, data[idx + 1]? with
    | some hi, some lo =>
      let word := (hi.toNat <<< 8) ||| lo.toNat
      some (dest.setPx columns rows (rgbOfWord word))
    | _, _ => none
  else some dest

/-- `CreateImgObjectFromRGBBytes` -/
def imgFromRGBBytes (w h : Nat) (data : Array Byte) : Option Img :=
  raster h w (rgbBytesBody w data) (Img.new w h)

def grayBytesBody (w : Nat) (data : Array Byte) (dest : Img) (rows columns : Nat) : Option Img :=
  let idx := (rows * w + columns) / 2
  let odd := (rows * w + columns) % 2
  if idx < data.size then
    match data[idx]? with
    | some d =>
      let n : Byte := if odd = 0 then (d >>> 4) &&& 0xF#8 else d &&& 0xF#8
      some (dest.setPx columns rows (grayOfNibble n))
    | none => none
  else some dest

/-- `CreateImgObjectFromGrayBytes` -/
def imgFromGrayBytes (w h : Nat) (data : Array Byte) : Option Img :=
  raster h w (grayBytesBody w data) (Img.new w h)

/-- body of the pixel loop of `RwpImgToImage` (the `switch rwpImg.ImageType`) -/
def rwpBody (fmt : Fmt) (W : Nat) (data : Array Byte) (wOffset hOffset : Int) (out : Img) (y x : Nat) : Option Img :=
  match fmt with
  | .rgb =>
    let i := 2 * (W * y + x)
    if i + 1 < data.size then
      match data[i]?, data[i + 1]? with
      | some hi, some lo =>
        let word := ((hi.toNat <<< 8) % 65536) ||| lo.toNat
        some (out.setPx (x + wOffset) (y + hOffset) (rgbOfWord word))
      | _, _ => none
    else some out
  | .gray =>
    let i := W * y + x
    if i / 2 < data.size then
      match data[i / 2]? with
      | some d =>
        let cb : Byte := if i % 2 = 0 then d >>> 4 else d
        some (out.setPx (x + wOffset) (y + hOffset) (grayOfNibble (cb &&& 0xF#8)))
      | none => none
    else some out
  | .mono =>
    let index := y * ((W + 7) / 8) + x / 8
    if index < data.size then          -- `index >= 0 &&` holds: W, H are unsigned
      match data[index]? with
      | some d =>
        some (out.setPx (x + wOffset) (y + hOffset) (if bitSet d (7 - x % 8) then white else black))
      | none => none
    else some out

/-- `RwpImgToImage(img, width, height)`: black canvas, image centred, out-of-canvas pixels dropped by `Set` -/
def rwpImgToImage (fmt : Fmt) (W H : Nat) (data : Array Byte) (width height : Nat) : Option Img :=
  let wOffset : Int := ((width : Int) - W).tdiv 2
  let hOffset : Int := ((height : Int) - H).tdiv 2
  raster H W (rwpBody fmt W data wOffset hOffset) (Img.fill width height black)

/-- the image `ConvertGfxStateToPngBytes` hands to `png.Encode` (the `CreateFromBytes` error is only logged) -/
def gfxToPngImage (fmt : Fmt) (W H : Nat) (data : Array Byte) : Option Img :=
  match fmt with
  | .mono => toImage (createFromBytes W H data).1 true
  | .rgb => imgFromRGBBytes W H data
  | .gray => imgFromGrayBytes W H data

/-- the same on the pinned tree -/
def gfxToPngImagePinned (fmt : Fmt) (W H : Nat) (data : Array Byte) : Option Img :=
  match fmt with
  | .mono => toImage (createFromBytesPinned W H data).1 true
  | .rgb => imgFromRGBBytes W H data
  | .gray => imgFromGrayBytes W H data

/-! ## allocation panics

`image.NewRGBA(r)` panics ("huge or negative dimensions") when `4·w·h` does not fit an `int` (`image.pixelBufferLength` /
`mul3NonNeg`), and `make([]byte, n)` panics ("len out of range") beyond the allocator's limit (`maxAlloc = 2^48` bytes on
64-bit Linux).  `HWCGfx.W/H` are `uint32` straight from the message, so a state can declare 2^31 × 2^31 pixels with one byte
of data.  The routines below are the ones above with that first statement made explicit: `none` = allocation panic. -/

def rgbaAllocOk (w h : Nat) : Bool := decide (4 * w * h < 9223372036854775808)
def sliceAllocOk (n : Nat) : Bool := decide (n ≤ 281474976710656)

def imgFromRGBBytes? (w h : Nat) (data : Array Byte) : Option Img :=
  if rgbaAllocOk w h then imgFromRGBBytes w h data else none

def imgFromGrayBytes? (w h : Nat) (data : Array Byte) : Option Img :=
  if rgbaAllocOk w h then imgFromGrayBytes w h data else none

/-- `RwpImgToImage` allocates the target canvas only (the declared size merely bounds its loops) -/
def rwpImgToImage? (fmt : Fmt) (W H : Nat) (data : Array Byte) (width height : Nat) : Option Img :=
  if rgbaAllocOk width height then rwpImgToImage fmt W H data width height else none

/-- `ConvertGfxStateToPngBytes`: mono = `NewImage` (`make([]byte, wib·H)`) then `ConvertToImage` (`NewRGBA(W,H)`) -/
def gfxToPngImage? (fmt : Fmt) (W H : Nat) (data : Array Byte) : Option Img :=
  match fmt with
  | .mono => if sliceAllocOk (((W + 7) / 8) * H) && rgbaAllocOk W H then gfxToPngImage .mono W H data else none
  | .rgb => imgFromRGBBytes? W H data
  | .gray => imgFromGrayBytes? W H data

/-! ## ONE mono image object used more than once (the `pix.obj` records)

The object is its canvas and the two colour fields `OLEDPixelColor` / `OLEDBckgColor`; there is no other state (no cached
luma, no buffer kept from the previous image).  Every (re)creation runs `init()`: colours back to white on black. -/

structure Obj where
  c : Canvas := newCanvas 0 0      -- a zero-value `MonoImg`: no canvas, bounding box 0, colours 0
  pcol : Nat := 0
  bcol : Nat := 0

inductive ObjCall where
  | pixelColor (code : Nat)                                   -- `SetOLEDPixelColor`
  | bckgColor (code : Nat)                                    -- `SetOLEDBckgColor`
  | newImage (w h : Nat)                                      -- `NewImage`
  | fromBytes (w h : Nat) (bytes : Array Byte)                -- `CreateFromBytes` (short, exact or long slice)
  | fillRect (x y w h : Int) (col : Bool)                     -- `FillRect`
  | fromMono (w h : Nat) (inv : Bool) (bits : Array Byte)     -- `CreateFromImage(ConvertToImage(inv))` of a fresh w×h image
  | fromImg (src : Img)                                       -- `CreateFromImage` of an RGBA image
  | selfRoundtrip (inv : Bool)                                -- `CreateFromImage` of the object's own `ConvertToImage(inv)`
  | exports                                                   -- `GetImgSliceRGB` / `GetImgSliceGray` (no state change)

/-- `init()` after a (re)creation -/
def Obj.recreated (c : Canvas) : Obj := { c := c, pcol := 0xFFFF, bcol := 0 }

/-- a fresh w×h image whose buffer is `bits` (`CreateFromBytes` with at least `⌈w/8⌉·h` bytes) -/
def canvasOfBits (w h : Nat) (bits : Array Byte) : Canvas := { (newCanvas w h) with bytes := bits }

/-- one call; `none` = a Go panic (index out of range) -/
def applyObj (o : Obj) : ObjCall → Option Obj
  | .pixelColor code => some { o with pcol := color565 code }
  | .bckgColor code => some { o with bcol := color565 code }
  | .newImage w h => some (Obj.recreated (newCanvas w h))
  | .fromBytes w h bytes => some (Obj.recreated (createFromBytes w h bytes).1)
  | .fillRect x y w h col => some { o with c := fillRect o.c x y w h col }
  | .fromMono w h inv bits => ((toImage (canvasOfBits w h bits) inv).bind fromImage).map Obj.recreated
  | .fromImg src => (fromImage src).map Obj.recreated
  | .selfRoundtrip inv => ((toImage o.c inv).bind fromImage).map Obj.recreated
  | .exports => some o

def runObj (o : Obj) : List ObjCall → Option Obj
  | [] => some o
  | call :: rest => (applyObj o call).bind (fun o' => runObj o' rest)

end RawPanelVerif.Pix
