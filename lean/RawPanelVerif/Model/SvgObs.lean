import RawPanelVerif.Model.XmldomBase
import RawPanelVerif.Spec.SvgSpec
/-!
# Observations of the SVG model in the Spec's vocabulary (proof-free; shared by Driver/SvgIcon.lean and Props/C15.lean)

What the harness observes on the real documents, said of the modelled `go-xmldom` round trip: `kept2` = the Spec's
`keepsContent` of the base's token stream in the modelled printed token stream (appended elements included),
`keptMod` = the Spec's `keepsContentMod` of the same two streams, `wellformed` = the Spec's `noDupAttrs` of it.  `kept` (tree against tree) and `tail` are `true`: the model appends to
the root and changes nothing else.
-/
namespace RawPanelVerif.Xmldom
open RawPanelVerif.Xml
open RawPanelVerif.Topo (Str SvgNode)

def modelObserved (nodes : List SvgNode) (ts : List Tok) : Spec.Svg.Observed :=
  { kept := true,
    kept2 := Spec.SvgBase.keepsContent ts (printedToks (appToks nodes) ts),
    keptMod := Spec.SvgBase.keepsContentMod ts (printedToks (appToks nodes) ts),
    wellformed := Spec.SvgBase.noDupAttrs (printedToks (appToks nodes) ts),
    tail := true }

/-- the model is a function of its arguments and has no state: the map is read only, a second call gives the same -/
def modelCall : Spec.Svg.CallObs := { args := true, again := true }

end RawPanelVerif.Xmldom
