import RawPanelVerif.Model.Topology
/-!
# Model of `topology/svgicon.go` (C15): the nodes `GenerateCompositeSVGdoc` appends to the base document

* The base document and the XML parser/printer (`go-xmldom`, `encoding/xml`) are parameters: `baseOk` says whether
  `xmldom.ParseXML` accepted the base SVG and found a root; the model returns the list of nodes appended to the root
  (`none` = the function returned `nil`, i.e. `GenerateCompositeSVG` returns `""`).
* The topology arrives as JSON text produced by `ToJSON()`; by C14 (`json_roundtrip`) parsing it gives the topology back,
  so the model takes the topology itself.
* `fmt.Sprintf("%03f", rotate)` of the `float32` rotation (and of `rotate + 90`) is a parameter `rot`: token ↦
  (text of the value, text of value+90, whether value+90 = 0).
* `SetAttributeValue` replaces the value of an existing attribute, else appends.  Go `int` division truncates (`Int.tdiv`).
-/
namespace RawPanelVerif.Topo.Svg
open RawPanelVerif.Topo

abbrev Node := SvgNode

structure RotInfo where
  fmt : Str          -- Sprintf("%03f", r)
  fmt90 : Str        -- Sprintf("%03f", r + 90)
  zero90 : Bool      -- r + 90 == 0
deriving Repr, DecidableEq, Inhabited

abbrev Opts := SvgOpts

def b (s : String) : Str := bytesOf s

/-- `SetAttributeValue` -/
def setFirst (k v : Str) : List (Str × Str) → Option (List (Str × Str))
  | [] => none
  | a :: r => if a.1 = k then some ((k, v) :: r) else (setFirst k v r).map (a :: ·)

def setAttr (n : Node) (kv : Str × Str) : Node :=
  match setFirst kv.1 kv.2 n.attrs with
  | some l => { n with attrs := l }
  | none => { n with attrs := n.attrs ++ [kv] }

def setAttrs (n : Node) (l : List (Str × Str)) : Node := l.foldl setAttr n

def itoa (n : Int) : Str := intLit n

/-- `strings.Split(s, sep)` for a one-byte separator -/
def splitOn (sep : UInt8) : Str → List Str
  | [] => [[]]
  | c :: r =>
    match splitOn sep r with
    | [] => [[c]]            -- unreachable: the result is never empty
    | p :: ps => if c = sep then [] :: p :: ps else (c :: p) :: ps

/-- `isIn` -/
def isIn (x : Str) (l : List Str) : Bool := l.any (· = x)

/-- `fmt.Sprintf("rotate(%03f %d %d)", r, X, Y)` with the float already formatted -/
def rotateStr (f : Str) (c : HWc) : Str := b "rotate(" ++ f ++ [32] ++ itoa c.x ++ [32] ++ itoa c.y ++ b ")"

/-- `if typeDef.Rotate != 0 { n.SetAttributeValue("transform", …) }` -/
def withRotate (rot : Str → RotInfo) (td : TypeDef) (c : HWc) (n : Node) : Node :=
  if td.rotate ≠ [48] then setAttr n (b "transform", rotateStr (rot td.rotate).fmt c) else n

/-- `addFormatting` -/
def addFormatting (n : Node) (id : Nat) : Node :=
  setAttrs n [(b "fill", b "#dddddd"), (b "stroke", b "#000"), (b "stroke-width", b "2"), (b "id", b "HWc" ++ natLit id)]

/-- `addSubElFormatting` -/
def addSubElFormatting (n : Node) (s : SubEl) : Node :=
  let n := if s.rx ≠ 0 then setAttr n (b "rx", itoa s.rx) else n
  let n := if s.ry ≠ 0 then setAttr n (b "ry", itoa s.ry) else n
  let n := if s.style ≠ [] then setAttr n (b "style", s.style) else n
  setAttrs n [(b "fill", b "#cccccc"), (b "stroke", b "#666"), (b "stroke-width", b "1")]

/-- main element -/
def mainShape (rot : Str → RotInfo) (c : HWc) (td : TypeDef) : Node :=
  let n : Node := { name := if td.h > 0 then b "rect" else b "circle" }
  let n := if td.h > 0 then
      setAttrs n [(b "x", itoa (c.x - td.w.tdiv 2)), (b "y", itoa (c.y - td.h.tdiv 2)), (b "width", itoa td.w),
        (b "height", itoa td.h), (b "rx", itoa 10), (b "rx", itoa 10)]
    else
      setAttrs n [(b "cx", itoa c.x), (b "cy", itoa c.y), (b "r", itoa (td.w.tdiv 2))]
  addFormatting (withRotate rot td c n) c.id

/-- nodes of one sub element (`r` → rect, `c` → circle, anything else → nothing) -/
def subShapes (rot : Str → RotInfo) (c : HWc) (td : TypeDef) (s : SubEl) : List Node :=
  (if s.objType = b "r" then
    [addSubElFormatting (withRotate rot td c (setAttrs { name := b "rect" }
      [(b "x", itoa (c.x + s.x)), (b "y", itoa (c.y + s.y)), (b "width", itoa s.w), (b "height", itoa s.h),
       (b "pointer-events", b "none")])) s]
   else []) ++
  (if s.objType = b "c" then
    [addSubElFormatting (withRotate rot td c (setAttrs { name := b "circle" }
      [(b "cx", itoa (c.x + s.x)), (b "cy", itoa (c.y + s.y)), (b "r", itoa s.r), (b "pointer-events", b "none")])) s]
   else [])

/-- number of label lines: `cnt` -/
def labelCount (sp : List Str) : Nat :=
  match sp with
  | _ :: s1 :: _ => if s1.length > 0 then 2 else 1
  | _ => 1

def qstr (c : Bool) (x y : Str) : Str := if c then x else y

def labelNode (rot : Str → RotInfo) (o : Opts) (c : HWc) (td : TypeDef) (renderOptions : List Str) (cnt : Nat)
    (a : Nat) (txt : Str) : Node :=
  let n : Node := setAttrs { name := b "text" }
    [(b "x", itoa c.x), (b "y", itoa (c.y + 27 + (a : Int) * 30 - ((cnt : Int) * 30).tdiv 2)), (b "text-anchor", b "middle"),
     (b "fill", qstr (isIn (b "invtxt") renderOptions) (qstr o.showLabels (b "#FFF") (b "#666")) (qstr o.showLabels (b "#000") (b "#999"))),
     (b "font-weight", b "bold"), (b "font-size", b "30"), (b "font-family", b "sans-serif"), (b "pointer-events", b "none")]
  -- rotate := typeDef.Rotate; if H > W*2 { rotate += 90 }; if rotate != 0 { transform }
  let n := if td.h > td.w * 2 then
      (if (rot td.rotate).zero90 then n else setAttr n (b "transform", rotateStr (rot td.rotate).fmt90 c))
    else withRotate rot td c n
  { n with text := txt }

def labelNodes (rot : Str → RotInfo) (o : Opts) (c : HWc) (td : TypeDef) (renderOptions : List Str) : List Node :=
  if o.showLabels || isIn (b "txt") renderOptions then
    let sp := splitOn 124 c.txt
    let cnt := labelCount sp
    (List.range cnt).map (fun a => labelNode rot o c td renderOptions cnt a (sp.getD a []))
  else []

def qint (c : Bool) (x y : Int) : Int := if c then x else y

def typeNode (rot : Str → RotInfo) (o : Opts) (c : HWc) (td : TypeDef) : List Node :=
  if o.showType then
    let n : Node := setAttrs { name := b "text" }
      [(b "x", itoa c.x), (b "y", itoa (c.y - (qint (td.h > 0) td.h td.w).tdiv 2 - 2)), (b "text-anchor", b "middle"),
       (b "fill", b "#333"), (b "font-size", b "20"), (b "font-family", b "sans-serif"), (b "pointer-events", b "none")]
    [{ withRotate rot td c n with text := b "[TYPE=" ++ natLit c.type ++ b "]" }]
  else []

def dispSizeNode (rot : Str → RotInfo) (o : Opts) (c : HWc) (td : TypeDef) : List Node :=
  match td.disp with
  | none => []
  | some d =>
    if o.showDisplaySize then
      let xy : Int × Int :=
        if d.subidx ≥ 0 ∧ (td.sub.length : Int) > d.subidx then
          match td.sub[d.subidx.toNat]? with
          | some s => (c.x + s.x + s.w.tdiv 2, c.y + s.y + s.h.tdiv 2)
          | none => (c.x, c.y - (qint (td.h > 0) td.h td.w).tdiv 2 - 2)
        else (c.x, c.y - (qint (td.h > 0) td.h td.w).tdiv 2 - 2)
      let n : Node := setAttrs { name := b "text" }
        [(b "x", itoa xy.1), (b "y", itoa xy.2), (b "text-anchor", b "middle"), (b "fill", b "#ccc"), (b "font-size", b "25"),
         (b "font-family", b "sans-serif"), (b "stroke", b "#333"), (b "stroke-width", b "6px"), (b "paint-order", b "stroke"),
         (b "pointer-events", b "none")]
      let suffix : Str := if d.type ≠ [] then [32] ++ d.type else []
      [{ withRotate rot td c n with text := itoa d.w ++ b "x" ++ itoa d.h ++ suffix }]
    else []

def idNode (rot : Str → RotInfo) (o : Opts) (c : HWc) (td : TypeDef) (renderOptions : List Str) : List Node :=
  if o.showHWCID || isIn (b "hwcid") renderOptions then
    let n : Node := setAttrs { name := b "text" }
      [(b "x", itoa (c.x - qint (td.h > 0) (td.w.tdiv 2 - 4) 0)), (b "y", itoa (c.y - (qint (td.h > 0) td.h td.w).tdiv 2 + 20))]
    let n := if td.h = 0 then setAttr n (b "text-anchor", b "middle") else n
    let n := setAttrs n [(b "fill", qstr o.showHWCID (b "#000") (b "#999")), (b "font-size", b "20"),
      (b "font-family", b "sans-serif"), (b "pointer-events", b "none")]
    [{ withRotate rot td c n with text := natLit c.id }]
  else []

/-- `theMap != nil && theMap[id] == 0` -/
def masked (mask : Option (List (Nat × Nat))) (id : Nat) : Bool :=
  match mask with
  | none => false
  | some m => ((m.find? (fun e => e.1 == id)).map (·.2)).getD 0 == 0

/-- one iteration of `for _, HWcDef := range topology.HWc` -/
def componentNodes (rot : Str → RotInfo) (o : Opts) (t : Topology) (mask : Option (List (Nat × Nat))) (c : HWc) : List Node :=
  let td := getTypeDefWithOverride t c
  let renderOptions := splitOn 44 td.render
  if masked mask c.id then []
  else
    mainShape rot c td :: (td.sub.flatMap (subShapes rot c td) ++ labelNodes rot o c td renderOptions ++ typeNode rot o c td ++
      dispSizeNode rot o c td ++ idNode rot o c td renderOptions)

/-- `GenerateCompositeSVGdoc`: the children appended to the root; `none` = returned `nil` -/
def compositeNodes (rot : Str → RotInfo) (baseOk : Bool) (o : Opts) (t : Topology) (mask : Option (List (Nat × Nat))) :
    Option (List Node) :=
  if baseOk then some (t.hwc.flatMap (componentNodes rot o t mask)) else none

end RawPanelVerif.Topo.Svg
