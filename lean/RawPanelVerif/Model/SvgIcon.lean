import RawPanelVerif.Model.Topology
/-!
# Model of `topology/svgicon.go` (C15): the nodes `GenerateCompositeSVGdoc` appends to the base document

* The base document enters as the summary of its `encoding/xml` token stream (`kinds`: one letter per token as
  `Decoder.Token` delivers them, `S` = start element, `E` end element, `C`/`W` character data (non-blank / blank),
  `M` comment, `P` processing instruction, `D` directive; `endOk` = the stream ended with `io.EOF`, not an error).
  `parseXML` mirrors the control flow of `xmldom.Parse` on that stream: error / document without root / document
  with root.  The tokenizer itself (`encoding/xml`) is a parameter.  The model returns the list of nodes appended
  to the root (`none` = the function returned `nil`, i.e. `GenerateCompositeSVG` returns `""`).
* What of the base document reaches the printed document (the `go-xmldom` parse/print round trip on the token stream) is
  modelled separately in `Model/XmldomBase.lean`; `Model/SvgObs.lean` turns it into the flags the harness observes.
* `printNode` is `(*xmldom.Node).XML()` for a childless node: `<name k="v" …>text</name>` or `<name … />`, values and
  text through `xml.EscapeText` (`escapeText`, with `utf8.DecodeRune` = `decodeRune`, for **all** byte strings:
  invalid UTF-8, control characters, U+FFFE/U+FFFF become U+FFFD).
* The topology arrives as JSON text produced by `ToJSON()`; by C14 (`json_roundtrip`) parsing it gives the topology back,
  so the model takes the topology itself.
* `fmt.Sprintf("%03f", rotate)` of the `float32` rotation (and of `rotate + 90`) is a parameter `rot`: token ↦
  (text of the value, text of value+90, whether value+90 = 0).
* `typeDef.Rotate != 0` is `rotIsZero token = false` (false for both zeros, `0` and `-0`).
* `SetAttributeValue` replaces the value of an existing attribute, else appends.  Go `int` division truncates (`Int.tdiv`).
-/
namespace RawPanelVerif.Topo.Svg
open RawPanelVerif.Topo

abbrev Node := SvgNode

structure RotInfo where
  fmt : Str          -- Sprintf("%03f", r)
  fmt90 : Str        -- Sprintf("%03f", r + 90)
  zero90 : Bool      -- r + 90 == 0
deriving Repr, DecidableEq, Inhabited

abbrev Opts := SvgOpts

/-- the `%03f` text of a rotation token (first column of the supplied table) -/
def fmtOf (rot : Str → RotInfo) (tk : Str) : Str := (rot tk).fmt

def b (s : String) : Str := bytesOf s

/-- `SetAttributeValue` -/
def setFirst (k v : Str) : List (Str × Str) → Option (List (Str × Str))
  | [] => none
  | a :: r => if a.1 = k then some ((k, v) :: r) else (setFirst k v r).map (a :: ·)

def setAttr (n : Node) (kv : Str × Str) : Node :=
  match setFirst kv.1 kv.2 n.attrs with
  | some l => { n with attrs := l }
  | none => { n with attrs := n.attrs ++ [kv] }

def setAttrs (n : Node) (l : List (Str × Str)) : Node := l.foldl setAttr n

def itoa (n : Int) : Str := intLit n

/-- `strings.Split(s, sep)` for a one-byte separator -/
def splitOn (sep : UInt8) : Str → List Str
  | [] => [[]]
  | c :: r =>
    match splitOn sep r with
    | [] => [[c]]            -- unreachable: the result is never empty
    | p :: ps => if c = sep then [] :: p :: ps else (c :: p) :: ps

/-- `isIn` -/
def isIn (x : Str) (l : List Str) : Bool := l.any (· = x)

/-- `fmt.Sprintf("rotate(%03f %d %d)", r, X, Y)` with the float already formatted -/
def rotateStr (f : Str) (c : HWc) : Str := b "rotate(" ++ f ++ [32] ++ itoa c.x ++ [32] ++ itoa c.y ++ b ")"

/-- `if typeDef.Rotate != 0 { n.SetAttributeValue("transform", …) }` -/
def withRotate (rot : Str → RotInfo) (td : TypeDef) (c : HWc) (n : Node) : Node :=
  if rotIsZero td.rotate = false then setAttr n (b "transform", rotateStr (rot td.rotate).fmt c) else n

/-- `addFormatting` -/
def addFormatting (n : Node) (id : Nat) : Node :=
  setAttrs n [(b "fill", b "#dddddd"), (b "stroke", b "#000"), (b "stroke-width", b "2"), (b "id", b "HWc" ++ natLit id)]

/-- `addSubElFormatting` -/
def addSubElFormatting (n : Node) (s : SubEl) : Node :=
  let n := if s.rx ≠ 0 then setAttr n (b "rx", itoa s.rx) else n
  let n := if s.ry ≠ 0 then setAttr n (b "ry", itoa s.ry) else n
  let n := if s.style ≠ [] then setAttr n (b "style", s.style) else n
  setAttrs n [(b "fill", b "#cccccc"), (b "stroke", b "#666"), (b "stroke-width", b "1")]

/-- main element -/
def mainShape (rot : Str → RotInfo) (c : HWc) (td : TypeDef) : Node :=
  let n : Node := { name := if td.h > 0 then b "rect" else b "circle" }
  let n := if td.h > 0 then
      setAttrs n [(b "x", itoa (c.x - td.w.tdiv 2)), (b "y", itoa (c.y - td.h.tdiv 2)), (b "width", itoa td.w),
        (b "height", itoa td.h), (b "rx", itoa 10), (b "rx", itoa 10)]
    else
      setAttrs n [(b "cx", itoa c.x), (b "cy", itoa c.y), (b "r", itoa (td.w.tdiv 2))]
  addFormatting (withRotate rot td c n) c.id

/-- nodes of one sub element (`r` → rect, `c` → circle, anything else → nothing) -/
def subShapes (rot : Str → RotInfo) (c : HWc) (td : TypeDef) (s : SubEl) : List Node :=
  (if s.objType = b "r" then
    [addSubElFormatting (withRotate rot td c (setAttrs { name := b "rect" }
      [(b "x", itoa (c.x + s.x)), (b "y", itoa (c.y + s.y)), (b "width", itoa s.w), (b "height", itoa s.h),
       (b "pointer-events", b "none")])) s]
   else []) ++
  (if s.objType = b "c" then
    [addSubElFormatting (withRotate rot td c (setAttrs { name := b "circle" }
      [(b "cx", itoa (c.x + s.x)), (b "cy", itoa (c.y + s.y)), (b "r", itoa s.r), (b "pointer-events", b "none")])) s]
   else [])

/-- number of label lines: `cnt` -/
def labelCount (sp : List Str) : Nat :=
  match sp with
  | _ :: s1 :: _ => if s1.length > 0 then 2 else 1
  | _ => 1

def qstr (c : Bool) (x y : Str) : Str := if c then x else y

def labelNode (rot : Str → RotInfo) (o : Opts) (c : HWc) (td : TypeDef) (renderOptions : List Str) (cnt : Nat)
    (a : Nat) (txt : Str) : Node :=
  let n : Node := setAttrs { name := b "text" }
    [(b "x", itoa c.x), (b "y", itoa (c.y + 27 + (a : Int) * 30 - ((cnt : Int) * 30).tdiv 2)), (b "text-anchor", b "middle"),
     (b "fill", qstr (isIn (b "invtxt") renderOptions) (qstr o.showLabels (b "#FFF") (b "#666")) (qstr o.showLabels (b "#000") (b "#999"))),
     (b "font-weight", b "bold"), (b "font-size", b "30"), (b "font-family", b "sans-serif"), (b "pointer-events", b "none")]
  -- rotate := typeDef.Rotate; if H > W*2 { rotate += 90 }; if rotate != 0 { transform }
  let n := if td.h > td.w * 2 then
      (if (rot td.rotate).zero90 then n else setAttr n (b "transform", rotateStr (rot td.rotate).fmt90 c))
    else withRotate rot td c n
  { n with text := txt }

def labelNodes (rot : Str → RotInfo) (o : Opts) (c : HWc) (td : TypeDef) (renderOptions : List Str) : List Node :=
  if o.showLabels || isIn (b "txt") renderOptions then
    let sp := splitOn 124 c.txt
    let cnt := labelCount sp
    (List.range cnt).map (fun a => labelNode rot o c td renderOptions cnt a (sp.getD a []))
  else []

def qint (c : Bool) (x y : Int) : Int := if c then x else y

def typeNode (rot : Str → RotInfo) (o : Opts) (c : HWc) (td : TypeDef) : List Node :=
  if o.showType then
    let n : Node := setAttrs { name := b "text" }
      [(b "x", itoa c.x), (b "y", itoa (c.y - (qint (td.h > 0) td.h td.w).tdiv 2 - 2)), (b "text-anchor", b "middle"),
       (b "fill", b "#333"), (b "font-size", b "20"), (b "font-family", b "sans-serif"), (b "pointer-events", b "none")]
    [{ withRotate rot td c n with text := b "[TYPE=" ++ natLit c.type ++ b "]" }]
  else []

def dispSizeNode (rot : Str → RotInfo) (o : Opts) (c : HWc) (td : TypeDef) : List Node :=
  match td.disp with
  | none => []
  | some d =>
    if o.showDisplaySize then
      let xy : Int × Int :=
        if d.subidx ≥ 0 ∧ (td.sub.length : Int) > d.subidx then
          match td.sub[d.subidx.toNat]? with
          | some s => (c.x + s.x + s.w.tdiv 2, c.y + s.y + s.h.tdiv 2)
          | none => (c.x, c.y - (qint (td.h > 0) td.h td.w).tdiv 2 - 2)
        else (c.x, c.y - (qint (td.h > 0) td.h td.w).tdiv 2 - 2)
      let n : Node := setAttrs { name := b "text" }
        [(b "x", itoa xy.1), (b "y", itoa xy.2), (b "text-anchor", b "middle"), (b "fill", b "#ccc"), (b "font-size", b "25"),
         (b "font-family", b "sans-serif"), (b "stroke", b "#333"), (b "stroke-width", b "6px"), (b "paint-order", b "stroke"),
         (b "pointer-events", b "none")]
      let suffix : Str := if d.type ≠ [] then [32] ++ d.type else []
      [{ withRotate rot td c n with text := itoa d.w ++ b "x" ++ itoa d.h ++ suffix }]
    else []

def idNode (rot : Str → RotInfo) (o : Opts) (c : HWc) (td : TypeDef) (renderOptions : List Str) : List Node :=
  if o.showHWCID || isIn (b "hwcid") renderOptions then
    let n : Node := setAttrs { name := b "text" }
      [(b "x", itoa (c.x - qint (td.h > 0) (td.w.tdiv 2 - 4) 0)), (b "y", itoa (c.y - (qint (td.h > 0) td.h td.w).tdiv 2 + 20))]
    let n := if td.h = 0 then setAttr n (b "text-anchor", b "middle") else n
    let n := setAttrs n [(b "fill", qstr o.showHWCID (b "#000") (b "#999")), (b "font-size", b "20"),
      (b "font-family", b "sans-serif"), (b "pointer-events", b "none")]
    [{ withRotate rot td c n with text := natLit c.id }]
  else []

/-- `theMap != nil && theMap[id] == 0` -/
def masked (mask : Option (List (Nat × Nat))) (id : Nat) : Bool :=
  match mask with
  | none => false
  | some m => ((m.find? (fun e => e.1 == id)).map (·.2)).getD 0 == 0

/-- one iteration of `for _, HWcDef := range topology.HWc` -/
def componentNodes (rot : Str → RotInfo) (o : Opts) (t : Topology) (mask : Option (List (Nat × Nat))) (c : HWc) : List Node :=
  let td := getTypeDefWithOverride t c
  let renderOptions := splitOn 44 td.render
  if masked mask c.id then []
  else
    mainShape rot c td :: (td.sub.flatMap (subShapes rot c td) ++ labelNodes rot o c td renderOptions ++ typeNode rot o c td ++
      dispSizeNode rot o c td ++ idNode rot o c td renderOptions)

/-- outcome of `xmldom.ParseXML` -/
inductive ParseResult where
  | err       -- `nil, err`
  | noRoot    -- a document, `err == nil`, `Root == nil`
  | root      -- a document with a root element
deriving Repr, DecidableEq, Inhabited

/-- `xmldom.Parse` on the token stream of `encoding/xml`: the first `Token()` failing (also with `io.EOF`: empty
input) is an error; then the loop `for t != nil` sets `doc.Root` at the first start element; after the loop
`err != io.EOF` is an error. -/
def parseXML (kinds : Str) (endOk : Bool) : ParseResult :=
  match kinds with
  | [] => .err                                   -- `t, err := p.Token(); if err != nil { return nil, err }`
  | _ =>
    let rootSet := kinds.foldl (fun (seen : Bool) k => if k = 83 then true else seen) false
    if !endOk then .err else if rootSet then .root else .noRoot

/-- `GenerateCompositeSVGdoc` after `ParseXML`: the children appended to the root; `none` = returned `nil`
(`err != nil`, or `svgDoc.Root == nil`) -/
def compositeNodesP (rot : Str → RotInfo) (pr : ParseResult) (o : Opts) (t : Topology) (mask : Option (List (Nat × Nat))) :
    Option (List Node) :=
  match pr with
  | .err => none
  | .noRoot => none
  | .root => some (t.hwc.flatMap (componentNodes rot o t mask))

/-- `GenerateCompositeSVGdoc` -/
def compositeNodes (rot : Str → RotInfo) (kinds : Str) (endOk : Bool) (o : Opts) (t : Topology)
    (mask : Option (List (Nat × Nat))) : Option (List Node) :=
  compositeNodesP rot (parseXML kinds endOk) o t mask

/-! ## printing: `(*xmldom.Node).XML()` of an appended (childless) node -/

/-- `utf8.DecodeRune`: (rune, width); `(RuneError, 1)` for an invalid or truncated encoding, width 0 only for `[]` -/
def decodeRune : Str → Nat × Nat
  | [] => (0xFFFD, 0)
  | c0 :: r =>
    let b0 := c0.toNat
    if b0 < 0x80 then (b0, 1)
    else if b0 < 0xC2 then (0xFFFD, 1)
    else if b0 < 0xE0 then
      match r with
      | c1 :: _ =>
        if 0x80 ≤ c1.toNat ∧ c1.toNat ≤ 0xBF then ((b0 % 32) * 64 + c1.toNat % 64, 2) else (0xFFFD, 1)
      | [] => (0xFFFD, 1)
    else if b0 < 0xF0 then
      match r with
      | c1 :: c2 :: _ =>
        if (if b0 = 0xE0 then 0xA0 else 0x80) ≤ c1.toNat ∧ c1.toNat ≤ (if b0 = 0xED then 0x9F else 0xBF) ∧
            0x80 ≤ c2.toNat ∧ c2.toNat ≤ 0xBF then
          ((b0 % 16) * 4096 + (c1.toNat % 64) * 64 + c2.toNat % 64, 3)
        else (0xFFFD, 1)
      | _ => (0xFFFD, 1)
    else if b0 < 0xF5 then
      match r with
      | c1 :: c2 :: c3 :: _ =>
        if (if b0 = 0xF0 then 0x90 else 0x80) ≤ c1.toNat ∧ c1.toNat ≤ (if b0 = 0xF4 then 0x8F else 0xBF) ∧
            0x80 ≤ c2.toNat ∧ c2.toNat ≤ 0xBF ∧ 0x80 ≤ c3.toNat ∧ c3.toNat ≤ 0xBF then
          ((b0 % 8) * 262144 + (c1.toNat % 64) * 4096 + (c2.toNat % 64) * 64 + c3.toNat % 64, 4)
        else (0xFFFD, 1)
      | _ => (0xFFFD, 1)
    else (0xFFFD, 1)

/-- `isInCharacterRange` of encoding/xml -/
def inCharRange (r : Nat) : Bool :=
  r = 0x09 || r = 0x0A || r = 0x0D || (0x20 ≤ r && r ≤ 0xD7FF) || (0xE000 ≤ r && r ≤ 0xFFFD) || (0x10000 ≤ r && r ≤ 0x10FFFF)

def escQuot : Str := [38, 35, 51, 52, 59]        -- &#34;
def escApos : Str := [38, 35, 51, 57, 59]        -- &#39;
def escAmp : Str := [38, 97, 109, 112, 59]       -- &amp;
def escLT : Str := [38, 108, 116, 59]            -- &lt;
def escGT : Str := [38, 103, 116, 59]            -- &gt;
def escTab : Str := [38, 35, 120, 57, 59]        -- &#x9;
def escNL : Str := [38, 35, 120, 65, 59]         -- &#xA;
def escCR : Str := [38, 35, 120, 68, 59]         -- &#xD;
def escFFFD : Str := [0xEF, 0xBF, 0xBD]          -- "\uFFFD"

/-- what `escapeText` writes for the rune `(r, width)` decoded at the head of `s` -/
def escOf (r width : Nat) (s : Str) : Str :=
  if r = 34 then escQuot else if r = 39 then escApos else if r = 38 then escAmp else if r = 60 then escLT
  else if r = 62 then escGT else if r = 9 then escTab else if r = 10 then escNL else if r = 13 then escCR
  else if !inCharRange r || (r = 0xFFFD && width = 1) then escFFFD
  else s.take width

/-- the loop of `escapeText` (`fuel` ≥ number of runes; every rune of a non-empty rest has width ≥ 1) -/
def escapeFuel : Nat → Str → Str
  | 0, _ => []
  | fuel + 1, s =>
    match s with
    | [] => []
    | _ :: _ => escOf (decodeRune s).1 (decodeRune s).2 s ++ escapeFuel fuel (s.drop (decodeRune s).2)

/-- `xml.EscapeText` / `xml.Escape` (escapeNewline = true) -/
def escapeText (s : Str) : Str := escapeFuel s.length s

/-- one attribute as `printXML` writes it: ` name="value"` -/
def printAttr (kv : Str × Str) : Str := [32] ++ kv.1 ++ [61, 34] ++ escapeText kv.2 ++ [34]

/-- `printXML(buf, n, 0, "")` for a node without children -/
def printNode (n : Node) : Str :=
  [60] ++ n.name ++ n.attrs.flatMap printAttr ++
    (if n.text = [] then [32, 47, 62] else [62] ++ escapeText n.text ++ [60, 47] ++ n.name ++ [62])

end RawPanelVerif.Topo.Svg
