import RawPanelVerif.Model.Topology
/-!
# Store-of-cells model of the topology look-ups (C13): what the getters return *by reference*

`Model/Topology.lean` treats definitions as values.  In Go three things inside a topology are reference cells that
the resolvers copy **without** copying the cell:

* `TopologyHWcomponent.TypeOverride *TopologyHWcTypeDef`  – a pointer (cell kind `td`),
* `TopologyHWcTypeDef.Disp *TopologyHWcTypeDef_Display`   – a pointer (cell kind `disp`),
* `TopologyHWcTypeDef.Sub []TopologyHWcTypeDefSubEl`      – a slice header over a backing array (cell kind `subs`;
  the slices in a topology cover their whole array, so the header is the address; `none` = nil slice).

`typeDef := topology.TypeIndex[k]`, `for _, HWcDef := range topology.HWc`, `HWcDef := top.HWc[k]` copy the struct:
scalars by value, the three references by address.  `typeDef.Sub = override.Sub`, `typeDef.Disp = override.Disp`
store the override's address.  `return &typeDef`, `return &r` return the address of a **fresh** cell (the local copy
escapes to the heap): modelled by allocation at the end of the heap.

A look-up is `Heap → … → result × Heap`.  No look-up contains a write to an existing cell; the only heap change is
allocation (`Heap.alloc`).  `Props/C13.lean`: the value model is the abstraction of this one (`execR_refines`), the
heap after a look-up extends the heap before (`execR_extends`), hence the topology reads the same (`execR_frame`),
and the references in a returned definition are the topology's own (`resolveAR_aliases`) — writing through them
changes `ToJSON()` (`alias_hazard_*`, observed on the implementation by the `topo.alias` records).
-/
namespace RawPanelVerif.Topo.Alias
open RawPanelVerif.Topo

/-- a type definition as the struct is laid out: scalars in `v` (whose `disp`/`sub` stay empty), references apart -/
structure TypeDefR where
  v : TypeDef := {}
  dispP : Option Nat := none
  subP : Option Nat := none
deriving Repr, DecidableEq, Inhabited

/-- a component: scalars in `c` (whose `ov` stays `none`), the override pointer apart -/
structure HWcR where
  c : HWc := {}
  ovP : Option Nat := none
deriving Repr, DecidableEq, Inhabited

inductive Cell where
  | disp (d : Disp)
  | subs (l : List SubEl)
  | td (r : TypeDefR)
deriving Repr, DecidableEq, Inhabited

/-- the heap: address = position -/
abbrev Heap := List Cell

structure TopologyR where
  title : Str := []
  hwc : List HWcR := []
  hwcNil : Bool := false
  ti : Map TypeDefR := []
  tiNil : Bool := false
deriving Repr, DecidableEq, Inhabited

/-! ## reading -/

def Heap.dispAt (h : Heap) (a : Nat) : Disp := match h[a]? with | some (.disp d) => d | _ => {}
def Heap.subsAt (h : Heap) (a : Nat) : List SubEl := match h[a]? with | some (.subs l) => l | _ => []
def Heap.tdAt (h : Heap) (a : Nat) : TypeDefR := match h[a]? with | some (.td r) => r | _ => {}

def derefSub (h : Heap) (p : Option Nat) : List SubEl := match p with | some a => h.subsAt a | none => []

/-- scalars of `x`, references replaced -/
def setDS (x : TypeDef) (d : Option Disp) (s : List SubEl) : TypeDef := { x with disp := d, sub := s }

/-- the value a laid-out definition denotes in a heap -/
def absTD (h : Heap) (r : TypeDefR) : TypeDef := setDS r.v (r.dispP.map h.dispAt) (derefSub h r.subP)

def absHWc (h : Heap) (c : HWcR) : HWc := { c.c with ov := c.ovP.map (fun a => absTD h (h.tdAt a)) }

def absE (h : Heap) (e : Nat × TypeDefR) : Nat × TypeDef := (e.1, absTD h e.2)

def absTopo (h : Heap) (t : TopologyR) : Topology :=
  { title := t.title, hwc := t.hwc.map (absHWc h), hwcNil := t.hwcNil, ti := t.ti.map (absE h), tiNil := t.tiNil }

/-! ## allocation (the only heap effect of a look-up) and writing (what a *caller* can do afterwards) -/

def Heap.alloc (h : Heap) (c : Cell) : Heap × Nat := (h ++ [c], h.length)

/-- `p.Sub[i] = f(p.Sub[i])` through a slice header -/
def Heap.writeSub (h : Heap) (a i : Nat) (f : SubEl → SubEl) : Heap :=
  h.modify a (fun c => match c with | .subs l => .subs (l.modify i f) | c => c)

/-- `*p.Disp = f(*p.Disp)` -/
def Heap.writeDisp (h : Heap) (a : Nat) (f : Disp → Disp) : Heap :=
  h.modify a (fun c => match c with | .disp d => .disp (f d) | c => c)

/-- `p.TypeOverride.X = …` on the scalars of an override cell -/
def Heap.writeTD (h : Heap) (a : Nat) (f : TypeDef → TypeDef) : Heap :=
  h.modify a (fun c => match c with | .td r => .td { r with v := f r.v } | c => c)

/-! ## the resolvers on laid-out data -/

def zeroR : TypeDefR := {}

/-- the scalar assignments of `GetTypeDefWithOverride`, in its order -/
def scalarsA (o td : TypeDef) : TypeDef :=
  td |> ovW o |> ovH o |> ovSubidx o |> ovOut o |> ovIn o |> ovExt o |> ovDesc o |> ovRender o |> ovRotate o

/-- the scalar assignments of `GetHWCTypeDefinition`, in its order (no description, no render hints) -/
def scalarsB (o td : TypeDef) : TypeDef :=
  td |> ovW o |> ovH o |> ovOut o |> ovIn o |> ovExt o |> ovSubidx o |> ovRotate o

/-- `if o.Disp != nil { typeDef.Disp = o.Disp }`: the address is copied -/
def ovDispP (o td : TypeDefR) : Option Nat := if o.dispP.isSome then o.dispP else td.dispP

/-- `if len(o.Sub) > 0 { typeDef.Sub = o.Sub }`: the slice header is copied, the backing array shared -/
def ovSubP (h : Heap) (o td : TypeDefR) : Option Nat := if (derefSub h o.subP).length > 0 then o.subP else td.subP

/-- `GetTypeDefWithOverride(&c)` -/
def resolveAR (h : Heap) (t : TopologyR) (c : HWcR) : TypeDefR :=
  let typeDef := (Map.lookup t.ti c.c.type).getD zeroR      -- copy of the map value
  match c.ovP with
  | none => typeDef
  | some a =>
    let o := h.tdAt a
    { v := scalarsA o.v typeDef.v, dispP := ovDispP o typeDef, subP := ovSubP h o typeDef }

/-- `GetHWCTypeDefinition(k)`, the definition it builds (before `return &typeDef`) -/
def resolveBR (h : Heap) (t : TopologyR) (k : Int) : Option TypeDefR :=
  if k ≥ t.hwc.length then some zeroR
  else if k < 0 then none
  else
    match t.hwc[k.toNat]? with
    | none => none
    | some c =>
      match Map.lookup t.ti c.c.type with
      | none => some zeroR
      | some typeDef =>
        match c.ovP with
        | none => some typeDef
        | some a =>
          let o := h.tdAt a
          some { v := scalarsB o.v typeDef.v, dispP := ovDispP o typeDef, subP := ovSubP h o typeDef }

def findIdxR : List HWcR → Nat → Nat → Option (Nat × HWcR)
  | [], _, _ => none
  | c :: r, id, k => if c.c.id = id then some (k, c) else findIdxR r id (k + 1)

/-- what a look-up hands back -/
inductive ResR where
  | plain (r : Result)        -- values only (ids, coordinates, strings, predicate values, error)
  | tdV (r : TypeDefR)        -- a definition returned by value (its references are live)
  | tdP (a : Nat)             -- pointer to a fresh definition cell
  | comp (c : HWcR)           -- pointer to a fresh component copy (its override pointer is live)
  | panic
deriving Repr, DecidableEq, Inhabited

/-- `return &typeDef` -/
def retFresh (h : Heap) (r : TypeDefR) : ResR × Heap := let p := h.alloc (.td r); (.tdP p.2, p.1)

/-- the look-up interface on laid-out data -/
def execR (h : Heap) (t : TopologyR) : Query → ResR × Heap
  | .type id =>
    match findIdxR t.hwc id 0 with
    | some (_, c) => retFresh h (resolveAR h t c)
    | none => (.plain (.notFound (noHWCmsg id)), h)
  | .resolveA k =>
    match t.hwc[k]? with
    | some c => (.tdV (resolveAR h t c), h)
    | none => (.panic, h)
  | .resolveB k =>
    match resolveBR h t k with
    | some r => retFresh h r
    | none => (.panic, h)
  | .resolveBid id =>
    match findIdxR t.hwc (toU32 id) 0 with
    | some (k, _) =>
      match resolveBR h t k with
      | some r => retFresh h r
      | none => (.panic, h)
    | none => retFresh h zeroR
  | .defId id =>
    match findIdxR t.hwc (toU32 id) 0 with
    | some (_, c) => (.comp c, h)
    | none => (.comp {}, h)
  | q => (.plain (execRes (absTopo h t) q).1, h)        -- getters whose results hold no reference

/-- `GetTypeDefWithOverride(&c)` for a free-standing component laid out in the same heap -/
def execRx (h : Heap) (t : TopologyR) (c : HWcR) : ResR × Heap := (.tdV (resolveAR h t c), h)

/-- the value a result denotes -/
def absRes (h : Heap) : ResR → Result
  | .plain r => r
  | .tdV r => .typeDef (absTD h r)
  | .tdP a => .typeDef (absTD h (h.tdAt a))
  | .comp c => .comp (absHWc h c)
  | .panic => .panic

/-! ## laying out a value topology: every reference gets its own cell (no sharing), as after `json.Unmarshal` -/

def layTD (h : Heap) (td : TypeDef) : Heap × TypeDefR :=
  let hd : Heap × Option Nat := match td.disp with
    | none => (h, none)
    | some d => (h ++ [.disp d], some h.length)
  let hs : Heap × Option Nat := match td.sub with
    | [] => (hd.1, none)
    | l => (hd.1 ++ [.subs l], some hd.1.length)
  (hs.1, { v := setDS td none [], dispP := hd.2, subP := hs.2 })

def layHWc (h : Heap) (c : HWc) : Heap × HWcR :=
  match c.ov with
  | none => (h, { c := c, ovP := none })
  | some o =>
    let p := layTD h o
    (p.1 ++ [.td p.2], { c := { c with ov := none }, ovP := some p.1.length })

def layHWcs : Heap → List HWc → Heap × List HWcR
  | h, [] => (h, [])
  | h, c :: r => let p := layHWc h c; let q := layHWcs p.1 r; (q.1, p.2 :: q.2)

def layTI : Heap → Map TypeDef → Heap × Map TypeDefR
  | h, [] => (h, [])
  | h, e :: r => let p := layTD h e.2; let q := layTI p.1 r; (q.1, (e.1, p.2) :: q.2)

def layTopo (t : Topology) : Heap × TopologyR :=
  let p := layTI [] t.ti
  let q := layHWcs p.1 t.hwc
  (q.1, { title := t.title, hwc := q.2, hwcNil := t.hwcNil, ti := p.2, tiNil := t.tiNil })

/-! ## the `topo.alias` experiment: look up, write through what came back, read the topology again -/

/-- which reference of the returned value the caller writes through -/
inductive Via where
  | sub      -- `ret.Sub[0].X++`
  | disp     -- `ret.Disp.W++`
  | ov       -- `ret.TypeOverride.W++` (component getter)
  | own      -- every field of the returned struct itself is overwritten (`ret.W = …; ret.Disp = nil; ret.Sub = nil; …`)
  | ownrefs  -- `ret.Disp = &Display{…}; ret.Sub = []SubEl{…}`: the returned struct is pointed at new cells
deriving Repr, DecidableEq, Inhabited

def bumpX (s : SubEl) : SubEl := { s with x := s.x + 1 }
def bumpDW (d : Disp) : Disp := { d with w := d.w + 1 }
def bumpW (td : TypeDef) : TypeDef := { td with w := td.w + 1 }

/-- the definition a result gives access to -/
def resTD (h : Heap) : ResR → Option TypeDefR
  | .tdV r => some r
  | .tdP a => some (h.tdAt a)
  | _ => none

/-- what `own` leaves in the returned definition's cell (the values do not matter: nothing else refers to the cell) -/
def scribbled : TypeDefR := { v := { w := 7, desc := bytesOf "edited", ext := bytesOf "pos", render := bytesOf "x" } }

/-- `*p = f(*p)` on a definition cell as a whole, references included -/
def Heap.writeTDR (h : Heap) (a : Nat) (f : TypeDefR → TypeDefR) : Heap :=
  h.modify a (fun c => match c with | .td r => .td (f r) | c => c)

/-- the caller's writes to the struct it was handed.  `return &typeDef` hands out the address of a cell allocated by
the look-up (`tdP`): the write lands in that cell.  A definition returned by value (`tdV`) and the component copy
(`comp`, `return &r` of the loop variable) live in the caller's frame: no cell of the heap is written.  `fresh` = the
cells the caller allocates first (`ownrefs`). -/
def writeOwn (h : Heap) (res : ResR) (fresh : List Cell) (f : TypeDefR → TypeDefR) : Option Heap :=
  match res with
  | .tdP a => some ((h ++ fresh).writeTDR a f)
  | .tdV _ => some (h ++ fresh)
  | .comp _ => some (h ++ fresh)
  | _ => none

/-- the heap after the caller's write; `none` = nothing to write through (nil pointer / empty slice / no definition) -/
def writeVia (h : Heap) (res : ResR) : Via → Option Heap
  | .own => writeOwn h res [] (fun _ => scribbled)
  | .ownrefs =>
    writeOwn h res [.disp { w := 1, h := 2 }, .subs [{ objType := [114], x := 1 }]]
      (fun r => { r with dispP := some h.length, subP := some (h.length + 1) })
  | .sub =>
    match resTD h res with
    | some r => match r.subP with
      | some a => if (h.subsAt a).length > 0 then some (h.writeSub a 0 bumpX) else none
      | none => none
    | none => none
  | .disp =>
    match resTD h res with
    | some r => match r.dispP with
      | some a => some (h.writeDisp a bumpDW)
      | none => none
    | none => none
  | .ov =>
    match res with
    | .comp c => match c.ovP with
      | some a => some (h.writeTD a bumpW)
      | none => none
    | _ => none

/-- (there was something to write through, the topology's serialised form changed) -/
def aliasOutcome (h : Heap) (t : TopologyR) (res : ResR × Heap) (via : Via) : Bool × Bool :=
  match writeVia res.2 res.1 via with
  | none => (false, false)
  | some h' => (true, decide (serialise (absTopo h' t) ≠ serialise (absTopo h t)))

end RawPanelVerif.Topo.Alias
