import RawPanelVerif.Base.Bytes
/-! Model of `stripLineBreaks`, `stripLineBreaksSvg` (converterFunctions.go) and the line-feed flattening of
returned strings (`singleLine`, added by the `fix:` commit for C07). -/
namespace RawPanelVerif.Strip
open RawPanelVerif RawPanelVerif.Bytes

/-- `stripLineBreaks`: Split at "\n", TrimSpace each part, Join "" -/
def stripLineBreaks (s : Bytes) : Bytes := ((splitOn 10 s).map trimSpace).flatten

def endsWithGt (t : Bytes) : Bool := t.getLast? == some 62

/-- `stripLineBreaksSvg` (repaired: a part not ending in `>` gets one space appended) -/
def svgPart (p : Bytes) : Bytes := let t := trimSpace p; if endsWithGt t then t else t ++ [32]
def stripLineBreaksSvg (s : Bytes) : Bytes := ((splitOn 10 s).map svgPart).flatten

/-- the pinned tree *replaced* such a part by one space -/
def svgPartPinned (p : Bytes) : Bytes := let t := trimSpace p; if endsWithGt t then t else [32]
def stripLineBreaksSvgPinned (s : Bytes) : Bytes := ((splitOn 10 s).map svgPartPinned).flatten

/-- `strings.ReplaceAll(s, "\n", " ")` applied to every string the encoders return -/
def singleLine (s : Bytes) : Bytes := s.map (fun b => if b = 10 then 32 else b)

end RawPanelVerif.Strip
