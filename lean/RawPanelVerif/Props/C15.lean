import RawPanelVerif.Lemmas.SvgLemmas
import RawPanelVerif.Lemmas.SvgPrint
import RawPanelVerif.Lemmas.SvgShape
import RawPanelVerif.Lemmas.SvgXmldomWf
import RawPanelVerif.Lemmas.SvgXmldomMod
import RawPanelVerif.Model.SvgObs
/-!
# C15 — Composite panel SVG contains exactly the visible components, correctly placed

Property theorems only.  The statement is `Spec.Svg.checkSVG` (Spec/SvgSpec.lean, Spec/SvgBaseSpec.lean), the predicate
the check also evaluates on the element list the real `GenerateCompositeSVGdoc` appended to the base document, on the
text the real printer wrote for each element, and on five flags the harness observes on the real printed documents
(plus two per call: argument unchanged, call repeatable — `Spec.Svg.callOk`).
Everything is for **all** topologies (as in C13), all availability maps (nil, empty, any entries), all four render
switches, every rotation-format table, every token stream of the base document and **all byte strings** as labels,
styles and other texts.

What is proved (about the model, which the correspondence check ties to the code element by element, attribute by
attribute, printed byte by printed byte, and flag by flag)
* **What is added**
  * `svg_appended_holds`         the appended elements satisfy `Spec.Svg.checkAppended`: every one is well-formed as
                                 printed (`wf-names`, `wf-printed`) and they are exactly the groups of the visible
                                 components (`main`, `group`, `extra-nodes`, `missing-main`), including the rotation
                                 (`transform`) of main shape and sub-shapes and `rx`/`ry`/`style` of the sub-shapes.
  * `appended_wellformed`, `printed_wellformed_any_node`, `attr_names_distinct`  names, no attribute twice, and the
                                 printed text of ANY node is `<name a="v"… />` / `<name a="v"…>content</name>` with
                                 well-formed values and content.
  * `masked_contribute_nothing`, `ids_of_groups`, `one_main_shape_per_visible`, `main_shape_geometry`,
    `transform_present_iff`, `shape_rotation`, `label_count_le_two`, `label_count_pos`, `id_text_present`;
    `label_positions`, `label_spacing`, `text_transform` (what the property text leaves open but the code fixes).
* **Unparsable base**
  * `bad_svg_gives_empty`, `no_root_gives_empty`, `parse_root_iff_valid`, `valid_base_gives_document`  a base whose
                                 `encoding/xml` token stream ends in an error, is empty or has no start element ⇒ the
                                 parser result is `err` / `noRoot` and the result is `none`; a root is found exactly
                                 for the bases the decoder accepts; no panic (the model is total).
  * `rejected_valid_gives_empty` the same for a VALID document the decoder rejects (8-bit encoding, XML 1.1, internal
                                 entity; the harness's judgement `rej`): the predicate says `valid-base-rejected:<class>`.
* **The base document through the `go-xmldom` parse/print round trip** (Model/XmldomBase.lean, on `encoding/xml` token
  streams; `docShape [] false ts` = the stream is a document)
  * `kept_iff_no_lossy_feature`  the base printed back alone keeps its content (`Spec.SvgBase.keepsContent`) **iff** it
                                 has none of four features: a comment, a prefixed name, a processing instruction
                                 behind another token, character data that is not the last thing in its element.
  * `lossless_roundtrip`         … and then the printed token stream IS the base's content.
  * `kept_of_no_lossy_feature`   a base without these features is kept whatever elements are appended.
  * `comment_lost`, `prefix_lost`, `pi_lost`  with the feature the content is not kept, whatever is appended.
  * `mixed_text_lost`            the same for mixed text when nothing is appended; `mixed_text_kept_by_coincidence`:
                                 with an appended element the containment test can hold although text moved (a
                                 concrete witness; the exact guard is "nothing appended").
  * `kept_modulo_features`       **for EVERY document, whatever is appended**: after deleting from the base and from the
                                 printed document what the four features cover (`Spec.SvgBase.normal`: comments, prefixes,
                                 the processing instructions when one is not the first token, character data that is not
                                 last in its element) the rest of the base is, in order, within the rest of the printed
                                 document (`Spec.SvgBase.keepsContentMod`, the flag `keptMod`).  So a `keptMod = 0` on
                                 the implementation is a loss NO known finding explains: the Spec names it plain
                                 `base-content`, and checks it before the clauses that carry a feature name.
  * `wellformed_iff_no_attr_collision`, `attr_collision_needs_prefix`  the printed document has an attribute twice in a
                                 tag exactly when a tag of the base has two attributes with one local name, which
                                 needs prefixes (`href`, `xlink:href`).
* **The whole predicate**
  * `svg_verdict_is_observation`, `svg_holds`  for arbitrary observed flags: the verdict on the model's output is exactly
                                 the verdict on the flags (valid base), `valid-base-rejected:<class>` or "holds".
  * `svg_model_verdict`, `model_failure_is_classified`, `svg_model_holds_of_no_feature`  with the flags the model itself
                                 predicts (`Xmldom.modelObserved`, Model/SvgObs.lean): `not-wellformed:duplicate-attribute`
                                 / holds / `base-content:<feature>` — never the plain `base-content` / `wellformed`
                                 (those always mean code ≠ model), and "holds" for a document without the five features.
  * `extra_loss_not_hidden_by_known_finding`  whatever the features of the base and whatever the other flags say:
                                 `keptMod = 0` (with the tail printed) gives the plain `base-content`.
  * `model_call_ok`              the model is a function of its arguments: `argument-modified` / `not-repeatable` never
                                 hold of it (on the implementation both are observed per call, map compared with a deep copy).

Not proved: that the bytes `go-xmldom` prints re-tokenize to the modelled token stream (escaping / unescaping,
`<?target inst?>`, `<!directive>`); the flags `kept` (tree against tree) and `tail` are observed only.  The check
compares the model's `kept2` / `keptMod` / `wellformed` with the ones `encoding/xml` gives on the real documents on every record.

Known findings (known_findings.json, `C15.*`, status known): on the unchanged library the property is false for valid
bases with one of the five features and for the three rejected kinds; clause names as above.
-/
namespace RawPanelVerif.C15
open RawPanelVerif RawPanelVerif.Topo RawPanelVerif.Topo.Svg

/-- the model's output paired with the text the (modelled) printer writes for each element -/
def withPrinted (r : Option (List SvgNode)) : Option (List (SvgNode × Str)) :=
  r.map (fun l => l.map (fun n => (n, printNode n)))

/-! ## the parser result -/

theorem rootSet_eq (kinds : Str) (acc : Bool) :
    kinds.foldl (fun (seen : Bool) k => if k = 83 then true else seen) acc = (acc || kinds.contains 83) := by
  induction kinds generalizing acc with
  | nil => simp
  | cons k r ih =>
    simp only [List.foldl_cons, ih, List.contains_cons]
    by_cases h : k = 83
    · subst h; simp
    · have h' : ((83 : UInt8) == k) = false := beq_eq_false_iff_ne.mpr (fun e => h e.symm)
      simp [h, h']

/-- `xmldom.Parse` finds a root exactly when the base is valid in the Spec's sense (tokenizes to the end, has an element) -/
theorem parse_root_iff_valid (kinds : Str) (endOk : Bool) :
    parseXML kinds endOk = .root ↔ Spec.Svg.baseOk kinds endOk = true := by
  unfold parseXML Spec.Svg.baseOk
  cases kinds with
  | nil => simp
  | cons k r =>
    simp only [rootSet_eq, Bool.false_or]
    cases endOk <;> cases (k :: r).contains 83 <;> simp

/-- An unparsable base SVG yields an empty result: when the token stream of the base ends in an error, or is empty, or
contains no start element (only an XML declaration, comments, white space — `ParseXML` then returns `err == nil`
with `Root == nil`), the parser result is `err` or `noRoot` and nothing is returned, whatever the topology, map and
switches. -/
theorem bad_svg_gives_empty (rot : Str → RotInfo) (kinds : Str) (endOk : Bool) (o : SvgOpts) (t : Topology)
    (mask : Option (List (Nat × Nat))) (h : endOk = false ∨ (83 : UInt8) ∉ kinds) :
    (parseXML kinds endOk = .err ∨ parseXML kinds endOk = .noRoot) ∧
    compositeNodes rot kinds endOk o t mask = none := by
  have hb : Spec.Svg.baseOk kinds endOk = false := by
    unfold Spec.Svg.baseOk
    rcases h with h | h
    · simp [h]
    · simp [h]
  have hp : parseXML kinds endOk ≠ .root := by
    intro e
    rw [parse_root_iff_valid, hb] at e
    cases e
  unfold compositeNodes compositeNodesP
  cases hpr : parseXML kinds endOk with
  | err => exact ⟨Or.inl rfl, rfl⟩
  | noRoot => exact ⟨Or.inr rfl, rfl⟩
  | root => exact absurd hpr hp

/-- both non-root parser results (error; no error but `Root == nil`) give the empty result -/
theorem no_root_gives_empty (rot : Str → RotInfo) (o : SvgOpts) (t : Topology) (mask : Option (List (Nat × Nat))) :
    compositeNodesP rot .err o t mask = none ∧ compositeNodesP rot .noRoot o t mask = none := ⟨rfl, rfl⟩

theorem valid_base_gives_document (rot : Str → RotInfo) (kinds : Str) (endOk : Bool) (o : SvgOpts) (t : Topology)
    (mask : Option (List (Nat × Nat))) (h : Spec.Svg.baseOk kinds endOk = true) :
    compositeNodes rot kinds endOk o t mask = some (t.hwc.flatMap (componentNodes rot o t mask)) := by
  unfold compositeNodes compositeNodesP
  rw [(parse_root_iff_valid kinds endOk).mpr h]

/-! ## well-formedness of the appended part -/

/-- the text printed for ANY node — arbitrary bytes as attribute values and content — is accepted by the Spec's
recogniser: values are `AttValue` bodies, content is character data with references, valid UTF-8 of XML `Char`s -/
theorem printed_wellformed_any_node (n : SvgNode) : Spec.Svg.printedOk n (printNode n) = true :=
  printedOk_printNode n

theorem appended_wellformed (rot : Str → RotInfo) (kinds : Str) (endOk : Bool) (o : SvgOpts) (t : Topology)
    (mask : Option (List (Nat × Nat))) (nodes : List SvgNode) (h : compositeNodes rot kinds endOk o t mask = some nodes) :
    ∀ n ∈ nodes, Spec.Svg.appendedOk (n, printNode n) = none := by
  intro n hn
  have hg : Good n := by
    unfold compositeNodes compositeNodesP at h
    split at h
    · cases h
    · cases h
    · simp only [Option.some.injEq] at h
      subst h
      simp only [List.mem_flatMap] at hn
      obtain ⟨c, _, hc⟩ := hn
      exact good_componentNodes rot o t mask c n hc
  simp [Spec.Svg.appendedOk, shapeOk_of_good n hg, printedOk_printNode n]

/-- no attribute name twice, every name one of the 21 the generator uses, every element a rect, circle or text -/
theorem attr_names_distinct (rot : Str → RotInfo) (kinds : Str) (endOk : Bool) (o : SvgOpts) (t : Topology)
    (mask : Option (List (Nat × Nat))) (nodes : List SvgNode) (h : compositeNodes rot kinds endOk o t mask = some nodes) :
    ∀ n ∈ nodes, (n.attrs.map (·.1)).Nodup ∧ (∀ k ∈ n.attrs.map (·.1), k ∈ attrWhitelist) ∧
      (n.name = b "rect" ∨ n.name = b "circle" ∨ n.name = b "text") := by
  intro n hn
  unfold compositeNodes compositeNodesP at h
  split at h
  · cases h
  · cases h
  · simp only [Option.some.injEq] at h
    subst h
    simp only [List.mem_flatMap] at hn
    obtain ⟨c, _, hc⟩ := hn
    have hg := good_componentNodes rot o t mask c n hc
    exact ⟨hg.nodup, hg.wl, hg.name⟩

theorem firstErr_none (l : List SvgNode) (h : ∀ n ∈ l, Spec.Svg.appendedOk (n, printNode n) = none) :
    Spec.Svg.firstErr (l.map (fun n => (n, printNode n))) = none := by
  induction l with
  | nil => rfl
  | cons a r ih =>
    simp only [List.map_cons, Spec.Svg.firstErr, h a (List.mem_cons_self)]
    exact ih (fun n hn => h n (List.mem_cons_of_mem _ hn))

/-! ## the main statements -/

/-- the part of the property about what is ADDED holds of the model for all inputs: every appended element is
well-formed as printed, and the appended elements are exactly the groups of the visible components -/
theorem svg_appended_holds (rot : Str → RotInfo) (kinds : Str) (endOk : Bool) (o : SvgOpts) (t : Topology)
    (mask : Option (List (Nat × Nat))) (nodes : List SvgNode) (h : compositeNodes rot kinds endOk o t mask = some nodes) :
    Spec.Svg.checkAppended (fmtOf rot) o t mask (nodes.map (fun n => (n, printNode n))) = none := by
  unfold Spec.Svg.checkAppended
  rw [firstErr_none nodes (appended_wellformed rot kinds endOk o t mask nodes h)]
  simp only [List.map_map]
  have e : (nodes.map ((fun (x : SvgNode × Str) => x.1) ∘ fun n => (n, printNode n))) = nodes := by
    simp [Function.comp_def]
  rw [e]
  unfold compositeNodes compositeNodesP at h
  split at h
  · cases h
  · cases h
  · simp only [Option.some.injEq] at h
    subst h
    exact groups_ok rot o t mask t.hwc

/-- The verdict of the whole predicate on the model's output: for a valid base it is exactly the verdict on the
OBSERVED flags (printed tail, whole document re-parses, base content kept) — everything else is proved; for a base
the decoder does not accept the model returns nothing and the predicate holds, unless the base is one of the valid
documents the decoder rejects (`rej`): then the verdict is `valid-base-rejected:<class>`. -/
theorem svg_verdict_is_observation (rot : Str → RotInfo) (kinds : Str) (endOk : Bool) (ts : List Xml.Tok) (rej : Option String)
    (o : SvgOpts) (t : Topology) (mask : Option (List (Nat × Nat))) (ob : Spec.Svg.Observed) :
    Spec.Svg.checkSVG (fmtOf rot) o t mask kinds endOk ts rej (withPrinted (compositeNodes rot kinds endOk o t mask)) ob
      = if Spec.Svg.baseOk kinds endOk then Spec.Svg.observedOk (Spec.SvgBase.features ts) ob
        else rej.map (fun c => "valid-base-rejected:" ++ c) := by
  cases hb : Spec.Svg.baseOk kinds endOk with
  | false =>
    have hn : compositeNodes rot kinds endOk o t mask = none := by
      unfold compositeNodes compositeNodesP
      cases hp : parseXML kinds endOk with
      | err => rfl
      | noRoot => rfl
      | root => rw [parse_root_iff_valid, hb] at hp; cases hp
    simp [hn, withPrinted, Spec.Svg.checkSVG, hb]
  | true =>
    have hs := valid_base_gives_document rot kinds endOk o t mask hb
    have ha := svg_appended_holds rot kinds endOk o t mask _ hs
    rw [hs]
    simp only [withPrinted, Option.map_some, Spec.Svg.checkSVG, hb, Bool.not_true, Bool.false_eq_true, if_false, if_true]
    rw [ha]

theorem observedOk_none_iff (f : Spec.SvgBase.Features) (ob : Spec.Svg.Observed) :
    Spec.Svg.observedOk f ob = none ↔
      (ob.tail = true ∧ ob.wellformed = true ∧ ob.kept = true ∧ ob.kept2 = true ∧ ob.keptMod = true) := by
  obtain ⟨k, k2, km, w, tl⟩ := ob
  cases k <;> cases k2 <;> cases km <;> cases w <;> cases tl <;> simp [Spec.Svg.observedOk]

/-- **A loss the known findings do not explain is never hidden by one.**  Whatever features the base has and whatever
the flags `wellformed` / `kept2` say (they carry the feature names under which failures are known findings): when the
content modulo the features is not kept, the verdict on the flags is the plain `base-content`. -/
theorem extra_loss_not_hidden_by_known_finding (f : Spec.SvgBase.Features) (ob : Spec.Svg.Observed)
    (ht : ob.tail = true) (hm : ob.keptMod = false) : Spec.Svg.observedOk f ob = some "base-content" := by
  obtain ⟨k, k2, km, w, tl⟩ := ob
  simp only at ht hm
  subst ht hm
  cases k <;> simp [Spec.Svg.observedOk]

/-- the model is a function of its arguments and has no state: the per-call clauses hold of it -/
theorem model_call_ok : Spec.Svg.callOk Xmldom.modelCall = none := rfl

/-- with the observed flags good, the model's output satisfies every clause of the Spec (for a base that is not one of
the rejected valid documents) -/
theorem svg_holds (rot : Str → RotInfo) (kinds : Str) (endOk : Bool) (ts : List Xml.Tok) (o : SvgOpts) (t : Topology)
    (mask : Option (List (Nat × Nat))) (ob : Spec.Svg.Observed) (f : Spec.SvgBase.Features)
    (hob : Spec.Svg.observedOk f ob = none) :
    Spec.Svg.checkSVG (fmtOf rot) o t mask kinds endOk ts none (withPrinted (compositeNodes rot kinds endOk o t mask)) ob = none := by
  rw [svg_verdict_is_observation, (observedOk_none_iff _ ob).mpr ((observedOk_none_iff f ob).mp hob)]
  simp

theorem masked_contribute_nothing (rot : Str → RotInfo) (o : SvgOpts) (t : Topology) (mask : Option (List (Nat × Nat))) :
    (∀ c, Spec.Svg.visible mask c = false → componentNodes rot o t mask c = []) ∧
    compositeNodesP rot .root o t mask
      = some ((t.hwc.filter (Spec.Svg.visible mask)).flatMap (componentNodes rot o t none)) := by
  have h1 : ∀ c, Spec.Svg.visible mask c = false → componentNodes rot o t mask c = [] := by
    intro c hv
    have hm : masked mask c.id = true := by rw [visible_eq] at hv; simpa using hv
    simp [componentNodes, hm]
  refine ⟨h1, ?_⟩
  simp only [compositeNodesP, Option.some.injEq]
  induction t.hwc with
  | nil => rfl
  | cons c r ih =>
    simp only [List.flatMap_cons, List.filter_cons]
    by_cases hv : Spec.Svg.visible mask c = true
    · have hm : masked mask c.id = false := by rw [visible_eq] at hv; simpa using hv
      simp only [hv, if_true, List.flatMap_cons, ih]
      have hm0 : masked none c.id = false := rfl
      simp only [componentNodes, hm, hm0]
    · simp only [hv]
      rw [h1 c (by simpa using hv), List.nil_append]
      exact ih

/-- Spec-level consequence of the group check: the `id`-carrying elements are the main shapes, one per component -/
theorem ids_of_groups (fmt : Str → Str) (o : SvgOpts) (t : Topology) (cs : List HWc) (nodes : List SvgNode)
    (h : Spec.Svg.checkGroups fmt o t cs nodes = none) :
    (nodes.filter (fun n => (Spec.Svg.attr n "id").isSome)).map (fun n => Spec.Svg.attr n "id")
      = cs.map (fun c => some (Spec.Svg.bytes "HWc" ++ Spec.Svg.dec c.id)) := by
  induction cs generalizing nodes with
  | nil =>
    cases nodes with
    | nil => rfl
    | cons _ _ => simp [Spec.Svg.checkGroups] at h
  | cons c cs ih =>
    cases nodes with
    | nil => simp [Spec.Svg.checkGroups] at h
    | cons m rest =>
      simp only [Spec.Svg.checkGroups] at h
      split at h
      · cases h
      · rename_i hm
        split at h
        · cases h
        · rename_i hg
          simp only [Bool.not_eq_true, Bool.not_eq_false] at hm hg
          have hm' : Spec.Svg.mainOk fmt c (Spec.Topo.resolved t c) m = true := by
            cases hx : Spec.Svg.mainOk fmt c (Spec.Topo.resolved t c) m with
            | true => rfl
            | false => simp [hx] at hm
          have hg' : Spec.Svg.allOk fmt c (Spec.Topo.resolved t c) (Spec.Svg.slots o c (Spec.Topo.resolved t c))
              (rest.take (Spec.Svg.slots o c (Spec.Topo.resolved t c)).length) = true := by
            cases hx : Spec.Svg.allOk fmt c (Spec.Topo.resolved t c) (Spec.Svg.slots o c (Spec.Topo.resolved t c))
              (rest.take (Spec.Svg.slots o c (Spec.Topo.resolved t c)).length) with
            | true => rfl
            | false => simp [hx] at hg
          have hid : Spec.Svg.attr m "id" = some (Spec.Svg.bytes "HWc" ++ Spec.Svg.dec c.id) := by
            unfold Spec.Svg.mainOk at hm'
            simp only [Bool.and_eq_true, beq_iff_eq] at hm'
            exact hm'.1.1
          -- no element of the group carries an id
          have hnone : ∀ (sl : List Spec.Svg.Slot) (g : List SvgNode), Spec.Svg.allOk fmt c (Spec.Topo.resolved t c) sl g = true →
              g.filter (fun n => (Spec.Svg.attr n "id").isSome) = [] := by
            intro sl
            induction sl with
            | nil =>
              intro g hg
              cases g with
              | nil => rfl
              | cons _ _ => simp [Spec.Svg.allOk] at hg
            | cons s ss ihs =>
              intro g hg
              cases g with
              | nil => rfl
              | cons n ns =>
                simp only [Spec.Svg.allOk, Bool.and_eq_true] at hg
                have hn : Spec.Svg.attr n "id" = none := by
                  have := hg.1
                  cases s <;> simp only [Spec.Svg.slotOk, Bool.and_eq_true, beq_iff_eq] at this
                  · exact this.1.1.1.1.1.2
                  · exact this.1.1.1.1.2
                  · exact this.1.1.2
                  · exact this.2
                  · exact this.1.2
                simp [List.filter_cons, hn, ihs ns hg.2]
          have hsplit : rest = rest.take (Spec.Svg.slots o c (Spec.Topo.resolved t c)).length ++
              rest.drop (Spec.Svg.slots o c (Spec.Topo.resolved t c)).length := (List.take_append_drop _ _).symm
          rw [hsplit]
          simp only [List.filter_cons, hid, Option.isSome_some, if_true, List.filter_append, hnone _ _ hg',
            List.nil_append, List.map_cons]
          rw [ih _ h]

theorem one_main_shape_per_visible (rot : Str → RotInfo) (o : SvgOpts) (t : Topology) (mask : Option (List (Nat × Nat)))
    (nodes : List SvgNode) (h : compositeNodesP rot .root o t mask = some nodes) :
    (nodes.filter (fun n => (Spec.Svg.attr n "id").isSome)).map (fun n => Spec.Svg.attr n "id")
      = (t.hwc.filter (Spec.Svg.visible mask)).map (fun c => some (Spec.Svg.bytes "HWc" ++ Spec.Svg.dec c.id)) := by
  simp only [compositeNodesP, Option.some.injEq] at h
  subst h
  exact ids_of_groups (fmtOf rot) o t _ _ (groups_ok rot o t mask t.hwc)

theorem main_shape_geometry (rot : Str → RotInfo) (c : HWc) (td : TypeDef) :
    let m := mainShape rot c td
    Spec.Svg.attr m "id" = some (Spec.Svg.bytes "HWc" ++ Spec.Svg.dec c.id) ∧
    (td.h > 0 → m.name = Spec.Svg.bytes "rect" ∧ Spec.Svg.attr m "x" = some (Spec.Svg.dec (c.x - td.w.tdiv 2)) ∧
      Spec.Svg.attr m "y" = some (Spec.Svg.dec (c.y - td.h.tdiv 2)) ∧
      Spec.Svg.attr m "width" = some (Spec.Svg.dec td.w) ∧ Spec.Svg.attr m "height" = some (Spec.Svg.dec td.h)) ∧
    (¬ td.h > 0 → m.name = Spec.Svg.bytes "circle" ∧ Spec.Svg.attr m "cx" = some (Spec.Svg.dec c.x) ∧
      Spec.Svg.attr m "cy" = some (Spec.Svg.dec c.y) ∧ Spec.Svg.attr m "r" = some (Spec.Svg.dec (td.w.tdiv 2))) := by
  intro m
  have h := mainOk_mainShape rot c td
  unfold Spec.Svg.mainOk at h
  simp only [Bool.and_eq_true, beq_iff_eq] at h
  refine ⟨h.1.1, ?_, ?_⟩
  · intro hp
    have h2 := h.2
    simp only [hp, if_true, Bool.and_eq_true, beq_iff_eq] at h2
    exact ⟨h2.1.1.1.1, h2.1.1.1.2, h2.1.1.2, h2.1.2, h2.2⟩
  · intro hp
    have h2 := h.2
    simp only [hp, if_false, Bool.and_eq_true, beq_iff_eq] at h2
    exact ⟨h2.1.1.1, h2.1.1.2, h2.1.2, h2.2⟩

theorem label_count_le_two (rot : Str → RotInfo) (o : SvgOpts) (c : HWc) (td : TypeDef) (ro : List Str) :
    (labelNodes rot o c td ro).length ≤ 2 := by
  unfold labelNodes
  split
  · simp only [List.length_map, List.length_range]
    unfold labelCount
    split
    · split <;> omega
    · omega
  · simp

theorem label_count_pos (rot : Str → RotInfo) (o : SvgOpts) (c : HWc) (td : TypeDef) (ro : List Str)
    (h : (o.showLabels || isIn (b "txt") ro) = true) : 1 ≤ (labelNodes rot o c td ro).length := by
  unfold labelNodes
  simp only [h, if_true, List.length_map, List.length_range]
  unfold labelCount
  split
  · split <;> omega
  · omega

theorem id_text_present (rot : Str → RotInfo) (o : SvgOpts) (c : HWc) (td : TypeDef) (ro : List Str)
    (h : (o.showHWCID || isIn (b "hwcid") ro) = true) :
    ∃ n, idNode rot o c td ro = [n] ∧ n.name = b "text" ∧ n.text = natLit c.id := by
  unfold idNode
  simp only [h, if_true]
  refine ⟨_, rfl, ?_, rfl⟩
  split <;> simp [setAttrs_cons, setAttrs_nil, name_setAttr, name_withRotate]

/-! ## rotation and the optional attributes of the shapes (clauses `main`, `group` of the Spec, spelled out) -/

/-- a shape carries a `transform` exactly when the resolved rotation is not zero (neither `0` nor `-0`) -/
theorem transform_present_iff (fmt : Str → Str) (c : HWc) (td : TypeDef) :
    (Spec.Svg.wantTransform fmt c td).isSome = !rotIsZero td.rotate := by
  unfold Spec.Svg.wantTransform
  cases rotIsZero td.rotate <;> rfl

theorem shape_rotation (rot : Str → RotInfo) (c : HWc) (td : TypeDef) :
    Spec.Svg.attr (mainShape rot c td) "transform" = Spec.Svg.wantTransform (fmtOf rot) c td ∧
    ∀ s, ∀ n ∈ subShapes rot c td s,
      Spec.Svg.attr n "transform" = Spec.Svg.wantTransform (fmtOf rot) c td ∧
      Spec.Svg.attr n "rx" = Spec.Svg.wantInt s.rx ∧ Spec.Svg.attr n "ry" = Spec.Svg.wantInt s.ry ∧
      Spec.Svg.attr n "style" = Spec.Svg.wantStr s.style := by
  constructor
  · have h := mainOk_mainShape rot c td
    unfold Spec.Svg.mainOk at h
    simp only [Bool.and_eq_true, beq_iff_eq] at h
    exact h.1.2
  · intro s n hn
    unfold subShapes at hn
    simp only [List.mem_append] at hn
    rcases hn with hn | hn
    · split at hn
      · simp only [List.mem_cons, List.not_mem_nil, or_false] at hn
        subst hn
        have h := subRect_ok rot c td s
        simp only [Spec.Svg.slotOk, Spec.Svg.subExtraOk, Bool.and_eq_true, beq_iff_eq] at h
        exact ⟨h.2.1.1.1, h.2.1.1.2, h.2.1.2, h.2.2⟩
      · simp at hn
    · split at hn
      · simp only [List.mem_cons, List.not_mem_nil, or_false] at hn
        subst hn
        have h := subCircle_ok rot c td s
        simp only [Spec.Svg.slotOk, Spec.Svg.subExtraOk, Bool.and_eq_true, beq_iff_eq] at h
        exact ⟨h.2.1.1.1, h.2.1.1.2, h.2.1.2, h.2.2⟩
      · simp at hn

/-! ## what the property text leaves open and the code fixes: label positions, rotation of the texts -/

theorem labelNode_xy (rot : Str → RotInfo) (o : SvgOpts) (c : HWc) (td : TypeDef) (ro : List Str) (cnt a : Nat) (txt : Str) :
    Spec.Svg.attr (labelNode rot o c td ro cnt a txt) "x" = some (Spec.Svg.dec c.x) ∧
    Spec.Svg.attr (labelNode rot o c td ro cnt a txt) "y"
      = some (Spec.Svg.dec (c.y + 27 + (a : Int) * 30 - ((cnt : Int) * 30).tdiv 2)) := by
  unfold labelNode
  simp only [dec_eq_itoa]
  split
  · split <;>
    simp (config := { decide := true }) [setAttrs_cons, setAttrs_nil, attr_setAttr, attr_empty, attr_mk]
  · simp (config := { decide := true }) [setAttrs_cons, setAttrs_nil, attr_setAttr, attr_withRotate, attr_empty, attr_mk]

theorem labelNodes_get (rot : Str → RotInfo) (o : SvgOpts) (c : HWc) (td : TypeDef) (ro : List Str) (a : Nat) (n : SvgNode)
    (h : (labelNodes rot o c td ro)[a]? = some n) :
    ∃ txt, n = labelNode rot o c td ro (labelNodes rot o c td ro).length a txt := by
  unfold labelNodes at h ⊢
  split
  · rename_i hc
    simp only [hc, if_true, List.getElem?_map, Option.map_eq_some_iff] at h
    obtain ⟨a', ha', rfl⟩ := h
    obtain ⟨_, hget⟩ := List.getElem?_eq_some_iff.mp ha'
    simp only [List.getElem_range] at hget
    subst hget
    refine ⟨(splitOn 124 c.txt).getD a [], ?_⟩
    simp
  · rename_i hc
    simp [hc] at h

/-- label line `a` (counted from 0) of a component sits at x = X and y = Y + 27 + 30·a − (cnt·30)/2, `cnt` = the number
of label lines of the component (1 or 2) and `/` Go's integer division -/
theorem label_positions (rot : Str → RotInfo) (o : SvgOpts) (c : HWc) (td : TypeDef) (ro : List Str) (a : Nat) (n : SvgNode)
    (h : (labelNodes rot o c td ro)[a]? = some n) :
    Spec.Svg.attr n "x" = some (Spec.Svg.dec c.x) ∧
    Spec.Svg.attr n "y"
      = some (Spec.Svg.dec (c.y + 27 + (a : Int) * 30 - (((labelNodes rot o c td ro).length : Int) * 30).tdiv 2)) := by
  obtain ⟨txt, rfl⟩ := labelNodes_get rot o c td ro a n h
  exact labelNode_xy rot o c td ro _ a txt

/-- consecutive label lines are 30 apart -/
theorem label_spacing (rot : Str → RotInfo) (o : SvgOpts) (c : HWc) (td : TypeDef) (ro : List Str) (a : Nat) (n n' : SvgNode)
    (h : (labelNodes rot o c td ro)[a]? = some n) (h' : (labelNodes rot o c td ro)[a + 1]? = some n') :
    ∃ y : Int, Spec.Svg.attr n "y" = some (Spec.Svg.dec y) ∧ Spec.Svg.attr n' "y" = some (Spec.Svg.dec (y + 30)) := by
  refine ⟨_, (label_positions rot o c td ro a n h).2, ?_⟩
  rw [(label_positions rot o c td ro (a + 1) n' h').2]
  congr 2
  generalize (((labelNodes rot o c td ro).length : Int) * 30).tdiv 2 = k
  omega

/-- the id / type / display-size texts rotate with the component; a label line rotates with it too, by 90° more when
the resolved type is taller than twice its width (and not at all when that sum is zero) -/
theorem text_transform (rot : Str → RotInfo) (o : SvgOpts) (c : HWc) (td : TypeDef) (ro : List Str) :
    (∀ n ∈ idNode rot o c td ro ++ typeNode rot o c td ++ dispSizeNode rot o c td,
      Spec.Svg.attr n "transform" = Spec.Svg.wantTransform (fmtOf rot) c td) ∧
    (∀ cnt a txt, Spec.Svg.attr (labelNode rot o c td ro cnt a txt) "transform"
      = if td.h > td.w * 2 then (if (rot td.rotate).zero90 then none else some (rotateStr (rot td.rotate).fmt90 c))
        else Spec.Svg.wantTransform (fmtOf rot) c td) := by
  constructor
  · intro n hn
    simp only [List.mem_append] at hn
    rcases hn with (hn | hn) | hn
    · unfold idNode at hn
      split at hn
      · simp only [List.mem_cons, List.not_mem_nil, or_false] at hn
        subst hn
        rw [attr_mk]
        apply transform_fresh
        split <;> simp (config := { decide := true }) [setAttrs_cons, setAttrs_nil, attr_setAttr, attr_empty]
      · simp at hn
    · unfold typeNode at hn
      split at hn
      · simp only [List.mem_cons, List.not_mem_nil, or_false] at hn
        subst hn
        rw [attr_mk]
        apply transform_fresh
        simp (config := { decide := true }) [setAttrs_cons, setAttrs_nil, attr_setAttr, attr_empty]
      · simp at hn
    · unfold dispSizeNode at hn
      split at hn
      · simp at hn
      · split at hn
        · simp only [List.mem_cons, List.not_mem_nil, or_false] at hn
          subst hn
          rw [attr_mk]
          apply transform_fresh
          simp (config := { decide := true }) [setAttrs_cons, setAttrs_nil, attr_setAttr, attr_empty]
        · simp at hn
  · intro cnt a txt
    unfold labelNode
    simp only [attr_mk]
    split
    · split
      · simp (config := { decide := true }) [setAttrs_cons, setAttrs_nil, attr_setAttr, attr_empty]
      · simp (config := { decide := true }) [setAttrs_cons, setAttrs_nil, attr_setAttr, attr_empty, bytes_eq]
    · apply transform_fresh
      simp (config := { decide := true }) [setAttrs_cons, setAttrs_nil, attr_setAttr, attr_empty]

/-! ## the base document through the `go-xmldom` round trip (`Model/XmldomBase.lean`): what is lost when

`ts` is the token stream of the base as `encoding/xml` delivers it, `Xmldom.printedToks app ts` the token stream of the
printed document with the tokens `app` of the appended elements, `Spec.SvgBase.keepsContent` / `noDupAttrs` the
Spec's "keeps the base document's content" / "no attribute twice" on token streams.  `docShape [] false ts` says that
`ts` is a document: matching tags (which `Decoder.Token` enforces), one top-level element, no character data outside
it, directives only before it (which it does not enforce). -/

open RawPanelVerif.Xml in
/-- **What exactly is lost.**  The base document printed back alone (nothing appended) keeps its content **iff** it has
none of the four lossy features: no comment, no prefixed name, no processing instruction behind another token, no
character data that is not the last thing in its element. -/
theorem kept_iff_no_lossy_feature (ts : List Tok) (hd : Spec.SvgBase.docShape [] false ts = true) :
    Spec.SvgBase.keepsContent ts (Xmldom.printedToks [] ts) = true ↔ Spec.SvgBase.lossFree ts = true :=
  ⟨Xmldom.lossFree_of_kept_nil ts hd, fun h => Xmldom.kept_of_lossFree [] ts hd h⟩

open RawPanelVerif.Xml in
/-- … and then the printed document IS the content of the base, token for token -/
theorem lossless_roundtrip (ts : List Tok) (hd : Spec.SvgBase.docShape [] false ts = true)
    (h : Spec.SvgBase.lossFree ts = true) : Xmldom.printedToks [] ts = Spec.SvgBase.content ts :=
  Xmldom.printed_nil_of_lossFree ts hd h

open RawPanelVerif.Xml in
/-- a base without lossy features is kept whatever elements are appended to its root -/
theorem kept_of_no_lossy_feature (nodes : List SvgNode) (ts : List Tok) (hd : Spec.SvgBase.docShape [] false ts = true)
    (h : Spec.SvgBase.lossFree ts = true) : (Xmldom.modelObserved nodes ts).kept2 = true :=
  Xmldom.kept_of_lossFree _ ts hd h

open RawPanelVerif.Xml in
/-- a comment anywhere in the base: content lost, whatever is appended (the parser ignores comment tokens) -/
theorem comment_lost (nodes : List SvgNode) (ts : List Tok) (h : Spec.SvgBase.hasComment ts = true) :
    (Xmldom.modelObserved nodes ts).kept2 = false :=
  Xmldom.comment_not_kept _ ts (Xmldom.appToks_plain nodes) h

open RawPanelVerif.Xml in
/-- a name written with a prefix (element or attribute, also `xmlns:p`): content lost (only `Name.Local` is stored) -/
theorem prefix_lost (nodes : List SvgNode) (ts : List Tok) (h : Spec.SvgBase.hasPrefix ts = true) :
    (Xmldom.modelObserved nodes ts).kept2 = false :=
  Xmldom.prefix_not_kept _ ts (Xmldom.appToks_plain nodes) h

open RawPanelVerif.Xml in
/-- a processing instruction that is not the first token of the document: content lost (one `ProcInst`, printed first) -/
theorem pi_lost (nodes : List SvgNode) (ts : List Tok) (h : Spec.SvgBase.piMoved ts = true) :
    (Xmldom.modelObserved nodes ts).kept2 = false :=
  Xmldom.pi_not_kept _ ts (Xmldom.appToks_plain nodes) h

open RawPanelVerif.Xml in
/-- **Content kept modulo the named features** — for every document and whatever elements are appended: what remains of
the base after deleting what the four features cover is, in order, within what remains of the modelled printed document.
The harness computes the same flag with `encoding/xml` on the real documents; a `0` there is a loss no known finding
explains. -/
theorem kept_modulo_features (nodes : List SvgNode) (ts : List Tok) (hd : Spec.SvgBase.docShape [] false ts = true) :
    (Xmldom.modelObserved nodes ts).keptMod = true :=
  Xmldom.keptMod_of_doc _ ts (Xmldom.appToks_plain nodes) (Xmldom.appToks_textsClosed nodes) hd

open RawPanelVerif.Xml in
/-- character data that is not the last thing in its element: lost or moved behind the children — when nothing is
appended.  With appended elements the statement is false in general, see `mixed_text_kept_by_coincidence`. -/
theorem mixed_text_lost (ts : List Tok) (hd : Spec.SvgBase.docShape [] false ts = true) (h : Spec.SvgBase.mixedText ts = true) :
    (Xmldom.modelObserved [] ts).kept2 = false := by
  cases hk : (Xmldom.modelObserved [] ts).kept2 with
  | false => rfl
  | true =>
    have := (kept_iff_no_lossy_feature ts hd).mp hk
    simp [Spec.SvgBase.lossFree, h] at this

/-- `<svg>7<text>7</text></svg>` with one appended `<text>7</text>`: the moved text `7` and the appended element
together contain the base's tokens in order — the containment test cannot see the move.  (The generator never
appends an element without attributes; the guard of `mixed_text_lost` is "nothing appended".) -/
theorem mixed_text_kept_by_coincidence :
    let ts : List Xml.Tok := [.start [] (b "svg") [], .text (b "7"), .start [] (b "text") [], .text (b "7"), .stop [] (b "text"),
      .stop [] (b "svg")]
    Spec.SvgBase.docShape [] false ts = true ∧ Spec.SvgBase.mixedText ts = true ∧
    (Xmldom.modelObserved [{ name := b "text", text := b "7" }] ts).kept2 = true := by decide

open RawPanelVerif.Xml in
/-- **Well-formedness of the whole printed document** as far as a printed tree can violate it: an attribute name occurs
twice in a start tag exactly when a start tag of the base has two attributes with the same local name (`href` and
`xlink:href`): the appended elements never contribute (`attr_names_distinct`). -/
theorem wellformed_iff_no_attr_collision (rot : Str → RotInfo) (kinds : Str) (endOk : Bool) (o : SvgOpts) (t : Topology)
    (mask : Option (List (Nat × Nat))) (nodes : List SvgNode) (h : compositeNodes rot kinds endOk o t mask = some nodes)
    (ts : List Tok) (hd : Spec.SvgBase.docShape [] false ts = true) :
    (Xmldom.modelObserved nodes ts).wellformed = !Spec.SvgBase.attrCollision ts := by
  have hn : Spec.SvgBase.noDupAttrs (Xmldom.appToks nodes) = true :=
    Xmldom.noDupAttrs_appToks nodes (fun n hn => (attr_names_distinct rot kinds endOk o t mask nodes h n hn).1)
  simp only [Xmldom.modelObserved, Xmldom.noDupAttrs_printed _ ts hd, hn, Bool.true_and]

open RawPanelVerif.Xml in
/-- a collision needs a prefix: without prefixes the base's own attribute names (distinct as written) stay distinct -/
theorem attr_collision_needs_prefix (ts : List Tok) (hx : Spec.SvgBase.XmlDoc ts = true) (hp : Spec.SvgBase.hasPrefix ts = false) :
    Spec.SvgBase.attrCollision ts = false := by
  simp only [Spec.SvgBase.XmlDoc, Bool.and_eq_true] at hx
  have hnd := hx.2
  clear hx
  induction ts with
  | nil => rfl
  | cons tk r ih =>
    simp only [Spec.SvgBase.hasPrefix, List.any_cons, Bool.or_eq_false_iff] at hp
    simp only [Spec.SvgBase.noDupAttrs, List.all_cons, Bool.and_eq_true] at hnd
    simp only [Spec.SvgBase.attrCollision, List.any_cons, Bool.or_eq_false_iff]
    refine ⟨?_, ih hp.2 hnd.2⟩
    cases tk with
    | start p l as =>
      have h1 := hnd.1
      have h2 := hp.1
      simp only [Spec.SvgBase.prefixed, Bool.or_eq_false_iff, Bool.not_eq_false', List.isEmpty_iff] at h2
      simp only [Spec.SvgBase.dupLocal, Spec.SvgBase.attrNames, Bool.not_eq_false'] at h1 ⊢
      have e : as.map (fun a => (a.1, a.2.1)) = as.map (fun a => (([] : Str), a.2.1)) := by
        apply List.map_congr_left
        intro a ha
        have hne := List.any_eq_false.mp h2.2 a ha
        have : a.1 = [] := by
          cases h : a.1 with
          | nil => rfl
          | cons _ _ => simp [h] at hne
        rw [this]
      rw [e, Xmldom.distinctP_pair (fun (a : Str × Str × Str) => a.2.1) as] at h1
      exact h1
    | _ => rfl

open RawPanelVerif.Xml in
/-- **The model's verdict on a valid base document.**  With the flags the model itself predicts, the whole predicate
says of the model's output: `not-wellformed:duplicate-attribute` when two attributes of a base tag share a local name,
else nothing when the (modelled) printed document keeps the base's content, else `base-content:<feature>`. -/
theorem svg_model_verdict (rot : Str → RotInfo) (kinds : Str) (endOk : Bool) (o : SvgOpts) (t : Topology)
    (mask : Option (List (Nat × Nat))) (nodes : List SvgNode) (h : compositeNodes rot kinds endOk o t mask = some nodes)
    (ts : List Tok) (hd : Spec.SvgBase.docShape [] false ts = true) :
    Spec.Svg.checkSVG (fmtOf rot) o t mask kinds endOk ts none (withPrinted (compositeNodes rot kinds endOk o t mask))
        (Xmldom.modelObserved nodes ts)
      = if Spec.SvgBase.attrCollision ts then some "not-wellformed:duplicate-attribute"
        else if (Xmldom.modelObserved nodes ts).kept2 then none
        else some (Spec.SvgBase.contentClause (Spec.SvgBase.features ts)) := by
  have hb : Spec.Svg.baseOk kinds endOk = true := by
    cases hb : Spec.Svg.baseOk kinds endOk with
    | true => rfl
    | false =>
      have := (bad_svg_gives_empty rot kinds endOk o t mask (by
        unfold Spec.Svg.baseOk at hb
        cases endOk with
        | false => exact Or.inl rfl
        | true => right; simpa using hb)).2
      rw [this] at h; cases h
  rw [svg_verdict_is_observation, hb, if_pos rfl]
  have hw := wellformed_iff_no_attr_collision rot kinds endOk o t mask nodes h ts hd
  unfold Spec.Svg.observedOk
  rw [hw]
  have hk : (Xmldom.modelObserved nodes ts).kept = true := rfl
  have ht : (Xmldom.modelObserved nodes ts).tail = true := rfl
  rw [hk, ht, kept_modulo_features nodes ts hd]
  cases hc : Spec.SvgBase.attrCollision ts with
  | true => simp [Spec.SvgBase.wellformedClause, Spec.SvgBase.features, hc]
  | false => cases (Xmldom.modelObserved nodes ts).kept2 <;> simp

open RawPanelVerif.Xml in
/-- **Every failure the model predicts is one of the known classes**: on a document (`XmlDoc`) the verdict on the
model's output is "holds" or one of the five clause names that carry a feature of the base — never the plain
`base-content` / `wellformed`, which therefore always mean that the code differs from the model. -/
theorem model_failure_is_classified (rot : Str → RotInfo) (kinds : Str) (endOk : Bool) (o : SvgOpts) (t : Topology)
    (mask : Option (List (Nat × Nat))) (nodes : List SvgNode) (h : compositeNodes rot kinds endOk o t mask = some nodes)
    (ts : List Tok) (hx : Spec.SvgBase.XmlDoc ts = true) :
    Spec.Svg.checkSVG (fmtOf rot) o t mask kinds endOk ts none (withPrinted (compositeNodes rot kinds endOk o t mask))
        (Xmldom.modelObserved nodes ts)
      ∈ [none, some "not-wellformed:duplicate-attribute", some "base-content:comment", some "base-content:mixed-text",
         some "base-content:ns-prefix", some "base-content:pi"] := by
  have hd : Spec.SvgBase.docShape [] false ts = true := by
    simp only [Spec.SvgBase.XmlDoc, Bool.and_eq_true] at hx; exact hx.1
  rw [svg_model_verdict rot kinds endOk o t mask nodes h ts hd]
  cases hc : Spec.SvgBase.attrCollision ts with
  | true => simp
  | false =>
    cases hk : (Xmldom.modelObserved nodes ts).kept2 with
    | true => simp
    | false =>
      have hl : Spec.SvgBase.lossFree ts = false := by
        cases hl : Spec.SvgBase.lossFree ts with
        | false => rfl
        | true => rw [kept_of_no_lossy_feature nodes ts hd hl] at hk; cases hk
      simp only [Spec.SvgBase.lossFree] at hl
      simp only [Spec.SvgBase.contentClause, Spec.SvgBase.features, Bool.false_eq_true, if_false]
      by_cases h1 : Spec.SvgBase.hasComment ts = true
      · simp [h1]
      · by_cases h2 : Spec.SvgBase.mixedText ts = true
        · simp [h1, h2]
        · by_cases h3 : Spec.SvgBase.hasPrefix ts = true
          · simp [h1, h2, h3]
          · by_cases h4 : Spec.SvgBase.piMoved ts = true
            · simp [h1, h2, h3, h4]
            · simp_all

open RawPanelVerif.Xml in
/-- a document without any of the five features: the model's output satisfies the whole predicate -/
theorem svg_model_holds_of_no_feature (rot : Str → RotInfo) (kinds : Str) (endOk : Bool) (o : SvgOpts) (t : Topology)
    (mask : Option (List (Nat × Nat))) (nodes : List SvgNode) (h : compositeNodes rot kinds endOk o t mask = some nodes)
    (ts : List Tok) (hd : Spec.SvgBase.docShape [] false ts = true) (hl : Spec.SvgBase.lossFree ts = true)
    (hc : Spec.SvgBase.attrCollision ts = false) :
    Spec.Svg.checkSVG (fmtOf rot) o t mask kinds endOk ts none (withPrinted (compositeNodes rot kinds endOk o t mask))
        (Xmldom.modelObserved nodes ts) = none := by
  rw [svg_model_verdict rot kinds endOk o t mask nodes h ts hd, hc, kept_of_no_lossy_feature nodes ts hd hl]
  simp

/-- A valid document that the decoder rejects (`endOk = false`; the harness's class `c`: encoding, version, entity):
the model returns nothing, as `bad_svg_gives_empty` says, and the predicate names the class. -/
theorem rejected_valid_gives_empty (rot : Str → RotInfo) (kinds : Str) (ts : List Xml.Tok) (c : String) (o : SvgOpts)
    (t : Topology) (mask : Option (List (Nat × Nat))) (ob : Spec.Svg.Observed) :
    compositeNodes rot kinds false o t mask = none ∧
    Spec.Svg.checkSVG (fmtOf rot) o t mask kinds false ts (some c) (withPrinted (compositeNodes rot kinds false o t mask)) ob
      = some ("valid-base-rejected:" ++ c) := by
  have h := (bad_svg_gives_empty rot kinds false o t mask (Or.inl rfl)).2
  refine ⟨h, ?_⟩
  rw [svg_verdict_is_observation]
  simp [Spec.Svg.baseOk]

/-! ## non-vacuity -/

def exRot : Str → RotInfo := fun tk =>
  if tk = [57, 48] then { fmt := b "90.000000", fmt90 := b "180.000000", zero90 := false }
  else if tk = [45, 48] then { fmt := b "-0.000000", fmt90 := b "90.000000", zero90 := false }
  else { fmt := b "0.000000", fmt90 := b "90.000000", zero90 := false }
def exO : SvgOpts := { showLabels := true, showHWCID := true, showType := false, showDisplaySize := false }
def exT : Topology :=
  { ti := [(1, { w := 100, h := 60, sub := [{ objType := [114], x := -5, y := -6, w := 10, h := 12, rx := 3, style := b "a\"<" },
                                             { objType := [100] }] }),
           (2, { w := 80, rotate := [57, 48] }), (3, { w := 10, h := 30, rotate := [45, 48] })],
    hwc := [{ id := 1, x := 500, y := 300, txt := b "A|B", type := 1 }, { id := 2, x := 900, y := 300, txt := b "Knob", type := 2 },
            { id := 3, x := 0, y := 0, type := 1 }, { id := 4, x := 7, y := 8, txt := b "<&>", type := 3 }] }
def obOk : Spec.Svg.Observed := { kept := true, kept2 := true, keptMod := true, wellformed := true, tail := true }
/-- token kinds of `<?xml …?>\n<svg></svg>`: P W S E -/
def exKinds : Str := b "PWSE"
def exToks : List Xml.Tok := [.pi (b "xml") (b "version=\"1.0\""), .text [], .start [] (b "svg") [], .stop [] (b "svg")]
example : exToks.map Xml.kindOf = exKinds := by decide

/-- component 1: rect at (450,270) 100x60, one sub rect, two label lines, id text; component 2 masked out; 3, 4 visible -/
example : (compositeNodes exRot exKinds true exO exT (some [(1, 1), (2, 0), (3, 7), (4, 1)])).map (fun l => l.map (fun n => (n.name, n.text)))
    = some [(b "rect", []), (b "rect", []), (b "text", b "A"), (b "text", b "B"), (b "text", b "1"),
            (b "rect", []), (b "rect", []), (b "text", []), (b "text", b "3"),
            (b "rect", []), (b "text", b "<&>"), (b "text", b "4")] := by decide
example : ((compositeNodes exRot exKinds true exO exT none).getD []).length = 15 := by decide
example : Spec.Svg.attr (mainShape exRot exT.hwc[0] (Spec.Topo.resolved exT exT.hwc[0])) "x" = some (b "450") := by decide
example : (mainShape exRot exT.hwc[1] (Spec.Topo.resolved exT exT.hwc[1])).attrs
    = [(b "cx", b "900"), (b "cy", b "300"), (b "r", b "40"), (b "transform", b "rotate(90.000000 900 300)"),
       (b "fill", b "#dddddd"), (b "stroke", b "#000"), (b "stroke-width", b "2"), (b "id", b "HWc2")] := by decide
/-- rotation `-0` is zero: no transform on the main shape (the label of this tall type is turned by 90°) -/
example : Spec.Svg.attr (mainShape exRot exT.hwc[3] (Spec.Topo.resolved exT exT.hwc[3])) "transform" = none := by decide
example : Spec.Svg.attr (labelNode exRot exO exT.hwc[3] (Spec.Topo.resolved exT exT.hwc[3]) [] 1 0 []) "transform"
    = some (b "rotate(90.000000 7 8)") := by decide
example : Spec.Svg.wantTransform (fmtOf exRot) exT.hwc[1] (Spec.Topo.resolved exT exT.hwc[1])
    = some (b "rotate(90.000000 900 300)") := by decide
/-- the sub rect of component 1 carries rx and style, no ry -/
example : ((subShapes exRot exT.hwc[0] (Spec.Topo.resolved exT exT.hwc[0]) ((Spec.Topo.resolved exT exT.hwc[0]).sub.getD 0 {})).map
      (fun n => (Spec.Svg.attr n "rx", Spec.Svg.attr n "ry", Spec.Svg.attr n "style")))
    = [(some (b "3"), none, some (b "a\"<"))] := by decide
/-- label positions: two lines at Y−3 and Y+27, one line at Y+12 -/
example : ((labelNodes exRot exO exT.hwc[0] (Spec.Topo.resolved exT exT.hwc[0]) []).map (fun n => Spec.Svg.attr n "y"))
    = [some (b "297"), some (b "327")] := by decide
example : ((labelNodes exRot exO exT.hwc[1] (Spec.Topo.resolved exT exT.hwc[1]) []).map (fun n => Spec.Svg.attr n "y"))
    = [some (b "312")] := by decide

/-- the printer: escapes, U+FFFD for a control byte / invalid UTF-8 / U+FFFE, valid UTF-8 copied -/
example : printNode { name := b "text", attrs := [(b "style", b "a\"<'")], text := [1, 0xC3, 0xA6, 0xFF, 38, 62, 0xEF, 0xBF, 0xBE, 9] }
    = b "<text style=\"a&#34;&lt;&#39;\">" ++ [0xEF, 0xBF, 0xBD, 0xC3, 0xA6, 0xEF, 0xBF, 0xBD] ++ b "&amp;&gt;" ++
      [0xEF, 0xBF, 0xBD] ++ b "&#x9;</text>" := by decide
example : printNode { name := b "rect", attrs := [(b "x", b "1")] } = b "<rect x=\"1\" />" := by decide
example : Spec.Svg.printedOk { name := b "rect", attrs := [(b "x", b "1")] } (b "<rect x=\"1\" />") = true := by decide
/-- the recogniser rejects: raw `<` / raw `&` / `]]>` in content, raw `<` or a stray quote in a value, a control
character, invalid UTF-8, U+FFFE, an unknown entity, a character reference to a non-Char, a wrong end tag -/
example : Spec.Svg.printedOk { name := b "text", text := b "a<b" } (b "<text>a<b</text>") = false := by decide
example : Spec.Svg.printedOk { name := b "text", text := b "a&b" } (b "<text>a&b</text>") = false := by decide
example : Spec.Svg.printedOk { name := b "text", text := b "a]]>b" } (b "<text>a]]>b</text>") = false := by decide
example : Spec.Svg.printedOk { name := b "text", text := b "a]]&gt;b" } (b "<text>a]]&gt;b</text>") = true := by decide
example : Spec.Svg.printedOk { name := b "rect", attrs := [(b "style", b "a<")] } (b "<rect style=\"a<\" />") = false := by decide
example : Spec.Svg.printedOk { name := b "rect", attrs := [(b "style", b "a\"b")] } (b "<rect style=\"a\"b\" />") = false := by decide
example : Spec.Svg.printedOk { name := b "text", text := [1] } (b "<text>" ++ [1] ++ b "</text>") = false := by decide
example : Spec.Svg.printedOk { name := b "text", text := [0xFF] } (b "<text>" ++ [0xFF] ++ b "</text>") = false := by decide
example : Spec.Svg.printedOk { name := b "text", text := [0xEF, 0xBF, 0xBE] } (b "<text>" ++ [0xEF, 0xBF, 0xBE] ++ b "</text>") = false := by decide
example : Spec.Svg.printedOk { name := b "text", text := [0xEF, 0xBF, 0xBD] } (b "<text>" ++ [0xEF, 0xBF, 0xBD] ++ b "</text>") = true := by decide
example : Spec.Svg.printedOk { name := b "text", text := b "x" } (b "<text>&nbsp;</text>") = false := by decide
example : Spec.Svg.printedOk { name := b "text", text := b "x" } (b "<text>&#0;</text>") = false := by decide
example : Spec.Svg.printedOk { name := b "text", text := b "x" } (b "<text>&#xE6;&quot;</text>") = true := by decide
example : Spec.Svg.printedOk { name := b "text", text := b "x" } (b "<text>x</tex>") = false := by decide
/-- … and nodes with an attribute twice, a bad attribute name, an element that is none of rect / circle / text -/
example : Spec.Svg.shapeOk { name := b "rect", attrs := [(b "rx", b "1"), (b "x", b "2"), (b "rx", b "1")] } = false := by decide
example : Spec.Svg.shapeOk { name := b "rect", attrs := [(b "a b", b "1")] } = false := by decide
example : Spec.Svg.shapeOk { name := b "g" } = false := by decide
example : Spec.Svg.shapeOk { name := b "rect", attrs := [(b "rx", b "1"), (b "x", b "2")] } = true := by decide

/-! ### the base document through the round trip: one document per class -/
section BaseDocs
open RawPanelVerif.Xml RawPanelVerif.Xmldom RawPanelVerif.Spec.SvgBase

/-- `<?xml version="1.0"?>\n<!DOCTYPE svg><svg viewBox="0 0 1 1"><g/><text>t</text>r</svg>\n` — no lossy feature -/
def exClean : List Tok :=
  [.pi (b "xml") (b "version=\"1.0\""), .text [], .dir (b "DOCTYPE svg"), .start [] (b "svg") [([], b "viewBox", b "0 0 1 1")],
   .start [] (b "g") [], .stop [] (b "g"), .start [] (b "text") [], .text (b "t"), .stop [] (b "text"), .text (b "r"),
   .stop [] (b "svg"), .text []]
example : XmlDoc exClean = true ∧ lossFree exClean = true ∧ attrCollision exClean = false := by decide
example : printedToks [] exClean = content exClean := by decide
example : (modelObserved [{ name := b "rect", attrs := [(b "x", b "1")] }, { name := b "text", text := b "A" }] exClean).kept2 = true ∧
    (modelObserved [{ name := b "rect", attrs := [(b "x", b "1")] }] exClean).wellformed = true := by decide
/-- the appended elements stand after the root's own children, before its text -/
example : printedToks (appToks [{ name := b "text", text := b "A" }]) [.start [] (b "svg") [], .start [] (b "g") [], .stop [] (b "g"),
      .text (b "r"), .stop [] (b "svg")]
    = [.start [] (b "svg") [], .start [] (b "g") [], .stop [] (b "g"), .start [] (b "text") [], .text (b "A"), .stop [] (b "text"),
       .text (b "r"), .stop [] (b "svg")] := by decide

/-- `<svg><!-- c --></svg>`: the comment is gone -/
def exComment : List Tok := [.start [] (b "svg") [], .comment (b " c "), .stop [] (b "svg")]
example : XmlDoc exComment = true ∧ hasComment exComment = true ∧
    printedToks [] exComment = [.start [] (b "svg") [], .stop [] (b "svg")] ∧ (modelObserved [] exComment).kept2 = false := by decide

/-- `<svg><text>a<tspan>b</tspan>c</text></svg>`: `a` is overwritten by `c`, which is printed behind the child -/
def exMixed : List Tok :=
  [.start [] (b "svg") [], .start [] (b "text") [], .text (b "a"), .start [] (b "tspan") [], .text (b "b"), .stop [] (b "tspan"),
   .text (b "c"), .stop [] (b "text"), .stop [] (b "svg")]
example : XmlDoc exMixed = true ∧ mixedText exMixed = true ∧ lossFree exMixed = false ∧
    printedToks [] exMixed = [.start [] (b "svg") [], .start [] (b "text") [], .start [] (b "tspan") [], .text (b "b"),
      .stop [] (b "tspan"), .text (b "c"), .stop [] (b "text"), .stop [] (b "svg")] ∧
    (modelObserved [] exMixed).kept2 = false := by decide
/-- `<svg>t<rect/></svg>`: the root's text moves behind the child; `<svg><text>a<![CDATA[b]]></text></svg>`: two tokens -/
example : printedToks [] [.start [] (b "svg") [], .text (b "t"), .start [] (b "rect") [], .stop [] (b "rect"), .stop [] (b "svg")]
    = [.start [] (b "svg") [], .start [] (b "rect") [], .stop [] (b "rect"), .text (b "t"), .stop [] (b "svg")] := by decide
example : mixedText [.start [] (b "svg") [], .start [] (b "text") [], .text (b "a"), .text (b "b"), .stop [] (b "text"), .stop [] (b "svg")]
    = true := by decide
/-- text, then children, then the end tag is NOT mixed: `<text><tspan>b</tspan>c</text>` is kept -/
example : lossFree [.start [] (b "text") [], .start [] (b "tspan") [], .text (b "b"), .stop [] (b "tspan"), .text (b "c"),
    .stop [] (b "text")] = true := by decide

/-- `<svg><image href="a" xlink:href="a"/></svg>`: prefixes stripped, `href` twice -/
def exPrefix : List Tok :=
  [.start [] (b "svg") [], .start [] (b "image") [([], b "href", b "a"), (b "xlink", b "href", b "a")], .stop [] (b "image"),
   .stop [] (b "svg")]
example : XmlDoc exPrefix = true ∧ hasPrefix exPrefix = true ∧ attrCollision exPrefix = true ∧
    printedToks [] exPrefix = [.start [] (b "svg") [], .start [] (b "image") [([], b "href", b "a"), ([], b "href", b "a")],
      .stop [] (b "image"), .stop [] (b "svg")] ∧
    (modelObserved [] exPrefix).kept2 = false ∧ (modelObserved [] exPrefix).wellformed = false := by decide
/-- `<s:svg xmlns:s="u"><s:rect/></s:svg>`: element prefixes; no collision -/
example : hasPrefix [.start (b "s") (b "svg") [(b "xmlns", b "s", b "u")], .start (b "s") (b "rect") [], .stop (b "s") (b "rect"),
      .stop (b "s") (b "svg")] = true ∧
    attrCollision [.start (b "s") (b "svg") [(b "xmlns", b "s", b "u")], .start (b "s") (b "rect") [], .stop (b "s") (b "rect"),
      .stop (b "s") (b "svg")] = false := by decide

/-- `<?xml version="1.0"?><?xml-stylesheet href="s.css"?><svg/>`: only the last instruction survives -/
def exPI : List Tok :=
  [.pi (b "xml") (b "version=\"1.0\""), .pi (b "xml-stylesheet") (b "href=\"s.css\""), .start [] (b "svg") [], .stop [] (b "svg")]
example : XmlDoc exPI = true ∧ piMoved exPI = true ∧
    printedToks [] exPI = [.pi (b "xml-stylesheet") (b "href=\"s.css\""), .start [] (b "svg") [], .stop [] (b "svg")] ∧
    (modelObserved [] exPI).kept2 = false := by decide
/-- `<svg><?foo bar?></svg>`: the instruction moves to the front; a single leading instruction is fine -/
example : printedToks [] [.start [] (b "svg") [], .pi (b "foo") (b "bar"), .stop [] (b "svg")]
    = [.pi (b "foo") (b "bar"), .start [] (b "svg") [], .stop [] (b "svg")] := by decide
example : piMoved [.text [], .pi (b "foo") (b "bar"), .start [] (b "svg") [], .stop [] (b "svg")] = false := by decide

/-- not documents, although `encoding/xml` tokenizes them: two top-level elements (the second is not reachable from
`doc.Root` and not printed), character data outside the root, a directive inside it, an attribute twice -/
example : docShape [] false [.start [] (b "a") [], .stop [] (b "a"), .start [] (b "b") [], .stop [] (b "b")] = false ∧
    printedToks [] [.start [] (b "a") [], .stop [] (b "a"), .start [] (b "b") [], .stop [] (b "b")]
      = [.start [] (b "a") [], .stop [] (b "a")] := by decide
example : docShape [] false [.start [] (b "a") [], .stop [] (b "a"), .text (b "x")] = false := by decide
example : docShape [] false [.start [] (b "a") [], .dir (b "DOCTYPE a"), .stop [] (b "a")] = false := by decide
example : docShape [] false [.start [] (b "a") [], .stop [] (b "b")] = false := by decide
example : XmlDoc [.start [] (b "a") [([], b "x", b "1"), ([], b "x", b "2")], .stop [] (b "a")] = false := by decide

/-- the clause names and the flag names -/
example : contentClause (features exComment) = "base-content:comment" ∧ contentClause (features exMixed) = "base-content:mixed-text" ∧
    contentClause (features exPrefix) = "base-content:ns-prefix" ∧ contentClause (features exPI) = "base-content:pi" ∧
    contentClause (features exClean) = "base-content" ∧ wellformedClause (features exPrefix) = "not-wellformed:duplicate-attribute" ∧
    wellformedClause (features exClean) = "wellformed" ∧ (features exPrefix).names = ["ns-prefix", "dup-attr"] := by decide

/-- content modulo the features: the normal forms of the lossy examples, and the flag on the modelled round trip -/
example : normal false exComment = [.start [] (b "svg") [], .stop [] (b "svg")] ∧
    normal false exMixed = [.start [] (b "svg") [], .start [] (b "text") [], .start [] (b "tspan") [], .text (b "b"),
      .stop [] (b "tspan"), .text (b "c"), .stop [] (b "text"), .stop [] (b "svg")] ∧
    normal false exPrefix = [.start [] (b "svg") [], .start [] (b "image") [([], b "href", b "a"), ([], b "href", b "a")],
      .stop [] (b "image"), .stop [] (b "svg")] ∧
    normal (piMoved exPI) exPI = [.start [] (b "svg") [], .stop [] (b "svg")] ∧ normal (piMoved exClean) exClean = exClean := by decide
example : (modelObserved [] exComment).keptMod = true ∧ (modelObserved [] exMixed).keptMod = true ∧
    (modelObserved [] exPrefix).keptMod = true ∧ (modelObserved [] exPI).keptMod = true ∧
    (modelObserved [{ name := b "text", text := b "A" }] exClean).keptMod = true := by decide
/-- … and it is NOT vacuous: on a base with a comment (so `kept2` is 0 anyway) a printed document that additionally lost
an attribute, an element, a directive or the last text fails it, as does one in which the kept text moved in front of a child -/
def exCommentAttr : List Tok :=
  [.dir (b "DOCTYPE svg"), .start [] (b "svg") [], .comment (b " c "), .start [] (b "g") [([], b "id", b "a")], .stop [] (b "g"),
   .text (b "t"), .stop [] (b "svg")]
example : keepsContentMod exCommentAttr (printedToks [] exCommentAttr) = true ∧ keepsContent exCommentAttr (printedToks [] exCommentAttr) = false ∧
    keepsContentMod exCommentAttr [.dir (b "DOCTYPE svg"), .start [] (b "svg") [], .start [] (b "g") [], .stop [] (b "g"), .text (b "t"), .stop [] (b "svg")] = false ∧
    keepsContentMod exCommentAttr [.dir (b "DOCTYPE svg"), .start [] (b "svg") [], .text (b "t"), .stop [] (b "svg")] = false ∧
    keepsContentMod exCommentAttr [.start [] (b "svg") [], .start [] (b "g") [([], b "id", b "a")], .stop [] (b "g"), .text (b "t"), .stop [] (b "svg")] = false ∧
    keepsContentMod exCommentAttr [.dir (b "DOCTYPE svg"), .start [] (b "svg") [], .start [] (b "g") [([], b "id", b "a")], .stop [] (b "g"), .stop [] (b "svg")] = false ∧
    keepsContentMod exCommentAttr [.dir (b "DOCTYPE svg"), .start [] (b "svg") [], .text (b "t"), .start [] (b "g") [([], b "id", b "a")], .stop [] (b "g"), .stop [] (b "svg")] = false := by decide
/-- the verdict: the plain `base-content` although the base has a comment; `base-content:comment` when only `kept2` fails -/
example : Spec.Svg.observedOk (features exCommentAttr) { obOk with kept2 := false, keptMod := false } = some "base-content" ∧
    Spec.Svg.observedOk (features exCommentAttr) { obOk with kept2 := false } = some "base-content:comment" ∧
    Spec.Svg.observedOk (features exPrefix) { obOk with kept2 := false, wellformed := false, keptMod := false } = some "base-content" ∧
    Spec.Svg.observedOk (features exPrefix) { obOk with kept2 := false, wellformed := false } = some "not-wellformed:duplicate-attribute" := by decide
example : Spec.Svg.callOk { args := false, again := true } = some "argument-modified" ∧
    Spec.Svg.callOk { args := true, again := false } = some "not-repeatable" ∧ Spec.Svg.callOk { args := true, again := true } = none := by decide

/-- the whole predicate on the model's output with the model's own flags -/
example : Spec.Svg.checkSVG (fmtOf exRot) exO exT none (exClean.map kindOf) true exClean none
    (withPrinted (compositeNodes exRot (exClean.map kindOf) true exO exT none))
    (modelObserved ((compositeNodes exRot (exClean.map kindOf) true exO exT none).getD []) exClean) = none := by decide
example : Spec.Svg.checkSVG (fmtOf exRot) exO exT none (exPrefix.map kindOf) true exPrefix none
    (withPrinted (compositeNodes exRot (exPrefix.map kindOf) true exO exT none))
    (modelObserved ((compositeNodes exRot (exPrefix.map kindOf) true exO exT none).getD []) exPrefix)
    = some "not-wellformed:duplicate-attribute" := by decide
example : Spec.Svg.checkSVG (fmtOf exRot) exO exT none (exMixed.map kindOf) true exMixed none
    (withPrinted (compositeNodes exRot (exMixed.map kindOf) true exO exT none))
    (modelObserved ((compositeNodes exRot (exMixed.map kindOf) true exO exT none).getD []) exMixed)
    = some "base-content:mixed-text" := by decide
end BaseDocs

/-- the parser result: empty input = error; only a declaration / comments / blanks = no root; error at the end = error -/
example : parseXML [] true = .err := by decide
example : parseXML (b "P") true = .noRoot := by decide
example : parseXML (b "PW") true = .noRoot := by decide
example : parseXML (b "MM") true = .noRoot := by decide
example : parseXML (b "S") false = .err := by decide
example : parseXML exKinds true = .root := by decide
example : compositeNodes exRot (b "PM") true exO exT none = none := by decide
example : compositeNodes exRot (b "SS") false exO exT none = none := by decide
example : Spec.Svg.baseOk (b "PM") true = false ∧ Spec.Svg.baseOk exKinds true = true := by decide

/-- the Spec rejects wrong outputs: a masked component drawn, a missing one, a document for a bad base, no document for
a valid base, a lost base element, an element printed without escaping, a wrong rotation -/
example : Spec.Svg.checkSVG (fmtOf exRot) exO exT (some []) exKinds true exToks none (withPrinted (compositeNodes exRot exKinds true exO exT none)) obOk
    = some "extra-nodes" := by decide
example : Spec.Svg.checkSVG (fmtOf exRot) exO exT none exKinds true exToks none (some []) obOk = some "missing-main" := by decide
example : Spec.Svg.checkSVG (fmtOf exRot) exO exT none (b "M") true [.comment []] none (some []) obOk = some "bad-base-not-empty" := by decide
example : Spec.Svg.checkSVG (fmtOf exRot) exO exT none exKinds true exToks none none obOk = some "nil-for-valid-base" := by decide
example : Spec.Svg.checkSVG (fmtOf exRot) exO exT none exKinds true exToks none (withPrinted (compositeNodes exRot exKinds true exO exT none))
    { obOk with kept2 := false } = some "base-content" := by decide
example : Spec.Svg.checkSVG (fmtOf exRot) exO exT none exKinds true exToks none (withPrinted (compositeNodes exRot exKinds true exO exT none))
    { obOk with kept := false } = some "base-content" := by decide
example : Spec.Svg.checkSVG (fmtOf exRot) exO exT none exKinds true exToks none (withPrinted (compositeNodes exRot exKinds true exO exT none))
    { obOk with keptMod := false } = some "base-content" := by decide
example : Spec.Svg.checkSVG (fmtOf exRot) exO exT none exKinds true exToks none (withPrinted (compositeNodes exRot exKinds true exO exT none))
    { obOk with wellformed := false } = some "wellformed" := by decide
example : Spec.Svg.checkSVG (fmtOf exRot) exO exT none exKinds true exToks none (withPrinted (compositeNodes exRot exKinds true exO exT none)) obOk
    = none := by decide
example : Spec.Svg.checkSVG (fmtOf exRot) exO exT none exKinds true exToks none
    ((compositeNodes exRot exKinds true exO exT none).map (fun l => l.map (fun n => (n, b "<" ++ n.name ++ b ">" ++ n.text ++ b "</" ++ n.name ++ b ">"))))
    obOk = some "wf-printed" := by decide
/-- a rotation the table formats differently is a different `transform`: the main shape of component 2 is rejected -/
example : Spec.Svg.checkSVG (fun _ => b "91.000000") exO exT (some [(2, 1)]) exKinds true exToks none
    (withPrinted (compositeNodes exRot exKinds true exO exT (some [(2, 1)]))) obOk = some "main" := by decide
/-- a failure in what is ADDED is reported before a (possibly known) failure about the base part -/
example : Spec.Svg.checkSVG (fmtOf exRot) exO exT (some []) exKinds true exToks none (withPrinted (compositeNodes exRot exKinds true exO exT none))
    { obOk with kept2 := false } = some "extra-nodes" := by decide
/-- the empty result for a valid document the decoder rejects (`<?xml version="1.1"?><svg/>`: no token, error) -/
example : Spec.Svg.checkSVG (fmtOf exRot) exO exT none [] false [] (some "version") none obOk = some "valid-base-rejected:version" := by decide
example : Spec.Svg.checkSVG (fmtOf exRot) exO exT none [] false [] none none obOk = none := by decide

end RawPanelVerif.C15
