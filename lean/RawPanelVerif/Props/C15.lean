import RawPanelVerif.Lemmas.SvgLemmas
/-!
# C15 — Composite panel SVG contains exactly the visible components, correctly placed

Property theorems only.  The statement is `Spec.Svg.checkSVG` (Spec/SvgSpec.lean), the predicate the check also
evaluates on the element list the real `GenerateCompositeSVGdoc` appended to the base document.
Everything is for **all** topologies (as in C13), all availability maps (nil, empty, any entries), all four render
switches, every rotation-format table and both outcomes of parsing the base SVG.

* `svg_holds`                  the model's output satisfies every clause of the Spec.
* `bad_svg_gives_empty`        unparsable base ⇒ no document (`GenerateCompositeSVG` returns "").
* `masked_contribute_nothing`  a masked component contributes no element; the output is the concatenation of the
                               groups of the visible components, in order.
* `one_main_shape_per_visible` the elements carrying an `id` attribute are exactly one per visible component, in order,
                               with value `HWc<id>`.
* `main_shape_geometry`        `rect` iff the resolved height is > 0, centred on (X,Y): x = X − W/2, y = Y − H/2 (Go division);
                               otherwise `circle` at (X,Y) with r = W/2.
* `label_count_le_two`, `label_count_pos` label lines: 1 or 2 when labels are rendered, 0 otherwise.
* `id_text_present`            when ids are rendered the group ends with a `text` element whose content is the decimal id.
Partial (trusted, checked on the implementation by the harness only): well-formedness of the printed XML and
"keeps the base document's content" rest on `go-xmldom` / `encoding/xml`.
-/
namespace RawPanelVerif.C15
open RawPanelVerif RawPanelVerif.Topo RawPanelVerif.Topo.Svg

theorem svg_holds (rot : Str → RotInfo) (baseOk : Bool) (o : SvgOpts) (t : Topology) (mask : Option (List (Nat × Nat))) :
    Spec.Svg.checkSVG o t mask baseOk (compositeNodes rot baseOk o t mask) true true = none := by
  unfold compositeNodes Spec.Svg.checkSVG
  cases baseOk with
  | false => rfl
  | true =>
    simp only [if_true, Bool.not_true, Bool.false_eq_true, if_false]
    exact groups_ok rot o t mask t.hwc

theorem bad_svg_gives_empty (rot : Str → RotInfo) (o : SvgOpts) (t : Topology) (mask : Option (List (Nat × Nat))) :
    compositeNodes rot false o t mask = none := rfl

theorem masked_contribute_nothing (rot : Str → RotInfo) (o : SvgOpts) (t : Topology) (mask : Option (List (Nat × Nat))) :
    (∀ c, Spec.Svg.visible mask c = false → componentNodes rot o t mask c = []) ∧
    compositeNodes rot true o t mask
      = some ((t.hwc.filter (Spec.Svg.visible mask)).flatMap (componentNodes rot o t none)) := by
  have h1 : ∀ c, Spec.Svg.visible mask c = false → componentNodes rot o t mask c = [] := by
    intro c hv
    have hm : masked mask c.id = true := by rw [visible_eq] at hv; simpa using hv
    simp [componentNodes, hm]
  refine ⟨h1, ?_⟩
  simp only [compositeNodes, if_true, Option.some.injEq]
  induction t.hwc with
  | nil => rfl
  | cons c r ih =>
    simp only [List.flatMap_cons, List.filter_cons]
    by_cases hv : Spec.Svg.visible mask c = true
    · have hm : masked mask c.id = false := by rw [visible_eq] at hv; simpa using hv
      simp only [hv, if_true, List.flatMap_cons, ih]
      have hm0 : masked none c.id = false := rfl
      simp only [componentNodes, hm, hm0]
    · simp only [hv]
      rw [h1 c (by simpa using hv), List.nil_append]
      exact ih

/-- Spec-level consequence of the group check: the `id`-carrying elements are the main shapes, one per component -/
theorem ids_of_groups (o : SvgOpts) (t : Topology) (cs : List HWc) (nodes : List SvgNode)
    (h : Spec.Svg.checkGroups o t cs nodes = none) :
    (nodes.filter (fun n => (Spec.Svg.attr n "id").isSome)).map (fun n => Spec.Svg.attr n "id")
      = cs.map (fun c => some (Spec.Svg.bytes "HWc" ++ Spec.Svg.dec c.id)) := by
  induction cs generalizing nodes with
  | nil =>
    cases nodes with
    | nil => rfl
    | cons _ _ => simp [Spec.Svg.checkGroups] at h
  | cons c cs ih =>
    cases nodes with
    | nil => simp [Spec.Svg.checkGroups] at h
    | cons m rest =>
      simp only [Spec.Svg.checkGroups] at h
      split at h
      · cases h
      · rename_i hm
        split at h
        · cases h
        · rename_i hg
          simp only [Bool.not_eq_true, Bool.not_eq_false] at hm hg
          have hm' : Spec.Svg.mainOk c (Spec.Topo.resolved t c) m = true := by
            cases hx : Spec.Svg.mainOk c (Spec.Topo.resolved t c) m with
            | true => rfl
            | false => simp [hx] at hm
          have hg' : Spec.Svg.allOk c (Spec.Svg.slots o c (Spec.Topo.resolved t c))
              (rest.take (Spec.Svg.slots o c (Spec.Topo.resolved t c)).length) = true := by
            cases hx : Spec.Svg.allOk c (Spec.Svg.slots o c (Spec.Topo.resolved t c))
              (rest.take (Spec.Svg.slots o c (Spec.Topo.resolved t c)).length) with
            | true => rfl
            | false => simp [hx] at hg
          have hid : Spec.Svg.attr m "id" = some (Spec.Svg.bytes "HWc" ++ Spec.Svg.dec c.id) := by
            unfold Spec.Svg.mainOk at hm'
            simp only [Bool.and_eq_true, beq_iff_eq] at hm'
            exact hm'.1
          -- no element of the group carries an id
          have hnone : ∀ (sl : List Spec.Svg.Slot) (g : List SvgNode), Spec.Svg.allOk c sl g = true →
              g.filter (fun n => (Spec.Svg.attr n "id").isSome) = [] := by
            intro sl
            induction sl with
            | nil =>
              intro g hg
              cases g with
              | nil => rfl
              | cons _ _ => simp [Spec.Svg.allOk] at hg
            | cons s ss ihs =>
              intro g hg
              cases g with
              | nil => rfl
              | cons n ns =>
                simp only [Spec.Svg.allOk, Bool.and_eq_true] at hg
                have hn : Spec.Svg.attr n "id" = none := by
                  have := hg.1
                  cases s <;> simp only [Spec.Svg.slotOk, Bool.and_eq_true, beq_iff_eq] at this
                  · exact this.1.1.1.1.2
                  · exact this.1.1.1.2
                  · exact this.1.1.2
                  · exact this.2
                  · exact this.1.2
                simp [List.filter_cons, hn, ihs ns hg.2]
          have hsplit : rest = rest.take (Spec.Svg.slots o c (Spec.Topo.resolved t c)).length ++
              rest.drop (Spec.Svg.slots o c (Spec.Topo.resolved t c)).length := (List.take_append_drop _ _).symm
          rw [hsplit]
          simp only [List.filter_cons, hid, Option.isSome_some, if_true, List.filter_append, hnone _ _ hg',
            List.nil_append, List.map_cons]
          rw [ih _ h]

theorem one_main_shape_per_visible (rot : Str → RotInfo) (o : SvgOpts) (t : Topology) (mask : Option (List (Nat × Nat)))
    (nodes : List SvgNode) (h : compositeNodes rot true o t mask = some nodes) :
    (nodes.filter (fun n => (Spec.Svg.attr n "id").isSome)).map (fun n => Spec.Svg.attr n "id")
      = (t.hwc.filter (Spec.Svg.visible mask)).map (fun c => some (Spec.Svg.bytes "HWc" ++ Spec.Svg.dec c.id)) := by
  simp only [compositeNodes, if_true, Option.some.injEq] at h
  subst h
  exact ids_of_groups o t _ _ (groups_ok rot o t mask t.hwc)

theorem main_shape_geometry (rot : Str → RotInfo) (c : HWc) (td : TypeDef) :
    let m := mainShape rot c td
    Spec.Svg.attr m "id" = some (Spec.Svg.bytes "HWc" ++ Spec.Svg.dec c.id) ∧
    (td.h > 0 → m.name = Spec.Svg.bytes "rect" ∧ Spec.Svg.attr m "x" = some (Spec.Svg.dec (c.x - td.w.tdiv 2)) ∧
      Spec.Svg.attr m "y" = some (Spec.Svg.dec (c.y - td.h.tdiv 2)) ∧
      Spec.Svg.attr m "width" = some (Spec.Svg.dec td.w) ∧ Spec.Svg.attr m "height" = some (Spec.Svg.dec td.h)) ∧
    (¬ td.h > 0 → m.name = Spec.Svg.bytes "circle" ∧ Spec.Svg.attr m "cx" = some (Spec.Svg.dec c.x) ∧
      Spec.Svg.attr m "cy" = some (Spec.Svg.dec c.y) ∧ Spec.Svg.attr m "r" = some (Spec.Svg.dec (td.w.tdiv 2))) := by
  intro m
  have h := mainOk_mainShape rot c td
  unfold Spec.Svg.mainOk at h
  simp only [Bool.and_eq_true, beq_iff_eq] at h
  refine ⟨h.1, ?_, ?_⟩
  · intro hp
    have h2 := h.2
    simp only [hp, if_true, Bool.and_eq_true, beq_iff_eq] at h2
    exact ⟨h2.1.1.1.1, h2.1.1.1.2, h2.1.1.2, h2.1.2, h2.2⟩
  · intro hp
    have h2 := h.2
    simp only [hp, if_false, Bool.and_eq_true, beq_iff_eq] at h2
    exact ⟨h2.1.1.1, h2.1.1.2, h2.1.2, h2.2⟩

theorem label_count_le_two (rot : Str → RotInfo) (o : SvgOpts) (c : HWc) (td : TypeDef) (ro : List Str) :
    (labelNodes rot o c td ro).length ≤ 2 := by
  unfold labelNodes
  split
  · simp only [List.length_map, List.length_range]
    unfold labelCount
    split
    · split <;> omega
    · omega
  · simp

theorem label_count_pos (rot : Str → RotInfo) (o : SvgOpts) (c : HWc) (td : TypeDef) (ro : List Str)
    (h : (o.showLabels || isIn (b "txt") ro) = true) : 1 ≤ (labelNodes rot o c td ro).length := by
  unfold labelNodes
  simp only [h, if_true, List.length_map, List.length_range]
  unfold labelCount
  split
  · split <;> omega
  · omega

theorem id_text_present (rot : Str → RotInfo) (o : SvgOpts) (c : HWc) (td : TypeDef) (ro : List Str)
    (h : (o.showHWCID || isIn (b "hwcid") ro) = true) :
    ∃ n, idNode rot o c td ro = [n] ∧ n.name = b "text" ∧ n.text = natLit c.id := by
  unfold idNode
  simp only [h, if_true]
  refine ⟨_, rfl, ?_, rfl⟩
  split <;> simp [setAttrs_cons, setAttrs_nil, name_setAttr, name_withRotate]

/-! ## non-vacuity -/

def exRot : Str → RotInfo := fun tk =>
  if tk = [57, 48] then { fmt := b "90.000000", fmt90 := b "180.000000", zero90 := false }
  else { fmt := b "0.000000", fmt90 := b "90.000000", zero90 := false }
def exO : SvgOpts := { showLabels := true, showHWCID := true, showType := false, showDisplaySize := false }
def exT : Topology :=
  { ti := [(1, { w := 100, h := 60, sub := [{ objType := [114], x := -5, y := -6, w := 10, h := 12 }, { objType := [100] }] }),
           (2, { w := 80, rotate := [57, 48] })],
    hwc := [{ id := 1, x := 500, y := 300, txt := b "A|B", type := 1 }, { id := 2, x := 900, y := 300, txt := b "Knob", type := 2 },
            { id := 3, x := 0, y := 0, type := 1 }] }

/-- component 1: rect at (450,270) 100x60, one sub rect, two label lines, id text; component 2 masked out; component 3 visible -/
example : (compositeNodes exRot true exO exT (some [(1, 1), (2, 0), (3, 7)])).map (fun l => l.map (fun n => (n.name, n.text)))
    = some [(b "rect", []), (b "rect", []), (b "text", b "A"), (b "text", b "B"), (b "text", b "1"),
            (b "rect", []), (b "rect", []), (b "text", []), (b "text", b "3")] := by decide
example : ((compositeNodes exRot true exO exT none).getD []).length = 12 := by decide
example : Spec.Svg.attr (mainShape exRot exT.hwc[0] (Spec.Topo.resolved exT exT.hwc[0])) "x" = some (b "450") := by decide
example : (mainShape exRot exT.hwc[1] (Spec.Topo.resolved exT exT.hwc[1])).attrs
    = [(b "cx", b "900"), (b "cy", b "300"), (b "r", b "40"), (b "transform", b "rotate(90.000000 900 300)"),
       (b "fill", b "#dddddd"), (b "stroke", b "#000"), (b "stroke-width", b "2"), (b "id", b "HWc2")] := by decide
/-- the Spec rejects wrong outputs: a masked component drawn, a missing one, a document for a bad base -/
example : Spec.Svg.checkSVG exO exT (some []) true (compositeNodes exRot true exO exT none) true true = some "extra-nodes" := by decide
example : Spec.Svg.checkSVG exO exT none true (some []) true true = some "missing-main" := by decide
example : Spec.Svg.checkSVG exO exT none false (some []) true true = some "bad-base-not-empty" := by decide

end RawPanelVerif.C15
