import RawPanelVerif.Lemmas.NetFeed
import RawPanelVerif.Lemmas.NetTimed
import RawPanelVerif.Lemmas.NetRun
/-!
# C10 — malformed or stalled panel streams are contained

Property theorems only.  `Net.feed` = binary read loop; `Net.step` / `Net.runL` = the loop as a timed LTS with the
connection's deadlines as explicit state and *urgent* time: while a read deadline `d` is armed, no byte, close or
cancel happens at a time ≥ `d` before `expire` has (`Net.repaired` = the code as it is: first header byte without
deadline, 2 s for the rest of the header, 2 s for the payload, both counted from an absolute instant; `Net.pinned` =
the code before the repair, whole header without deadline).  `limit`, `frameTimeout` are the constants regenerated
from the source (500000, 2000 ms).

* `allocs_below_limit`            every `make` of the loop is for fewer than `limit` bytes, whatever the stream
* `limit_before_alloc`            a length prefix ≥ limit after any valid messages: the loop stops there, those
                                  messages are the only deliveries, nothing is allocated for the bad frame, and
* `stopped_absorbs`               nothing that arrives later on this connection is delivered
* `arrival_needs_open_deadline`   urgency: a byte is consumed by a live loop only strictly before the armed deadline
* `stalled_frame_never_delivered` **every run** of a fresh connection: the deliveries are exactly the *complete* frames
                                  among the bytes that arrived before the loop ended (never a byte of an incomplete
                                  one); and whenever a frame is incomplete and `frameTimeout` or more has passed since
                                  the last byte was consumed, the loop has ended — by the timeout, unless the run
                                  contains a close or a cancel.  (Induction over runs; no instance is decided.)
* `stall_drops`                   in every reachable state inside a frame a deadline `d` is armed with
                                  `clock < d ≤ last byte + frameTimeout`; from `d` on `expire` is enabled and ends the
                                  loop, and `arrive` / `peerClose` are disabled (the remaining bytes of the frame can no
                                  longer be consumed)
* `stall_drops_pinned_payload`, `pinned_header_stall_counterexample`   the pinned code: only inside the payload
* `zero_frame_clears_deadline`    completing a header of value 0 delivers the empty message and leaves *no* read
                                  deadline (198 arms, 199 returns at once, 184 clears): silence after an empty frame
                                  never ends the connection; `zero_frame_shortcut_counterexample`: in the configuration
                                  of seeded change C10-6 (no reset at 184, a reset after the payload read, empty frames
                                  delivered without passing either) the header deadline survives an empty frame
* `disconnect_non_cancelled`      the argument of `ondisconnect` is the `exit` flag, which only the `cancel` label (the
                                  writer's context branch) sets: in every run without `cancel` — in particular every run
                                  ended by a timeout or an over-limit header — the flag is false, any `ondisconnect`
                                  reported `false`, and once the loop has ended `teardown` is enabled and reports `false`
* `garbage_payload_keeps_sync`    replacing the payload of any frame by any bytes of the same length changes no frame
                                  boundary and no other delivery
* `nothing_of_incomplete_frame_delivered`  bytes of a frame that never completes are never delivered (untimed form)
* `repaired_is_the_source_layout`  tie to the source: `Net.cfgOfSites Gen.deadlineSites = some Net.repaired` — the ordered
                                  list of deadline call sites regenerated from connecttopanel.go (function, position in
                                  the loop structure, read-only or both, zero time or now + constant) is `repaired`;
                                  `constants_are_those_of_the_property_text`: limit = 500000, in-frame deadline = 2000 ms

Observation outside the domain: "a frame whose bytes stop arriving for more than 2 s" is read as "a frame that does
not complete within 2 s of its header" (the deadline of each read is absolute, `Spec.Net.inContractT`); a frame that
trickles in without a 2 s gap but takes longer is dropped as well (`C08.slow_trickle_dropped`); monitors skip it.

Not proved (timing is outside the model): that the runtime fires the deadline promptly ("drops promptly" is
`expire` being the only enabled label from `d` on, plus the 400 ms tolerance of the trace monitor), and the retry sleep.
-/
namespace RawPanelVerif.C10
open RawPanelVerif RawPanelVerif.Net

theorem stepByte_allocs (s : RState) (b : UInt8) : ∀ n ∈ allocs (stepByte s b).2, n < limit := by
  intro n hn
  cases s with
  | waitHdr rg =>
    by_cases h4 : (b :: rg).length < 4
    · simp [stepByte_hdr_short rg b h4, allocs] at hn
    · by_cases hl : le32 (b :: rg).reverse < limit
      · by_cases h0 : le32 (b :: rg).reverse = 0
        · rw [stepByte_hdr_zero rg b h4 hl h0] at hn
          change n ∈ [0] at hn
          rw [List.mem_singleton.mp hn]; rw [h0] at hl; exact hl
        · rw [stepByte_hdr_pay rg b h4 hl h0] at hn
          change n ∈ [le32 (b :: rg).reverse] at hn
          rw [List.mem_singleton.mp hn]; exact hl
      · simp [stepByte_hdr_over rg b h4 hl, allocs] at hn
  | waitPayload need rg =>
    by_cases h : need ≤ 1
    · simp [stepByte_pay_last need rg b h, allocs] at hn
    · simp [stepByte_pay_more need rg b h, allocs] at hn
  | stopped w => simp [stepByte, allocs] at hn

/-- **never reserves memory of attacker-chosen size**: every allocation the loop makes for a payload is below the
limit, for every starting state and every byte stream -/
theorem allocs_below_limit (s : RState) (bs : Bytes) : ∀ n ∈ allocs (feed s bs).2, n < limit := by
  induction bs generalizing s with
  | nil => intro n hn; simp [feed, allocs] at hn
  | cons b bs ih =>
    intro n hn
    rw [feed_cons, allocs_append, List.mem_append] at hn
    rcases hn with hn | hn
    · exact stepByte_allocs s b n hn
    · exact ih _ n hn

/-- once the loop has stopped nothing more is delivered or allocated on this connection -/
theorem stopped_absorbs (w : Stop) (bs : Bytes) : feed (.stopped w) bs = (.stopped w, []) := feed_stopped w bs

/-- **limit before allocation**: valid messages `fs`, then a header `hdr` whose value is ≥ limit, then anything:
the loop ends in `stopped (overLimit …)`, has delivered exactly `fs`, and its allocations are exactly those for `fs` -/
theorem limit_before_alloc (fs : List Bytes) (hdr rest : Bytes) (hfs : ∀ f ∈ fs, f.length < limit)
    (h4 : hdr.length = 4) (hover : le32 hdr ≥ limit) :
    (feed .init (encode fs ++ hdr ++ rest)).1 = .stopped (.overLimit (le32 hdr)) ∧
    deliveries (feed .init (encode fs ++ hdr ++ rest)).2 = fs ∧
    allocs (feed .init (encode fs ++ hdr ++ rest)).2 = allocs (feed .init (encode fs)).2 := by
  match hdr, h4 with
  | [a, b, c, d], _ =>
    have hp : Spec.Net.parse limit ([a, b, c, d] ++ rest) = ([], .over (le32 [a, b, c, d])) := by
      rw [Spec.Net.parse]
      have hlen : ¬ ([a, b, c, d] ++ rest).length < 4 := by simp
      have htk : ([a, b, c, d] ++ rest).take 4 = [a, b, c, d] := by simp
      simp only [hlen, if_false, htk, u32le_eq_le32, hover, if_true]
    have hpe := parse_encode_append limit (by decide) fs ([a, b, c, d] ++ rest) hfs
    rw [hp] at hpe
    have := feed_init_parse (encode fs ++ [a, b, c, d] ++ rest)
    rw [List.append_assoc, hpe] at this
    rw [List.append_assoc]
    refine ⟨by simpa [stateOfTail] using this.1, by simpa using this.2, ?_⟩
    -- allocations: after `encode fs` the loop is at a header; the four bytes stop it without `alloc`
    rw [feed_append]
    have hq := feed_init_parse (encode fs)
    rw [parse_encode limit (by decide) fs hfs] at hq
    have hst : (feed .init (encode fs)).1 = .waitHdr [] := by simpa [stateOfTail] using hq.1
    rw [hst, allocs_append]
    have hl : ¬ le32 [a, b, c, d] < limit := by omega
    have : feed (.waitHdr []) ([a, b, c, d] ++ rest) = (.stopped (.overLimit (le32 [a, b, c, d])), []) := by
      simp [feed_cons, stepByte, hl, feed_stopped]
    rw [this]; simp [allocs]

/-! ### stalls -/

/-- **urgency**: a live loop consumes a byte only strictly before the read deadline in force -/
theorem arrival_needs_open_deadline (cfg : Cfg) (s s' : CState) (e : List Eff) (now : Nat) (b : UInt8)
    (h : step cfg s (.arrive now b) = some (s', e)) (hl : s.r.live = true) : ∀ d, s.dl.rd = some d → now < d := by
  obtain ⟨_, _, hx, _⟩ := step_arrive h
  intro d hd
  have := hx hl
  simpa [notExpired, hd] using this

theorem firstStop_mem (ls : List Lbl) (l : Lbl) (h : firstStop ls = some l) : l ∈ ls ∧ l.stops = true := by
  induction ls with
  | nil => cases h
  | cons x r ih =>
    simp only [firstStop] at h
    split at h
    · rename_i hx
      cases h; exact ⟨by simp, hx⟩
    · exact ⟨by simp [(ih h).1], (ih h).2⟩

theorem runL_entered (cfg : Cfg) (ls : List Lbl) (s s' : CState) (e : List Eff) (h : s.entered = true)
    (hr : runL cfg s ls = some (s', e)) : s'.entered = true := by
  refine runL_induct cfg (fun s => s.entered = true) ?_ ls s s' e h hr
  intro a b l e ha hs
  cases l with
  | enter now => obtain ⟨_, _, rfl, _⟩ := step_enter hs; rfl
  | arrive now x =>
    obtain ⟨_, _, _, heq⟩ := step_arrive hs
    have : b = (tstep cfg now a x).1 := congrArg Prod.fst heq
    rw [this, tstep_entered]; exact ha
  | expire now => obtain ⟨_, _, _, _, _, _, rfl, _⟩ := step_expire hs; exact ha
  | peerClose now => obtain ⟨_, _, _, _, rfl, _⟩ := step_peerClose hs; exact ha
  | cancel now => obtain ⟨_, _, _, rfl, _⟩ := step_cancel hs; exact ha
  | teardown now => obtain ⟨_, _, _, _, rfl, _⟩ := step_teardown hs; exact ha

/-- a run of a fresh connection in which a byte has arrived has entered the loop -/
theorem probed_run_entered (cfg : Cfg) (tp : Nat) (ls : List Lbl) (s' : CState) (e : List Eff)
    (hr : runL cfg (CState.probed cfg tp) ls = some (s', e)) (hne : arrivedBefore ls ≠ []) : s'.entered = true := by
  cases ls with
  | nil => exact absurd rfl hne
  | cons l r =>
    obtain ⟨s1, e1, e2, h1, h2, _⟩ := runL_cons hr
    have : s1.entered = true := by
      cases l with
      | enter now => obtain ⟨_, _, rfl, _⟩ := step_enter h1; rfl
      | arrive now x => obtain ⟨he, _⟩ := step_arrive h1; cases he
      | expire now => obtain ⟨_, _, he, _⟩ := step_expire h1; cases he
      | peerClose now => obtain ⟨he, _⟩ := step_peerClose h1; cases he
      | cancel now => obtain ⟨he, _⟩ := step_cancel h1; cases he
      | teardown now => obtain ⟨he, _⟩ := step_teardown h1; cases he
    exact runL_entered cfg r s1 s' e2 this h2

/-- **a stalled frame is never delivered, and its connection is dropped** — for every run of a fresh connection
(any probe time, any sequence of labels): (1) the deliveries are exactly the complete frames among the bytes that
arrived before the loop ended, so no delivery ever contains a byte of an incomplete frame; (2) if these bytes end in
an incomplete frame and `frameTimeout` or more has passed since the last byte was consumed, the loop has ended;
(3) and if the run contains neither a close by the peer nor a cancel, it was ended by the timeout. -/
theorem stalled_frame_never_delivered (tp : Nat) (ls : List Lbl) (s' : CState) (e : List Eff)
    (h : runL repaired (CState.probed repaired tp) ls = some (s', e)) :
    deliveries e = (Spec.Net.parse limit (arrivedBefore ls)).1 ∧
    ∀ rest, (Spec.Net.parse limit (arrivedBefore ls)).2 = .incomplete rest → s'.last + frameTimeout ≤ s'.clock →
      s'.r.live = false ∧
      ((∀ t, Lbl.peerClose t ∉ ls) → (∀ t, Lbl.cancel t ∉ ls) → s'.r = .stopped .timeout) := by
  obtain ⟨he, hr⟩ := runL_feed repaired ls _ s' e h
  refine ⟨by rw [he]; exact (feed_init_parse _).2, ?_⟩
  intro rest htail hlate
  have hne : rest ≠ [] := parse_incomplete_ne limit _ rest htail
  have hF : (feed (CState.probed repaired tp).r (arrivedBefore ls)).1 = stateOfTail (.incomplete rest) := by
    rw [← htail]; exact (feed_init_parse _).1
  have hmid := stateOfTail_incomplete_mid rest hne
  rw [hF] at hr
  have hbytes : arrivedBefore ls ≠ [] := by
    intro h0; rw [h0, Spec.Net.parse] at htail; simp at htail
  have hent := probed_run_entered repaired tp ls s' e h hbytes
  have hlive : (stateOfTail (.incomplete rest)).live = true := by
    cases hh : stateOfTail (.incomplete rest) with
    | stopped w => rw [hh] at hmid; cases hmid
    | waitHdr _ => rfl
    | waitPayload _ _ => rfl
  cases hfs : firstStop ls with
  | none =>
    -- nothing has ended the loop: it still waits inside the frame, with a deadline in the future — contradiction
    exfalso
    rw [hfs] at hr
    simp only [afterStop] at hr
    have hi := inv_reachable repaired coded_repaired s' ⟨tp, ls, e, h⟩
    have hl' : s'.r.live = true := by rw [hr]; exact hlive
    have harm : armed repaired s'.r = true := by
      rw [hr]
      cases hh : stateOfTail (.incomplete rest) with
      | stopped w => rw [hh] at hmid; cases hmid
      | waitHdr rg => cases rg with
        | nil => rw [hh] at hmid; cases hmid
        | cons x t => rfl
      | waitPayload _ _ => rfl
    have hsome := hi.armedIff hent hl'
    rw [harm] at hsome
    obtain ⟨d, hd⟩ := Option.isSome_iff_exists.mp hsome
    have := hi.bound hent hl' d hd
    have := hi.future hent hl' d hd
    omega
  | some l =>
    rw [hfs] at hr
    obtain ⟨hmem, hstops⟩ := firstStop_mem ls l hfs
    cases l with
    | expire t => simp only [afterStop] at hr; exact ⟨by rw [hr]; rfl, fun _ _ => hr⟩
    | peerClose t =>
      simp only [afterStop] at hr
      exact ⟨by rw [hr]; rfl, fun hp _ => absurd hmem (hp t)⟩
    | cancel t =>
      simp only [afterStop, hlive, if_true] at hr
      exact ⟨by rw [hr]; rfl, fun _ hc => absurd hmem (hc t)⟩
    | enter t => cases hstops
    | arrive t b => cases hstops
    | teardown t => cases hstops

/-- **a stalled frame is dropped** (repaired code).  In every reachable state inside a frame a deadline `d` is armed
with `clock < d ≤ last + frameTimeout`; at any time from `d` on the blocked read times out — `expire` is enabled and
ends the loop — and neither a byte nor a close can be consumed any more. -/
theorem stall_drops (s : CState) (h : Reachable repaired s) (he : s.entered = true) (hm : midFrame s.r = true) :
    ∃ d, s.dl.rd = some d ∧ s.clock < d ∧ d ≤ s.last + frameTimeout ∧
      ∀ now, s.clock ≤ now → d ≤ now →
        (∃ s', step repaired s (.expire now) = some (s', []) ∧ s'.r = .stopped .timeout) ∧
        (∀ b, step repaired s (.arrive now b) = none) ∧ step repaired s (.peerClose now) = none := by
  have hi := inv_reachable repaired coded_repaired s h
  have hlive : s.r.live = true := by
    cases hr : s.r with
    | stopped w => rw [hr] at hm; simp [midFrame] at hm
    | waitHdr _ => rfl
    | waitPayload _ _ => rfl
  have harm : armed repaired s.r = true := by
    cases hr : s.r with
    | waitHdr rg => cases rg with
      | nil => rw [hr] at hm; simp [midFrame] at hm
      | cons x t => rfl
    | waitPayload n rg => rfl
    | stopped w => rw [hr] at hm; simp [midFrame] at hm
  have hsome := hi.armedIff he hlive
  rw [harm] at hsome
  obtain ⟨d, hd⟩ := Option.isSome_iff_exists.mp hsome
  refine ⟨d, hd, hi.future he hlive d hd, hi.bound he hlive d hd, ?_⟩
  intro now hc hdn
  have hne : notExpired s now = false := by simp [notExpired, hd]; omega
  refine ⟨⟨{ s with r := .stopped .timeout, clock := now }, by simp [step, hd, hc, hdn, hlive, he], rfl⟩, ?_, ?_⟩
  · intro b; simp [step, hlive, hne]
  · simp [step, hne]

/-- the pinned code has the same guarantee only inside the payload -/
theorem stall_drops_pinned_payload (s : CState) (h : Reachable pinned s) (he : s.entered = true) (need : Nat)
    (rg : Bytes) (hm : s.r = .waitPayload need rg) :
    ∃ d, s.dl.rd = some d ∧ d ≤ s.last + frameTimeout ∧
      ∀ now, s.clock ≤ now → d ≤ now →
        ∃ s', step pinned s (.expire now) = some (s', []) ∧ s'.r = .stopped .timeout := by
  have hi := inv_reachable pinned coded_pinned s h
  have hlive : s.r.live = true := by rw [hm]; rfl
  have hsome := hi.armedIff he hlive
  rw [hm] at hsome
  simp only [armed] at hsome
  obtain ⟨d, hd⟩ := Option.isSome_iff_exists.mp hsome
  refine ⟨d, hd, hi.bound he hlive d hd, ?_⟩
  intro now hc hdn
  exact ⟨{ s with r := .stopped .timeout, clock := now }, by simp [step, hd, hc, hdn, hlive, he], rfl⟩

/-- **the defect of the pinned tree**: one header byte arrives, then nothing.  The pinned code is in a reachable
state in which `expire` is never enabled (no deadline is armed during the header read): the connection is never
dropped.  The repaired code drops it after `frameTimeout`. -/
theorem pinned_header_stall_counterexample :
    (∃ s, Reachable pinned s ∧ midFrame s.r = true ∧ ∀ now, step pinned s (.expire now) = none) ∧
    (runT pinned 0 (CState.start pinned 0 0) [(0, .bytes [36]), (3000, .nothing), (600000, .nothing)] {}).stop = none ∧
    (runT repaired 0 (CState.start repaired 0 0) [(0, .bytes [36]), (3000, .nothing), (600000, .nothing)] {}).stop
      = some (.timeout, 2000) := by
  refine ⟨⟨(tstep pinned 0 (CState.start pinned 0 0) 36).1, ⟨0, [.enter 0, .arrive 0 36], [], by decide⟩, by decide,
    fun now => ?_⟩, by decide, by decide⟩
  have : (tstep pinned 0 (CState.start pinned 0 0) 36).1.dl.rd = none := by decide
  simp [step, this]

/-- **an empty frame leaves no deadline armed**: when the fourth header byte completes a header of value 0, the
empty message is delivered, the loop is back at a header, and no read deadline is in force (198 arms it, the read of
zero bytes returns at once, 184 clears it) — in every configuration with the loop-top reset and without the shortcut
of `zero_frame_shortcut_counterexample`.  Silence after an empty frame therefore never ends the connection
(`C08.idle_gap_harmless` applies to the resulting state). -/
theorem zero_frame_clears_deadline (cfg : Cfg) (hc : Coded cfg) (s s' : CState) (e : List Eff) (now : Nat)
    (x : UInt8) (rg : Bytes) (b : UInt8) (hr : s.r = .waitHdr (x :: rg)) (h4 : ¬ (b :: x :: rg).length < 4)
    (h0 : le32 (b :: x :: rg).reverse = 0) (hs : step cfg s (.arrive now b) = some (s', e)) :
    s'.r = .waitHdr [] ∧ s'.dl.rd = none ∧ e = [.alloc 0, .deliver []] ∧ ∀ t, step cfg s' (.expire t) = none := by
  obtain ⟨_, _, _, heq⟩ := step_arrive hs
  have hlive : s.r.live = true := by rw [hr]; rfl
  rw [tstep_live cfg now s b hlive, hr] at heq
  have hl : le32 (b :: x :: rg).reverse < limit := by rw [h0]; decide
  rw [stepByte_hdr_zero _ b h4 hl h0, stepByteT_dl_hdr_zero cfg hc now x rg b s.dl h4 hl h0] at heq
  simp only [Prod.mk.injEq] at heq
  obtain ⟨rfl, rfl⟩ := heq
  exact ⟨rfl, rfl, rfl, fun t => by simp [step]⟩

/-- the configuration of seeded change C10-6: no reset at the loop top, a reset right after the payload read, and
an empty frame delivered by a shortcut that passes neither -/
def zeroShortcutCfg : Cfg := { repaired with loopTop := .skip, afterPayload := .clear .read, zeroShortcut := true }

/-- … there the header deadline (armed at the first header byte) survives the empty frame: 2.5 s of silence after an
empty frame end the connection and the next frame is lost; the code as it is delivers both -/
theorem zero_frame_shortcut_counterexample :
    runT zeroShortcutCfg 0 (CState.start zeroShortcutCfg 0 0) [(0, .bytes [0, 0, 0, 0]), (2500, .bytes [1, 0, 0, 0, 7])] {}
      = { effs := [.alloc 0, .deliver []], stop := some (.timeout, 2000), tight := false } ∧
    runT repaired 0 (CState.start repaired 0 0) [(0, .bytes [0, 0, 0, 0]), (2500, .bytes [1, 0, 0, 0, 7])] {}
      = { effs := [.alloc 0, .deliver [], .alloc 1, .deliver [7]], stop := none, tight := false } := by
  refine ⟨by decide, by decide⟩

/-! ### the argument of `ondisconnect` -/

theorem no_cancel_step (cfg : Cfg) (s s' : CState) (l : Lbl) (e : List Eff) (hl : ∀ t, l ≠ .cancel t)
    (hx : s.exit = false ∧ (s.reported = none ∨ s.reported = some false)) (hs : step cfg s l = some (s', e)) :
    s'.exit = false ∧ (s'.reported = none ∨ s'.reported = some false) := by
  cases l with
  | enter now => obtain ⟨_, _, rfl, _⟩ := step_enter hs; exact hx
  | arrive now b =>
    obtain ⟨_, _, _, heq⟩ := step_arrive hs
    have : s' = (tstep cfg now s b).1 := congrArg Prod.fst heq
    subst this
    simp only [tstep]; split <;> exact hx
  | expire now => obtain ⟨_, _, _, _, _, _, rfl, _⟩ := step_expire hs; exact hx
  | peerClose now => obtain ⟨_, _, _, _, rfl, _⟩ := step_peerClose hs; exact hx
  | cancel now => exact absurd rfl (hl now)
  | teardown now => obtain ⟨_, _, _, _, rfl, _⟩ := step_teardown hs; exact ⟨hx.1, Or.inr (by rw [hx.1])⟩

/-- **the disconnect is reported as non-cancelled**: `ondisconnect` is called with the `exit` flag, and only the
`cancel` label sets it.  In every run of a fresh connection that contains no `cancel` — whatever ended the loop: a
timeout, an over-limit header, the peer — the flag is false and any `ondisconnect` call so far had the argument
`false`; and once the loop has ended, `teardown` is enabled (at any later time) and calls `ondisconnect(false)`. -/
theorem disconnect_non_cancelled (cfg : Cfg) (tp : Nat) (ls : List Lbl) (s' : CState) (e : List Eff)
    (h : runL cfg (CState.probed cfg tp) ls = some (s', e)) (hnc : ∀ t, Lbl.cancel t ∉ ls) :
    s'.exit = false ∧ (s'.reported = none ∨ s'.reported = some false) ∧
    (s'.entered = true → s'.r.live = false → s'.reported = none → ∀ now, s'.clock ≤ now →
      ∃ s'', step cfg s' (.teardown now) = some (s'', []) ∧ s''.reported = some false) := by
  have key : ∀ (ls : List Lbl) (s s' : CState) (e : List Eff), (∀ t, Lbl.cancel t ∉ ls) →
      (s.exit = false ∧ (s.reported = none ∨ s.reported = some false)) → runL cfg s ls = some (s', e) →
      (s'.exit = false ∧ (s'.reported = none ∨ s'.reported = some false)) := by
    intro ls
    induction ls with
    | nil => intro s s' e _ hx hr; simp [runL] at hr; rw [← hr.1]; exact hx
    | cons l r ih =>
      intro s s' e hn hx hr
      obtain ⟨s1, e1, e2, h1, h2, _⟩ := runL_cons hr
      have hx1 := no_cancel_step cfg s s1 l e1 (fun t ht => hn t (by simp [ht])) hx h1
      exact ih s1 s' e2 (fun t ht => hn t (by simp [ht])) hx1 h2
  have hx := key ls _ s' e hnc ⟨rfl, Or.inl rfl⟩ h
  refine ⟨hx.1, hx.2, ?_⟩
  intro he hd hrep now hc
  exact ⟨{ s' with reported := some s'.exit, clock := now }, by simp [step, he, hd, hrep, hc], by simp [hx.1]⟩

/-! ### garbage payloads -/

/-- **garbage keeps the stream in sync**: replace the payload of the i-th frame by any bytes `g` of the same length
(empty stays empty, garbage, truncated varint, …).  The deliveries are those of the original stream with the i-th
replaced by `g`: every other message is delivered intact and in place, and the loop is again at a header. -/
theorem garbage_payload_keeps_sync (fs : List Bytes) (i : Nat) (g : Bytes) (hfs : ∀ f ∈ fs, f.length < limit)
    (hi : i < fs.length) (hg : g.length = (fs[i]'hi).length) :
    deliveries (feed .init (encode (fs.set i g))).2 = (deliveries (feed .init (encode fs)).2).set i g ∧
    (feed .init (encode (fs.set i g))).1 = .waitHdr [] := by
  have hfs' : ∀ f ∈ fs.set i g, f.length < limit := by
    intro f hf
    rcases List.mem_or_eq_of_mem_set hf with hf | hf
    · exact hfs f hf
    · subst hf; rw [hg]; exact hfs _ (List.getElem_mem hi)
  have h1 := feed_init_parse (encode (fs.set i g))
  rw [parse_encode limit (by decide) _ hfs'] at h1
  have h2 := feed_init_parse (encode fs)
  rw [parse_encode limit (by decide) _ hfs] at h2
  exact ⟨by rw [h1.2, h2.2], by simpa [stateOfTail] using h1.1⟩

/-- frame boundaries depend only on the headers: two message sequences with the same lengths are cut identically -/
theorem boundaries_depend_on_lengths_only (fs gs : List Bytes) (hfs : ∀ f ∈ fs, f.length < limit)
    (hlen : gs.map List.length = fs.map List.length) :
    (deliveries (feed .init (encode gs)).2).map List.length = (deliveries (feed .init (encode fs)).2).map List.length := by
  have hgs : ∀ g ∈ gs, g.length < limit := by
    intro g hg
    have : g.length ∈ gs.map List.length := List.mem_map.mpr ⟨g, hg, rfl⟩
    rw [hlen] at this
    obtain ⟨f, hf, he⟩ := List.mem_map.mp this
    rw [← he]; exact hfs f hf
  have h1 := feed_init_parse (encode gs)
  rw [parse_encode limit (by decide) _ hgs] at h1
  have h2 := feed_init_parse (encode fs)
  rw [parse_encode limit (by decide) _ hfs] at h2
  rw [h1.2, h2.2, hlen]

/-- **no byte of a broken frame is delivered**: valid messages followed by a proper prefix `p` of a frame (cut inside
the header or inside the payload): exactly the valid messages have been delivered -/
theorem nothing_of_incomplete_frame_delivered (fs : List Bytes) (f : Bytes) (k : Nat)
    (hfs : ∀ x ∈ fs, x.length < limit) (hf : f.length < limit) (hk : k < (frame f).length) :
    deliveries (feed .init (encode fs ++ (frame f).take k)).2 = fs := by
  have hp : (Spec.Net.parse limit ((frame f).take k)).1 = [] := by
    rw [Spec.Net.parse]
    have hfl : (frame f).length = f.length + 4 := by simp [frame, putLe32_length]; omega
    by_cases h4 : ((frame f).take k).length < 4
    · simp only [h4, if_true]
    · simp only [h4, if_false]
      have hk4 : 4 ≤ k := by simp only [List.length_take] at h4; omega
      have htk : ((frame f).take k).take 4 = putLe32 f.length := by
        rw [List.take_take, Nat.min_eq_left hk4]
        unfold frame; exact List.take_left' (putLe32_length _)
      have hlt : f.length < 4294967296 := by have : limit = 500000 := rfl; omega
      rw [htk, u32le_putLe32 _ hlt]
      have h1 : ¬ f.length ≥ limit := by omega
      have h2 : (((frame f).take k).drop 4).length < f.length := by
        simp only [List.length_drop, List.length_take]; omega
      simp only [h1, h2, if_false, if_true]
  have := parse_encode_append limit (by decide) fs ((frame f).take k) hfs
  rw [(feed_init_parse _).2, this, hp]; simp

/-! ### the tie to the source -/

/-- **"the code as it is" is the layout of the source**: the ordered list of `Set…Deadline` call sites regenerated
from `ConnectToPanel` on this run is exactly the configuration `repaired` the theorems above are stated for (first header
byte without deadline, 2000 ms armed after it and again before the payload read, cleared at the top of every iteration).
Moving the loop-top reset behind the payload read (seeded changes C10-6, C10-7), dropping the call after the first header
byte (the pinned tree before 7e5ba25) or making the duration depend on the frame (C10-2, C10-9) makes this fail. -/
theorem repaired_is_the_source_layout : cfgOfSites Gen.deadlineSites = some repaired := by decide

/-- the constants regenerated from the source are the numbers of the property text ("at or above the 500000-byte
limit", "for more than 2 s") -/
theorem constants_are_those_of_the_property_text :
    limit = Spec.Net.frameLimit ∧ frameTimeout = Spec.Net.frameTimeoutMs := by decide

/-! non-vacuity -/
example : cfgOfSites (exampleSites.eraseIdx 3) = some pinned := by decide
example : cfgOfSites ((exampleSites.eraseIdx 2) ++
    [{ fn := 0, clear := true, addMs := none, loops := 2, path := [0, 1, 0, 1], first := false, reads := 4 }])
    = some { repaired with loopTop := .skip, afterPayload := .clear .read } := by decide
example : (feed .init ([1, 0, 0, 0, 7] ++ [32, 161, 7, 0] ++ [1, 0, 0, 0, 9])).1 = .stopped (.overLimit 500000) := by decide
example : deliveries (feed .init ([1, 0, 0, 0, 7] ++ [32, 161, 7, 0] ++ [1, 0, 0, 0, 9])).2 = [[7]] := by decide
example : (runL repaired (CState.probed repaired 0) [.enter 0, .arrive 0 36]).map (fun r => (r.1.r, r.1.dl.rd))
    = some (.waitHdr [36], some 2000) := by decide
-- a stalled frame: two bytes of a header, silence; the third byte comes too late to be consumed
example : runL repaired (CState.probed repaired 0) [.enter 0, .arrive 0 2, .arrive 10 0, .arrive 2500 0] = none := by decide
example : (runL repaired (CState.probed repaired 0) [.enter 0, .arrive 0 2, .arrive 10 0, .expire 2000, .arrive 2500 0,
    .teardown 2501]).map (fun r => (r.1.r, r.1.reported, r.2)) = some (.stopped .timeout, some false, []) := by decide
example : (runT repaired 300 (CState.start repaired 0 0) [(0, .bytes [2, 0, 0, 0, 8]), (3000, .bytes [1])] {}).stop = some (.timeout, 2000) := by decide

end RawPanelVerif.C10
