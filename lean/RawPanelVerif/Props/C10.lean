import RawPanelVerif.Lemmas.NetFeed
import RawPanelVerif.Lemmas.NetTimed
/-!
# C10 — malformed or stalled panel streams are contained

Property theorems only.  `Net.feed` = binary read loop, `Net.step` = the loop with its read deadline as explicit
state (`Net.repaired`: first header byte without deadline, 2 s for the rest of the header, 2 s for the payload;
`Net.pinned`: the code before the repair, whole header without deadline).  `limit` and `frameTimeout` are the
constants regenerated from the source (500000, 2000 ms).

* `allocs_below_limit`            every `make` of the loop is for fewer than `limit` bytes, whatever the stream
* `limit_before_alloc`            a length prefix ≥ limit after any valid messages: the loop stops there, those
                                  messages are the only deliveries, nothing is allocated for the bad frame, and
* `stopped_absorbs`               nothing that arrives later on this connection is delivered
* `stall_drops`                   repaired code: in every reachable state inside a frame (from its first byte on) a
                                  deadline is armed, at most `frameTimeout` after the last byte; hence silence longer
                                  than that enables `expire`, which ends the connection with a non-cancelled disconnect
* `stall_drops_pinned_payload`    the same for the pinned code, but only inside the payload
* `pinned_header_stall_counterexample`  the pinned code never times out a frame that stalls inside its header
* `garbage_payload_keeps_sync`    replacing the payload of any frame by any bytes of the same length changes no frame
                                  boundary and no other delivery
* `nothing_of_incomplete_frame_delivered`  bytes of a frame that never completes are never delivered
-/
namespace RawPanelVerif.C10
open RawPanelVerif RawPanelVerif.Net

theorem stepByte_allocs (s : RState) (b : UInt8) : ∀ n ∈ allocs (stepByte s b).2, n < limit := by
  intro n hn
  cases s with
  | waitHdr rg =>
    by_cases h4 : (b :: rg).length < 4
    · simp [stepByte_hdr_short rg b h4, allocs] at hn
    · by_cases hl : le32 (b :: rg).reverse < limit
      · by_cases h0 : le32 (b :: rg).reverse = 0
        · rw [stepByte_hdr_zero rg b h4 hl h0] at hn
          change n ∈ [0] at hn
          rw [List.mem_singleton.mp hn]; rw [h0] at hl; exact hl
        · rw [stepByte_hdr_pay rg b h4 hl h0] at hn
          change n ∈ [le32 (b :: rg).reverse] at hn
          rw [List.mem_singleton.mp hn]; exact hl
      · simp [stepByte_hdr_over rg b h4 hl, allocs] at hn
  | waitPayload need rg =>
    by_cases h : need ≤ 1
    · simp [stepByte_pay_last need rg b h, allocs] at hn
    · simp [stepByte_pay_more need rg b h, allocs] at hn
  | stopped w => simp [stepByte, allocs] at hn

/-- **never reserves memory of attacker-chosen size**: every allocation the loop makes for a payload is below the
limit, for every starting state and every byte stream -/
theorem allocs_below_limit (s : RState) (bs : Bytes) : ∀ n ∈ allocs (feed s bs).2, n < limit := by
  induction bs generalizing s with
  | nil => intro n hn; simp [feed, allocs] at hn
  | cons b bs ih =>
    intro n hn
    rw [feed_cons, allocs_append, List.mem_append] at hn
    rcases hn with hn | hn
    · exact stepByte_allocs s b n hn
    · exact ih _ n hn

/-- once the loop has stopped nothing more is delivered or allocated on this connection -/
theorem stopped_absorbs (w : Stop) (bs : Bytes) : feed (.stopped w) bs = (.stopped w, []) := feed_stopped w bs

/-- **limit before allocation**: valid messages `fs`, then a header `hdr` whose value is ≥ limit, then anything:
the loop ends in `stopped (overLimit …)`, has delivered exactly `fs`, and its allocations are exactly those for `fs` -/
theorem limit_before_alloc (fs : List Bytes) (hdr rest : Bytes) (hfs : ∀ f ∈ fs, f.length < limit)
    (h4 : hdr.length = 4) (hover : le32 hdr ≥ limit) :
    (feed .init (encode fs ++ hdr ++ rest)).1 = .stopped (.overLimit (le32 hdr)) ∧
    deliveries (feed .init (encode fs ++ hdr ++ rest)).2 = fs ∧
    allocs (feed .init (encode fs ++ hdr ++ rest)).2 = allocs (feed .init (encode fs)).2 := by
  match hdr, h4 with
  | [a, b, c, d], _ =>
    have hp : Spec.Net.parse limit ([a, b, c, d] ++ rest) = ([], .over (le32 [a, b, c, d])) := by
      rw [Spec.Net.parse]
      have hlen : ¬ ([a, b, c, d] ++ rest).length < 4 := by simp
      have htk : ([a, b, c, d] ++ rest).take 4 = [a, b, c, d] := by simp
      simp only [hlen, if_false, htk, u32le_eq_le32, hover, if_true]
    have hpe := parse_encode_append limit (by decide) fs ([a, b, c, d] ++ rest) hfs
    rw [hp] at hpe
    have := feed_init_parse (encode fs ++ [a, b, c, d] ++ rest)
    rw [List.append_assoc, hpe] at this
    rw [List.append_assoc]
    refine ⟨by simpa [stateOfTail] using this.1, by simpa using this.2, ?_⟩
    -- allocations: after `encode fs` the loop is at a header; the four bytes stop it without `alloc`
    rw [feed_append]
    have hq := feed_init_parse (encode fs)
    rw [parse_encode limit (by decide) fs hfs] at hq
    have hst : (feed .init (encode fs)).1 = .waitHdr [] := by simpa [stateOfTail] using hq.1
    rw [hst, allocs_append]
    have hl : ¬ le32 [a, b, c, d] < limit := by omega
    have : feed (.waitHdr []) ([a, b, c, d] ++ rest) = (.stopped (.overLimit (le32 [a, b, c, d])), []) := by
      simp [feed_cons, stepByte, hl, feed_stopped]
    rw [this]; simp [allocs]

/-! ### stalls -/

/-- inside a frame: at least one byte of it has been consumed and it is not complete -/
def midFrame : RState → Bool
  | .waitHdr (_ :: _) => true
  | .waitPayload _ _ => true
  | _ => false

/-- **a stalled frame is dropped** (repaired code).  In every reachable state inside a frame, a deadline is armed
that lies at most `frameTimeout` after the arrival of the last byte; so once more than `frameTimeout` has passed
without a byte, the blocked read times out: the loop stops, and the disconnect is reported as non-cancelled. -/
theorem stall_drops (s : CState) (h : Reachable repaired s) (hm : midFrame s.r = true) :
    (∃ d, s.dl = some d ∧ d ≤ s.last + frameTimeout) ∧
    ∀ now, s.clock ≤ now → s.last + frameTimeout ≤ now →
      ∃ s', step repaired s (.expire now) = some (s', []) ∧ s'.r = .stopped .timeout ∧
        disconnectArg false (some .timeout) = false := by
  have hi := inv_reachable repaired s h
  have harm : armed repaired s.r = true := by
    cases hr : s.r with
    | waitHdr rg => cases rg with
      | nil => rw [hr] at hm; simp [midFrame] at hm
      | cons x t => simp [armed, repaired]
    | waitPayload n rg => simp [armed]
    | stopped w => rw [hr] at hm; simp [midFrame] at hm
  have hsome := hi.armedIff
  rw [harm] at hsome
  obtain ⟨d, hd⟩ := Option.isSome_iff_exists.mp hsome
  have hb := hi.bound d hd
  have hlive : s.r.live = true := by
    cases hr : s.r with
    | stopped w => rw [hr] at hm; simp [midFrame] at hm
    | waitHdr _ => rfl
    | waitPayload _ _ => rfl
  refine ⟨⟨d, hd, hb⟩, ?_⟩
  intro now hc hn
  have hdn : d ≤ now := by omega
  exact ⟨{ s with r := .stopped .timeout, dl := none, clock := now }, by simp [step, hd, hc, hdn, hlive], rfl, rfl⟩

/-- the pinned code has the same guarantee only inside the payload -/
theorem stall_drops_pinned_payload (s : CState) (h : Reachable pinned s) (need : Nat) (rg : Bytes)
    (hm : s.r = .waitPayload need rg) :
    ∀ now, s.clock ≤ now → s.last + frameTimeout ≤ now →
      ∃ s', step pinned s (.expire now) = some (s', []) ∧ s'.r = .stopped .timeout := by
  have hi := inv_reachable pinned s h
  have hsome := hi.armedIff
  rw [hm] at hsome
  simp only [armed] at hsome
  obtain ⟨d, hd⟩ := Option.isSome_iff_exists.mp hsome
  have hb := hi.bound d hd
  intro now hc hn
  have hdn : d ≤ now := by omega
  exact ⟨{ s with r := .stopped .timeout, dl := none, clock := now }, by simp [step, hd, hc, hdn, hm, RState.live], rfl⟩

/-- **the defect of the pinned tree**: one header byte arrives, then nothing.  The pinned code is in a reachable
state in which `expire` is never enabled (the deadline is cleared for the whole header read): the connection is
never dropped.  The repaired code drops it after `frameTimeout`. -/
theorem pinned_header_stall_counterexample :
    (∃ s, Reachable pinned s ∧ midFrame s.r = true ∧ ∀ now, step pinned s (.expire now) = none) ∧
    (runT pinned 0 (CState.init 0) [(0, .bytes [36]), (3000, .nothing), (600000, .nothing)] {}).stop = none ∧
    (runT repaired 0 (CState.init 0) [(0, .bytes [36]), (3000, .nothing), (600000, .nothing)] {}).stop
      = some (.timeout, 2000) := by
  refine ⟨⟨⟨.waitHdr [36], none, 0, 0, 0⟩, ⟨0, [.arrive 0 36], [], by decide⟩, rfl, fun now => by simp [step]⟩, by decide, by decide⟩

/-! ### garbage payloads -/

/-- **garbage keeps the stream in sync**: replace the payload of the i-th frame by any bytes `g` of the same length
(empty stays empty, garbage, truncated varint, …).  The deliveries are those of the original stream with the i-th
replaced by `g`: every other message is delivered intact and in place, and the loop is again at a header. -/
theorem garbage_payload_keeps_sync (fs : List Bytes) (i : Nat) (g : Bytes) (hfs : ∀ f ∈ fs, f.length < limit)
    (hi : i < fs.length) (hg : g.length = (fs[i]'hi).length) :
    deliveries (feed .init (encode (fs.set i g))).2 = (deliveries (feed .init (encode fs)).2).set i g ∧
    (feed .init (encode (fs.set i g))).1 = .waitHdr [] := by
  have hfs' : ∀ f ∈ fs.set i g, f.length < limit := by
    intro f hf
    rcases List.mem_or_eq_of_mem_set hf with hf | hf
    · exact hfs f hf
    · subst hf; rw [hg]; exact hfs _ (List.getElem_mem hi)
  have h1 := feed_init_parse (encode (fs.set i g))
  rw [parse_encode limit (by decide) _ hfs'] at h1
  have h2 := feed_init_parse (encode fs)
  rw [parse_encode limit (by decide) _ hfs] at h2
  exact ⟨by rw [h1.2, h2.2], by simpa [stateOfTail] using h1.1⟩

/-- frame boundaries depend only on the headers: two message sequences with the same lengths are cut identically -/
theorem boundaries_depend_on_lengths_only (fs gs : List Bytes) (hfs : ∀ f ∈ fs, f.length < limit)
    (hlen : gs.map List.length = fs.map List.length) :
    (deliveries (feed .init (encode gs)).2).map List.length = (deliveries (feed .init (encode fs)).2).map List.length := by
  have hgs : ∀ g ∈ gs, g.length < limit := by
    intro g hg
    have : g.length ∈ gs.map List.length := List.mem_map.mpr ⟨g, hg, rfl⟩
    rw [hlen] at this
    obtain ⟨f, hf, he⟩ := List.mem_map.mp this
    rw [← he]; exact hfs f hf
  have h1 := feed_init_parse (encode gs)
  rw [parse_encode limit (by decide) _ hgs] at h1
  have h2 := feed_init_parse (encode fs)
  rw [parse_encode limit (by decide) _ hfs] at h2
  rw [h1.2, h2.2, hlen]

/-- **no byte of a broken frame is delivered**: valid messages followed by a proper prefix `p` of a frame (cut inside
the header or inside the payload): exactly the valid messages have been delivered -/
theorem nothing_of_incomplete_frame_delivered (fs : List Bytes) (f : Bytes) (k : Nat)
    (hfs : ∀ x ∈ fs, x.length < limit) (hf : f.length < limit) (hk : k < (frame f).length) :
    deliveries (feed .init (encode fs ++ (frame f).take k)).2 = fs := by
  have hp : (Spec.Net.parse limit ((frame f).take k)).1 = [] := by
    rw [Spec.Net.parse]
    have hfl : (frame f).length = f.length + 4 := by simp [frame, putLe32_length]; omega
    by_cases h4 : ((frame f).take k).length < 4
    · simp only [h4, if_true]
    · simp only [h4, if_false]
      have hk4 : 4 ≤ k := by simp only [List.length_take] at h4; omega
      have htk : ((frame f).take k).take 4 = putLe32 f.length := by
        rw [List.take_take, Nat.min_eq_left hk4]
        unfold frame; exact List.take_left' (putLe32_length _)
      have hlt : f.length < 4294967296 := by have : limit = 500000 := rfl; omega
      rw [htk, u32le_putLe32 _ hlt]
      have h1 : ¬ f.length ≥ limit := by omega
      have h2 : (((frame f).take k).drop 4).length < f.length := by
        simp only [List.length_drop, List.length_take]; omega
      simp only [h1, h2, if_false, if_true]
  have := parse_encode_append limit (by decide) fs ((frame f).take k) hfs
  rw [(feed_init_parse _).2, this, hp]; simp

/-! non-vacuity -/
example : (feed .init ([1, 0, 0, 0, 7] ++ [32, 161, 7, 0] ++ [1, 0, 0, 0, 9])).1 = .stopped (.overLimit 500000) := by decide
example : deliveries (feed .init ([1, 0, 0, 0, 7] ++ [32, 161, 7, 0] ++ [1, 0, 0, 0, 9])).2 = [[7]] := by decide
example : Reachable repaired ⟨.waitHdr [36], some 2000, 0, 0, 0⟩ := ⟨0, [.arrive 0 36], [], by decide⟩
example : (runT repaired 300 (CState.init 0) [(0, .bytes [2, 0, 0, 0, 8]), (3000, .bytes [1])] {}).stop = some (.timeout, 2000) := by decide

end RawPanelVerif.C10
