import RawPanelVerif.Lemmas.InBits
import RawPanelVerif.Lemmas.TotalIn
import RawPanelVerif.Lemmas.EncSoundAll
import RawPanelVerif.Lemmas.EncMaskAll
import RawPanelVerif.Lemmas.EncCarried
/-!
# C01 — inbound messages keep their meaning when written as ASCII lines

Kernels (each for ALL values, by arithmetic, not enumeration):
* `mode_pack`, `ext_pack`, `colIndex_pack`, `colRGB_pack`, `textColor_pack_*` — the packed integers the encoder writes
  are read back by the reference reader as the fields of the message (colours: the 2-bit level of each channel);
  `mode_pack_masked`, `ext_pack_masked`, `colIndex_pack_masked` — the same WITHOUT range hypothesis (any `int32` /
  `uint32`, negative included): the reader recovers the low bits the field width carries;
* `text_fields` — the trimmed `|`-join of any field list is re-split to the same fields padded with empties;
* `chunk_len_le_170`, `chunk_count`, `chunks_concat`, `b64_roundtrip` — the chunk loop never panics, emits
  ⌈len/170⌉ lines of 1..170 bytes whose concatenation is the image, and base64 decodes back.

Main theorems (unbounded in messages, states, ids):
* `enc_ok` — the encoder returns on every input;
* `enc_sound` — on `inDomainIn` (the property's quantifier) `readInbound (encIn ms) = ms.flatMap effectsOfIn`: list
  equality, hence submission order of messages, list order of states, of the component ids of a state, of the sections
  of one id (mode, colour, extended, text, graphics, raw-ADC) and of registers (`enc_sound_append` for messages);
* `enc_sound_masked` — on the much larger `inWireDomain` (NO enum / bit-field range, "one of" colours with both
  alternatives, second line without pair mode, images without data, negative enum arguments, any flow / register /
  environment number): the reader reads the effects of `Spec.In.maskMsg m`, the message reduced to what the field widths
  carry; `wire_domain_contains_domain`, `mask_invisible_on_domain` (the two theorems agree on `inDomainIn`);
  `text_line_masked` (the 21-field line of any non-default text record), `both_colours_rgb_wins`, `pair_mode_inferred`.
  What `inWireDomain` still asks: ids / sizes / verbatim-printed integers inside their Go types (true of every protobuf
  value), string fields free of `|` and LF (C07's subject), register ids in `[A-Z0-9]*` (FLAG: digits), no `Processors`
  (JSON only), and the `encoding/json` round-trip law for a `SetNetworkConfig` argument (oracle; `witnessOracle` is a
  concrete oracle satisfying it non-trivially, with examples that contain the command).

Fields read only under a condition / not at all:
* `proto_fields_partition` — every field of the proto definitions reachable from `InboundMessage` is either read by the
  encoder model (`protoFieldsRead`) or lies under `HWCState.Processors` (`protoFieldsOpaque`: JSON only, outside the
  domain); no field of an inbound message is ignored unconditionally (the `ein.fields` record compares the two lists with
  the real protobuf descriptors);
* `enc_ignores_unread` — the encoder's lines depend on `Model.In.carried m` only: the colour index next to an RGB colour,
  X / Y of an image without offset flag, the fields of a scale without positive type, the integer value under formatting
  7 / 10 / 11, the unformatted font size under any other formatting and id / value of a register of unknown kind can hold
  anything (in particular values coinciding with other fields) without changing a line; `enc_ignores_unread_eq`: two
  message lists with the same carried parts encode equally.

Calls are independent (the model is a function): the check also runs call sequences on the real encoder — results of
earlier calls kept and re-read after later calls, two sequences in two goroutines, message objects overwritten in place
and converted again (`ein.seq`, `ein.par`, `ein.reuse` records), every result judged against the model / Spec of its call.

The check evaluates the same predicates on the implementation's lines with EXACT list equality per message (nothing on
the inbound side iterates over a Go map, so no permutation is tolerated): `effectsOfIn` on `inDomainIn`, the effects of
`maskMsg` on `inWireDomain \ inDomainIn` (tag `B:wiredom`).
-/
namespace RawPanelVerif.C01
open RawPanelVerif RawPanelVerif.Bytes RawPanelVerif.MsgIn RawPanelVerif.Model.In RawPanelVerif.InBits RawPanelVerif.TotalIn
open RawPanelVerif.Spec.In

/-! ## kernels -/

/-- `HWC#`: for every state 0-5, output flag and blink mask 0-15 the reader recovers exactly these -/
theorem mode_pack (s b : Nat) (o : Bool) (hs : s < 6) (hb : b < 16) :
    readMode (modeInt { state := (s : Int), output := o, blink := b }) = { state := s, output := o, blink := b } :=
  InBits.mode_pack s b o hs hb

/-- `HWCx#`: every interpretation 0-15 and value 0-4095 -/
theorem ext_pack (i v : Nat) (hi : i < 16) (hv : v < 4096) :
    readExt (extInt { interp := (i : Int), value := v }) = { interp := i, value := v } :=
  InBits.ext_pack i v hi hv

/-- `HWCc#` index colours 0-31 -/
theorem colIndex_pack (i : Nat) (hi : i < 32) : readColor (colorIndexInt (i : Int)) = .index i :=
  InBits.colIndex_pack i hi

/-- `HWCc#` RGB: for EVERY triple (any 32-bit channel values) the reader yields the 2-bit level of each channel -/
theorem colRGB_pack (r g b : Nat) :
    readColor (colorRGBInt { red := r, green := g, blue := b }) = .rgb (level2 r) (level2 g) (level2 b) :=
  InBits.colRGB_pack r g b

/-- colour fields 19/20 of a text line (`convertToColorInteger`) -/
theorem textColor_pack_rgb (r g b : Nat) (i : Option Int) :
    readColor (colorInt { rgb := some { red := r, green := g, blue := b }, index := i }) = .rgb (level2 r) (level2 g) (level2 b) :=
  InBits.textColor_pack_rgb r g b i

theorem textColor_pack_index (i : Nat) (hi : i < 32) : readColor (colorInt { rgb := none, index := some (i : Int) }) = .index i :=
  InBits.textColor_pack_index i hi

/-- **21 text fields**: whatever the fields are (any number, any presence pattern), as long as none contains `|`,
the reader's field `i` of the trimmed join is field `i` of the message (empty beyond the end) -/
theorem text_fields (fs : List Bytes) (h : ∀ f ∈ fs, (124 : UInt8) ∉ f) (i : Nat) :
    fld (splitOn 124 (implodeRTE 124 fs)) i = fs.getD i [] :=
  fields_roundtrip 124 fs h i

/-- the chunk loop: every chunk it slices has 1..170 bytes -/
theorem chunk_len_le_170 (data : Bytes) (i : Nat) (h : i < totalLines data.length) :
    gfxChunk data i = .ok (chunkAt data i) ∧ 1 ≤ (chunkAt data i).length ∧ (chunkAt data i).length ≤ 170 := by
  refine ⟨gfxChunk_ok data i h, ?_⟩
  rw [totalLines_eq] at h
  rw [chunkAt_eq]
  simp only [List.length_take, List.length_drop]
  omega

/-- number of lines = ⌈len/170⌉ -/
theorem chunk_count (len : Nat) (h : 1 ≤ len) :
    (totalLines len - 1) * 170 < len ∧ len ≤ totalLines len * 170 := by
  rw [totalLines_eq]; omega

/-- the chunks, in order, are the image -/
theorem chunks_concat (data : Bytes) :
    ((List.range (totalLines data.length)).map (chunkAt data)).flatten = data := TotalIn.chunks_concat data

/-- base64 of every chunk decodes back to the chunk -/
theorem b64_roundtrip (b : Bytes) : B64In.decode (B64In.encode b) = b := B64In.decode_encode b

/-! ## the main theorems -/

/-- the encoder returns (no panic) on every input; in particular on the domain -/
theorem enc_ok (O : Oracles) (ms : List InMsg) : encInE O ms = .ok (encIn O ms) := TotalIn.encIn_total O ms

/-- **C01 (full strength, unbounded)**: for every list of messages of the ASCII-representable domain — any number of
messages, states, component ids, every field combination — the lines the encoder returns, read by the independent
reference reader, are exactly the effects the messages describe: same effects, same order (submission order of
messages, per-id replication, states before registers), nothing extra.  `O` are the `encoding/json` results
(`InDomainIn` asks the round-trip law of the one JSON-carrying command, `SetNetworkConfig`). -/
theorem enc_sound (O : Oracles) (ms : List InMsg) (h : inDomainIn O ms = true) :
    readInbound O (encIn O ms) = ms.flatMap effectsOfIn :=
  EncSound.enc_sound_all O ms h

/-- same statement on the `Except` model -/
theorem enc_sound_E (O : Oracles) (ms : List InMsg) (ls : List Bytes) (h : inDomainIn O ms = true)
    (hr : encInE O ms = .ok ls) : readInbound O ls = ms.flatMap effectsOfIn := by
  rw [enc_ok] at hr
  injection hr with hr
  rw [← hr]
  exact enc_sound O ms h

/-- effects of successive messages appear in submission order -/
theorem enc_sound_append (O : Oracles) (a b : List InMsg) (ha : inDomainIn O a = true) (hb : inDomainIn O b = true) :
    readInbound O (encIn O (a ++ b)) = readInbound O (encIn O a) ++ readInbound O (encIn O b) := by
  rw [enc_sound O a ha, enc_sound O b hb, enc_sound O (a ++ b) (by
    unfold inDomainIn at *; rw [List.all_append, ha, hb]; rfl), List.flatMap_append]

/-! ## fields read only under a condition -/

/-- the two lists partition the field names of the proto definitions: none in both, none twice -/
theorem proto_fields_partition :
    protoFieldsRead.all (fun f => !protoFieldsOpaque.contains f) = true ∧ (protoFieldsRead ++ protoFieldsOpaque).Nodup := by
  decide +kernel

/-- **the encoder reads a field only where `carried` keeps it** (every message list) -/
theorem enc_ignores_unread (O : Oracles) (ms : List InMsg) : encIn O (ms.map carried) = encIn O ms :=
  EncCarried.encIn_carried O ms

/-- two message lists that differ only in fields the encoder does not read (given the others) encode equally -/
theorem enc_ignores_unread_eq (O : Oracles) (a b : List InMsg) (h : a.map carried = b.map carried) : encIn O a = encIn O b := by
  rw [← enc_ignores_unread O a, ← enc_ignores_unread O b, h]

/-- arbitrary and coinciding values in unread fields: an index next to RGB, X = Y = W without offset flag, a scale of type
0 with ranges, a value (= the font size) under formatting 10, a register of kind 7 -/
def unreadA : List InMsg :=
  [ { states := [ { ids := [5],
                    color := some { rgb := some { red := 255, green := 0, blue := 0 }, index := some 9 },
                    text := some { integerValue := 12, formatting := 10, scale := some { rangeLow := 12, rangeHigh := 12 },
                                   textStyling := some { unformattedFontSize := 12 } },
                    gfx := some { w := 8, h := 8, x := 8, y := 8, imageData := [1, 2, 3] } } ],
      registers := [ { reg := 7, id := asc "A", value := 3 } ] } ]

/-- the same messages with those fields at their defaults -/
def unreadB : List InMsg :=
  [ { states := [ { ids := [5],
                    color := some { rgb := some { red := 255, green := 0, blue := 0 } },
                    text := some { formatting := 10, scale := some {}, textStyling := some { unformattedFontSize := 12 } },
                    gfx := some { w := 8, h := 8, imageData := [1, 2, 3] } } ],
      registers := [ { reg := 7 } ] } ]

/-- non-vacuity: different messages, same carried parts, same lines (and the lines carry the read fields) -/
example : unreadA.map carried = unreadB.map carried ∧ unreadA ≠ unreadB ∧ encIn default unreadA = encIn default unreadB ∧
    encIn default unreadA = [asc "HWCc#5=240", asc "HWCt#5=12|10|||1", asc "HWCg#5=0/0,8x8:AQID"] := by
  decide +kernel

/-! ## non-vacuity -/

def sampleMsgs : List InMsg :=
  [ { flow := 2,
      command := some { clearAll := true, panelBrightness := some (5, 7), setSleepMode := some 1 },
      states := [ { ids := [3, 40],
                    mode := some { state := 4, output := true, blink := 9 },
                    color := some { rgb := some { red := 255, green := 128, blue := 0 } },
                    ext := some { interp := 3, value := 1000 },
                    text := some { integerValue := -12, formatting := 3, title := asc "Vol", solidHeaderBar := true,
                                   textline1 := asc "L1", textline2 := asc "L2", pairMode := 2,
                                   scale := some { scaleType := 1, rangeLow := -100, rangeHigh := 100 },
                                   textStyling := some { textFont := some { face := 2, height := 1, width := 3 }, fixedWidth := true },
                                   pixelColor := some { index := some 13 } },
                    gfx := some { imageType := 1, w := 8, h := 8, xyOffset := true, x := 2, y := 3,
                                  imageData := List.replicate 200 7 },
                    rawADC := some true } ],
      registers := [ { reg := 0, id := asc "A1", value := 9 }, { reg := 1, id := asc "12", value := 1 } ] },
    { states := [ { ids := [7], text := some { formatting := 10 } } ] } ]

example : inDomainIn default sampleMsgs = true := by decide +kernel

/-- the theorem applied to the sample: 1 + 3 + 2·6 + 2 + 1 effects -/
example : (readInbound default (encIn default sampleMsgs)).length = 19 := by
  rw [enc_sound default sampleMsgs (by decide +kernel)]
  decide +kernel

/-! ## outside the representable domain: what the wire carries (no enum / bit-field range hypothesis)

`enc_sound` asks `inDomainIn` (state 0-5, blink < 16, value < 4096, index < 32, icons / fonts / sizes in range, "one of"
colours, pair mode present with a second line, image data ≥ 1 byte …).  `enc_sound_masked` drops every such range: on
`inWireDomain` (only: ids / sizes / verbatim-printed integers within their Go types, strings free of `|` and LF, register
ids in their alphabet, the `SetNetworkConfig` oracle law, no `Processors`) the reference reader reads from the encoder's
lines exactly the effects of `maskMsg m` — the message with every field reduced to the width the packed integers carry
(`Spec.In.maskMsg`: two's-complement low bits, RGB wins over the index, inferred pair mode, no scale without positive
type, no image without data, no negative enum argument).  So the mask / wrap behaviour of the 32-bit fields is part of
a theorem, and a change of a mask constant or shift in the encoder breaks it for out-of-range values too. -/

/-- `HWC#` for EVERY state (any `int32`, negative included), output flag and blink mask (any `uint32`) -/
theorem mode_pack_masked (s : Int) (b : Nat) (o : Bool) :
    readMode (modeInt { state := s, output := o, blink := b }) = { state := (s % 8).toNat, output := o, blink := b % 16 } :=
  EncMask.mode_packW s b o

/-- `HWCx#` for EVERY interpretation and value -/
theorem ext_pack_masked (i : Int) (v : Nat) :
    readExt (extInt { interp := i, value := v }) = { interp := (i % 16).toNat, value := v % 4096 } :=
  EncMask.ext_packW i v

/-- `HWCc#` index colours: EVERY index, the low 5 bits are carried -/
theorem colIndex_pack_masked (i : Int) : readColor (colorIndexInt i) = .index (i % 32).toNat :=
  EncMask.colIndex_packW i

/-- the `HWCt#` line of EVERY non-default text record with verbatim fields inside their Go types is read as the
normal form of the masked record -/
theorem text_line_masked (t : Text) (hne : t ≠ {}) (hok : textWire t = true) :
    readText (implodeRTE 124 (textField0P t :: textFieldsTail t)) = some (normText (textOf (maskText t))) :=
  EncMask.readText_encW t hne hok

/-- **C01 outside the enum / bit-field ranges** (unbounded in messages, states, ids): the lines of any list of
messages of `inWireDomain`, read by the reference reader, are exactly the effects of the masked messages, in order -/
theorem enc_sound_masked (O : Oracles) (ms : List InMsg) (h : inWireDomain O ms = true) :
    readInbound O (encIn O ms) = (ms.map maskMsg).flatMap effectsOfIn :=
  EncMask.enc_sound_masked_all O ms h

/-- `inWireDomain` contains `inDomainIn` (so `enc_sound_masked` also speaks about every message of `enc_sound`) -/
theorem wire_domain_contains_domain (O : Oracles) (ms : List InMsg) (h : inDomainIn O ms = true) : inWireDomain O ms = true :=
  EncMask.wire_of_domain O ms h

/-- … and on `inDomainIn` masking changes no effect: the two theorems agree there -/
theorem mask_invisible_on_domain (O : Oracles) (ms : List InMsg) (h : inDomainIn O ms = true) :
    (ms.map maskMsg).flatMap effectsOfIn = ms.flatMap effectsOfIn := by
  rw [← enc_sound_masked O ms (wire_domain_contains_domain O ms h), enc_sound O ms h]

/-- **a colour with both alternatives set** (excluded by `inDomainIn`): the code's behaviour is determinate — the RGB
alternative is written (`HWCc#` and text colour fields alike), exactly what `Spec.colorOf` assigns to such a colour -/
theorem both_colours_rgb_wins (O : Oracles) (id : Nat) (hid : id < 4294967296) (rgb : ColorRGB) (i : Int) :
    readInbound O (encIn O [{ states := [{ ids := [id], color := some { rgb := some rgb, index := some i } }] }]) =
      [.setColor id (.rgb (level2 rgb.red) (level2 rgb.green) (level2 rgb.blue))] := by
  rw [enc_sound_masked O _ (by
    simp only [inWireDomain, msgWire, stateWire, optOk, List.all_cons, List.all_nil, Bool.and_true, Bool.true_and, u32ok,
      Option.isNone_none, decide_eq_true_eq]
    exact hid)]
  rfl

/-- **pair mode 0 with a second line / second value** (excluded by `inDomainIn`): the masked record has pair mode 1 —
by `text_line_masked` / `enc_sound_masked` that is what the reader reads (Appendix B: pair mode ≥ 1 is implied by a
present field 6 or 7) -/
theorem pair_mode_inferred (t : Text) (h2 : t.textline2 ≠ [] ∨ t.integerValue2 ≠ 0) (hp : t.pairMode < 1) :
    (maskText t).pairMode = 1 := by
  have hne : t ≠ {} := by
    intro e
    subst e
    rcases h2 with h | h
    · exact h rfl
    · exact h rfl
  rw [EncMask.mt_pm t hne]
  have : secondPresent t = true := by
    unfold secondPresent
    rcases h2 with h | h
    · simp [h]
    · simp [h]
  rw [this]
  simp [hp]

/-! ### non-vacuity of the masked theorems -/

/-- out-of-range everything: state 13 (→ 5), blink 0x1F3 (→ 3), interpretation 19 (→ 3), value 5000 (→ 904), both
colour alternatives, icons 7 / 9, font face 13, width 6, padding 5, second line without pair mode, negative
formatting, scale of type 0, image type 9, an image without data, `SleepMode=-1`, flow 9, register kind 7 -/
def wildMsgs : List InMsg :=
  [ { flow := 9,
      command := some { setSleepMode := some (-1), loadCPU := some 3, simulateEnvironmentalHealth := some 5 },
      states := [ { ids := [3, 40],
                    mode := some { state := 13, output := true, blink := 499 },
                    color := some { rgb := some { red := 255, green := 128, blue := 0 }, index := some 77 },
                    ext := some { interp := 19, value := 5000 },
                    text := some { integerValue := -12, formatting := -3, stateIcon := 7, modifierIcon := 9, title := asc "Vol",
                                   textline1 := asc "L1", textline2 := asc "L2", pairMode := 0,
                                   scale := some { scaleType := 0, rangeLow := -100, rangeHigh := 100 },
                                   textStyling := some { textFont := some { face := 13, height := 1, width := 6 }, titleBarPadding := 5 },
                                   pixelColor := some { index := some 45 } },
                    gfx := some { imageType := 9, w := 8, h := 8, imageData := [1, 2, 3] } },
                  { ids := [7], gfx := some { w := 8, h := 8 }, mode := some { state := -1 } } ],
      registers := [ { reg := 7, id := asc "A1", value := 9 }, { reg := 0, id := asc "A1", value := 9 } ] } ]

example : inWireDomain default wildMsgs = true ∧ inDomainIn default wildMsgs = false := by decide +kernel

example : readInbound default (encIn default wildMsgs) =
    [ .cmd (.loadCPU 3),
      .setMode 3 { state := 5, output := true, blink := 3 }, .setColor 3 (.rgb 3 1 0), .setExt 3 { interp := 3, value := 904 },
      .setText 3 (normText { value := -12, stateIcon := 3, modIcon := 1, title := asc "Vol", line1 := asc "L1", line2 := asc "L2",
                             pairMode := 1, textFace := 5, textW := 2, textH := 1, padding := 1, pixelColor := some (.index 13) }),
      .setGfx 3 { kind := .mono, w := 8, h := 8, xy := none, data := [1, 2, 3] },
      .setMode 40 { state := 5, output := true, blink := 3 }, .setColor 40 (.rgb 3 1 0), .setExt 40 { interp := 3, value := 904 },
      .setText 40 (normText { value := -12, stateIcon := 3, modIcon := 1, title := asc "Vol", line1 := asc "L1", line2 := asc "L2",
                              pairMode := 1, textFace := 5, textW := 2, textH := 1, padding := 1, pixelColor := some (.index 13) }),
      .setGfx 40 { kind := .mono, w := 8, h := 8, xy := none, data := [1, 2, 3] },
      .setMode 7 { state := 7, output := false, blink := 0 },
      .reg .mem (asc "A1") 9 ] := by
  rw [enc_sound_masked default wildMsgs (by decide +kernel)]
  decide +kernel

example : (maskText { textline2 := asc "b", pairMode := 0 }).pairMode = 1 :=
  pair_mode_inferred _ (Or.inl (by decide)) (by decide)

/-! ### `SetNetworkConfig`: a witness oracle

The `SetNetworkConfig` clause of `inDomainIn` / `inWireDomain` is the round-trip law `parseNet (netJson n) = some n` of
the `encoding/json` oracle; the default oracle has `parseNet := none`, so no example above contains that command.
`witnessOracle` is a concrete oracle with a non-trivial `netJson` / `parseNet` pair that satisfies the law for two
configurations; with it the clause is exercised. -/

def witnessCfg : NetCfg := { dhcp := true, address := asc "10.0.0.5", netmask := asc "255.255.255.0", gateway := asc "10.0.0.1" }
def witnessJson : Bytes := asc "{\"dhcp\":true,\"address\":\"10.0.0.5\",\"netmask\":\"255.255.255.0\",\"gateway\":\"10.0.0.1\"}"

def witnessOracle : Oracles :=
  { netJson := fun n => if n = witnessCfg then witnessJson else asc "{}",
    parseNet := fun t => if t = witnessJson then some witnessCfg else if t = asc "{}" then some {} else none,
    parseState := fun _ => {},
    parseMsgs := fun _ => [] }

def netMsgs : List InMsg :=
  [ { command := some { sendNetworkConfig := true, setNetworkConfig := some witnessCfg } },
    { command := some { setNetworkConfig := some {} } } ]

example : inDomainIn witnessOracle netMsgs = true := by decide +kernel

/-- a configuration for which the oracle law fails is outside the domain (the law is not vacuous) -/
example : inDomainIn witnessOracle [{ command := some { setNetworkConfig := some { dhcp := true } } }] = false := by decide +kernel

example : readInbound witnessOracle (encIn witnessOracle netMsgs) =
    [.cmd .sendNetworkConfig, .cmd (.setNetworkConfig witnessCfg), .cmd (.setNetworkConfig {})] := by
  rw [enc_sound witnessOracle netMsgs (by decide +kernel)]
  decide +kernel

example : encIn witnessOracle netMsgs = [asc "NetworkConfig?", asc "SetNetworkConfig=" ++ witnessJson, asc "SetNetworkConfig={}"] := by
  decide +kernel

end RawPanelVerif.C01
