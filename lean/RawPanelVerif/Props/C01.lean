import RawPanelVerif.Lemmas.InBits
import RawPanelVerif.Lemmas.TotalIn
import RawPanelVerif.Lemmas.EncSoundAll
/-!
# C01 — inbound messages keep their meaning when written as ASCII lines

Kernels (each for ALL values, by arithmetic, not enumeration):
* `mode_pack`, `ext_pack`, `colIndex_pack`, `colRGB_pack`, `textColor_pack` — the packed integers the encoder writes
  are read back by the reference reader as the fields of the message (colours: the 2-bit level of each channel);
* `text_fields` — the trimmed `|`-join of any field list is re-split to the same fields padded with empties;
* `chunk_len_le_170`, `chunk_count`, `chunks_concat`, `b64_roundtrip` — the chunk loop never panics, emits
  ⌈len/170⌉ lines of 1..170 bytes whose concatenation is the image, and base64 decodes back.
-/
namespace RawPanelVerif.C01
open RawPanelVerif RawPanelVerif.Bytes RawPanelVerif.MsgIn RawPanelVerif.Model.In RawPanelVerif.InBits RawPanelVerif.TotalIn
open RawPanelVerif.Spec.In

/-! ## kernels -/

/-- `HWC#`: for every state 0-5, output flag and blink mask 0-15 the reader recovers exactly these -/
theorem mode_pack (s b : Nat) (o : Bool) (hs : s < 6) (hb : b < 16) :
    readMode (modeInt { state := (s : Int), output := o, blink := b }) = { state := s, output := o, blink := b } :=
  InBits.mode_pack s b o hs hb

/-- `HWCx#`: every interpretation 0-15 and value 0-4095 -/
theorem ext_pack (i v : Nat) (hi : i < 16) (hv : v < 4096) :
    readExt (extInt { interp := (i : Int), value := v }) = { interp := i, value := v } :=
  InBits.ext_pack i v hi hv

/-- `HWCc#` index colours 0-31 -/
theorem colIndex_pack (i : Nat) (hi : i < 32) : readColor (colorIndexInt (i : Int)) = .index i :=
  InBits.colIndex_pack i hi

/-- `HWCc#` RGB: for EVERY triple (any 32-bit channel values) the reader yields the 2-bit level of each channel -/
theorem colRGB_pack (r g b : Nat) :
    readColor (colorRGBInt { red := r, green := g, blue := b }) = .rgb (level2 r) (level2 g) (level2 b) :=
  InBits.colRGB_pack r g b

/-- colour fields 19/20 of a text line (`convertToColorInteger`) -/
theorem textColor_pack_rgb (r g b : Nat) (i : Option Int) :
    readColor (colorInt { rgb := some { red := r, green := g, blue := b }, index := i }) = .rgb (level2 r) (level2 g) (level2 b) :=
  InBits.textColor_pack_rgb r g b i

theorem textColor_pack_index (i : Nat) (hi : i < 32) : readColor (colorInt { rgb := none, index := some (i : Int) }) = .index i :=
  InBits.textColor_pack_index i hi

/-- **21 text fields**: whatever the fields are (any number, any presence pattern), as long as none contains `|`,
the reader's field `i` of the trimmed join is field `i` of the message (empty beyond the end) -/
theorem text_fields (fs : List Bytes) (h : ∀ f ∈ fs, (124 : UInt8) ∉ f) (i : Nat) :
    fld (splitOn 124 (implodeRTE 124 fs)) i = fs.getD i [] :=
  fields_roundtrip 124 fs h i

/-- the chunk loop: every chunk it slices has 1..170 bytes -/
theorem chunk_len_le_170 (data : Bytes) (i : Nat) (h : i < totalLines data.length) :
    gfxChunk data i = .ok (chunkAt data i) ∧ 1 ≤ (chunkAt data i).length ∧ (chunkAt data i).length ≤ 170 := by
  refine ⟨gfxChunk_ok data i h, ?_⟩
  rw [totalLines_eq] at h
  rw [chunkAt_eq]
  simp only [List.length_take, List.length_drop]
  omega

/-- number of lines = ⌈len/170⌉ -/
theorem chunk_count (len : Nat) (h : 1 ≤ len) :
    (totalLines len - 1) * 170 < len ∧ len ≤ totalLines len * 170 := by
  rw [totalLines_eq]; omega

/-- the chunks, in order, are the image -/
theorem chunks_concat (data : Bytes) :
    ((List.range (totalLines data.length)).map (chunkAt data)).flatten = data := TotalIn.chunks_concat data

/-- base64 of every chunk decodes back to the chunk -/
theorem b64_roundtrip (b : Bytes) : B64In.decode (B64In.encode b) = b := B64In.decode_encode b

/-! ## the main theorems -/

/-- the encoder returns (no panic) on every input; in particular on the domain -/
theorem enc_ok (O : Oracles) (ms : List InMsg) : encInE O ms = .ok (encIn O ms) := TotalIn.encIn_total O ms

/-- **C01 (full strength, unbounded)**: for every list of messages of the ASCII-representable domain — any number of
messages, states, component ids, every field combination — the lines the encoder returns, read by the independent
reference reader, are exactly the effects the messages describe: same effects, same order (submission order of
messages, per-id replication, states before registers), nothing extra.  `O` are the `encoding/json` results
(`InDomainIn` asks the round-trip law of the one JSON-carrying command, `SetNetworkConfig`). -/
theorem enc_sound (O : Oracles) (ms : List InMsg) (h : inDomainIn O ms = true) :
    readInbound O (encIn O ms) = ms.flatMap effectsOfIn :=
  EncSound.enc_sound_all O ms h

/-- same statement on the `Except` model -/
theorem enc_sound_E (O : Oracles) (ms : List InMsg) (ls : List Bytes) (h : inDomainIn O ms = true)
    (hr : encInE O ms = .ok ls) : readInbound O ls = ms.flatMap effectsOfIn := by
  rw [enc_ok] at hr
  injection hr with hr
  rw [← hr]
  exact enc_sound O ms h

/-- effects of successive messages appear in submission order -/
theorem enc_sound_append (O : Oracles) (a b : List InMsg) (ha : inDomainIn O a = true) (hb : inDomainIn O b = true) :
    readInbound O (encIn O (a ++ b)) = readInbound O (encIn O a) ++ readInbound O (encIn O b) := by
  rw [enc_sound O a ha, enc_sound O b hb, enc_sound O (a ++ b) (by
    unfold inDomainIn at *; rw [List.all_append, ha, hb]; rfl), List.flatMap_append]

/-! ## non-vacuity -/

def sampleMsgs : List InMsg :=
  [ { flow := 2,
      command := some { clearAll := true, panelBrightness := some (5, 7), setSleepMode := some 1 },
      states := [ { ids := [3, 40],
                    mode := some { state := 4, output := true, blink := 9 },
                    color := some { rgb := some { red := 255, green := 128, blue := 0 } },
                    ext := some { interp := 3, value := 1000 },
                    text := some { integerValue := -12, formatting := 3, title := asc "Vol", solidHeaderBar := true,
                                   textline1 := asc "L1", textline2 := asc "L2", pairMode := 2,
                                   scale := some { scaleType := 1, rangeLow := -100, rangeHigh := 100 },
                                   textStyling := some { textFont := some { face := 2, height := 1, width := 3 }, fixedWidth := true },
                                   pixelColor := some { index := some 13 } },
                    gfx := some { imageType := 1, w := 8, h := 8, xyOffset := true, x := 2, y := 3,
                                  imageData := List.replicate 200 7 },
                    rawADC := some true } ],
      registers := [ { reg := 0, id := asc "A1", value := 9 }, { reg := 1, id := asc "12", value := 1 } ] },
    { states := [ { ids := [7], text := some { formatting := 10 } } ] } ]

example : inDomainIn default sampleMsgs = true := by decide +kernel

/-- the theorem applied to the sample: 1 + 3 + 2·6 + 2 + 1 effects -/
example : (readInbound default (encIn default sampleMsgs)).length = 19 := by
  rw [enc_sound default sampleMsgs (by decide +kernel)]
  decide +kernel

end RawPanelVerif.C01
