import RawPanelVerif.Lemmas.MonoOps
import RawPanelVerif.Lemmas.MonoTextXform
import RawPanelVerif.Lemmas.MonoFont
import RawPanelVerif.Lemmas.MonoTextBox
import RawPanelVerif.Lemmas.MonoTextDev
import RawPanelVerif.Spec.TextSpec
import RawPanelVerif.Driver.Text
/-!
# C20 — Text metrics bound the ink; rendering is translation- and scale-consistent

How the string reaches the renderer: `Model/GoRunes.lean` models `for _, r := range str` + `byte(r)` (U+010A is a line feed,
malformed bytes are `0xFD`); the theorems below are about the resulting byte(rune) list, any list.

**Ink in the box**
* `ink_in_box` — string without line feed, every font number, mode, spacing, size `h ≥ 0`, any `v`, any starting canvas /
  bounding box / cursor, wrapping off: every stored bit outside `clip ∩ [cx, cx + StrWidth + h) × [cy, cy + v·cellHeight)` is
  unchanged (`StrWidth + h` = sum of the advances; `lineHeight_eq`: `v·cellHeight` = `LineHeight()` for `0 ≤ v < 2^24`).
  No "unclipped" hypothesis: clipping only removes ink.
* `renderText_lf`, `ink_in_box_lines` — byte 10 moves the cursor to column 0 of the next line, so a string is rendered line by
  line; **any** string (no `10 ∉ s`): every stored bit outside the union of the line boxes (`lineBoxAt`: line `n` of
  `lines s` at `x_0 = cx`, `x_n = 0`, `n` line advances down, width `StrWidth(segment) + h`) is unchanged.
* `font_tables_sized`, `glyph_facts`, `glyph_index_in_range`, `drawChar_index_in_range`, `charWidth_le` — over the font tables
  regenerated from /repo on every run (proofs in `Lemmas/MonoFont.lean`).

**Translation** (exact pixel statements)
* `translation_any` — **any** well-formed starting canvas and bounding box, background = text colour, wrapping off, no glyph
  rejected by `DrawChar`'s whole-glyph test (`NoEarlyL`): for stored bits `(X,Y)`, `(X+dx,Y+dy)` inside the clip either both
  renderings paint them or both leave the canvas's value.  Strings with line feeds: for `dx = 0`; `translation_lines`: in
  general the first line moves by `(dx,dy)`, the others — cursor column 0 by command — by `(0,dy)`.
* `translation`, `translation_fits` — the blank-canvas instances (`noEarly_of_fits`: boxes on the canvas suffice).

**Scale**
* `scale_general` — any starting canvas: size `(h,v)` with extra spacing `h·k` against size 1 with extra spacing `k`
  (line feeds: for `cx = 0`); `scale_zero_spacing` is `k = 0` on a blank canvas; `scale_single_glyph`: one glyph, any two
  spacing settings.  `scale_with_spacing_counterexample` — the recorded finding C20.scale_with_spacing: with the *same*
  spacing `k ≠ 0` on both sides the clause is false of the code (advance `h·w + s`, not `h·(w+s)`).

**Other**
* `strWidth_append`; `wrap_irrelevant` — wrapping on = wrapping off when the box plus `8·h` fits the bounding-box width;
  `wrap_box_fits_counterexample`: "the box fits" alone is not enough ("#." in the 8×8 font on 12 columns).
* `spec_check_holds_state` — the executable Spec itself: for **every text state** with spacing 0 (wrapping off, background =
  text colour), strings without line feed, `1 ≤ h`, `1 ≤ v < 2^24`, any cursor / offset, any blank canvas whose width is a
  multiple of 8, `Spec.Text.check` answers `none` on the model's three renderings with the model's reported metrics
  (`check_of_facts`, built from `boxOk_of_facts`, `boxOk1_of_facts`, `translateOk_of_facts`, `scaleOk_of_facts`, is the
  Spec-side half, usable for any renderer); `spec_check_holds` is the instance for the fixed setter order of `text.case`.
* `sess_final_holds` — one image object, **any call history** (`Mono.TextCall`: setters in any order incl. `SetBoundingBox` /
  `InvertPixels`, metric queries, earlier texts, re-creations, direct `DrawChar`s — the `text.sess` records): whatever state the history leaves, if its spacing is 0
  and its sizes are `≥ 1` the final case obeys `Spec.Text.check`; `runCalls_bg`: no history separates background and text
  colour.  (The model has no state besides canvas × `TextSt`: a cached line height or a memoised glyph width in the code
  shows as model ≠ implementation and, where it breaks a clause, as a Spec violation of the run.)
* `spec_check_spacing` — the recorded deviation decided by the Spec: for every text state with **any** extra spacing, in the
  class of the finding (`knownSpacingClass`) `Spec.Text.check` (with the reported glyph widths attached) answers `none` or
  `scale.spacing` on the model's renderings, never `scale`: the glyph cells at the advance `h·w + s` are the size-1 cells
  enlarged exactly, nothing lit between them (`Lemmas/MonoTextDev.textR0_dev`; `check_dev_of_facts` /
  `scaleDevOk_of_facts` are the Spec-side half).  Non-vacuity: the recorded example evaluates to `scale.spacing`, the same
  case with one extra pixel to `scale`.
  NOT YET PROVED at Spec level: strings with line feeds (the per-line clauses of the Spec are evaluated on every run; the
  model-level per-line theorems are `ink_in_box_lines`, `translation_lines`, `scale_general`), canvas widths not a multiple of 8.
-/
namespace RawPanelVerif.C20
open RawPanelVerif RawPanelVerif.Mono RawPanelVerif.Gen

/-! ## cursor advances, the text box and its frame lemma: proved in `Lemmas/MonoTextBox.lean` -/

export RawPanelVerif.Mono (advSum foldl_adv strWidth_eq advSum_nonneg advSum_cx advSum_cxy textBox renderText_box
  noEarly_of_fits lines linesBox renderText_lines_box advSum_app NoWrap renderText_nowrap noWrap_of_fits)

/-- **Ink in box**: for a string without line feed rendered with wrapping off, every stored bit outside
`clip ∩ [cx, cx + StrWidth + h) × [cy, cy + v·cellHeight)` keeps its value. -/
theorem ink_in_box (s : List Nat) (hs : 10 ∉ s) (c : Canvas) (hwf : c.WF) (t : TextSt)
    (hw : t.wrap = false) (hH : 0 ≤ t.tsH) (X Y : Nat) (hX : X < c.geo.wib * 8) (hY : Y < c.geo.H)
    (hout : ¬ ((t.cx + c.geo.bx ≤ (X : Int) ∧ (X : Int) < t.cx + c.geo.bx + (strWidth t s + t.tsH)) ∧
               (t.cy + c.geo.byy ≤ (Y : Int) ∧ (Y : Int) < t.cy + c.geo.byy + (t.fp.bbH : Int) * t.tsV))) :
    getPx (renderText (c, t) s).1 X Y = getPx c X Y := by
  refine (renderText_box s hs c hwf t hw hH).same X Y hX hY ?_
  rintro ⟨_, q1, q2, q3, q4⟩
  apply hout
  rw [strWidth_eq]
  exact ⟨⟨q1, by omega⟩, q3, q4⟩

/-- the reported `LineHeight()` is `v · cellHeight` for every sensible size -/
theorem lineHeight_eq (t : TextSt) (h0 : 0 ≤ t.tsV) (h1 : t.tsV < 16777216) (hb : t.fp.bbH ≤ 255) :
    (lineHeight t : Int) = (t.fp.bbH : Int) * t.tsV := by
  unfold lineHeight
  obtain ⟨n, hn⟩ := Int.eq_ofNat_of_zero_le h0
  rw [hn] at h1 ⊢
  have e0 : (n : Int).emod 4294967296 = (n : Int) := Int.emod_eq_of_lt (by omega) (by omega)
  have e1 : ((n : Int).emod 4294967296).toNat = n := by rw [e0]; simp
  rw [e1]
  have hlt : n * t.fp.bbH < 4294967296 := by
    calc n * t.fp.bbH ≤ n * 255 := Nat.mul_le_mul_left _ hb
      _ < 4294967296 := by omega
  rw [Nat.mod_eq_of_lt hlt]
  simp [Int.mul_comm]

/-! ## Font tables (regenerated from /repo): proved in `Lemmas/MonoFont.lean`, available here under the same names -/

export RawPanelVerif.Mono (fontParams_cases font_tables_sized glyph_index_in_range tf glyphOk glyph_facts glyph_facts'
  drawChar_index_in_range fp_pos)

/-! ## Translation and scale consistency (exact pixel equalities) -/

/-- **Translation consistency** (exact, every pixel pair on the canvas). -/
theorem translation (W H : Nat) (t : TextSt) (s : List Nat) (hs : 10 ∉ s) (hw : t.wrap = false)
    (hbg : t.tbg = t.tcol) (dx dy : Int)
    (hne : NoEarly (geo0 W H) t s)
    (hne' : NoEarly (geo0 W H) { t with cx := t.cx + dx, cy := t.cy + dy } s)
    (X Y X' Y' : Nat) (hX : X < W) (hY : Y < H) (hX' : X' < W) (hY' : Y' < H)
    (ex : (X' : Int) = X + dx) (ey : (Y' : Int) = Y + dy) :
    getPx (renderText (newCanvas W H, { t with cx := t.cx + dx, cy := t.cy + dy }) s).1 X' Y' =
    getPx (renderText (newCanvas W H, t) s).1 X Y := by
  have a := renderText_blank W H t s hs hw hbg hne X Y hX hY
  have b := renderText_blank W H { t with cx := t.cx + dx, cy := t.cy + dy } s hs hw hbg hne' X' Y' hX' hY'
  have sh := textR0_shift W H s t dx dy X Y X' Y' hX hY hX' hY' ex ey
  by_cases hr : textR0 (geo0 W H) t s X Y
  · rw [a.1 hr, b.1 (sh.2 hr)]
  · rw [a.2 hr, b.2 (fun h => hr (sh.1 h))]

/-- `translation` for a text whose box lies on the canvas before and after the move -/
theorem translation_fits (W H : Nat) (t : TextSt) (s : List Nat) (hs : 10 ∉ s) (hw : t.wrap = false)
    (hbg : t.tbg = t.tcol) (dx dy : Int) (hh : 1 ≤ t.tsH) (hv : 1 ≤ t.tsV)
    (hx : 0 ≤ t.cx) (hy : 0 ≤ t.cy) (hyH : t.cy ≤ H) (hfit : t.cx + advSum t s ≤ W)
    (hx' : 0 ≤ t.cx + dx) (hy' : 0 ≤ t.cy + dy) (hyH' : t.cy + dy ≤ H) (hfit' : t.cx + dx + advSum t s ≤ W)
    (X Y X' Y' : Nat) (hX : X < W) (hY : Y < H) (hX' : X' < W) (hY' : Y' < H)
    (ex : (X' : Int) = X + dx) (ey : (Y' : Int) = Y + dy) :
    getPx (renderText (newCanvas W H, { t with cx := t.cx + dx, cy := t.cy + dy }) s).1 X' Y' =
    getPx (renderText (newCanvas W H, t) s).1 X Y := by
  refine translation W H t s hs hw hbg dx dy (noEarly_of_fits W H s t hh hv hx hy hyH hfit) ?_ X Y X' Y' hX hY hX' hY' ex ey
  refine noEarly_of_fits W H s _ hh hv hx' hy' hyH' ?_
  rw [advSum_cxy]; exact hfit'

/-- **Scale consistency for extra spacing 0** (exact): source pixel `(cx+I, cy+J)` of the size-1 rendering becomes the
`h × v` block at `(cx + h·I, cy + v·J)` of the size-`(h,v)` rendering. -/
theorem scale_zero_spacing (W H : Nat) (t : TextSt) (s : List Nat) (hs : 10 ∉ s) (hw : t.wrap = false)
    (hbg : t.tbg = t.tcol) (hsp : t.spacing = 0) (h v cx cy : Int) (hh : 0 < h) (hv : 0 < v)
    (hneh : NoEarly (geo0 W H) (atSize t h v cx cy) s) (hne1 : NoEarly (geo0 W H) (atSize t 1 1 cx cy) s)
    (I J p q : Int) (Xh Yh X1 Y1 : Nat) (hXh : Xh < W) (hYh : Yh < H) (hX1 : X1 < W) (hY1 : Y1 < H)
    (hp0 : 0 ≤ p) (hp : p < h) (hq0 : 0 ≤ q) (hq : q < v)
    (eXh : (Xh : Int) = cx + h * I + p) (eYh : (Yh : Int) = cy + v * J + q)
    (eX1 : (X1 : Int) = cx + I) (eY1 : (Y1 : Int) = cy + J) :
    getPx (renderText (newCanvas W H, atSize t h v cx cy) s).1 Xh Yh =
    getPx (renderText (newCanvas W H, atSize t 1 1 cx cy) s).1 X1 Y1 := by
  have a := renderText_blank W H (atSize t h v cx cy) s hs hw hbg hneh Xh Yh hXh hYh
  have b := renderText_blank W H (atSize t 1 1 cx cy) s hs hw hbg hne1 X1 Y1 hX1 hY1
  have sc := textR0_scale W H s t hsp h v cx cy hh hv 0 I J p q Xh Yh X1 Y1 hXh hYh hX1 hY1 hp0 hp hq0 hq eXh eYh eX1 eY1
  rw [Int.mul_zero, Int.add_zero] at sc
  have tc : (atSize t h v cx cy).tcol = (atSize t 1 1 cx cy).tcol := rfl
  by_cases hr : textR0 (geo0 W H) (atSize t 1 1 cx cy) s X1 Y1
  · rw [b.1 hr, a.1 (sc.2 hr), tc]
  · rw [b.2 hr, a.2 (fun h => hr (sc.1 h))]

/-- non-vacuity: "AZ" in font 0 at (2,1) on a 64×32 canvas meets every hypothesis of both theorems -/
example : NoEarly (geo0 64 32) (atSize {} 2 2 2 1) [65, 90] ∧ NoEarly (geo0 64 32) (atSize {} 1 1 2 1) [65, 90] := by
  constructor <;> exact noEarly_of_fits 64 32 _ _ (by decide) (by decide) (by decide) (by decide) (by decide) (by decide +kernel)

/-! ## Strings with line feeds: line by line -/

export RawPanelVerif.Mono (renderText_lf)

/-- the box of line `n` (segment `l`): cursor column `cx` for the first line, 0 for the others; `n` line advances down -/
def lineBoxAt (g : Geom) (t : TextSt) (n : Nat) (l : List Nat) : Region := fun X Y =>
  clipR g X Y ∧
  (if n = 0 then t.cx else 0) + g.bx ≤ (X : Int) ∧ (X : Int) < (if n = 0 then t.cx else 0) + g.bx + (strWidth t l + t.tsH) ∧
  t.cy + n * lineAdvance t + g.byy ≤ (Y : Int) ∧ (Y : Int) < t.cy + n * lineAdvance t + g.byy + (t.fp.bbH : Int) * t.tsV

theorem linesBox_elim (g : Geom) (ls : List (List Nat)) (t : TextSt) (X Y : Nat) (h : linesBox g t ls X Y) :
    ∃ n l, ls[n]? = some l ∧ lineBoxAt g t n l X Y := by
  induction ls generalizing t with
  | nil => exact h.elim
  | cons l ls ih =>
    rcases h with hb | hr
    · refine ⟨0, l, rfl, ?_⟩
      obtain ⟨hc, q1, q2, q3, q4⟩ := hb
      unfold lineBoxAt
      rw [strWidth_eq]
      simp only [if_true]
      exact ⟨hc, q1, by omega, by simp; omega, by simp; omega⟩
    · obtain ⟨n, l', hn, hb⟩ := ih (nl t) hr
      refine ⟨n + 1, l', by simpa using hn, ?_⟩
      obtain ⟨hc, q1, q2, q3, q4⟩ := hb
      have e0 : (nl t).cy = t.cy + lineAdvance t := rfl
      have e1 : lineAdvance (nl t) = lineAdvance t := rfl
      have e2 : (nl t).cx = 0 := rfl
      have e3 : strWidth (nl t) l' = strWidth t l' := by
        rw [strWidth_eq, strWidth_eq]
        show advSum { t with cy := t.cy + lineAdvance t, cx := 0 } l' - t.tsH = _
        have := advSum_cxy t 0 (t.cy + lineAdvance t) l'
        rw [← this]
      have e4 : (nl t).fp = t.fp := rfl
      have e5 : (nl t).tsH = t.tsH := rfl
      have e6 : (nl t).tsV = t.tsV := rfl
      simp only [e0, e1, e2, e3, e4, e5, e6] at q1 q2 q3 q4
      have em : ((n + 1 : Nat) : Int) * lineAdvance t = (n : Int) * lineAdvance t + lineAdvance t := by
        rw [Int.natCast_add, Int.add_mul]; simp
      unfold lineBoxAt
      rw [em]
      have hn1 : ¬ (n + 1 = 0) := by omega
      simp only [hn1, if_false]
      refine ⟨hc, ?_, ?_, by omega, by omega⟩
      · split at q1 <;> omega
      · split at q2 <;> omega

/-- **Ink in box, any string**: with wrapping off, every stored bit that lies in none of the line boxes — line `n` of the
LF-separated segments `lines s` has the box `[x_n, x_n + StrWidth(segment_n) + h) × [cy + n·lineAdvance, … + v·cellHeight)`,
`x_0 = cx`, `x_n = 0` — keeps its value.  Any canvas, bounding box, cursor, font, mode, spacing, size `h ≥ 0`. -/
theorem ink_in_box_lines (s : List Nat) (c : Canvas) (hwf : c.WF) (t : TextSt)
    (hw : t.wrap = false) (hH : 0 ≤ t.tsH) (X Y : Nat) (hX : X < c.geo.wib * 8) (hY : Y < c.geo.H)
    (hout : ∀ n l, (lines s)[n]? = some l → ¬ lineBoxAt c.geo t n l X Y) :
    getPx (renderText (c, t) s).1 X Y = getPx c X Y := by
  refine (renderText_lines_box s c hwf t hw hH).same X Y hX hY ?_
  intro hb
  obtain ⟨n, l, hn, hbox⟩ := linesBox_elim c.geo (lines s) t X Y hb
  exact hout n l hn hbox

/-- `ink_in_box` is the one-line instance -/
example (s : List Nat) (hs : 10 ∉ s) : lines s = [s] := Mono.lines_no_lf s hs

/-- non-vacuity: "A⏎B" has two lines -/
example : lines [65, 10, 66] = [[65], [66]] := by decide

/-! ## Translation and scale on any canvas, any bounding box -/

/-- **Translation, any starting canvas**: for a string without line feed (with line feeds: for `dx = 0`), wrapping off,
background = text colour, no glyph rejected by `DrawChar`'s whole-glyph test at either cursor: for every pair of stored bits
`(X,Y)`, `(X+dx, Y+dy)` inside the clip rectangle, either both are painted in the text colour by the respective rendering
or both keep the value the starting canvas had there. -/
theorem translation_any (c : Canvas) (hwf : c.WF) (t : TextSt) (s : List Nat) (hw : t.wrap = false)
    (hbg : t.tbg = t.tcol) (dx dy : Int) (hlf : dx = 0 ∨ 10 ∉ s)
    (hne : NoEarlyL c.geo t s) (hne' : NoEarlyL c.geo { t with cx := t.cx + dx, cy := t.cy + dy } s)
    (X Y X' Y' : Nat) (hc : clipR c.geo X Y) (hc' : clipR c.geo X' Y')
    (ex : (X' : Int) = X + dx) (ey : (Y' : Int) = Y + dy) :
    (textR0L c.geo t s X Y →
      getPx (renderText (c, { t with cx := t.cx + dx, cy := t.cy + dy }) s).1 X' Y' = (t.tcol != c.geo.inv) ∧
      getPx (renderText (c, t) s).1 X Y = (t.tcol != c.geo.inv)) ∧
    (¬ textR0L c.geo t s X Y →
      getPx (renderText (c, { t with cx := t.cx + dx, cy := t.cy + dy }) s).1 X' Y' = getPx c X' Y' ∧
      getPx (renderText (c, t) s).1 X Y = getPx c X Y) := by
  have b1 := inClip_bounds hc
  have b2 := inClip_bounds hc'
  have hX : X < c.geo.wib * 8 := by have := hwf.1; omega
  have hX' : X' < c.geo.wib * 8 := by have := hwf.1; omega
  have hY : Y < c.geo.H := by omega
  have hY' : Y' < c.geo.H := by omega
  have pa := renderText_paintL s c hwf t hw hbg
  have pb := renderText_paintL s c hwf { t with cx := t.cx + dx, cy := t.cy + dy } hw hbg
  have sh := textR0L_shift c.geo s t dx dy hlf X Y X' Y' hc hc' ex ey
  constructor
  · intro hr
    exact ⟨pb.inside X' Y' hX' hY' ((textRL_iff_textR0L _ s _ hne' X' Y').2 (sh.2 hr)),
      pa.inside X Y hX hY ((textRL_iff_textR0L _ s _ hne X Y).2 hr)⟩
  · intro hr
    exact ⟨pb.same X' Y' hX' hY' (fun h => hr (sh.1 ((textRL_iff_textR0L _ s _ hne' X' Y').1 h))),
      pa.same X Y hX hY (fun h => hr ((textRL_iff_textR0L _ s _ hne X Y).1 h))⟩

/-- the painted region of `a ++ [LF] ++ b` is that of `a` at the cursor together with that of `b` at column 0 of the next line -/
theorem textR0L_append_lf (g : Geom) (a b : List Nat) (ha : 10 ∉ a) (t : TextSt) (X Y : Nat) :
    textR0L g t (a ++ 10 :: b) X Y ↔ (textR0L g t a X Y ∨ textR0L g (nl t) b X Y) := by
  induction a generalizing t with
  | nil => simp only [List.nil_append, textR0L, if_true, false_or]
  | cons ch rest ih =>
    have hch : ch ≠ 10 := fun e => ha (by simp [e])
    have hrest : 10 ∉ rest := fun e => ha (by simp [e])
    simp only [List.cons_append, textR0L, hch, if_false]
    by_cases h13 : ch = 13
    · simp only [h13, if_true]
      exact ih hrest t
    · simp only [h13, if_false]
      rw [ih hrest, Mono.nl_cx]
      exact ⟨fun h => by rcases h with h | h | h; exact Or.inl (Or.inl h); exact Or.inl (Or.inr h); exact Or.inr h,
        fun h => by rcases h with (h | h) | h; exact Or.inl h; exact Or.inr (Or.inl h); exact Or.inr (Or.inr h)⟩

/-- **Translation, line by line**: for `a ++ [LF] ++ b` (`a` without line feed) the painted region is the union of the
first line's and the rest's; moving the cursor by `(dx, dy)` moves the first line by `(dx, dy)` and the rest — whose
cursor column is 0 by command — by `(0, dy)`. -/
theorem translation_lines (g : Geom) (a b : List Nat) (ha : 10 ∉ a) (t : TextSt) (dx dy : Int) :
    (∀ X Y, textR0L g t (a ++ 10 :: b) X Y ↔ (textR0L g t a X Y ∨ textR0L g (nl t) b X Y)) ∧
    (∀ X Y X' Y' : Nat, clipR g X Y → clipR g X' Y' → (X' : Int) = X + dx → (Y' : Int) = Y + dy →
      (textR0L g { t with cx := t.cx + dx, cy := t.cy + dy } a X' Y' ↔ textR0L g t a X Y)) ∧
    (∀ X Y Y' : Nat, clipR g X Y → clipR g X Y' → (Y' : Int) = Y + dy →
      (textR0L g (nl { t with cx := t.cx + dx, cy := t.cy + dy }) b X Y' ↔ textR0L g (nl t) b X Y)) := by
  refine ⟨fun X Y => textR0L_append_lf g a b ha t X Y, ?_, ?_⟩
  · intro X Y X' Y' hc hc' ex ey
    exact textR0L_shift g a t dx dy (Or.inr ha) X Y X' Y' hc hc' ex ey
  · intro X Y Y' hc hc' ey
    have e : nl { t with cx := t.cx + dx, cy := t.cy + dy } = { nl t with cx := (nl t).cx + 0, cy := (nl t).cy + dy } := by
      unfold nl lineAdvance TextSt.fp
      simp only [TextSt.mk.injEq, and_true, true_and]
      constructor <;> omega
    rw [e]
    exact textR0L_shift g b (nl t) 0 dy (Or.inl rfl) X Y X Y' hc hc' (by omega) ey

/-- **Scale consistency with the spacing scaled as well**, any starting canvas: the rendering at size `(h, v)` with extra
spacing `h·k` read at `(cx + h·I + p, cy + v·J + q)` (`0 ≤ p < h`, `0 ≤ q < v`) and the size-1 rendering with extra spacing
`k` read at `(cx + I, cy + J)` are either both painted or both left as the starting canvas had them.  Strings with line
feeds: for `cx = 0`.  (With the *same* spacing `k ≠ 0` on both sides this is false: `scale_with_spacing_counterexample`.) -/
theorem scale_general (c : Canvas) (hwf : c.WF) (t : TextSt) (s : List Nat) (hw : t.wrap = false)
    (hbg : t.tbg = t.tcol) (h v : Int) (k sph : Nat) (hsp : (sph : Int) = h * k) (cx cy : Int) (hh : 0 < h) (hv : 0 < v)
    (hlf : cx = 0 ∨ 10 ∉ s)
    (hneh : NoEarlyL c.geo (atSizeSp t h v sph cx cy) s) (hne1 : NoEarlyL c.geo (atSizeSp t 1 1 k cx cy) s)
    (I J p q : Int) (Xh Yh X1 Y1 : Nat) (hch : clipR c.geo Xh Yh) (hc1 : clipR c.geo X1 Y1)
    (hp0 : 0 ≤ p) (hp : p < h) (hq0 : 0 ≤ q) (hq : q < v)
    (eXh : (Xh : Int) = cx + c.geo.bx + h * I + p) (eYh : (Yh : Int) = cy + c.geo.byy + v * J + q)
    (eX1 : (X1 : Int) = cx + c.geo.bx + I) (eY1 : (Y1 : Int) = cy + c.geo.byy + J) :
    (textR0L c.geo (atSizeSp t 1 1 k cx cy) s X1 Y1 →
      getPx (renderText (c, atSizeSp t h v sph cx cy) s).1 Xh Yh = (t.tcol != c.geo.inv) ∧
      getPx (renderText (c, atSizeSp t 1 1 k cx cy) s).1 X1 Y1 = (t.tcol != c.geo.inv)) ∧
    (¬ textR0L c.geo (atSizeSp t 1 1 k cx cy) s X1 Y1 →
      getPx (renderText (c, atSizeSp t h v sph cx cy) s).1 Xh Yh = getPx c Xh Yh ∧
      getPx (renderText (c, atSizeSp t 1 1 k cx cy) s).1 X1 Y1 = getPx c X1 Y1) := by
  have b1 := inClip_bounds hch
  have b2 := inClip_bounds hc1
  have hXh : Xh < c.geo.wib * 8 := by have := hwf.1; omega
  have hX1 : X1 < c.geo.wib * 8 := by have := hwf.1; omega
  have hYh : Yh < c.geo.H := by omega
  have hY1 : Y1 < c.geo.H := by omega
  have pa := renderText_paintL s c hwf (atSizeSp t h v sph cx cy) hw hbg
  have pb := renderText_paintL s c hwf (atSizeSp t 1 1 k cx cy) hw hbg
  have sc := textR0L_scale c.geo s t h k sph hsp v cx cy hh hv hlf 0 0 I J p q Xh Yh X1 Y1 hch hc1 hp0 hp hq0 hq eXh eYh eX1 eY1
  simp only [Int.mul_zero, Int.add_zero] at sc
  have tc : (atSizeSp t h v sph cx cy).tcol = t.tcol := rfl
  have tc1 : (atSizeSp t 1 1 k cx cy).tcol = t.tcol := rfl
  rw [tc] at pa; rw [tc1] at pb
  constructor
  · intro hr
    exact ⟨pa.inside Xh Yh hXh hYh ((textRL_iff_textR0L _ s _ hneh Xh Yh).2 (sc.2 hr)),
      pb.inside X1 Y1 hX1 hY1 ((textRL_iff_textR0L _ s _ hne1 X1 Y1).2 hr)⟩
  · intro hr
    exact ⟨pa.same Xh Yh hXh hYh (fun h => hr (sc.1 ((textRL_iff_textR0L _ s _ hneh Xh Yh).1 h))),
      pb.same X1 Y1 hX1 hY1 (fun h => hr ((textRL_iff_textR0L _ s _ hne1 X1 Y1).1 h))⟩

/-- **One glyph scales whatever the spacing settings are** (the spacing only moves the cursor *after* a glyph) -/
theorem scale_single_glyph (g : Geom) (t : TextSt) (ch : Nat) (h v : Int) (sph sp1 : Nat) (cx cy : Int) (hh : 0 < h) (hv : 0 < v)
    (I J p q : Int) (Xh Yh X1 Y1 : Nat) (hch : clipR g Xh Yh) (hc1 : clipR g X1 Y1)
    (hp0 : 0 ≤ p) (hp : p < h) (hq0 : 0 ≤ q) (hq : q < v)
    (eXh : (Xh : Int) = cx + g.bx + h * I + p) (eYh : (Yh : Int) = cy + g.byy + v * J + q)
    (eX1 : (X1 : Int) = cx + g.bx + I) (eY1 : (Y1 : Int) = cy + g.byy + J) :
    textR0L g (atSizeSp t h v sph cx cy) [ch] Xh Yh ↔ textR0L g (atSizeSp t 1 1 sp1 cx cy) [ch] X1 Y1 := by
  simp only [textR0L]
  by_cases h10 : ch = 10
  · simp only [h10, if_true]
  · by_cases h13 : ch = 13
    · subst h13; simp
    · simp only [h10, h13, if_false, or_false]
      have := glyphR_scaleG g (atSizeSp t h v sph cx cy) (atSizeSp t 1 1 sp1 cx cy) rfl rfl h v cx cy 0 0 hh hv ch
        I J p q Xh Yh X1 Y1 hch hc1 hp0 hp hq0 hq eXh eYh eX1 eY1
      simp only [Int.mul_zero, Int.add_zero] at this
      exact this

/-- non-vacuity of `scale_general`: spacing 2 at size 2 against spacing 1 at size 1 ("ab", font 0): the pixel that refutes
the same-spacing reading — (13,2) lit at size 2 — has its pre-image (6,1) lit here -/
example :
    let render := fun (h : Int) (sp : Nat) =>
      let t : TextSt := { font := 0, prop := true, spacing := sp, tsH := h, tsV := h, wrap := false, tcol := true, tbg := true }
      (renderText (newCanvas 32 18, t) [97, 98]).1
    getPx (render 2 2) 14 2 = getPx (render 1 1) 7 1 ∧ getPx (render 2 2) 15 3 = getPx (render 1 1) 7 1 := by
  decide +kernel

/-! ## `StrWidth` of a concatenation; wrapping -/

/-- `StrWidth(a ++ b) = StrWidth(a) + StrWidth(b) + h` (each width leaves out one trailing size step) -/
theorem strWidth_append (t : TextSt) (a b : List Nat) : strWidth t (a ++ b) = strWidth t a + strWidth t b + t.tsH := by
  rw [strWidth_eq, strWidth_eq, strWidth_eq, advSum_app]; omega

theorem advSum_wrap (t : TextSt) (w : Bool) (s : List Nat) : advSum { t with wrap := w } s = advSum t s := by
  induction s with
  | nil => rfl
  | cons ch rest ih =>
    show ((charWidth t ch : Int) * t.tsH + t.spacing) + advSum { t with wrap := w } rest =
      ((charWidth t ch : Int) * t.tsH + t.spacing) + advSum t rest
    rw [ih]

/-- **Wrapping is irrelevant when the text stays eight size steps clear of the right edge**: for a string without line
feed whose box plus `8·h` fits inside the bounding-box width, `RenderText` with wrapping on produces the same canvas as
with wrapping off.  (The wrap test after a glyph of width `cw` fires when fewer than `h·(cw − 1)` columns are left, before
the next — possibly narrower — glyph is looked at; `cw ≤ 9`.) -/
theorem wrap_irrelevant (c : Canvas) (hwf : c.WF) (t : TextSt) (s : List Nat) (hs : 10 ∉ s) (hh : 0 ≤ t.tsH)
    (hfit : t.cx + advSum t s + 8 * t.tsH ≤ getBWidth c.geo) :
    (renderText (c, { t with wrap := true }) s).1 = (renderText (c, { t with wrap := false }) s).1 := by
  have hn : NoWrap c.geo { t with wrap := true } s :=
    noWrap_of_fits c.geo s hs { t with wrap := true } hh (by rw [advSum_wrap]; exact hfit)
  exact (renderText_nowrap s c hwf { t with wrap := true } rfl hn).1

/-- "the text box fits" alone is **not** enough: "#." in the 8×8 font (advances 9 + 3 = 12) on a 12-pixel-wide canvas fits
its box exactly, yet with wrapping on the `.` is drawn on the next line (after `#` only 3 < 8 columns are left) -/
theorem wrap_box_fits_counterexample :
    let t : TextSt := { font := 1, prop := true, wrap := true, tcol := true, tbg := true }
    t.cx + advSum t [35, 46] ≤ getBWidth (newCanvas 12 16).geo ∧
    (renderText (newCanvas 12 16, t) [35, 46]).1 ≠ (renderText (newCanvas 12 16, { t with wrap := false }) [35, 46]).1 := by
  decide +kernel

/-- The recorded genuine finding **C20.scale_with_spacing**: font 0, proportional, extra spacing 1, size 2, "ab":
the rendering is not the size-1 rendering with every pixel enlarged 2×2 (the advance between glyphs is `h·w + s`,
not `h·(w + s)`), while box and translation clauses hold. -/
theorem scale_with_spacing_counterexample :
    let render := fun (h : Int) (cx cy : Int) =>
      let t : TextSt := { font := 0, prop := true, spacing := 1, tsH := h, tsV := h, wrap := false, tcol := true, tbg := true, cx := cx, cy := cy }
      (renderText (newCanvas 32 18, t) [97, 98]).1
    let px := fun (c : Canvas) (X Y : Nat) => getPx c X Y
    -- pixel (13,2) is lit at size 2 but its pre-image (6,1) at size 1 is blank
    px (render 2 0 0) 13 2 = true ∧ px (render 1 0 0) 6 1 = false := by
  decide +kernel

/-! ## The executable Spec itself, evaluated on the model's three renderings -/

/-- the text state the check sets up for one rendering: `SetFont`, `SetTextSize`, spacing, wrap off, `SetTextColor(true)`,
`SetCursor` (the call sequence of `Driver/Text.renderCase` and of the harness) -/
def caseState (font : Int) (prop : Bool) (sp : Nat) (h v cx cy : Int) : TextSt :=
  setCursor (setTextColor { setTextSize (setFont {} font prop) h v with spacing := sp % 256, wrap := false } true) cx cy

/-- it is the driver's call sequence (`Driver/Text.lean`), so `spec_check_holds` is about the very renderings the run compares -/
example (W H : Nat) (font : Int) (prop : Bool) (sp : Nat) (h v cx cy : Int) (s : List Nat) :
    Driver.Text.renderCase W H font prop sp h v cx cy s = renderText (newCanvas W H, caseState font prop sp h v cx cy) s := rfl

/-- the canvas bytes as the harness prints them -/
def bytesU8 (c : Canvas) : Array UInt8 := c.bytes.map (fun b => UInt8.ofNat b.toNat)

theorem bitAt_getPx (c : Canvas) (X Y : Nat) (hX : X < c.geo.wib * 8) :
    Spec.Text.bitAt c.geo.wib (bytesU8 c) (X : Int) (Y : Int) = getPx c X Y := by
  unfold Spec.Text.bitAt getPx bytesU8
  rw [if_neg (by omega)]
  simp only [Int.toNat_natCast]
  rw [if_neg (by omega)]
  have hb : ∀ i, ((c.bytes.map (fun b => UInt8.ofNat b.toNat)).getD i 0).toNat = (c.bytes.getD i 0).toNat := by
    intro i
    rw [Array.getD_eq_getD_getElem?, Array.getD_eq_getD_getElem?, Array.getElem?_map]
    cases c.bytes[i]? with
    | none => rfl
    | some b =>
      simp only [Option.map_some, Option.getD_some]
      have := b.isLt
      rw [UInt8.toNat_ofNat']
      exact Nat.mod_eq_of_lt (by omega)
  rw [hb]
  generalize c.bytes.getD (Y * c.geo.wib + X / 8) 0 = b
  rw [Nat.shiftRight_eq_div_pow]
  have : b.getLsbD (7 - X % 8) = decide (b.toNat / 2 ^ (7 - X % 8) % 2 = 1) := by
    rw [BitVec.getLsbD, Nat.testBit_eq_decide_div_mod_eq]
  rw [this]
  by_cases h : b.toNat / 2 ^ (7 - X % 8) % 2 = 1 <;> simp [h]

theorem mem_textPixels (k : Spec.Text.Case) (p : Int × Int) (h : p ∈ Spec.Text.allPixels k) :
    ∃ X Y : Nat, p = ((X : Int), (Y : Int)) ∧ X < k.wib * 8 ∧ Y < k.H := by
  unfold Spec.Text.allPixels at h
  simp only [List.mem_flatMap, List.mem_range, List.mem_map] at h
  obtain ⟨Y, hY, X, hX, rfl⟩ := h
  exact ⟨X, Y, rfl, hX, hY⟩

/-- the band of a single line -/
theorem lineIdx_one (cy lh Y : Int) (hl : 0 < lh) :
    Spec.Text.lineIdx cy lh 1 Y = if cy ≤ Y ∧ Y < cy + lh then some 0 else none := by
  unfold Spec.Text.lineIdx
  by_cases h1 : Y < cy
  · rw [if_pos (Or.inr h1), if_neg (by omega)]
  · rw [if_neg (by omega)]
    simp only []
    by_cases h2 : Y < cy + lh
    · have : (Y - cy) / lh = 0 := Int.ediv_eq_zero_of_lt (by omega) (by omega)
      rw [this, if_pos (by decide), if_pos ⟨by omega, h2⟩]
      rfl
    · have : 1 ≤ (Y - cy) / lh := by
        have := Int.le_ediv_of_mul_le hl (a := 1) (b := Y - cy) (by omega)
        exact this
      rw [if_neg (by omega), if_neg (by omega)]

/-- the Spec's case record for a string without line feed (one segment) on a `W × H` canvas -/
def oneLineCase (W H : Nat) (cx cy dx dy h v lh lh1 sw sw1 : Int) (sp glyphs : Nat) : Spec.Text.Case :=
  { W := W, wib := (W + 7) / 8, H := H, cx := cx, cy := cy, dx := dx, dy := dy, h := h, v := v, lh := lh, lh1 := lh1,
    segw := [sw], segw1 := [sw1], spacing := sp, glyphs := glyphs }

theorem bitAt_inside {wib : Nat} {A : Array UInt8} {X Y : Int} (h : Spec.Text.bitAt wib A X Y = true) :
    0 ≤ X ∧ X < wib * 8 ∧ 0 ≤ Y := by
  unfold Spec.Text.bitAt at h
  by_cases h1 : X < 0 ∨ Y < 0
  · rw [if_pos h1] at h; exact absurd h (by decide)
  · rw [if_neg h1] at h
    simp only [] at h
    by_cases h2 : X.toNat ≥ wib * 8
    · rw [if_pos h2] at h; exact absurd h (by decide)
    · omega

/-! ### From pixel facts to the executable Spec (one line, canvas width a multiple of 8), clause by clause -/

theorem boxOk_of_facts (W H : Nat) (cx cy dx dy h v lh lh1 sw sw1 : Int) (sp glyphs : Nat) (A : Array UInt8) (hl : 0 < lh)
    (fa : ∀ X Y : Int, Spec.Text.bitAt ((W + 7) / 8) A X Y = true → Y < H ∧ cx ≤ X ∧ X < cx + sw + h ∧ cy ≤ Y ∧ Y < cy + lh) :
    Spec.Text.boxOk (oneLineCase W H cx cy dx dy h v lh lh1 sw sw1 sp glyphs) A = true := by
  unfold Spec.Text.boxOk oneLineCase
  rw [List.all_eq_true]
  intro p hp
  obtain ⟨X, Y, rfl, _, _⟩ := mem_textPixels _ p hp
  simp only []
  cases hb : Spec.Text.bitAt ((W + 7) / 8) A (X : Int) (Y : Int) with
  | false => rfl
  | true =>
    obtain ⟨_, a1, a2, a3, a4⟩ := fa _ _ hb
    simp only [Bool.not_true, Bool.false_or]
    unfold Spec.Text.inBoxes
    simp only [List.length_singleton]
    rw [lineIdx_one _ _ _ hl, if_pos ⟨a3, a4⟩]
    simp only [Spec.Text.lineX, if_true, List.getD_cons_zero, Bool.and_eq_true, decide_eq_true_eq]
    exact ⟨a1, a2⟩

theorem boxOk1_of_facts (W H : Nat) (cx cy dx dy h v lh lh1 sw sw1 : Int) (sp glyphs : Nat) (C : Array UInt8) (hl1 : 0 < lh1)
    (fc : ∀ X Y : Int, Spec.Text.bitAt ((W + 7) / 8) C X Y = true → Y < H ∧ cx ≤ X ∧ X < cx + sw1 + 1 ∧ cy ≤ Y ∧ Y < cy + lh1) :
    Spec.Text.boxOk1 (oneLineCase W H cx cy dx dy h v lh lh1 sw sw1 sp glyphs) C = true := by
  unfold Spec.Text.boxOk1 oneLineCase
  rw [List.all_eq_true]
  intro p hp
  obtain ⟨X, Y, rfl, _, _⟩ := mem_textPixels _ p hp
  simp only []
  cases hb : Spec.Text.bitAt ((W + 7) / 8) C (X : Int) (Y : Int) with
  | false => rfl
  | true =>
    obtain ⟨_, a1, a2, a3, a4⟩ := fc _ _ hb
    simp only [Bool.not_true, Bool.false_or]
    unfold Spec.Text.inBoxes
    simp only [List.length_singleton]
    rw [lineIdx_one _ _ _ hl1, if_pos ⟨a3, a4⟩]
    simp only [Spec.Text.lineX, if_true, List.getD_cons_zero, Bool.and_eq_true, decide_eq_true_eq]
    exact ⟨a1, a2⟩

/-- what the Spec's `unclipped` test says for a one-line case -/
theorem unclipped_elim (W H : Nat) (cx cy dx dy h v lh lh1 sw sw1 : Int) (sp glyphs : Nat)
    (hu : Spec.Text.unclipped (oneLineCase W H cx cy dx dy h v lh lh1 sw sw1 sp glyphs) = true) :
    (0 ≤ cx ∧ 0 ≤ cy ∧ cy + lh ≤ H ∧ cx + sw + h ≤ W) ∧ (0 ≤ cx + dx ∧ 0 ≤ cy + dy ∧ cy + dy + lh ≤ H ∧ cx + dx + sw + h ≤ W) ∧
    (cy + lh1 ≤ H ∧ cx + sw1 + 1 ≤ W) ∧ 1 ≤ h ∧ 1 ≤ v := by
  unfold Spec.Text.unclipped Spec.Text.boxesFit oneLineCase at hu
  simp only [List.length_singleton, List.range_one, List.all_cons, List.all_nil, Bool.and_true, Spec.Text.lineX, if_true,
    List.getD_cons_zero, Bool.and_eq_true, decide_eq_true_eq, Int.natCast_one, Int.one_mul] at hu
  obtain ⟨⟨⟨⟨⟨u1, u2, _, u3⟩, _, u4⟩, ⟨u5, u6, _, u7⟩, _, u8⟩, ⟨_, _, _, u9⟩, _, u10⟩, u11, u12⟩ := hu
  exact ⟨⟨u1, u2, u3, u4⟩, ⟨u5, u6, u7, u8⟩, ⟨u9, u10⟩, u11, u12⟩

theorem translateOk_of_facts (W H : Nat) (hW8 : W % 8 = 0) (cx cy dx dy h v lh lh1 sw sw1 : Int) (sp glyphs : Nat)
    (A B : Array UInt8) (hl : 0 < lh)
    (fa : ∀ X Y : Int, Spec.Text.bitAt ((W + 7) / 8) A X Y = true → Y < H ∧ cx ≤ X ∧ X < cx + sw + h ∧ cy ≤ Y ∧ Y < cy + lh)
    (fb : ∀ X Y : Int, Spec.Text.bitAt ((W + 7) / 8) B X Y = true →
      Y < H ∧ cx + dx ≤ X ∧ X < cx + dx + sw + h ∧ cy + dy ≤ Y ∧ Y < cy + dy + lh)
    (u1 : 0 ≤ cx) (u2 : 0 ≤ cy) (u3 : cy + lh ≤ H) (u4 : cx + sw + h ≤ W)
    (u5 : 0 ≤ cx + dx) (u6 : 0 ≤ cy + dy) (u7 : cy + dy + lh ≤ H) (u8 : cx + dx + sw + h ≤ W)
    (ft' : ∀ X Y : Int, 0 ≤ X → X < W → 0 ≤ Y → Y < H → 0 ≤ X + dx → X + dx < W → 0 ≤ Y + dy → Y + dy < H →
        Spec.Text.bitAt ((W + 7) / 8) B (X + dx) (Y + dy) = Spec.Text.bitAt ((W + 7) / 8) A X Y) :
    Spec.Text.translateOk (oneLineCase W H cx cy dx dy h v lh lh1 sw sw1 sp glyphs) A B = true := by
  have hwib : ((W + 7) / 8 : Nat) * 8 = W := by omega
  unfold Spec.Text.translateOk oneLineCase
  rw [Bool.and_eq_true, List.all_eq_true, List.all_eq_true]
  constructor
  · intro p hp
    obtain ⟨X, Y, rfl, hX, hY⟩ := mem_textPixels _ p hp
    simp only [List.length_singleton] at hX hY ⊢
    rw [lineIdx_one _ _ _ hl]
    by_cases hband : cy ≤ (Y : Int) - dy ∧ (Y : Int) - dy < cy + lh
    · rw [if_pos hband]
      simp only [Spec.Text.lineDx, if_true]
      have hYs : 0 ≤ (Y : Int) - dy ∧ (Y : Int) - dy < H := by omega
      rw [decide_eq_true hYs, Bool.true_and]
      by_cases hXs : 0 ≤ (X : Int) - dx ∧ (X : Int) - dx < W
      · have := ft' ((X : Int) - dx) ((Y : Int) - dy) hXs.1 hXs.2 hYs.1 hYs.2 (by omega) (by omega) (by omega) (by omega)
        have e1 : (X : Int) - dx + dx = X := by omega
        have e2 : (Y : Int) - dy + dy = Y := by omega
        rw [e1, e2] at this
        rw [this]; simp
      · have hA : Spec.Text.bitAt ((W + 7) / 8) A ((X : Int) - dx) ((Y : Int) - dy) = false := by
          cases hb : Spec.Text.bitAt ((W + 7) / 8) A ((X : Int) - dx) ((Y : Int) - dy) with
          | false => rfl
          | true => have := bitAt_inside hb; omega
        have hB : Spec.Text.bitAt ((W + 7) / 8) B (X : Int) (Y : Int) = false := by
          cases hb : Spec.Text.bitAt ((W + 7) / 8) B (X : Int) (Y : Int) with
          | false => rfl
          | true => obtain ⟨_, b1, b2, _, _⟩ := fb _ _ hb; omega
        rw [hA, hB]; rfl
    · rw [if_neg hband]
      cases hb : Spec.Text.bitAt ((W + 7) / 8) B (X : Int) (Y : Int) with
      | false => rfl
      | true => obtain ⟨_, _, _, b3, b4⟩ := fb _ _ hb; omega
  · intro p hp
    obtain ⟨X, Y, rfl, hX, hY⟩ := mem_textPixels _ p hp
    simp only [List.length_singleton] at hX hY ⊢
    cases hb : Spec.Text.bitAt ((W + 7) / 8) A (X : Int) (Y : Int) with
    | false => rfl
    | true =>
      obtain ⟨_, a1, a2, a3, a4⟩ := fa _ _ hb
      rw [lineIdx_one _ _ _ hl, if_pos ⟨a3, a4⟩]
      simp only [Spec.Text.lineDx, if_true, Bool.not_true, Bool.false_or, Bool.and_eq_true, decide_eq_true_eq]
      have : (((W + 7) / 8 : Nat) : Int) * 8 = W := by omega
      refine ⟨⟨⟨by omega, by omega⟩, by omega⟩, by omega⟩

theorem scaleOk_of_facts (W H : Nat) (hW8 : W % 8 = 0) (cx cy dx dy h v lh lh1 sw sw1 : Int) (sp glyphs : Nat)
    (A C : Array UInt8) (hl : 0 < lh) (hlv : lh = v * lh1)
    (fa : ∀ X Y : Int, Spec.Text.bitAt ((W + 7) / 8) A X Y = true → Y < H ∧ cx ≤ X ∧ X < cx + sw + h ∧ cy ≤ Y ∧ Y < cy + lh)
    (u11 : 1 ≤ h) (u12 : 1 ≤ v)
    (fs' : ∀ I J p q : Int, 0 ≤ p → p < h → 0 ≤ q → q < v → 0 ≤ I → 0 ≤ J → cx + h * I + p < W → cy + v * J + q < H →
        Spec.Text.bitAt ((W + 7) / 8) A (cx + h * I + p) (cy + v * J + q) = Spec.Text.bitAt ((W + 7) / 8) C (cx + I) (cy + J)) :
    Spec.Text.scaleOk (oneLineCase W H cx cy dx dy h v lh lh1 sw sw1 sp glyphs) A C = true := by
  have hwib : ((W + 7) / 8 : Nat) * 8 = W := by omega
  unfold Spec.Text.scaleOk oneLineCase
  rw [List.all_eq_true]
  intro p hp
  obtain ⟨X, Y, rfl, hX, hY⟩ := mem_textPixels _ p hp
  simp only [List.length_singleton] at hX hY ⊢
  rw [lineIdx_one _ _ _ hl]
  by_cases hband : cy ≤ (Y : Int) ∧ (Y : Int) < cy + lh
  · rw [if_pos hband]
    simp only [Spec.Text.lineX, if_true, Int.natCast_zero, Int.zero_mul, Int.add_zero]
    by_cases hi : (X : Int) - cx < 0
    · rw [if_pos hi]
      cases hb : Spec.Text.bitAt ((W + 7) / 8) A (X : Int) (Y : Int) with
      | false => rfl
      | true => obtain ⟨_, a1, _, _, _⟩ := fa _ _ hb; omega
    · rw [if_neg hi]
      have hh0 : 0 < h := by omega
      have hv0 : 0 < v := by omega
      have e1 := Int.emod_add_mul_ediv ((X : Int) - cx) h
      have e2 := Int.emod_add_mul_ediv ((Y : Int) - cy) v
      have m1 := Int.emod_nonneg ((X : Int) - cx) (by omega : h ≠ 0)
      have m2 := Int.emod_lt_of_pos ((X : Int) - cx) hh0
      have m3 := Int.emod_nonneg ((Y : Int) - cy) (by omega : v ≠ 0)
      have m4 := Int.emod_lt_of_pos ((Y : Int) - cy) hv0
      have d1 : 0 ≤ ((X : Int) - cx) / h := Int.ediv_nonneg (by omega) (by omega)
      have d2 : 0 ≤ ((Y : Int) - cy) / v := Int.ediv_nonneg (by omega) (by omega)
      have := fs' (((X : Int) - cx) / h) (((Y : Int) - cy) / v) (((X : Int) - cx) % h) (((Y : Int) - cy) % v)
        m1 m2 m3 m4 d1 d2 (by omega) (by omega)
      have ex : cx + h * (((X : Int) - cx) / h) + ((X : Int) - cx) % h = X := by omega
      have ey : cy + v * (((Y : Int) - cy) / v) + ((Y : Int) - cy) % v = Y := by omega
      rw [ex, ey] at this
      rw [this]; simp
  · rw [if_neg hband]
    cases hb : Spec.Text.bitAt ((W + 7) / 8) A (X : Int) (Y : Int) with
    | false => rfl
    | true => obtain ⟨_, _, _, a3, a4⟩ := fa _ _ hb; omega

/-- **From pixel facts to the executable Spec** (one line, canvas width a multiple of 8): if the three observed renderings
have their ink in their boxes and — when unclipped — `B` is `A` translated and `A` is `C` enlarged, `Spec.Text.check`
answers `none`. -/
theorem check_of_facts (W H : Nat) (hW8 : W % 8 = 0) (cx cy dx dy h v lh lh1 sw sw1 : Int) (sp glyphs : Nat)
    (A B C : Array UInt8) (hl : 0 < lh) (hl1 : 0 < lh1) (hlv : lh = v * lh1)
    (fa : ∀ X Y : Int, Spec.Text.bitAt ((W + 7) / 8) A X Y = true → Y < H ∧ cx ≤ X ∧ X < cx + sw + h ∧ cy ≤ Y ∧ Y < cy + lh)
    (fb : ∀ X Y : Int, Spec.Text.bitAt ((W + 7) / 8) B X Y = true →
      Y < H ∧ cx + dx ≤ X ∧ X < cx + dx + sw + h ∧ cy + dy ≤ Y ∧ Y < cy + dy + lh)
    (fc : ∀ X Y : Int, Spec.Text.bitAt ((W + 7) / 8) C X Y = true → Y < H ∧ cx ≤ X ∧ X < cx + sw1 + 1 ∧ cy ≤ Y ∧ Y < cy + lh1)
    (ft : 0 ≤ cx → 0 ≤ cy → cy + lh ≤ H → cx + sw + h ≤ W → 0 ≤ cx + dx → 0 ≤ cy + dy → cy + dy + lh ≤ H → cx + dx + sw + h ≤ W →
      ∀ X Y : Int, 0 ≤ X → X < W → 0 ≤ Y → Y < H → 0 ≤ X + dx → X + dx < W → 0 ≤ Y + dy → Y + dy < H →
        Spec.Text.bitAt ((W + 7) / 8) B (X + dx) (Y + dy) = Spec.Text.bitAt ((W + 7) / 8) A X Y)
    (fs : 0 ≤ cx → 0 ≤ cy → cy + lh ≤ H → cx + sw + h ≤ W → cy + lh1 ≤ H → cx + sw1 + 1 ≤ W → 1 ≤ h → 1 ≤ v →
      ∀ I J p q : Int, 0 ≤ p → p < h → 0 ≤ q → q < v → 0 ≤ I → 0 ≤ J → cx + h * I + p < W → cy + v * J + q < H →
        Spec.Text.bitAt ((W + 7) / 8) A (cx + h * I + p) (cy + v * J + q) = Spec.Text.bitAt ((W + 7) / 8) C (cx + I) (cy + J)) :
    Spec.Text.check (oneLineCase W H cx cy dx dy h v lh lh1 sw sw1 sp glyphs) A B C = none := by
  have hwib : ((W + 7) / 8 : Nat) * 8 = W := by omega
  -- box clauses
  have hbox := boxOk_of_facts W H cx cy dx dy h v lh lh1 sw sw1 sp glyphs A hl fa
  have hbox1 := boxOk1_of_facts W H cx cy dx dy h v lh lh1 sw sw1 sp glyphs C hl1 fc
  unfold Spec.Text.check
  rw [hbox, hbox1]
  simp only [Bool.not_true, Bool.false_eq_true, if_false]
  cases hu : Spec.Text.unclipped (oneLineCase W H cx cy dx dy h v lh lh1 sw sw1 sp glyphs) with
  | false => simp
  | true =>
    simp only [Bool.not_true, Bool.false_eq_true, if_false]
    obtain ⟨⟨u1, u2, u3, u4⟩, ⟨u5, u6, u7, u8⟩, ⟨u9, u10⟩, u11, u12⟩ := unclipped_elim W H cx cy dx dy h v lh lh1 sw sw1 sp glyphs hu
    have htr := translateOk_of_facts W H hW8 cx cy dx dy h v lh lh1 sw sw1 sp glyphs A B hl fa fb u1 u2 u3 u4 u5 u6 u7 u8
      (ft u1 u2 u3 u4 u5 u6 u7 u8)
    have hsc := scaleOk_of_facts W H hW8 cx cy dx dy h v lh lh1 sw sw1 sp glyphs A C hl hlv fa u11 u12
      (fs u1 u2 u3 u4 u9 u10 u11 u12)
    rw [htr, hsc]
    simp

/-! ### The documented deviation `scale.spacing` at Spec level -/

/-- a case with the reported glyph widths of its line attached -/
def withCws (k : Spec.Text.Case) (ws : List Int) : Spec.Text.Case := { k with cws := [ws] }

/-- the bit of the size-1 rendering `devSource` points to (blank outside every glyph cell) -/
def devBit (wib : Nat) (C : Array UInt8) (Y : Int) : Option Int → Bool
  | none => false
  | some xc => Spec.Text.bitAt wib C xc Y

theorem scaleDevOk_of_facts (W H : Nat) (hW8 : W % 8 = 0) (cx cy dx dy h v lh lh1 sw sw1 : Int) (sp glyphs : Nat) (ws : List Int)
    (A C : Array UInt8) (hl : 0 < lh)
    (fa : ∀ X Y : Int, Spec.Text.bitAt ((W + 7) / 8) A X Y = true → Y < H ∧ cx ≤ X ∧ X < cx + sw + h ∧ cy ≤ Y ∧ Y < cy + lh)
    (u12 : 1 ≤ v)
    (fd' : ∀ (X Y : Nat) (J q : Int), X < W → Y < H → 0 ≤ q → q < v → 0 ≤ J → (Y : Int) = cy + v * J + q → (Y : Int) < cy + lh →
        Spec.Text.bitAt ((W + 7) / 8) A X Y = devBit ((W + 7) / 8) C (cy + J) (Spec.Text.devSource h sp ws cx cx X)) :
    Spec.Text.scaleDevOk (withCws (oneLineCase W H cx cy dx dy h v lh lh1 sw sw1 sp glyphs) ws) A C = true := by
  have hwib : ((W + 7) / 8 : Nat) * 8 = W := by omega
  unfold Spec.Text.scaleDevOk withCws oneLineCase
  rw [List.all_eq_true]
  intro p hp
  obtain ⟨X, Y, rfl, hX, hY⟩ := mem_textPixels _ p hp
  simp only [List.length_singleton] at hX hY ⊢
  rw [lineIdx_one _ _ _ hl]
  by_cases hband : cy ≤ (Y : Int) ∧ (Y : Int) < cy + lh
  · rw [if_pos hband]
    simp only [Spec.Text.lineX, if_true, Int.natCast_zero, Int.zero_mul, Int.add_zero, List.getD_cons_zero]
    have hv0 : 0 < v := by omega
    have e2 := Int.emod_add_mul_ediv ((Y : Int) - cy) v
    have m3 := Int.emod_nonneg ((Y : Int) - cy) (by omega : v ≠ 0)
    have m4 := Int.emod_lt_of_pos ((Y : Int) - cy) hv0
    have d2 : 0 ≤ ((Y : Int) - cy) / v := Int.ediv_nonneg (by omega) (by omega)
    have key := fd' X Y (((Y : Int) - cy) / v) (((Y : Int) - cy) % v) (by omega) hY m3 m4 d2 (by omega) hband.2
    rw [key]
    split
    · rename_i hd; rw [hd]; rfl
    · rename_i xc hd; rw [hd]; simp [devBit]
  · rw [if_neg hband]
    cases hb : Spec.Text.bitAt ((W + 7) / 8) A (X : Int) (Y : Int) with
    | false => rfl
    | true => obtain ⟨_, _, _, a3, a4⟩ := fa _ _ hb; omega

/-- **From pixel facts to the executable Spec, any extra spacing**: if the three observed renderings have their ink in
their boxes and — when unclipped — `B` is `A` translated and `A` is what the documented advance rule gives (every glyph cell
the size-1 cell enlarged, nothing between the cells), then in the recorded class (`knownSpacingClass`) `Spec.Text.check`
answers `none` or `scale.spacing`, never `scale` (nor `box`, `box1`, `translate`). -/
theorem check_dev_of_facts (W H : Nat) (hW8 : W % 8 = 0) (cx cy dx dy h v lh lh1 sw sw1 : Int) (sp glyphs : Nat) (ws : List Int)
    (A B C : Array UInt8) (hl : 0 < lh) (hl1 : 0 < lh1)
    (fa : ∀ X Y : Int, Spec.Text.bitAt ((W + 7) / 8) A X Y = true → Y < H ∧ cx ≤ X ∧ X < cx + sw + h ∧ cy ≤ Y ∧ Y < cy + lh)
    (fb : ∀ X Y : Int, Spec.Text.bitAt ((W + 7) / 8) B X Y = true →
      Y < H ∧ cx + dx ≤ X ∧ X < cx + dx + sw + h ∧ cy + dy ≤ Y ∧ Y < cy + dy + lh)
    (fc : ∀ X Y : Int, Spec.Text.bitAt ((W + 7) / 8) C X Y = true → Y < H ∧ cx ≤ X ∧ X < cx + sw1 + 1 ∧ cy ≤ Y ∧ Y < cy + lh1)
    (ft : 0 ≤ cx → 0 ≤ cy → cy + lh ≤ H → cx + sw + h ≤ W → 0 ≤ cx + dx → 0 ≤ cy + dy → cy + dy + lh ≤ H → cx + dx + sw + h ≤ W →
      ∀ X Y : Int, 0 ≤ X → X < W → 0 ≤ Y → Y < H → 0 ≤ X + dx → X + dx < W → 0 ≤ Y + dy → Y + dy < H →
        Spec.Text.bitAt ((W + 7) / 8) B (X + dx) (Y + dy) = Spec.Text.bitAt ((W + 7) / 8) A X Y)
    (fd : 0 ≤ cx → 0 ≤ cy → cy + lh ≤ H → cx + sw + h ≤ W → cy + lh1 ≤ H → cx + sw1 + 1 ≤ W → 1 ≤ h → 1 ≤ v →
      ∀ (X Y : Nat) (J q : Int), X < W → Y < H → 0 ≤ q → q < v → 0 ≤ J → (Y : Int) = cy + v * J + q → (Y : Int) < cy + lh →
        Spec.Text.bitAt ((W + 7) / 8) A X Y = devBit ((W + 7) / 8) C (cy + J) (Spec.Text.devSource h sp ws cx cx X))
    (hk : Spec.Text.knownSpacingClass (withCws (oneLineCase W H cx cy dx dy h v lh lh1 sw sw1 sp glyphs) ws) = true) :
    Spec.Text.check (withCws (oneLineCase W H cx cy dx dy h v lh lh1 sw sw1 sp glyphs) ws) A B C = none ∨
    Spec.Text.check (withCws (oneLineCase W H cx cy dx dy h v lh lh1 sw sw1 sp glyphs) ws) A B C = some "scale.spacing" := by
  have hbox : Spec.Text.boxOk (withCws (oneLineCase W H cx cy dx dy h v lh lh1 sw sw1 sp glyphs) ws) A = true :=
    boxOk_of_facts W H cx cy dx dy h v lh lh1 sw sw1 sp glyphs A hl fa
  have hbox1 : Spec.Text.boxOk1 (withCws (oneLineCase W H cx cy dx dy h v lh lh1 sw sw1 sp glyphs) ws) C = true :=
    boxOk1_of_facts W H cx cy dx dy h v lh lh1 sw sw1 sp glyphs C hl1 fc
  unfold Spec.Text.check
  rw [hbox, hbox1, hk]
  simp only [Bool.not_true, Bool.false_eq_true, if_false]
  cases hu : Spec.Text.unclipped (withCws (oneLineCase W H cx cy dx dy h v lh lh1 sw sw1 sp glyphs) ws) with
  | false => simp
  | true =>
    simp only [Bool.not_true, Bool.false_eq_true, if_false]
    have hu' : Spec.Text.unclipped (oneLineCase W H cx cy dx dy h v lh lh1 sw sw1 sp glyphs) = true := hu
    obtain ⟨⟨u1, u2, u3, u4⟩, ⟨u5, u6, u7, u8⟩, ⟨u9, u10⟩, u11, u12⟩ := unclipped_elim W H cx cy dx dy h v lh lh1 sw sw1 sp glyphs hu'
    have htr : Spec.Text.translateOk (withCws (oneLineCase W H cx cy dx dy h v lh lh1 sw sw1 sp glyphs) ws) A B = true :=
      translateOk_of_facts W H hW8 cx cy dx dy h v lh lh1 sw sw1 sp glyphs A B hl fa fb u1 u2 u3 u4 u5 u6 u7 u8
        (ft u1 u2 u3 u4 u5 u6 u7 u8)
    have hdev := scaleDevOk_of_facts W H hW8 cx cy dx dy h v lh lh1 sw sw1 sp glyphs ws A C hl fa u12
      (fd u1 u2 u3 u4 u9 u10 u11 u12)
    rw [htr, hdev]
    simp only [Bool.not_true, Bool.false_eq_true, if_false, Bool.and_self, if_true]
    cases Spec.Text.scaleOk (withCws (oneLineCase W H cx cy dx dy h v lh lh1 sw sw1 sp glyphs) ws) A C with
    | true => left; simp
    | false => right; simp

/-- the text state of a case with spacing 0, spelled out -/
def mkState (font : Int) (prop : Bool) (cx cy h v : Int) : TextSt :=
  { font := font, prop := prop, spacing := 0, cx := cx, cy := cy, tcol := true, tbg := true, tsH := h, tsV := v, wrap := false }

theorem caseState_eq (font : Int) (prop : Bool) (h v cx cy : Int) (hh : 1 ≤ h) (hv : 1 ≤ v) :
    caseState font prop 0 h v cx cy = mkState font prop cx cy h v := by
  unfold caseState setCursor setTextColor setTextSize setFont mkState
  have h1 : h > 0 := by omega
  have h2 : ¬ v = 0 := by omega
  simp only [h1, h2, if_true, if_false]

/-- a lit bit of a rendering on a blank `W × H` canvas (`W` a multiple of 8), read through the Spec's `bitAt`, lies inside
the text box -/
theorem bitAt_in_box (W H : Nat) (t : TextSt) (s : List Nat) (hs : 10 ∉ s) (hw : t.wrap = false) (hH : 0 ≤ t.tsH)
    (X Y : Int) (hb : Spec.Text.bitAt ((W + 7) / 8) (bytesU8 (renderText (newCanvas W H, t) s).1) X Y = true) :
    Y < H ∧ t.cx ≤ X ∧ X < t.cx + strWidth t s + t.tsH ∧ t.cy ≤ Y ∧ Y < t.cy + (t.fp.bbH : Int) * t.tsV := by
  have hwf := newCanvas_wf' W H
  have tb := renderText_box s hs (newCanvas W H) hwf t hw hH
  have hgeo : (renderText (newCanvas W H, t) s).1.geo = geo0 W H := tb.geo
  have hwib : (renderText (newCanvas W H, t) s).1.geo.wib = (W + 7) / 8 := by rw [hgeo]; rfl
  obtain ⟨b1, b2, b3⟩ := bitAt_inside hb
  obtain ⟨Xn, rfl⟩ := Int.eq_ofNat_of_zero_le b1
  obtain ⟨Yn, rfl⟩ := Int.eq_ofNat_of_zero_le b3
  have hXn : Xn < (renderText (newCanvas W H, t) s).1.geo.wib * 8 := by rw [hwib]; omega
  rw [← hwib, bitAt_getPx _ Xn Yn hXn] at hb
  -- rows beyond the buffer read as blank
  have hYn : Yn < H := by
    by_cases hy : Yn < H
    · exact hy
    · exfalso
      have hsz : (renderText (newCanvas W H, t) s).1.bytes.size = (W + 7) / 8 * H := by
        rw [tb.size]; simp [newCanvas]
      unfold getPx at hb
      rw [hwib] at hb hXn
      have : (W + 7) / 8 * H ≤ Yn * ((W + 7) / 8) + Xn / 8 := by
        have : H * ((W + 7) / 8) ≤ Yn * ((W + 7) / 8) := Nat.mul_le_mul_right _ (by omega)
        rw [Nat.mul_comm] at this; omega
      rw [Array.getD_eq_getD_getElem?, Array.getElem?_eq_none (by omega)] at hb
      simp at hb
  refine ⟨by omega, ?_⟩
  have hXn' : Xn < (newCanvas W H).geo.wib * 8 := by rw [newCanvas_geo]; unfold geo0; simp only []; omega
  have hYn' : Yn < (newCanvas W H).geo.H := by rw [newCanvas_geo]; exact hYn
  have key := ink_in_box s hs (newCanvas W H) hwf t hw hH Xn Yn hXn' hYn'
  rw [newCanvas_geo] at key
  have b0 : (geo0 W H).bx = 0 := rfl
  have b0' : (geo0 W H).byy = 0 := rfl
  rw [b0, b0'] at key
  simp only [Int.add_zero] at key
  by_cases hin : (t.cx ≤ (Xn : Int) ∧ (Xn : Int) < t.cx + (strWidth t s + t.tsH)) ∧
      (t.cy ≤ (Yn : Int) ∧ (Yn : Int) < t.cy + (t.fp.bbH : Int) * t.tsV)
  · exact ⟨hin.1.1, by omega, hin.2.1, hin.2.2⟩
  · rw [key hin, getPx_newCanvas] at hb
    exact absurd hb (by decide)

/-- **The executable Spec holds of the model's three renderings, whatever text state the object is in.**  For every text
state `base` with extra spacing 0, wrapping off and background = text colour (what `SetTextColor` always leaves), every
string without line feed, sizes `1 ≤ h`, `1 ≤ v < 2^24`, cursor and offset, on every blank canvas whose width is a multiple
of 8: `Spec.Text.check` — the predicate the run evaluates on the implementation's output — answers `none` on the renderings
of the model (`A` at the cursor, `B` at the moved cursor, `C` at size 1) with the model's reported widths and line heights:
ink in the box always, translation and scaling whenever the Spec's own `unclipped` test says the boxes lie on the canvas. -/
theorem spec_check_holds_state (W H : Nat) (hW8 : W % 8 = 0) (base : TextSt) (hsp : base.spacing = 0)
    (hwr : base.wrap = false) (hbg : base.tbg = base.tcol) (h v cx cy dx dy : Int) (s : List Nat)
    (hs : 10 ∉ s) (hh : 1 ≤ h) (hv : 1 ≤ v) (hv' : v < 16777216) (glyphs : Nat) :
    Spec.Text.check
      (oneLineCase W H cx cy dx dy h v (lineHeight (atSize base h v cx cy)) (lineHeight (atSize base 1 1 cx cy))
        (strWidth (atSize base h v cx cy) s) (strWidth (atSize base 1 1 cx cy) s) 0 glyphs)
      (bytesU8 (renderText (newCanvas W H, atSize base h v cx cy) s).1)
      (bytesU8 (renderText (newCanvas W H,
        { atSize base h v cx cy with cx := (atSize base h v cx cy).cx + dx, cy := (atSize base h v cx cy).cy + dy }) s).1)
      (bytesU8 (renderText (newCanvas W H, atSize base 1 1 cx cy) s).1) = none := by
  have hfp : ∀ (a b c d : Int), (atSize base a b c d).fp = base.fp := fun _ _ _ _ => rfl
  obtain ⟨hbw, hbh⟩ := fp_pos base.font
  have hbh8 := (font_tables_sized.2.2.2 base.font).2.2.1
  -- line heights
  have elh : (lineHeight (atSize base h v cx cy) : Int) = (base.fp.bbH : Int) * v :=
    lineHeight_eq (atSize base h v cx cy) (by show 0 ≤ v; omega) (by show v < 16777216; exact hv') (by unfold TextSt.fp atSize; simp only []; omega)
  have elh1 : (lineHeight (atSize base 1 1 cx cy) : Int) = (base.fp.bbH : Int) * 1 :=
    lineHeight_eq (atSize base 1 1 cx cy) (by show (0 : Int) ≤ 1; omega) (by show (1 : Int) < 16777216; omega) (by unfold TextSt.fp atSize; simp only []; omega)
  have hbh1 : (1 : Int) ≤ (base.fp.bbH : Int) := by unfold TextSt.fp; omega
  have hlpos : (0 : Int) < (base.fp.bbH : Int) * v := Int.mul_pos (by omega) (by omega)
  -- widths
  have esw := strWidth_eq (atSize base h v cx cy) s
  have esw1 := strWidth_eq (atSize base 1 1 cx cy) s
  have etsH : (atSize base h v cx cy).tsH = h := rfl
  have etsH1 : (atSize base 1 1 cx cy).tsH = 1 := rfl
  refine check_of_facts W H hW8 cx cy dx dy h v _ _ _ _ 0 glyphs _ _ _ (by rw [elh]; exact hlpos) (by rw [elh1]; omega)
    (by rw [elh, elh1]; rw [Int.mul_one, Int.mul_comm]) ?_ ?_ ?_ ?_ ?_
  · intro X Y hb
    have := bitAt_in_box W H (atSize base h v cx cy) s hs hwr (by show 0 ≤ h; omega) X Y hb
    rw [elh]
    exact this
  · intro X Y hb
    have := bitAt_in_box W H { atSize base h v cx cy with cx := (atSize base h v cx cy).cx + dx, cy := (atSize base h v cx cy).cy + dy }
      s hs hwr (by show 0 ≤ h; omega) X Y hb
    rw [elh]
    have e1 : strWidth { atSize base h v cx cy with cx := (atSize base h v cx cy).cx + dx, cy := (atSize base h v cx cy).cy + dy } s =
        strWidth (atSize base h v cx cy) s := by
      rw [strWidth_eq, strWidth_eq, advSum_cxy]
    rw [e1] at this
    exact this
  · intro X Y hb
    have := bitAt_in_box W H (atSize base 1 1 cx cy) s hs hwr (by show (0 : Int) ≤ 1; omega) X Y hb
    rw [elh1]
    exact this
  · -- translation
    intro u1 u2 u3 u4 u5 u6 u7 u8 X Y x0 x1 y0 y1 x2 x3 y2 y3
    rw [esw, etsH] at u4 u8
    rw [elh] at u3 u7
    obtain ⟨Xn, rfl⟩ := Int.eq_ofNat_of_zero_le x0
    obtain ⟨Yn, rfl⟩ := Int.eq_ofNat_of_zero_le y0
    obtain ⟨Xn', hXn'⟩ := Int.eq_ofNat_of_zero_le x2
    obtain ⟨Yn', hYn'⟩ := Int.eq_ofNat_of_zero_le y2
    rw [hXn', hYn']
    have hneA : NoEarly (geo0 W H) (atSize base h v cx cy) s :=
      noEarly_of_fits W H s _ (by show 1 ≤ h; exact hh) (by show 1 ≤ v; exact hv) (by show 0 ≤ cx; exact u1) (by show 0 ≤ cy; exact u2)
        (by show cy ≤ H; omega) (by show cx + advSum (atSize base h v cx cy) s ≤ W; omega)
    have hneB : NoEarly (geo0 W H) { atSize base h v cx cy with cx := (atSize base h v cx cy).cx + dx, cy := (atSize base h v cx cy).cy + dy } s :=
      noEarly_of_fits W H s _ (by show 1 ≤ h; exact hh) (by show 1 ≤ v; exact hv) (by show 0 ≤ cx + dx; exact u5) (by show 0 ≤ cy + dy; exact u6)
        (by show cy + dy ≤ H; omega) (by rw [advSum_cxy]; show cx + dx + advSum (atSize base h v cx cy) s ≤ W; omega)
    have key := translation W H (atSize base h v cx cy) s hs hwr hbg dx dy hneA hneB Xn Yn Xn' Yn' (by omega) (by omega) (by omega) (by omega)
      (by omega) (by omega)
    have gA : (renderText (newCanvas W H, atSize base h v cx cy) s).1.geo.wib = (W + 7) / 8 := by
      rw [(renderText_box s hs (newCanvas W H) (newCanvas_wf' W H) (atSize base h v cx cy) hwr (by show 0 ≤ h; omega)).geo]; rfl
    have gB : (renderText (newCanvas W H, { atSize base h v cx cy with cx := (atSize base h v cx cy).cx + dx, cy := (atSize base h v cx cy).cy + dy }) s).1.geo.wib = (W + 7) / 8 := by
      rw [(renderText_box s hs (newCanvas W H) (newCanvas_wf' W H)
        { atSize base h v cx cy with cx := (atSize base h v cx cy).cx + dx, cy := (atSize base h v cx cy).cy + dy } hwr (by show 0 ≤ h; omega)).geo]; rfl
    have r1 := bitAt_getPx (renderText (newCanvas W H, atSize base h v cx cy) s).1 Xn Yn (by rw [gA]; omega)
    have r2 := bitAt_getPx (renderText (newCanvas W H, { atSize base h v cx cy with cx := (atSize base h v cx cy).cx + dx, cy := (atSize base h v cx cy).cy + dy }) s).1
      Xn' Yn' (by rw [gB]; omega)
    rw [gA] at r1; rw [gB] at r2
    rw [r1, r2]
    exact key
  · -- scaling
    intro u1 u2 u3 u4 u9 u10 u11 u12 I J p q p0 p1 q0 q1 i0 j0 xw yh
    rw [esw, etsH] at u4
    rw [esw1, etsH1] at u10
    rw [elh] at u3
    rw [elh1] at u9
    have hI : I ≤ h * I := by
      have : 0 ≤ (h - 1) * I := Int.mul_nonneg (by omega) i0
      rw [Int.sub_mul, Int.one_mul] at this; omega
    have hJ : J ≤ v * J := by
      have : 0 ≤ (v - 1) * J := Int.mul_nonneg (by omega) j0
      rw [Int.sub_mul, Int.one_mul] at this; omega
    have hI0 : 0 ≤ h * I := Int.mul_nonneg (by omega) i0
    have hJ0 : 0 ≤ v * J := Int.mul_nonneg (by omega) j0
    obtain ⟨Xh, hXh⟩ := Int.eq_ofNat_of_zero_le (a := cx + h * I + p) (by omega)
    obtain ⟨Yh, hYh⟩ := Int.eq_ofNat_of_zero_le (a := cy + v * J + q) (by omega)
    obtain ⟨X1, hX1⟩ := Int.eq_ofNat_of_zero_le (a := cx + I) (by omega)
    obtain ⟨Y1, hY1⟩ := Int.eq_ofNat_of_zero_le (a := cy + J) (by omega)
    rw [hXh, hYh, hX1, hY1]
    have hneh : NoEarly (geo0 W H) (atSize base h v cx cy) s :=
      noEarly_of_fits W H s _ (by show 1 ≤ h; exact hh) (by show 1 ≤ v; exact hv) (by show 0 ≤ cx; exact u1) (by show 0 ≤ cy; exact u2)
        (by show cy ≤ H; omega) (by show cx + advSum (atSize base h v cx cy) s ≤ W; omega)
    have hne1 : NoEarly (geo0 W H) (atSize base 1 1 cx cy) s :=
      noEarly_of_fits W H s _ (by show (1 : Int) ≤ 1; omega) (by show (1 : Int) ≤ 1; omega) (by show 0 ≤ cx; exact u1) (by show 0 ≤ cy; exact u2)
        (by show cy ≤ H; omega) (by show cx + advSum (atSize base 1 1 cx cy) s ≤ W; omega)
    have key := scale_zero_spacing W H base s hs hwr hbg hsp h v cx cy (by omega) (by omega) hneh hne1 I J p q Xh Yh X1 Y1
      (by omega) (by omega) (by omega) (by omega) p0 p1 q0 q1 hXh.symm hYh.symm hX1.symm hY1.symm
    have gA : (renderText (newCanvas W H, atSize base h v cx cy) s).1.geo.wib = (W + 7) / 8 := by
      rw [(renderText_box s hs (newCanvas W H) (newCanvas_wf' W H) (atSize base h v cx cy) hwr (by show 0 ≤ h; omega)).geo]; rfl
    have gC : (renderText (newCanvas W H, atSize base 1 1 cx cy) s).1.geo.wib = (W + 7) / 8 := by
      rw [(renderText_box s hs (newCanvas W H) (newCanvas_wf' W H) (atSize base 1 1 cx cy) hwr (by show (0 : Int) ≤ 1; omega)).geo]; rfl
    have r1 := bitAt_getPx (renderText (newCanvas W H, atSize base h v cx cy) s).1 Xh Yh (by rw [gA]; omega)
    have r2 := bitAt_getPx (renderText (newCanvas W H, atSize base 1 1 cx cy) s).1 X1 Y1 (by rw [gC]; omega)
    rw [gA] at r1; rw [gC] at r2
    rw [r1, r2]
    exact key

/-- **In the recorded class the model is never a plain `scale` violation.**  For every text state (any extra spacing), string
without line feed, sizes `1 ≤ h`, `1 ≤ v < 2^24`, cursor, offset and blank canvas of width a multiple of 8: with the glyph
widths the model reports attached to the case, `Spec.Text.check` answers `none` or — the documented deviation, excused —
`scale.spacing` on the model's three renderings, whenever the case lies in the class of the finding (`knownSpacingClass`:
spacing `> 0`, `h > 1`, at least two glyphs).  So on that class `box`, `box1`, `translate` and `scale` are all decided by the
Spec against the code's documented rule: the glyph cells at the advance `h·w + s` are the size-1 cells enlarged exactly
`h × v` and nothing is lit between them (`Lemmas/MonoTextDev.textR0_dev`). -/
theorem spec_check_spacing (W H : Nat) (hW8 : W % 8 = 0) (base : TextSt)
    (hwr : base.wrap = false) (hbg : base.tbg = base.tcol) (h v cx cy dx dy : Int) (s : List Nat)
    (hs : 10 ∉ s) (hh : 1 ≤ h) (hv : 1 ≤ v) (hv' : v < 16777216) (glyphs : Nat)
    (hk : Spec.Text.knownSpacingClass (withCws
      (oneLineCase W H cx cy dx dy h v (lineHeight (atSize base h v cx cy)) (lineHeight (atSize base 1 1 cx cy))
        (strWidth (atSize base h v cx cy) s) (strWidth (atSize base 1 1 cx cy) s) base.spacing glyphs) (glyphWs base s)) = true) :
    Spec.Text.check (withCws
      (oneLineCase W H cx cy dx dy h v (lineHeight (atSize base h v cx cy)) (lineHeight (atSize base 1 1 cx cy))
        (strWidth (atSize base h v cx cy) s) (strWidth (atSize base 1 1 cx cy) s) base.spacing glyphs) (glyphWs base s))
      (bytesU8 (renderText (newCanvas W H, atSize base h v cx cy) s).1)
      (bytesU8 (renderText (newCanvas W H,
        { atSize base h v cx cy with cx := (atSize base h v cx cy).cx + dx, cy := (atSize base h v cx cy).cy + dy }) s).1)
      (bytesU8 (renderText (newCanvas W H, atSize base 1 1 cx cy) s).1) = none ∨
    Spec.Text.check (withCws
      (oneLineCase W H cx cy dx dy h v (lineHeight (atSize base h v cx cy)) (lineHeight (atSize base 1 1 cx cy))
        (strWidth (atSize base h v cx cy) s) (strWidth (atSize base 1 1 cx cy) s) base.spacing glyphs) (glyphWs base s))
      (bytesU8 (renderText (newCanvas W H, atSize base h v cx cy) s).1)
      (bytesU8 (renderText (newCanvas W H,
        { atSize base h v cx cy with cx := (atSize base h v cx cy).cx + dx, cy := (atSize base h v cx cy).cy + dy }) s).1)
      (bytesU8 (renderText (newCanvas W H, atSize base 1 1 cx cy) s).1) = some "scale.spacing" := by
  have hfp : ∀ (a b c d : Int), (atSize base a b c d).fp = base.fp := fun _ _ _ _ => rfl
  obtain ⟨hbw, hbh⟩ := fp_pos base.font
  have hbh8 := (font_tables_sized.2.2.2 base.font).2.2.1
  -- line heights
  have elh : (lineHeight (atSize base h v cx cy) : Int) = (base.fp.bbH : Int) * v :=
    lineHeight_eq (atSize base h v cx cy) (by show 0 ≤ v; omega) (by show v < 16777216; exact hv') (by unfold TextSt.fp atSize; simp only []; omega)
  have elh1 : (lineHeight (atSize base 1 1 cx cy) : Int) = (base.fp.bbH : Int) * 1 :=
    lineHeight_eq (atSize base 1 1 cx cy) (by show (0 : Int) ≤ 1; omega) (by show (1 : Int) < 16777216; omega) (by unfold TextSt.fp atSize; simp only []; omega)
  have hbh1 : (1 : Int) ≤ (base.fp.bbH : Int) := by unfold TextSt.fp; omega
  have hlpos : (0 : Int) < (base.fp.bbH : Int) * v := Int.mul_pos (by omega) (by omega)
  -- widths
  have esw := strWidth_eq (atSize base h v cx cy) s
  have esw1 := strWidth_eq (atSize base 1 1 cx cy) s
  have etsH : (atSize base h v cx cy).tsH = h := rfl
  have etsH1 : (atSize base 1 1 cx cy).tsH = 1 := rfl
  refine check_dev_of_facts W H hW8 cx cy dx dy h v _ _ _ _ base.spacing glyphs (glyphWs base s) _ _ _ (by rw [elh]; exact hlpos) (by rw [elh1]; omega)
    ?_ ?_ ?_ ?_ ?_ hk
  · intro X Y hb
    have := bitAt_in_box W H (atSize base h v cx cy) s hs hwr (by show 0 ≤ h; omega) X Y hb
    rw [elh]
    exact this
  · intro X Y hb
    have := bitAt_in_box W H { atSize base h v cx cy with cx := (atSize base h v cx cy).cx + dx, cy := (atSize base h v cx cy).cy + dy }
      s hs hwr (by show 0 ≤ h; omega) X Y hb
    rw [elh]
    have e1 : strWidth { atSize base h v cx cy with cx := (atSize base h v cx cy).cx + dx, cy := (atSize base h v cx cy).cy + dy } s =
        strWidth (atSize base h v cx cy) s := by
      rw [strWidth_eq, strWidth_eq, advSum_cxy]
    rw [e1] at this
    exact this
  · intro X Y hb
    have := bitAt_in_box W H (atSize base 1 1 cx cy) s hs hwr (by show (0 : Int) ≤ 1; omega) X Y hb
    rw [elh1]
    exact this
  · -- translation
    intro u1 u2 u3 u4 u5 u6 u7 u8 X Y x0 x1 y0 y1 x2 x3 y2 y3
    rw [esw, etsH] at u4 u8
    rw [elh] at u3 u7
    obtain ⟨Xn, rfl⟩ := Int.eq_ofNat_of_zero_le x0
    obtain ⟨Yn, rfl⟩ := Int.eq_ofNat_of_zero_le y0
    obtain ⟨Xn', hXn'⟩ := Int.eq_ofNat_of_zero_le x2
    obtain ⟨Yn', hYn'⟩ := Int.eq_ofNat_of_zero_le y2
    rw [hXn', hYn']
    have hneA : NoEarly (geo0 W H) (atSize base h v cx cy) s :=
      noEarly_of_fits W H s _ (by show 1 ≤ h; exact hh) (by show 1 ≤ v; exact hv) (by show 0 ≤ cx; exact u1) (by show 0 ≤ cy; exact u2)
        (by show cy ≤ H; omega) (by show cx + advSum (atSize base h v cx cy) s ≤ W; omega)
    have hneB : NoEarly (geo0 W H) { atSize base h v cx cy with cx := (atSize base h v cx cy).cx + dx, cy := (atSize base h v cx cy).cy + dy } s :=
      noEarly_of_fits W H s _ (by show 1 ≤ h; exact hh) (by show 1 ≤ v; exact hv) (by show 0 ≤ cx + dx; exact u5) (by show 0 ≤ cy + dy; exact u6)
        (by show cy + dy ≤ H; omega) (by rw [advSum_cxy]; show cx + dx + advSum (atSize base h v cx cy) s ≤ W; omega)
    have key := translation W H (atSize base h v cx cy) s hs hwr hbg dx dy hneA hneB Xn Yn Xn' Yn' (by omega) (by omega) (by omega) (by omega)
      (by omega) (by omega)
    have gA : (renderText (newCanvas W H, atSize base h v cx cy) s).1.geo.wib = (W + 7) / 8 := by
      rw [(renderText_box s hs (newCanvas W H) (newCanvas_wf' W H) (atSize base h v cx cy) hwr (by show 0 ≤ h; omega)).geo]; rfl
    have gB : (renderText (newCanvas W H, { atSize base h v cx cy with cx := (atSize base h v cx cy).cx + dx, cy := (atSize base h v cx cy).cy + dy }) s).1.geo.wib = (W + 7) / 8 := by
      rw [(renderText_box s hs (newCanvas W H) (newCanvas_wf' W H)
        { atSize base h v cx cy with cx := (atSize base h v cx cy).cx + dx, cy := (atSize base h v cx cy).cy + dy } hwr (by show 0 ≤ h; omega)).geo]; rfl
    have r1 := bitAt_getPx (renderText (newCanvas W H, atSize base h v cx cy) s).1 Xn Yn (by rw [gA]; omega)
    have r2 := bitAt_getPx (renderText (newCanvas W H, { atSize base h v cx cy with cx := (atSize base h v cx cy).cx + dx, cy := (atSize base h v cx cy).cy + dy }) s).1
      Xn' Yn' (by rw [gB]; omega)
    rw [gA] at r1; rw [gB] at r2
    rw [r1, r2]
    exact key
  · -- the documented deviation
    intro u1 u2 u3 u4 u9 u10 u11 u12 X Y J q hXW hYH q0 q1 j0 eY hYband
    rw [esw, etsH] at u4
    rw [esw1, etsH1] at u10
    rw [elh] at u3 hYband
    rw [elh1] at u9
    have hneh : NoEarly (geo0 W H) (atSize base h v cx cy) s :=
      noEarly_of_fits W H s _ (by show 1 ≤ h; exact hh) (by show 1 ≤ v; exact hv) (by show 0 ≤ cx; exact u1) (by show 0 ≤ cy; exact u2)
        (by show cy ≤ H; omega) (by show cx + advSum (atSize base h v cx cy) s ≤ W; omega)
    have hne1 : NoEarly (geo0 W H) (atSize base 1 1 cx cy) s :=
      noEarly_of_fits W H s _ (by show (1 : Int) ≤ 1; omega) (by show (1 : Int) ≤ 1; omega) (by show 0 ≤ cx; exact u1) (by show 0 ≤ cy; exact u2)
        (by show cy ≤ H; omega) (by show cx + advSum (atSize base 1 1 cx cy) s ≤ W; omega)
    -- the glyph row lies in the cell
    have hJ : J < (base.fp.bbH : Int) := by
      have hvJ : v * J < v * (base.fp.bbH : Int) := by
        have : (base.fp.bbH : Int) * v = v * (base.fp.bbH : Int) := Int.mul_comm _ _
        omega
      exact Int.lt_of_mul_lt_mul_left hvJ (by omega)
    obtain ⟨Y1, hY1⟩ := Int.eq_ofNat_of_zero_le (a := cy + J) (by omega)
    have hY1H : Y1 < H := by omega
    have gA : (renderText (newCanvas W H, atSize base h v cx cy) s).1.geo.wib = (W + 7) / 8 := by
      rw [(renderText_box s hs (newCanvas W H) (newCanvas_wf' W H) (atSize base h v cx cy) hwr (by show 0 ≤ h; omega)).geo]; rfl
    have gC : (renderText (newCanvas W H, atSize base 1 1 cx cy) s).1.geo.wib = (W + 7) / 8 := by
      rw [(renderText_box s hs (newCanvas W H) (newCanvas_wf' W H) (atSize base 1 1 cx cy) hwr (by show (0 : Int) ≤ 1; omega)).geo]; rfl
    have r1 := bitAt_getPx (renderText (newCanvas W H, atSize base h v cx cy) s).1 X Y (by rw [gA]; omega)
    rw [gA] at r1
    rw [r1]
    have a := renderText_blank W H (atSize base h v cx cy) s hs hwr hbg hneh X Y hXW hYH
    have dev := textR0_dev W H s base h v cy (by omega) (by omega) cx cx u1 (by omega) J q X Y Y1 hXW hYH hY1H q0 q1 eY hY1.symm
    have tc : (atSize base h v cx cy).tcol = (atSize base 1 1 cx cy).tcol := rfl
    cases hd : Spec.Text.devSource h (↑base.spacing) (glyphWs base s) cx cx ↑X with
    | none =>
      rw [hd] at dev
      simp only [devR] at dev
      simp only [devBit]
      exact a.2 (fun hr => dev.1 hr)
    | some xc =>
      rw [hd] at dev
      simp only [devR] at dev
      simp only [devBit]
      have hxc0 : cx ≤ xc := devSource_ge h base.spacing (by omega) (by omega) (glyphWs base s)
        (by intro w hw; unfold glyphWs at hw; simp only [List.mem_map] at hw; obtain ⟨c, _, rfl⟩ := hw; omega) _ _ _ _ hd
      have hxcn : ((xc.toNat : Nat) : Int) = xc := Int.toNat_of_nonneg (by omega)
      rw [← hxcn, hY1]
      by_cases hxW : xc.toNat < W
      · have r2 := bitAt_getPx (renderText (newCanvas W H, atSize base 1 1 cx cy) s).1 xc.toNat Y1 (by rw [gC]; omega)
        rw [gC] at r2
        rw [r2]
        have b := renderText_blank W H (atSize base 1 1 cx cy) s hs hwr hbg hne1 xc.toNat Y1 hxW hY1H
        by_cases hr : textR0 (geo0 W H) (atSize base 1 1 cx cy) s xc.toNat Y1
        · rw [b.1 hr, a.1 (dev.2 hr), tc]
        · rw [b.2 hr, a.2 (fun h => hr (dev.1 h))]
      · -- beyond the canvas both sides are blank
        have hC : Spec.Text.bitAt ((W + 7) / 8) (bytesU8 (renderText (newCanvas W H, atSize base 1 1 cx cy) s).1) ((xc.toNat : Nat) : Int) ((Y1 : Nat) : Int) = false := by
          cases hb : Spec.Text.bitAt ((W + 7) / 8) (bytesU8 (renderText (newCanvas W H, atSize base 1 1 cx cy) s).1) ((xc.toNat : Nat) : Int) ((Y1 : Nat) : Int) with
          | false => rfl
          | true => have := bitAt_inside hb; omega
        rw [hC]
        refine a.2 (fun hr => ?_)
        have := textR0_clip W H s (atSize base 1 1 cx cy) xc.toNat Y1 (dev.1 hr)
        omega

/-- non-vacuity of `spec_check_spacing`, and the recorded example: "ab" in font 0 with extra spacing 1 at size 2×2 on a 32×16
canvas lies in the class, is unclipped, and the Spec's verdict on the model's renderings is the excused `scale.spacing`
(not `none`: the plain `scale` clause is false there, `scale_with_spacing_counterexample`) -/
def devSt : TextSt := { spacing := 1, wrap := false, tcol := true, tbg := true }
def devCase : Spec.Text.Case :=
  withCws (oneLineCase 32 16 0 0 0 0 2 2 (lineHeight (atSize devSt 2 2 0 0)) (lineHeight (atSize devSt 1 1 0 0))
    (strWidth (atSize devSt 2 2 0 0) [97, 98]) (strWidth (atSize devSt 1 1 0 0) [97, 98]) devSt.spacing 2) (glyphWs devSt [97, 98])

example : Spec.Text.knownSpacingClass devCase = true ∧ Spec.Text.unclipped devCase = true := by decide +kernel

example : Spec.Text.check devCase (bytesU8 (renderText (newCanvas 32 16, atSize devSt 2 2 0 0) [97, 98]).1)
    (bytesU8 (renderText (newCanvas 32 16, atSize devSt 2 2 0 0) [97, 98]).1)
    (bytesU8 (renderText (newCanvas 32 16, atSize devSt 1 1 0 0) [97, 98]).1) = some "scale.spacing" := by decide +kernel

/-- the deviation clause has teeth: the same case with one more pixel lit in the enlarged rendering (bit 7 of the first
byte: pixel (0,0), inside the first glyph cell, blank in the size-1 rendering) is a plain `scale` violation -/
example : Spec.Text.check devCase
    ((bytesU8 (renderText (newCanvas 32 16, atSize devSt 2 2 0 0) [97, 98]).1).set! 0 128)
    ((bytesU8 (renderText (newCanvas 32 16, atSize devSt 2 2 0 0) [97, 98]).1).set! 0 128)
    (bytesU8 (renderText (newCanvas 32 16, atSize devSt 1 1 0 0) [97, 98]).1) = some "scale" := by decide +kernel

/-- the recorded example in terms of columns: with glyph widths 6, 6, extra spacing 1 and size 2, column 12 of the enlarged
line is the gap between the glyphs (no cell), column 13 the first column of the second glyph, which shows size-1 column 7;
the plain `scale` clause compares it with column 13/2 = 6 -/
example : glyphWs devSt [97, 98] = [6, 6] ∧ Spec.Text.devSource 2 1 [6, 6] 0 0 12 = none ∧
    Spec.Text.devSource 2 1 [6, 6] 0 0 13 = some 7 := by decide +kernel

/-- **The executable Spec holds of the model's three renderings** in the fixed setter order of `text.case` (font, size,
spacing 0, wrap off, colour, cursor): the instance of `spec_check_holds_state` for the state that order leaves. -/
theorem spec_check_holds (W H : Nat) (hW8 : W % 8 = 0) (font : Int) (prop : Bool) (h v cx cy dx dy : Int) (s : List Nat)
    (hs : 10 ∉ s) (hh : 1 ≤ h) (hv : 1 ≤ v) (hv' : v < 16777216) (glyphs : Nat) :
    Spec.Text.check
      (oneLineCase W H cx cy dx dy h v (lineHeight (caseState font prop 0 h v cx cy)) (lineHeight (caseState font prop 0 1 1 cx cy))
        (strWidth (caseState font prop 0 h v cx cy) s) (strWidth (caseState font prop 0 1 1 cx cy) s) 0 glyphs)
      (bytesU8 (renderText (newCanvas W H, caseState font prop 0 h v cx cy) s).1)
      (bytesU8 (renderText (newCanvas W H, caseState font prop 0 h v (cx + dx) (cy + dy)) s).1)
      (bytesU8 (renderText (newCanvas W H, caseState font prop 0 1 1 cx cy) s).1) = none := by
  rw [caseState_eq font prop h v cx cy hh hv, caseState_eq font prop h v (cx + dx) (cy + dy) hh hv,
    caseState_eq font prop 1 1 cx cy (by omega) (by omega)]
  exact spec_check_holds_state W H hW8 (mkState font prop 0 0 1 1) rfl rfl rfl h v cx cy dx dy s hs hh hv hv' glyphs

/-! ## One image object, any call history (`text.sess`) -/

theorem writeChar_colours (ct : Canvas × TextSt) (ch : Nat) :
    (writeChar ct ch).2.tcol = ct.2.tcol ∧ (writeChar ct ch).2.tbg = ct.2.tbg := by
  obtain ⟨c, t⟩ := ct
  unfold writeChar
  simp only []
  split
  · exact ⟨rfl, rfl⟩
  · split
    · exact ⟨rfl, rfl⟩
    · split <;> exact ⟨rfl, rfl⟩

theorem renderText_colours (s : List Nat) (ct : Canvas × TextSt) :
    (renderText ct s).2.tcol = ct.2.tcol ∧ (renderText ct s).2.tbg = ct.2.tbg := by
  unfold renderText
  induction s generalizing ct with
  | nil => exact ⟨rfl, rfl⟩
  | cons ch rest ih =>
    rw [List.foldl_cons]
    obtain ⟨a, b⟩ := ih (writeChar ct ch)
    obtain ⟨a', b'⟩ := writeChar_colours ct ch
    exact ⟨a.trans a', b.trans b'⟩

/-- no call separates the background colour from the text colour (`SetTextColor` sets both; nothing else writes them) -/
theorem applyCall_bg (st : Canvas × TextSt) (call : TextCall) (h : st.2.tbg = st.2.tcol) :
    (applyCall st call).2.tbg = (applyCall st call).2.tcol := by
  cases call with
  | render s =>
    obtain ⟨a, b⟩ := renderText_colours s st
    show (renderText st s).2.tbg = (renderText st s).2.tcol
    rw [a, b]; exact h
  | color b => rfl
  | _ => exact h

/-- **whatever the history**, the object's background colour equals its text colour (a fresh object has both off) -/
theorem runCalls_bg (calls : List TextCall) (st : Canvas × TextSt) (h : st.2.tbg = st.2.tcol) :
    (runCalls st calls).2.tbg = (runCalls st calls).2.tcol := by
  unfold runCalls
  induction calls generalizing st with
  | nil => exact h
  | cons call rest ih => rw [List.foldl_cons]; exact ih _ (applyCall_bg st call h)

/-- **The final case of a session obeys the executable Spec.**  Take any call history on a fresh image object (`NewImage(W0,
H0)`, then setters in any order, metric queries, earlier texts, re-creations, direct `DrawChar`s); let `t` be the text state
it leaves.  If the extra spacing is 0 then and the sizes are `≥ 1`, the three renderings of the final case — wrapping off,
cursor set, `C` at size 1 (`Mono.sessA`, `Mono.sessC`: exactly what `Driver/Text.sess` and the harness do) — of any string
without line feed on a blank canvas satisfy `Spec.Text.check` with the metrics the model reports in that state. -/
theorem sess_final_holds (W0 H0 : Nat) (calls : List TextCall) (W H : Nat) (hW8 : W % 8 = 0) (cx cy dx dy : Int)
    (s : List Nat) (hs : 10 ∉ s) (glyphs : Nat)
    (hsp : (runCalls (newCanvas W0 H0, {}) calls).2.spacing = 0)
    (hh : 1 ≤ (runCalls (newCanvas W0 H0, {}) calls).2.tsH) (hv : 1 ≤ (runCalls (newCanvas W0 H0, {}) calls).2.tsV)
    (hv' : (runCalls (newCanvas W0 H0, {}) calls).2.tsV < 16777216) :
    Spec.Text.check
      (oneLineCase W H cx cy dx dy (runCalls (newCanvas W0 H0, {}) calls).2.tsH (runCalls (newCanvas W0 H0, {}) calls).2.tsV
        (lineHeight (sessA (runCalls (newCanvas W0 H0, {}) calls).2 cx cy)) (lineHeight (sessC (runCalls (newCanvas W0 H0, {}) calls).2 cx cy))
        (strWidth (sessA (runCalls (newCanvas W0 H0, {}) calls).2 cx cy) s) (strWidth (sessC (runCalls (newCanvas W0 H0, {}) calls).2 cx cy) s) 0 glyphs)
      (bytesU8 (renderText (newCanvas W H, sessA (runCalls (newCanvas W0 H0, {}) calls).2 cx cy) s).1)
      (bytesU8 (renderText (newCanvas W H, sessA (runCalls (newCanvas W0 H0, {}) calls).2 (cx + dx) (cy + dy)) s).1)
      (bytesU8 (renderText (newCanvas W H, sessC (runCalls (newCanvas W0 H0, {}) calls).2 cx cy) s).1) = none := by
  have hbg := runCalls_bg calls (newCanvas W0 H0, {}) rfl
  generalize (runCalls (newCanvas W0 H0, {}) calls).2 = t at *
  have eA : sessA t cx cy = atSize { t with wrap := false } t.tsH t.tsV cx cy := rfl
  have eB : sessA t (cx + dx) (cy + dy) =
      { atSize { t with wrap := false } t.tsH t.tsV cx cy with
        cx := (atSize { t with wrap := false } t.tsH t.tsV cx cy).cx + dx,
        cy := (atSize { t with wrap := false } t.tsH t.tsV cx cy).cy + dy } := rfl
  have eC : sessC t cx cy = atSize { t with wrap := false } 1 1 cx cy := by
    unfold sessC setTextSize setCursor atSize
    simp
  rw [eA, eB, eC]
  exact spec_check_holds_state W H hW8 { t with wrap := false } hsp rfl hbg t.tsH t.tsV cx cy dx dy s hs hh hv hv' glyphs

/-- non-vacuity of `sess_final_holds`: size set before the font, a text measured, the font switched, the canvas re-created
and the font set again — the history leaves font 1 fixed at size 1×1 (re-creation resets the size), spacing 0 -/
example : (runCalls (newCanvas 8 8, {}) [.size 3 2, .font 2 true, .strWidth [49, 46], .color true, .newImage 64 24, .font 1 false]).2
    = { font := 1, prop := false, spacing := 0, cx := 0, cy := 0, tcol := true, tbg := true, tsH := 1, tsV := 1, wrap := true } := by
  decide

/-- non-vacuity: for "AZ", font 0, size 2×2 at (2,1) moved by (3,2) on a 64×40 canvas the Spec's `unclipped` test is true, so
`spec_check_holds` speaks about all four clauses there -/
example : Spec.Text.unclipped
    (oneLineCase 64 40 2 1 3 2 2 2 (lineHeight (caseState 0 true 0 2 2 2 1)) (lineHeight (caseState 0 true 0 1 1 2 1))
      (strWidth (caseState 0 true 0 2 2 2 1) [65, 90]) (strWidth (caseState 0 true 0 1 1 2 1) [65, 90]) 0 2) = true := by
  decide +kernel

end RawPanelVerif.C20
